(* C16 - the transfer decoders are correct and total.  Statements only; proofs are in DecodeProofs.v. *)
From MD Require Import Bytes Generated DecodeDefs DecodeSpec DecodeProofs Rfc2047Proofs.
Local Open Scope N_scope.

(* base64: for EVERY byte string the model of base64_decode (b64_pton with the len+1 target)
   returns exactly what RFC 4648 prescribes (white space ignored), or fails exactly when the spec
   has no value (foreign character, bad length or padding, non-zero trailing bits). *)
Theorem C16_b64 : forall s, base64_decode s = spec_b64 s.
Proof. exact base64_decode_spec. Qed.
Print Assumptions C16_b64.

(* none of the "tarindex >= targsize" branches is reachable, and the result fits the target *)
Theorem C16_b64_bounds : forall s,
  base64_decode_raw s <> B64Bound /\
  (forall o, base64_decode s = Some o -> (length o <= length s)%nat).
Proof. intros s. split; [apply base64_decode_no_bound | apply base64_decode_fits]. Qed.
Print Assumptions C16_b64_bounds.

(* quoted-printable is a total function (its type has no failure value); it inverts every
   quoted-printable rendering: soft line breaks removed, =XY (upper-case hex) decoded, literal
   text copied; in RFC 2047 'Q' mode '_' is a space. *)
Theorem C16_qp : forall hdr bs s, qp_enc hdr bs s -> qp_decode hdr s = bs.
Proof. exact qp_decode_enc. Qed.
Print Assumptions C16_qp.

Theorem C16_qp_copies_plain_text : forall hdr s,
  Forall (fun c => c <> 61 /\ (hdr = true -> c <> 95)) s -> qp_decode hdr s = s.
Proof. exact qp_decode_plain. Qed.
Print Assumptions C16_qp_copies_plain_text.

Theorem C16_qp_output_bounded : forall hdr s, (length (qp_decode hdr s) <= length s)%nat.
Proof. exact qp_decode_length. Qed.
Print Assumptions C16_qp_output_bounded.

(* RFC 2047 (partial: total + the characterising steps, not the full factorisation theorem):
   the decoder terminates within strlen+1 iterations on every input (so the fuelled model never
   returns its out-of-fuel value), never fails (malformed => the raw input), copies text without
   "=?" unchanged, and at an encoded word emits the decoded word followed by the decoding of the
   rest with the white space before a directly following encoded word dropped. *)
Theorem C16_2047_total : forall s, r2047_loop (S (length s)) s <> None.
Proof. exact rfc2047_total. Qed.
Print Assumptions C16_2047_total.

Theorem C16_2047_plain : forall s, no_eqmark s = true -> rfc2047_decode s = s.
Proof. exact rfc2047_plain. Qed.
Print Assumptions C16_2047_plain.

Theorem C16_2047_raw_on_malformed : forall s,
  r2047_loop (S (length s)) s = Some None -> rfc2047_decode s = s.
Proof. exact rfc2047_raw_on_malformed. Qed.
Print Assumptions C16_2047_raw_on_malformed.

Theorem C16_2047_word_step_partial : forall s dec rest o,
  prefixb q_eqmark s = true ->
  r2047_word (skipn 2 s) = Some (dec, rest) ->
  r2047_loop (length s) (skip_ws_before_word rest) = Some (Some o) ->
  rfc2047_decode s = dec ++ o.
Proof. exact rfc2047_word_step. Qed.
Print Assumptions C16_2047_word_step_partial.

(* the whole RFC 2047 clause: on a value that is a sequence of plain text (without "=?") and well-formed, decodable
   encoded words (charset without '?', payload without "?=", encoding B or Q in either case) the decoder returns the
   text and the decoded words in order, dropping the white space between two adjacent encoded words *)
Theorem C16_2047_items : forall l, wf l = true -> rfc2047_decode (render l) = decode l.
Proof. exact rfc2047_items. Qed.
Print Assumptions C16_2047_items.

(* non-vacuity: concrete inputs meeting the hypotheses / exercising the interesting branches *)
Example C16_ex_b64 : spec_b64 (ascii [97;71;86;115;98;71;56;61]%nat) = Some (ascii [104;101;108;108;111]%nat)
                     /\ spec_b64 (ascii [81;81;61;61]%nat) = Some [65]
                     /\ spec_b64 (ascii [81;82;61;61]%nat) = None      (* non-zero trailing bits *)
                     /\ spec_b64 (ascii [81;81;61]%nat) = None.        (* bad padding *)
Proof. vm_compute. repeat split. Qed.

Example C16_ex_qp : qp_enc false [104; 61; 105] [104; 61; 51; 68; 61; 10; 105].
Proof.
  apply qe_lit; [discriminate | discriminate |].
  apply (qe_hex false 61 [105] [61; 10; 105]); [reflexivity|].
  apply qe_soft. apply qe_lit; [discriminate | discriminate | constructor].
Qed.

Example C16_ex_2047 :
  rfc2047_decode (ascii [61;63;85;63;81;63;97;95;61;52;49;63;61;32;61;63;85;63;66;63;81;81;61;61;63;61;33]%nat)
  = ascii [97;32;65;65;33]%nat.
Proof. vm_compute. reflexivity. Qed.
