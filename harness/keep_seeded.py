#!/usr/bin/env python3
"""usage: keep_seeded.py <Cxx> <i> <caught:yes|no> <which check/what it printed>"""
import json, os, shutil, sys
pid, i, caught, how = sys.argv[1], sys.argv[2], sys.argv[3], sys.argv[4]
src = '/tmp/wtout/%s' % pid
dst = '/verif/seeded/%s-%s' % (pid, i)
os.makedirs(dst, exist_ok=True)
shutil.copy('%s/patch%s.diff' % (src, i), dst + '/patch.diff')
shutil.copy('%s/demo%s.sh' % (src, i), dst + '/demo.sh')
meta = json.load(open('%s/meta%s.json' % (src, i)))
meta['breaks_property'] = pid
meta['confirmed_by_me'] = ('harness/verify_seeded.sh: patch applies to HEAD, builds, identical PASS set (272) under make -k test, '
                           'demo exits 0 on the unchanged build and non-zero on the patched build')
meta['caught_by_checks'] = caught
meta['how'] = how
json.dump(meta, open(dst + '/meta.json', 'w'), indent=1)
print('kept', dst)
