From Coq Require Import List Bool ZArith Lia.
Import ListNotations.
From MD Require Import Bytes Generated ExecDefs.
Local Open Scope Z_scope.

(* only a zero exit status lets the action list continue: any other exit status, "command not found"
   (127), death by signal and failures to start or reap the child are errors *)
Theorem exec_action_error_iff w : exec_action_error w = false <-> w = WExited 0.
Proof.
  unfold exec_action_error, exec_result. destruct w as [c|s| | |]; cbn.
  - destruct (Z.eqb_spec c 127) as [->|H127]; [cbn; split; [discriminate | intros [= H]; discriminate H]|].
    destruct (Z.eqb_spec c 0) as [->|H0]; cbn; split; auto; try discriminate. intros [= H]. contradiction.
  - destruct (Z.eqb_spec (128 + Z.pos s) 0) as [H|H]; [lia|]. cbn. split; discriminate.
  - split; discriminate.
  - split; discriminate.
  - split; discriminate.
Qed.

(* a command condition: exit 0 = match, another exit status or a signal = no match, 127 or a failure
   to run the command = error *)
Theorem command_cond_spec w :
  command_cond w = match w with
                   | WExited c => if c =? 0 then CMatch else if c =? 127 then CError else if c <? 0 then CError else CNoMatch
                   | WSignaled _ => CNoMatch
                   | _ => CError
                   end.
Proof.
  unfold command_cond, exec_result. destruct w as [c|s| | |].
  - destruct (Z.eqb_spec c 127) as [->|H127]; [reflexivity|].
    destruct (Z.eqb_spec c 0) as [->|H0]; reflexivity.
  - destruct (Z.eqb_spec (128 + Z.pos s) 0); [lia|]. destruct (Z.ltb_spec (128 + Z.pos s) 0); [lia | reflexivity].
  - reflexivity.
  - reflexivity.
  - reflexivity.
Qed.

(* every descriptor mdsort opens carries close-on-exec, whatever it opens and closes in whatever
   order: a child started at any moment inherits nothing beyond 0, 1, 2 *)
Definition all_cloexec (t : list fdesc) : Prop := Forall (fun d => fd_cloexec d = true) t.

Lemma fd_step_cloexec t o : all_cloexec t -> all_cloexec (fd_step t o).
Proof.
  intros H. destruct o; cbn [fd_step]; try (constructor; [reflexivity | exact H]).
  unfold all_cloexec in *. rewrite Forall_forall in *. intros d Hd. apply filter_In in Hd as [Hd _]. auto.
Qed.

Theorem no_descriptor_inherited ops : inherited (fold_left fd_step ops []) = [].
Proof.
  assert (H : all_cloexec (fold_left fd_step ops [])).
  { assert (G : forall t, all_cloexec t -> all_cloexec (fold_left fd_step ops t)).
    { induction ops as [|o r IH]; intros t Ht; cbn [fold_left]; [exact Ht|]. apply IH. apply fd_step_cloexec. exact Ht. }
    apply G. constructor. }
  unfold inherited. induction H as [|d t Hd _ IH]; [reflexivity|]. cbn [filter]. rewrite Hd. cbn [negb]. exact IH.
Qed.

(* ---- the TZ variable ---- *)
Lemma tzabbr_env_restores tz snap str : readenv_tz tz = Some snap -> tzabbr_env snap tz str = tz.
Proof.
  unfold readenv_tz, tzabbr_env. intros H. destruct str as [|c r]; [reflexivity|].
  destruct tz as [s|].
  - destruct (N.of_nat (length s) <? tz_buf_size)%N; [|discriminate]. inversion H; subst. cbn. destruct s; reflexivity.
  - inversion H; subst. reflexivity.
Qed.

(* whatever zone abbreviations the messages carried, a child sees the TZ mdsort was started with *)
Theorem child_tz_is_initial tz zones e : child_tz tz zones = Some e -> e = tz.
Proof.
  unfold child_tz. destruct (readenv_tz tz) as [snap|] eqn:E; [|discriminate]. intros [= <-].
  induction zones as [|z zs IH]; cbn [fold_left]; [reflexivity|]. rewrite (tzabbr_env_restores tz snap z E). exact IH.
Qed.

(* mdsort starts iff TZ fits its buffer *)
Theorem child_tz_defined tz zones : child_tz tz zones <> None <->
  match tz with None => True | Some s => (N.of_nat (length s) < tz_buf_size)%N end.
Proof.
  unfold child_tz, readenv_tz. destruct tz as [s|]; [|split; [trivial | discriminate]].
  destruct (N.ltb_spec (N.of_nat (length s)) tz_buf_size) as [H|H]; split; intros G; try discriminate; try assumption.
  - contradiction.
  - lia.
Qed.
