(* M3: executable model of the header handling of message.c:
   skipseparator, findheader, message_parse_headers, the key-sorted table, searchheader
   (binary search + run extension, index level), message_get_header, unfoldheader,
   message_set_header, message_write.  No proofs here. *)
From MD Require Import Bytes Generated DecodeDefs.
Local Open Scope N_scope.

Record hdr := mkhdr { h_id : nat; h_key : bytes; h_val : bytes }.
Record msg := mkmsg { m_headers : list hdr; m_body : bytes }.

(* ---- findheader -------------------------------------------------------------------- *)
(* key = bytes before the first ':' provided no NUL / white space occurs before it *)
Fixpoint find_key (s : bytes) : option (bytes * bytes) :=
  match s with
  | [] => None
  | c :: r =>
      if c =? 58 then Some ([], r)
      else if isspace c then None
      else match find_key r with
           | Some (k, r') => Some (c :: k, r')
           | None => None
           end
  end.

(* value = up to the first newline that is not followed by a blank; None = no such newline *)
Fixpoint find_val (s : bytes) : option (bytes * bytes) :=
  match s with
  | [] => None
  | c :: r =>
      if c =? 10 then
        match r with
        | d :: _ => if isblank d
                    then match find_val r with
                         | Some (v, rest) => Some (10 :: v, rest)
                         | None => None
                         end
                    else Some ([], r)
        | [] => Some ([], [])
        end
      else match find_val r with
           | Some (v, rest) => Some (c :: v, rest)
           | None => None
           end
  end.

Inductive fh_res :=
| FH (k v rest : bytes)
| FHNone                   (* not a header line; buffer untouched *)
| FHTrunc (k : bytes).     (* key found, its ':' already overwritten by NUL, but no newline follows:
                              the C string at this position now reads just k *)

Definition findheader (s : bytes) : fh_res :=
  match find_key s with
  | None => FHNone
  | Some (k, r) =>
      match find_val (skip_blanks r) with
      | Some (v, rest) => FH k v rest
      | None => FHTrunc k
      end
  end.

Fixpoint parse_loop (fuel : nat) (s : bytes) (n : nat) : option (list hdr * bytes) :=
  match fuel with
  | O => None
  | S f =>
      match findheader s with
      | FH k v rest =>
          match parse_loop f rest (S n) with
          | Some (hs, b) => Some (mkhdr (S n) k v :: hs, b)
          | None => None
          end
      | FHNone => Some ([], s)
      | FHTrunc k => Some ([], k)
      end
  end.

Definition skipseparator (s : bytes) : bytes :=
  if prefixb mbox_separator s then
    match split_at 10 s with
    | (_, Some r) => r
    | (_, None) => s
    end
  else s.

Fixpoint skip_nl (s : bytes) : bytes :=
  match s with
  | c :: r => if c =? 10 then skip_nl r else s
  | [] => []
  end.

(* ---- sorting (glibc qsort = merge sort: stable) -------------------------------------- *)
Fixpoint insert_key (h : hdr) (l : list hdr) : list hdr :=
  match l with
  | [] => [h]
  | x :: r => match strcasecmp (h_key h) (h_key x) with
              | Gt => x :: insert_key h r
              | _ => h :: l
              end
  end.
Definition sort_key (l : list hdr) : list hdr := fold_right insert_key [] l.

Fixpoint insert_id (h : hdr) (l : list hdr) : list hdr :=
  match l with
  | [] => [h]
  | x :: r => if Nat.ltb (h_id x) (h_id h) then x :: insert_id h r else h :: l
  end.
Definition sort_id (l : list hdr) : list hdr := fold_right insert_id [] l.

(* message_parse_headers on the bytes of the file (the C code sees the C-string view).
   None only if the fuel is exhausted (excluded by HeaderProofs.parse_total). *)
Definition parse_message (file : bytes) : option msg :=
  let s := skipseparator (cview file) in
  match parse_loop (S (length s)) s 0 with
  | Some (hs, b) => Some (mkmsg (sort_key hs) (skip_nl b))
  | None => None
  end.

(* parse of an attachment: no separator skipping differs?  message_parse_headers(attach) is the
   same function, so skipseparator applies to parts too. *)

(* ---- searchheader (index level) --------------------------------------------------------- *)
Inductive sres := SFound (beg n : nat) | SNotFound | SOOB.

Fixpoint bs_loop (fuel : nat) (tbl : list hdr) (key : bytes) (lo hi : nat) : option (option nat) :=
  (* None = out of bounds / out of fuel; Some None = not found; Some (Some mi) *)
  match fuel with
  | O => None
  | S f =>
      if Nat.ltb hi lo then Some None else
      let mi := (lo + (hi - lo) / 2)%nat in
      match nth_error tbl mi with
      | None => None
      | Some h =>
          match strcasecmp key (h_key h) with
          | Eq => Some (Some mi)
          | Gt => bs_loop f tbl key (S mi) hi
          | Lt => if Nat.ltb 0 mi then bs_loop f tbl key lo (mi - 1) else Some None
          end
      end
  end.

(* for (beg = mi; beg > 0; beg--) if (cmp(needle, headers + beg - 1)) break; *)
Fixpoint walk_down (tbl : list hdr) (key : bytes) (beg : nat) : option nat :=
  match beg with
  | O => Some O
  | S b => match nth_error tbl b with
           | None => None
           | Some h => if caseeq key (h_key h) then walk_down tbl key b else Some beg
           end
  end.

(* for (end = mi + 1; end < nmemb; end++) if (cmp(needle, headers + end)) break; *)
Fixpoint walk_up (fuel : nat) (tbl : list hdr) (key : bytes) (e : nat) : option nat :=
  match fuel with
  | O => None
  | S f =>
      if Nat.ltb e (length tbl) then
        match nth_error tbl e with
        | None => None
        | Some h => if caseeq key (h_key h) then walk_up f tbl key (S e) else Some e
        end
      else Some e
  end.

Definition searchheader (tbl : list hdr) (key : bytes) : sres :=
  match tbl with
  | [] => SNotFound
  | _ =>
      match bs_loop (S (length tbl)) tbl key 0 (length tbl - 1) with
      | None => SOOB
      | Some None => SNotFound
      | Some (Some mi) =>
          match walk_down tbl key mi, walk_up (S (length tbl)) tbl key (S mi) with
          | Some b, Some e => SFound b (e - b)
          | _, _ => SOOB
          end
      end
  end.

(* ---- unfoldheader / decodeheader -------------------------------------------------------- *)
Fixpoint unfold_lines (at_start : bool) (s : bytes) : bytes :=
  match s with
  | [] => []
  | c :: r =>
      if at_start && (c =? 9) then unfold_lines true r
      else if c =? 10 then unfold_lines true r
      else c :: unfold_lines false r
  end.

Definition unfoldheader (s : bytes) : bytes :=
  if existsb (fun c => c =? 10) s then unfold_lines true s else s.

(* what a caller of message_get_header sees of one value *)
Definition decodeheader (v : bytes) : bytes := cview (rfc2047_decode (unfoldheader v)).

Definition run_of (tbl : list hdr) (beg n : nat) : list hdr := firstn n (skipn beg tbl).

Definition get_header (tbl : list hdr) (name : bytes) : option (list bytes) :=
  match searchheader tbl name with
  | SFound beg n => Some (map (fun h => decodeheader (h_val h)) (run_of tbl beg n))
  | _ => None
  end.

Definition get_header1 (tbl : list hdr) (name : bytes) : option bytes :=
  match get_header tbl name with
  | Some (v :: _) => Some v
  | _ => None
  end.

(* ---- message_set_header ----------------------------------------------------------------- *)
Fixpoint set_nth_val (tbl : list hdr) (i : nat) (v : bytes) : list hdr :=
  match tbl, i with
  | [], _ => []
  | h :: r, O => mkhdr (h_id h) (h_key h) v :: r
  | h :: r, S j => h :: set_nth_val r j v
  end.

Definition set_header (tbl : list hdr) (key val : bytes) : list hdr :=
  match searchheader tbl key with
  | SFound beg n =>
      (* keep the first occurrence, drop the other n-1, replace the value *)
      set_nth_val (firstn (S beg) tbl ++ skipn (beg + n) tbl) beg val
  | _ => sort_key (tbl ++ [mkhdr (S (length tbl)) key val])
  end.

(* ---- message_write ---------------------------------------------------------------------- *)
Definition render_hdr (h : hdr) : bytes := h_key h ++ [58; 32] ++ h_val h ++ [10].

Definition render (tbl : list hdr) (body : bytes) : bytes :=
  concat (map render_hdr (sort_id tbl)) ++ [10] ++ body.

(* the bytes written and the message afterwards: the table is sorted by id for writing and
   sorted by key again before returning (so that searchheader's precondition holds) *)
Definition message_write (m : msg) : bytes * msg :=
  (render (m_headers m) (m_body m), mkmsg (sort_key (sort_id (m_headers m))) (m_body m)).

(* ---- expr_eval_header ------------------------------------------------------------------------ *)
(* rx stands for regexec() with the expression's compiled pattern: Some offsets or None (no match).
   The first matching value in (name order, table order) is the one whose captures are recorded. *)
Section HeaderCond.
  Variable rx : bytes -> option (list (nat * nat)).

  Fixpoint first_match (vals : list bytes) : option (bytes * list (nat * nat)) :=
    match vals with
    | [] => None
    | v :: r => match rx v with
                | Some off => Some (v, off)
                | None => first_match r
                end
    end.

  Fixpoint eval_header (tbl : list hdr) (names : list bytes) : option (bytes * bytes * list (nat * nat)) :=
    match names with
    | [] => None
    | n :: r =>
        match get_header tbl n with
        | None => eval_header tbl r
        | Some vals =>
            match first_match vals with
            | Some (v, off) => Some (n, v, off)
            | None => eval_header tbl r
            end
        end
    end.
End HeaderCond.
