(* C01 for a whole run: mdsort handles the messages one after the other, each with its own action; a single failing
   call hits (at most) one of them.  Every message keeps the per-message guarantee, whichever call of whichever
   message fails. *)
From Coq Require Import List Bool Arith Lia.
Import ListNotations.
From MD Require Import IODefs IOProofs.

Definition shift (b : nat) (O : oracle) : oracle := fun j => O (b + j).

Record job := mkjob { j_act : action; j_ver : nat; j_mt : nat }.
Definition wf_job (j : job) : Prop := j_ver j <= 1 /\ j_mt j <= 1.

(* the jobs in order; each starts numbering its calls where the previous one stopped *)
Fixpoint run_seq (jobs : list job) (O : oracle) (base : nat) : list (nat * result) :=
  match jobs with
  | [] => []
  | j :: t => let res := run_action (j_act j) (j_ver j) (j_mt j) (shift base O) in
              (base, res) :: run_seq t O (base + length (r_trace res))
  end.

(* the per-message clauses of C01 for the job that started at call [base], when the failing call has global index K *)
Definition job_check (j : job) (O : oracle) (base K : nat) : bool :=
  c01_check (j_act j) (j_ver j) (j_mt j) (shift base O) (K - base).

Fixpoint seq_check (jobs : list job) (O : oracle) (base K : nat) : bool :=
  match jobs with
  | [] => true
  | j :: t => job_check j O base K &&
              seq_check t O (base + length (r_trace (run_action (j_act j) (j_ver j) (j_mt j) (shift base O)))) K
  end.

Lemma c01_check_ext a v m O1 O2 k : run_action a v m O1 = run_action a v m O2 -> c01_check a v m O1 k = c01_check a v m O2 k.
Proof. intros H. unfold c01_check. rewrite H. reflexivity. Qed.

Lemma job_single j base K r : wf_job j -> r <> Ok -> job_check j (single K r) base K = true.
Proof.
  intros [Hv Hm] Hr. unfold job_check.
  destruct (Nat.le_gt_cases base K) as [Hle|Hgt].
  - (* the failing call may belong to this job: its local index is K - base *)
    rewrite (c01_check_ext _ _ _ (shift base (single K r)) (single (K - base) r)).
    + apply c01_single_fault; assumption.
    + apply run_action_ext; [exact Hv|]. intros i _. unfold shift, single.
      destruct (Nat.eqb_spec (base + i) K), (Nat.eqb_spec i (K - base)); try reflexivity; lia.
  - (* the failing call came before this job started: it runs fault-free *)
    replace (K - base) with 0 by lia.
    rewrite (c01_check_ext _ _ _ (shift base (single K r)) nofault).
    + pose proof c01_nofault_sweep as S. rewrite forallb_forall in S. specialize (S _ (in_all_actions (j_act j))).
      rewrite forallb_forall in S. specialize (S (j_ver j, j_mt j) (in_params _ _ Hv Hm)). cbn [fst snd] in S.
      apply andb_true_iff in S as [S _]. exact S.
    + apply run_action_ext; [exact Hv|]. intros i _. unfold shift, single, nofault.
      destruct (Nat.eqb_spec (base + i) K); [lia|reflexivity].
Qed.

Theorem c01_sequence jobs K r : Forall wf_job jobs -> r <> Ok -> forall base, seq_check jobs (single K r) base K = true.
Proof.
  intros Hj Hr. induction Hj as [|j t Hwf _ IH]; intros base; [reflexivity|].
  cbn [seq_check]. rewrite (job_single j base K r Hwf Hr). cbn [andb]. apply IH.
Qed.

(* a fault-free run: every message reaches its destination and every status is 0 *)
Theorem c01_sequence_nofault jobs : Forall wf_job jobs -> forall base,
  Forall (fun br => r_status (snd br) = 0) (run_seq jobs nofault base).
Proof.
  intros Hj. induction Hj as [|j t [Hv Hm] _ IH]; intros base; [constructor|].
  cbn [run_seq]. constructor; [|apply IH].
  cbn [snd].
  assert (E : run_action (j_act j) (j_ver j) (j_mt j) (shift base nofault) = run_action (j_act j) (j_ver j) (j_mt j) nofault).
  { apply run_action_ext; [exact Hv|]. intros i _. reflexivity. }
  rewrite E.
  pose proof c01_nofault_sweep as S. rewrite forallb_forall in S. specialize (S _ (in_all_actions (j_act j))).
  rewrite forallb_forall in S. specialize (S (j_ver j, j_mt j) (in_params _ _ Hv Hm)). cbn [fst snd] in S.
  apply andb_true_iff in S as [_ S]. apply Nat.eqb_eq in S. exact S.
Qed.
