(* C18 - over-long paths are rejected, never truncated.
   Statements only; proofs are in NamesProofs.v.  Every bounded primitive returns either an error or
   exactly the intended string. *)
From MD Require Import Bytes Generated NamesDefs NamesProofs GennameProofs.

(* pathjoin (snprintf "%s/%s" + check): exactly dir/file, and it fits; NULL iff it does not fit *)
Theorem C18_pathjoin_exact : forall bufsiz dir file s,
  pathjoin bufsiz dir file = Some s -> s = dir ++ [47%N] ++ file /\ (length s < bufsiz)%nat.
Proof. exact pathjoin_exact. Qed.
Print Assumptions C18_pathjoin_exact.

Theorem C18_pathjoin_error : forall bufsiz dir file,
  pathjoin bufsiz dir file = None <-> (bufsiz <= length dir + 1 + length file)%nat.
Proof. exact pathjoin_error. Qed.
Print Assumptions C18_pathjoin_error.

(* strlcpy + ">= size" test *)
Theorem C18_bounded_copy_exact : forall bufsiz s r,
  bounded_copy bufsiz s = Some r -> r = s /\ (length s < bufsiz)%nat.
Proof. exact bounded_copy_exact. Qed.
Print Assumptions C18_bounded_copy_exact.

(* pathslice: the single-pass copy loop with its bufsiz accounting returns exactly the selected
   components (the path cut before every '/'; component range b..e) or NULL - never a prefix *)
Theorem C18_pathslice_loop : forall path bufsiz b e isrange,
  finish (ps_loop b e isrange (ncomps path) true O false bufsiz path []) =
  if Nat.ltb (length (slice_spec path b e isrange)) bufsiz then Some (slice_spec path b e isrange) else None.
Proof. exact ps_result. Qed.
Print Assumptions C18_pathslice_loop.

Theorem C18_pathslice_exact : forall path bufsiz beg end_ s,
  pathslice path bufsiz beg end_ = Some s ->
  exists b e isrange, s = slice_spec path b e isrange /\ (length s < bufsiz)%nat /\ (b <= e < ncomps path)%nat.
Proof. exact pathslice_exact. Qed.
Print Assumptions C18_pathslice_exact.

(* ---- compositions ----
   every path the code acts on is a nesting of these primitives over configuration strings, environment values and file
   names (NamesDefs.pexp).  For EVERY such nesting: a result is exactly the intended string, there is a result iff every
   buffer on the way can hold its intended content, and so no result is ever a proper prefix of the intended path. *)
Theorem C18_composed_exact : forall e s, compute e = Some s -> s = intended e.
Proof. exact compute_exact. Qed.
Print Assumptions C18_composed_exact.

Theorem C18_composed_defined : forall e, compute e <> None <-> all_fit e = true.
Proof. exact compute_defined. Qed.
Print Assumptions C18_composed_defined.

Theorem C18_composed_never_truncates : forall e s, compute e = Some s -> forall rest, intended e = s ++ rest -> rest = [].
Proof. exact compute_never_truncates. Qed.
Print Assumptions C18_composed_never_truncates.

(* the flows of the code as instances (buffer sizes PATH_MAX / NAME_MAX+1 from Generated): the path of a message in a
   maildir, the path of a delivered message (interpolated destination, sub-directory, generated name), and the
   temporary-file template under TMPDIR *)
Theorem C18_message_path : forall root sub name s,
  compute (e_message_path root sub name) = Some s -> s = root ++ [47%N] ++ sub ++ [47%N] ++ name /\ (length s < PM)%nat.
Proof. exact message_path_exact. Qed.
Print Assumptions C18_message_path.

Theorem C18_delivered_path : forall dest sub newname s,
  compute (e_delivered_path dest sub newname) = Some s -> s = dest ++ [47%N] ++ sub ++ [47%N] ++ newname /\ (length s < PM)%nat.
Proof. exact delivered_path_exact. Qed.
Print Assumptions C18_delivered_path.

Theorem C18_tmp_template : forall tmpdir s,
  compute (e_tmp_template tmpdir) = Some s -> s = tmpdir ++ [47%N] ++ tmpl /\ (length tmpdir + 16 < PM)%nat.
Proof. exact tmp_template_exact. Qed.
Print Assumptions C18_tmp_template.

(* non-vacuity: a short maildir yields its message path; a TMPDIR of PATH_MAX-16 characters yields no template *)
Example C18_ex_flows :
  compute (e_message_path [47; 109]%N [110; 101; 119]%N [120]%N) = Some [47; 109; 47; 110; 101; 119; 47; 120]%N /\
  compute (e_tmp_template (repeat 100%N (PM - 16))) = None /\
  compute (e_tmp_template (repeat 100%N (PM - 17))) <> None.
Proof. vm_compute. repeat split. discriminate. Qed.

(* the generated name is checked against NAME_MAX+1 before it is used: GenOk only for names that fit *)
Theorem C18_genname_fits : forall fuel ex ts pid count host flags bufsiz tries name t,
  genname_loop fuel ex ts pid count host flags bufsiz tries = GenOk name t -> (length name < bufsiz)%nat.
Proof.
  induction fuel as [|f IH]; intros ex ts pid count host flags bufsiz tries name t; cbn [genname_loop]; [discriminate|].
  destruct (Nat.ltb_spec (length (genname_fmt ts pid ((count + 1) mod two32) host flags)) bufsiz) as [Hl|Hl]; cbn [negb]; [|discriminate].
  destruct (ex _).
  - apply IH.
  - intros [= <- _]. exact Hl.
Qed.
Print Assumptions C18_genname_fits.

Example C18_ex_slices :
  pathslice (ascii [47;97;47;109;100;47;110;101;119;47;120]%nat) 64 0 (-2) = Some (ascii [47;97;47;109;100]%nat) /\
  pathslice (ascii [47;97;47;109;100;47;110;101;119;47;120]%nat) 64 (-2) (-2) = Some (ascii [110;101;119]%nat) /\
  pathslice (ascii [47;97;47;109;100;47;110;101;119;47;120]%nat) 5 0 (-2) = None.
Proof. vm_compute. repeat split. Qed.
