(* C11, boundary scanning: for every multipart body written the way RFC 2046 prescribes - a preamble, then for each
   part a delimiter line and the part's text, then the closing delimiter and an epilogue - where no other line of
   the preamble or of a part is a delimiter line of this boundary, the loop of parseattachments cuts out exactly the
   parts, in order, and sees the terminator.  (Nested multiparts are parts whose own text has the same shape with
   another boundary; their delimiter lines are ordinary lines for the outer boundary.) *)
From MD Require Import Bytes Generated DecodeDefs HeaderDefs MimeDefs TotalProofs.
Require Import Lia.
Local Open Scope N_scope.

Definition nl : bytes := [10].
Definition delim (b : bytes) : bytes := s_dd ++ b ++ nl.                 (* --boundary LF *)
Definition closing (b : bytes) : bytes := s_dd ++ b ++ s_dd ++ nl.        (* --boundary-- LF *)

Definition nonl (s : bytes) : bool := forallb (fun c => negb (c =? 10)) s.

(* a line: bytes without LF, then LF *)
Definition is_line (l : bytes) : Prop := exists t, l = t ++ nl /\ nonl t = true.
Definition lines_of (s : bytes) (ls : list bytes) : Prop := s = concat ls /\ Forall is_line ls.
Definition ordinary (b : bytes) (l : bytes) : Prop := is_line l /\ l <> delim b /\ l <> closing b.
(* a text all of whose lines are ordinary for b *)
Definition quiet (b s : bytes) : Prop := exists ls, s = concat ls /\ Forall (ordinary b) ls.

Lemma prefixb_app p r : prefixb p (p ++ r) = true.
Proof. induction p as [|c p IH]; [reflexivity|]. cbn [app prefixb]. rewrite N.eqb_refl. exact IH. Qed.

Lemma skipn_app_len {A} (p r : list A) : skipn (length p) (p ++ r) = r.
Proof. induction p as [|c p IH]; [reflexivity|exact IH]. Qed.

Lemma prefixb_split p s : prefixb p s = true -> s = p ++ skipn (length p) s.
Proof.
  revert s. induction p as [|c p IH]; intros s H; [reflexivity|].
  destruct s as [|d s]; [discriminate H|]. cbn [prefixb] in H. apply andb_prop in H. destruct H as [Hc Hp].
  apply N.eqb_eq in Hc. subst d. cbn [length skipn app]. f_equal. apply IH. exact Hp.
Qed.

Lemma skipline_line t rest : nonl t = true -> skipline (t ++ 10 :: rest) = rest.
Proof.
  induction t as [|c t IH]; intros H; cbn [app skipline]; [reflexivity|].
  cbn [nonl forallb] in H. apply andb_prop in H. destruct H as [Hc Ht].
  destruct (c =? 10); [discriminate Hc|]. apply IH. exact Ht.
Qed.

(* the continue-branch of findboundary: skip the rest of the current line *)
Lemma findboundary_true_line b f u rest : nonl u = true ->
  findboundary (S f) b (u ++ 10 :: rest) true = findboundary (S f) b rest false.
Proof. intros H. cbn [findboundary]. rewrite (skipline_line u rest H). reflexivity. Qed.

Lemma nonl_app a c : nonl (a ++ c) = nonl a && nonl c.
Proof. apply forallb_app. Qed.

(* a prefix without LF of a line lies inside the line's text *)
Lemma prefix_in_line p : nonl p = true -> forall t rest, nonl t = true -> prefixb p (t ++ 10 :: rest) = true ->
  exists t', t = p ++ t' /\ nonl t' = true /\ skipn (length p) (t ++ 10 :: rest) = t' ++ 10 :: rest.
Proof.
  induction p as [|c p IH]; intros Hp t rest Ht H.
  - exists t. split; [reflexivity|]. split; [exact Ht|reflexivity].
  - cbn [nonl forallb] in Hp. apply andb_prop in Hp. destruct Hp as [Hc Hp].
    destruct t as [|d t]; cbn [app prefixb] in H; apply andb_prop in H; destruct H as [He H]; apply N.eqb_eq in He.
    + subst c. discriminate Hc.
    + subst d. cbn [nonl forallb] in Ht. apply andb_prop in Ht. destruct Ht as [_ Ht].
      destruct (IH Hp t rest Ht H) as (t' & -> & Ht' & Hs). exists t'. split; [reflexivity|]. split; [exact Ht'|exact Hs].
Qed.

(* an ordinary line is skipped: one unit of fuel *)
Lemma findboundary_ordinary b f l rest : nonl b = true -> ordinary b l ->
  findboundary (S (S f)) b (l ++ rest) false = findboundary (S f) b rest false.
Proof.
  intros Hb [[t [-> Ht]] [Hnd Hnc]]. unfold nl in *. rewrite <- app_assoc. cbn [app].
  cbn [findboundary].
  destruct (t ++ 10 :: rest) as [|c0 r0] eqn:E0; [destruct t; discriminate E0|]. rewrite <- E0. clear c0 r0 E0.
  destruct (prefixb s_dd (t ++ 10 :: rest)) eqn:P1; cbn [negb].
  2:{ apply findboundary_true_line. exact Ht. }
  destruct (prefix_in_line s_dd eq_refl t rest Ht P1) as (t1 & -> & Ht1 & S1).
  change (length s_dd) with 2%nat in S1. rewrite S1.
  destruct (prefixb b (t1 ++ 10 :: rest)) eqn:P2; cbn [negb].
  2:{ apply findboundary_true_line. exact Ht1. }
  destruct (prefix_in_line b Hb t1 rest Ht1 P2) as (t2 & -> & Ht2 & S2). rewrite S2.
  destruct (prefixb s_dd (t2 ++ 10 :: rest)) eqn:P3.
  - destruct (prefix_in_line s_dd eq_refl t2 rest Ht2 P3) as (t3 & -> & Ht3 & S3).
    change (length s_dd) with 2%nat in S3. rewrite S3.
    destruct t3 as [|c3 t3'].
    + exfalso. apply Hnc. unfold closing, nl. rewrite app_nil_r. rewrite <- !app_assoc. reflexivity.
    + cbn [app]. pose proof Ht3 as Ht3all. cbn [nonl forallb] in Ht3. apply andb_prop in Ht3. destruct Ht3 as [Hc3 Ht3'].
      destruct (c3 =? 10) eqn:E; [discriminate Hc3|].
      change (c3 :: t3' ++ 10 :: rest) with ((c3 :: t3') ++ 10 :: rest). apply findboundary_true_line. exact Ht3all.
  - destruct t2 as [|c2 t2'].
    + exfalso. apply Hnd. unfold delim, nl. rewrite app_nil_r. rewrite <- !app_assoc. reflexivity.
    + cbn [app]. pose proof Ht2 as Ht2all. cbn [nonl forallb] in Ht2. apply andb_prop in Ht2. destruct Ht2 as [Hc2 Ht2'].
      destruct (c2 =? 10) eqn:E; [discriminate Hc2|].
      change (c2 :: t2' ++ 10 :: rest) with ((c2 :: t2') ++ 10 :: rest). apply findboundary_true_line. exact Ht2all.
Qed.

(* ---- delimiter lines are found -------------------------------------------------------------------------------------- *)
Lemma findboundary_delim b f rest : nonl b = true ->
  findboundary (S f) b (delim b ++ rest) false = Some (Some (delim b ++ rest, false)).
Proof.
  intros Hb. unfold delim, nl. rewrite <- !app_assoc. cbn [findboundary].
  change (s_dd ++ b ++ [10] ++ rest) with (45 :: 45 :: b ++ 10 :: rest).
  cbn [prefixb s_dd N.eqb Pos.eqb andb negb skipn].
  rewrite prefixb_app. cbn [negb]. rewrite skipn_app_len. cbn [prefixb N.eqb andb]. reflexivity.
Qed.

Lemma findboundary_closing b f rest : nonl b = true ->
  findboundary (S f) b (closing b ++ rest) false = Some (Some (closing b ++ rest, true)).
Proof.
  intros Hb. unfold closing, nl. rewrite <- !app_assoc. cbn [findboundary].
  change (s_dd ++ b ++ s_dd ++ [10] ++ rest) with (45 :: 45 :: b ++ 45 :: 45 :: 10 :: rest).
  cbn [prefixb s_dd N.eqb Pos.eqb andb negb skipn].
  rewrite prefixb_app. cbn [negb]. rewrite skipn_app_len. cbn [prefixb N.eqb Pos.eqb andb skipn]. reflexivity.
Qed.

Lemma findboundary_quiet b rest : nonl b = true -> forall ls, Forall (ordinary b) ls -> forall f,
  findboundary (length ls + S f) b (concat ls ++ rest) false = findboundary (S f) b rest false.
Proof.
  intros Hb. induction 1 as [|l ls Hl _ IH]; intros f; [reflexivity|].
  cbn [concat length Nat.add]. rewrite <- app_assoc.
  replace (S (length ls + S f)) with (S (S (length ls + f))) by lia.
  rewrite (findboundary_ordinary b _ l _ Hb Hl). replace (S (length ls + f)) with (length ls + S f)%nat by lia. apply IH.
Qed.

Lemma line_nonempty l : is_line l -> (1 <= length l)%nat.
Proof. intros [t [-> _]]. rewrite app_length. cbn. lia. Qed.

Lemma lines_length ls : Forall is_line ls -> (length ls <= length (concat ls))%nat.
Proof.
  induction 1 as [|l ls Hl _ IH]; [cbn; lia|]. cbn [concat length]. rewrite app_length. pose proof (line_nonempty l Hl). lia.
Qed.

Lemma findboundary_after_quiet b q D rest f t : nonl b = true -> quiet b q -> (length q < f)%nat ->
  (forall f', findboundary (S f') b (D ++ rest) false = Some (Some (D ++ rest, t))) ->
  findboundary (S f) b (q ++ D ++ rest) false = Some (Some (D ++ rest, t)).
Proof.
  intros Hb [ls [-> Hls]] Hf HD.
  assert (Hlines : Forall is_line ls) by (eapply Forall_impl; [|exact Hls]; intros l [H _]; exact H).
  pose proof (lines_length ls Hlines) as Hlen.
  assert (E1 : (length ls < f)%nat) by (apply (Nat.le_lt_trans _ _ _ Hlen Hf)).
  assert (E : S f = (length ls + S (f - length ls))%nat) by (clear -E1; lia).
  rewrite E. rewrite (findboundary_quiet b (D ++ rest) Hb ls Hls). apply HD.
Qed.

Lemma findboundary_in_body b q D rest t : nonl b = true -> quiet b q ->
  (forall f', findboundary (S f') b (D ++ rest) false = Some (Some (D ++ rest, t))) ->
  findboundary (S (S (length (q ++ D ++ rest)))) b (q ++ D ++ rest) false = Some (Some (D ++ rest, t)).
Proof.
  intros Hb Hq HD. apply findboundary_after_quiet; [exact Hb|exact Hq| |exact HD].
  rewrite app_length. lia.
Qed.

Lemma skipline_delim b rest : nonl b = true -> skipline (delim b ++ rest) = rest.
Proof.
  intros Hb. unfold delim, nl. rewrite !app_assoc. rewrite <- app_assoc. cbn [app].
  apply skipline_line. rewrite nonl_app, Hb. reflexivity.
Qed.

(* ---- the part loop on a body in RFC 2046 form --------------------------------------------------------------------------- *)
Definition parts_text (b : bytes) (kids : list bytes) (epi : bytes) : bytes :=
  concat (map (fun k => delim b ++ k) kids) ++ closing b ++ epi.

Lemma firstn_app_exact' {A} (a b : list A) : firstn (length a) (a ++ b) = a.
Proof. induction a as [|x a IH]; [reflexivity|]. cbn [length app firstn]. f_equal. exact IH. Qed.

Lemma firstn_len_diff {A} (k r : list A) : firstn (length (k ++ r) - length r) (k ++ r) = k.
Proof. rewrite app_length. replace (length k + length r - length r)%nat with (length k) by lia. apply firstn_app_exact'. Qed.

Lemma parts_loop_rendered b epi : nonl b = true -> forall kids, Forall (quiet b) kids ->
  forall fuel q, quiet b q -> (2 * length kids < fuel)%nat ->
  parts_loop fuel b (q ++ parts_text b kids epi) None = Some (kids, true).
Proof.
  intros Hb. induction 1 as [|k r Hk Hr IH]; intros fuel q Hq Hf.
  - destruct fuel as [|f]; [lia|]. cbn [parts_loop]. unfold parts_text. cbn [map concat app].
    rewrite (findboundary_in_body b q (closing b) epi true Hb Hq (fun f' => findboundary_closing b f' epi Hb)).
    reflexivity.
  - destruct fuel as [|[|f]]; [cbn [length] in Hf; lia|cbn [length] in Hf; lia|].
    unfold parts_text. cbn [map concat]. rewrite <- !app_assoc.
    set (tailr := concat (map (fun k0 => delim b ++ k0) r) ++ closing b ++ epi).
    (* first iteration: the delimiter in front of k *)
    cbn [parts_loop].
    rewrite (findboundary_in_body b q (delim b) (k ++ tailr) false Hb Hq (fun f' => findboundary_delim b f' (k ++ tailr) Hb)).
    rewrite (skipline_delim b _ Hb).
    (* second iteration: the delimiter after k *)
    cbn [parts_loop].
    destruct r as [|k2 r2].
    + unfold tailr. cbn [map concat app].
      rewrite (findboundary_in_body b k (closing b) epi true Hb Hk (fun f' => findboundary_closing b f' epi Hb)).
      rewrite firstn_len_diff. reflexivity.
    + unfold tailr. cbn [map concat]. rewrite <- !app_assoc.
      set (tail2 := concat (map (fun k0 => delim b ++ k0) r2) ++ closing b ++ epi).
      rewrite (findboundary_in_body b k (delim b) (k2 ++ tail2) false Hb Hk (fun f' => findboundary_delim b f' (k2 ++ tail2) Hb)).
      rewrite firstn_len_diff.
      assert (Hq0 : quiet b []) by (exists []; split; [reflexivity|constructor]).
      specialize (IH f [] Hq0 ltac:(cbn [length] in *; lia)).
      unfold parts_text in IH. cbn [map concat app] in IH. rewrite <- !app_assoc in IH. fold tail2 in IH.
      rewrite IH. reflexivity.
Qed.

Lemma kids_length b kids epi : (length kids <= length (parts_text b kids epi))%nat.
Proof.
  unfold parts_text. rewrite app_length.
  assert (H : (length kids <= length (concat (map (fun k => delim b ++ k) kids)))%nat).
  { induction kids as [|k r IH]; [cbn; lia|].
    cbn [map concat]. rewrite app_length.
    assert (H1 : (1 <= length (delim b ++ k))%nat) by (unfold delim; rewrite !app_length; cbn [length s_dd nl]; clear; lia).
    cbn [length]. clear -IH H1. lia. }
  clear -H. lia.
Qed.

Theorem parts_of_body b pre kids epi : nonl b = true -> quiet b pre -> Forall (quiet b) kids ->
  let body := pre ++ parts_text b kids epi in
  parts_loop (S (S (2 * length body))) b body None = Some (kids, true).
Proof.
  intros Hb Hq Hk body. apply parts_loop_rendered; [exact Hb|exact Hk|exact Hq|].
  unfold body. rewrite app_length. pose proof (kids_length b kids epi). lia.
Qed.

(* ---- one level of flattening, given what each part parses to and contains ------------------------------------------------ *)
Theorem flatten_step d m type b pre kids epi (subs : list (msg * list msg)) :
  get_header1 (m_headers m) s_content_type = Some type -> parseboundary type = PB b -> nonl b = true ->
  m_body m = pre ++ parts_text b kids epi -> quiet b pre -> Forall (quiet b) kids ->
  Forall2 (fun k asub => parse_part k = Some (fst asub) /\ parseattachments d (fst asub) = AOk (snd asub)) kids subs ->
  parseattachments (S d) m = AOk (flat_map (fun asub => fst asub :: snd asub) subs).
Proof.
  intros Ht Hpb Hb Hbody Hq Hk Hsub. cbn [parseattachments]. rewrite Ht, Hpb, Hbody.
  rewrite (parts_of_body b pre kids epi Hb Hq Hk). clear Hbody Hk.
  induction Hsub as [|k [a sub] kids' subs' [Hp Ha] _ IH]; [reflexivity|].
  cbn [fst snd] in *. cbn [flat_map]. rewrite Hp, Ha.
  match goal with |- context [match ?X with AOk _ => _ | AErr => _ | AFuel => _ end] =>
    match X with context [parse_part] => idtac end end.
  revert IH.
  match goal with |- (match ?Y with AOk l => _ | AErr => _ | AFuel => _ end = _) -> _ => destruct Y as [rest| |] eqn:E end;
    intros IH; try discriminate IH.
  injection IH as <-. reflexivity.
Qed.
