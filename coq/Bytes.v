(* M1: bytes, C strings, the ASCII ctype subset mdsort uses (C / C.utf8 locale). *)
From Coq Require Export List NArith ZArith Bool Lia.
Export ListNotations.
Local Open Scope N_scope.

Definition byte := N.
Definition bytes := list N.

(* A C string is a byte list without NUL; the terminator is the end of the list. *)
Definition cstrb (s : bytes) : bool := forallb (fun b => negb (b =? 0)) s.
Definition cstr (s : bytes) : Prop := Forall (fun b => b <> 0) s.

(* What a C caller sees of a buffer that may contain an embedded NUL. *)
Fixpoint cview (s : bytes) : bytes :=
  match s with
  | [] => []
  | c :: r => if c =? 0 then [] else c :: cview r
  end.

Definition isspace (c : N) : bool := (c =? 32) || ((9 <=? c) && (c <=? 13)).
Definition isblank (c : N) : bool := (c =? 32) || (c =? 9).       (* strspn " \t" *)
Definition isupper (c : N) : bool := (65 <=? c) && (c <=? 90).
Definition islower (c : N) : bool := (97 <=? c) && (c <=? 122).
Definition isdigit (c : N) : bool := (48 <=? c) && (c <=? 57).
Definition isalpha (c : N) : bool := isupper c || islower c.
Definition tolower (c : N) : N := if isupper c then c + 32 else c.
Definition toupper (c : N) : N := if islower c then c - 32 else c.

Fixpoint beq_bytes (a b : bytes) : bool :=
  match a, b with
  | [], [] => true
  | x :: a', y :: b' => (x =? y) && beq_bytes a' b'
  | _, _ => false
  end.

(* strncmp(s, p, strlen p) == 0 *)
Fixpoint prefixb (p s : bytes) : bool :=
  match p, s with
  | [], _ => true
  | x :: p', y :: s' => (x =? y) && prefixb p' s'
  | _ :: _, [] => false
  end.

(* strcasecmp as a three-way result on the C ctype *)
Fixpoint strcasecmp (a b : bytes) : comparison :=
  match a, b with
  | [], [] => Eq
  | [], _ :: _ => Lt
  | _ :: _, [] => Gt
  | x :: a', y :: b' =>
      match tolower x ?= tolower y with
      | Eq => strcasecmp a' b'
      | c => c
      end
  end.
Definition caseeq (a b : bytes) : bool :=
  match strcasecmp a b with Eq => true | _ => false end.

(* strspn(s, " \t") and the remainder *)
Fixpoint nspaces (s : bytes) : nat :=
  match s with
  | c :: r => if isblank c then S (nspaces r) else O
  | [] => O
  end.
Fixpoint skip_blanks (s : bytes) : bytes :=
  match s with
  | c :: r => if isblank c then skip_blanks r else s
  | [] => []
  end.

(* split at the first occurrence of c: (before, Some after) or (s, None) *)
Fixpoint split_at (c : N) (s : bytes) : bytes * option bytes :=
  match s with
  | [] => ([], None)
  | x :: r => if x =? c then ([], Some r)
              else let (a, b) := split_at c r in (x :: a, b)
  end.

(* strstr(s, p): position-independent result (before, Some rest-after-p) *)
Fixpoint find_sub (p : bytes) (s : bytes) : option (bytes * bytes) :=
  if prefixb p s then Some ([], skipn (length p) s)
  else match s with
       | [] => None
       | x :: r => match find_sub p r with
                   | Some (a, b) => Some (x :: a, b)
                   | None => None
                   end
       end.

Definition ascii (s : list nat) : bytes := map N.of_nat s.

Lemma beq_bytes_eq a b : beq_bytes a b = true <-> a = b.
Proof.
  revert b; induction a as [|x a IH]; intros [|y b]; simpl; split; intro H;
    try discriminate; try reflexivity.
  - apply andb_true_iff in H as [H1 H2]. apply N.eqb_eq in H1. apply IH in H2. congruence.
  - inversion H; subst. rewrite N.eqb_refl. simpl. apply IH. reflexivity.
Qed.
