(* C07 (part 1): totality of every fuelled consumer of message bytes: the fuel the models are
   called with is always enough, for arbitrary byte strings. *)
From MD Require Import Bytes Generated DecodeDefs DecodeSpec DecodeProofs HeaderDefs MimeDefs.
Require Import Lia.
Local Open Scope N_scope.

(* ---- header parsing ---------------------------------------------------------------------- *)
Lemma find_key_shorter : forall s k r, find_key s = Some (k, r) -> (length r < length s)%nat.
Proof.
  induction s as [|c s IH]; intros k r H; cbn [find_key] in H; [discriminate H|].
  destruct (c =? 58).
  - injection H as _ <-. cbn [length]. lia.
  - destruct (isspace c); [discriminate H|].
    destruct (find_key s) as [[k' r']|] eqn:E; [|discriminate H].
    injection H as _ <-. specialize (IH _ _ eq_refl). cbn [length]. lia.
Qed.

Lemma skip_blanks_le s : (length (skip_blanks s) <= length s)%nat.
Proof.
  induction s as [|c s IH]; cbn [skip_blanks length]; [lia|].
  destruct (isblank c); cbn [length]; lia.
Qed.

Lemma find_val_shorter : forall s v rest, find_val s = Some (v, rest) -> (length rest < length s)%nat.
Proof.
  induction s as [|c s IH]; intros v rest H; cbn [find_val] in H; [discriminate H|].
  destruct (c =? 10).
  - destruct s as [|d s'].
    + injection H as _ <-. cbn [length]. lia.
    + destruct (isblank d).
      * destruct (find_val (d :: s')) as [[v' r']|] eqn:E; [|discriminate H].
        injection H as _ <-. specialize (IH _ _ eq_refl). cbn [length] in *. lia.
      * injection H as _ <-. cbn [length]. lia.
  - destruct (find_val s) as [[v' r']|] eqn:E; [|discriminate H].
    injection H as _ <-. specialize (IH _ _ eq_refl). cbn [length]. lia.
Qed.

Lemma findheader_shorter s k v rest : findheader s = FH k v rest -> (length rest < length s)%nat.
Proof.
  unfold findheader. destruct (find_key s) as [[k' r]|] eqn:Ek; [|intros H; discriminate H].
  destruct (find_val (skip_blanks r)) as [[v' rest']|] eqn:Ev; intros H; [|discriminate H].
  injection H as _ _ <-.
  pose proof (find_key_shorter _ _ _ Ek). pose proof (find_val_shorter _ _ _ Ev).
  pose proof (skip_blanks_le r). lia.
Qed.

Lemma parse_loop_fuel : forall fuel s n, (length s < fuel)%nat -> parse_loop fuel s n <> None.
Proof.
  induction fuel as [|f IH]; intros s n Hl; [lia|].
  cbn [parse_loop]. destruct (findheader s) as [k v rest| |k] eqn:E; try (intros H; discriminate H).
  pose proof (findheader_shorter _ _ _ _ E).
  destruct (parse_loop f rest (S n)) as [[hs b]|] eqn:E2; [intros H'; discriminate H'|].
  exfalso. apply (IH rest (S n)); [lia|exact E2].
Qed.

Theorem parse_message_total file : parse_message file <> None.
Proof.
  unfold parse_message.
  destruct (parse_loop _ _ _) as [[hs b]|] eqn:E; [intros H; discriminate H|].
  exfalso. eapply parse_loop_fuel; [|exact E]. lia.
Qed.

Theorem parse_part_total text : parse_part text <> None.
Proof.
  unfold parse_part.
  destruct (parse_loop _ _ _) as [[hs b]|] eqn:E; [intros H; discriminate H|].
  exfalso. eapply parse_loop_fuel; [|exact E]. lia.
Qed.

(* ---- boundary scanning --------------------------------------------------------------------- *)
Lemma skipline_le s : (length (skipline s) <= length s)%nat.
Proof.
  induction s as [|c s IH]; cbn [skipline length]; [lia|].
  destruct (c =? 10); lia.
Qed.

Lemma skipline_lt c s : (length (skipline (c :: s)) < length (c :: s))%nat.
Proof. cbn [skipline length]. pose proof (skipline_le s). destruct (c =? 10); lia. Qed.

Lemma skipn_le {A} n (l : list A) : (length (skipn n l) <= length l)%nat.
Proof. rewrite skipn_length. lia. Qed.

(* one iteration, with the position after the optional skipline made explicit *)
Lemma findboundary_fuel_true b : forall fuel s, (length s < fuel)%nat -> findboundary fuel b s true <> None
with findboundary_fuel_false b : forall fuel s, (S (length s) < fuel)%nat -> findboundary fuel b s false <> None.
Proof.
  - induction fuel as [|f IH]; intros s Hl; [lia|].
    cbn [findboundary].
    destruct (skipline s) as [|c s1] eqn:Es; [intros H; discriminate H|].
    assert (Hlt : (length (c :: s1) < f)%nat).
    { destruct s as [|c0 s0]; [discriminate Es|]. rewrite <- Es. pose proof (skipline_lt c0 s0). lia. }
    set (s' := c :: s1) in *. clearbody s'.
    destruct (negb (prefixb s_dd s')); [apply IH; lia|].
    destruct (negb (prefixb b (skipn 2 s'))); [apply IH; pose proof (skipn_le 2 s'); lia|].
    set (s2 := skipn (length b) (skipn 2 s')).
    assert (H2 : (length s2 <= length s')%nat).
    { unfold s2. pose proof (skipn_le (length b) (skipn 2 s')). pose proof (skipn_le 2 s'). lia. }
    destruct (prefixb s_dd s2).
    + pose proof (skipn_le 2 s2).
      destruct (skipn 2 s2) as [|c3 r3] eqn:E3; [apply IH; cbn [length]; lia|].
      destruct (c3 =? 10); [intros H'; discriminate H'|]. apply IH. lia.
    + destruct s2 as [|c3 r3] eqn:E3; [apply IH; cbn [length]; lia|].
      destruct (c3 =? 10); [intros H'; discriminate H'|]. apply IH. lia.
  - intros fuel s Hl. destruct fuel as [|f]; [lia|].
    cbn [findboundary].
    destruct s as [|c s1] eqn:Es; [intros H; discriminate H|].
    set (s' := c :: s1) in *.
    assert (Hlt : (length s' < f)%nat) by lia.
    clearbody s'.
    destruct (negb (prefixb s_dd s')); [apply findboundary_fuel_true; lia|].
    destruct (negb (prefixb b (skipn 2 s'))); [apply findboundary_fuel_true; pose proof (skipn_le 2 s'); lia|].
    set (s2 := skipn (length b) (skipn 2 s')).
    assert (H2 : (length s2 <= length s')%nat).
    { unfold s2. pose proof (skipn_le (length b) (skipn 2 s')). pose proof (skipn_le 2 s'). lia. }
    destruct (prefixb s_dd s2).
    + pose proof (skipn_le 2 s2).
      destruct (skipn 2 s2) as [|c3 r3] eqn:E3; [apply findboundary_fuel_true; cbn [length]; lia|].
      destruct (c3 =? 10); [intros H'; discriminate H'|]. apply findboundary_fuel_true. lia.
    + destruct s2 as [|c3 r3] eqn:E3; [apply findboundary_fuel_true; cbn [length]; lia|].
      destruct (c3 =? 10); [intros H'; discriminate H'|]. apply findboundary_fuel_true. lia.
Qed.

(* the position found is a non-empty piece no longer than the text searched *)
Lemma findboundary_pos b : forall fuel s skip p t,
  findboundary fuel b s skip = Some (Some (p, t)) -> p <> [] /\ (length p <= length s)%nat.
Proof.
  induction fuel as [|f IH]; intros s skip p t H; [discriminate H|].
  cbn [findboundary] in H.
  set (s0 := if skip then skipline s else s) in *.
  assert (H0 : (length s0 <= length s)%nat) by (unfold s0; destruct skip; [apply skipline_le|lia]).
  clearbody s0.
  destruct s0 as [|c s1] eqn:Es; [discriminate H|].
  rewrite <- Es in *. assert (Hne : s0 <> []) by (rewrite Es; discriminate). clear Es.
  destruct (negb (prefixb s_dd s0)).
  { apply IH in H. destruct H as [Hp Hl]. split; [exact Hp|lia]. }
  destruct (negb (prefixb b (skipn 2 s0))).
  { apply IH in H. destruct H as [Hp Hl]. pose proof (skipn_le 2 s0). split; [exact Hp|lia]. }
  set (s2 := skipn (length b) (skipn 2 s0)) in *.
  assert (H2 : (length s2 <= length s0)%nat).
  { unfold s2. pose proof (skipn_le (length b) (skipn 2 s0)). pose proof (skipn_le 2 s0). lia. }
  clearbody s2.
  destruct (prefixb s_dd s2).
  - pose proof (skipn_le 2 s2).
    destruct (skipn 2 s2) as [|c3 r3] eqn:E3.
    + apply IH in H. destruct H as [Hp Hl]. cbn [length] in Hl. split; [exact Hp|lia].
    + destruct (c3 =? 10).
      * injection H as <- _. split; [exact Hne|lia].
      * apply IH in H. destruct H as [Hp Hl]. split; [exact Hp|lia].
  - destruct s2 as [|c3 r3] eqn:E3.
    + apply IH in H. destruct H as [Hp Hl]. cbn [length] in Hl. split; [exact Hp|lia].
    + destruct (c3 =? 10).
      * injection H as <- _. split; [exact Hne|lia].
      * apply IH in H. destruct H as [Hp Hl]. split; [exact Hp|lia].
Qed.

Definition mu (body : bytes) (beg : option bytes) : nat :=
  (2 * length body + match beg with Some _ => 1 | None => 0 end)%nat.

Lemma parts_loop_fuel b : forall fuel body beg, (mu body beg < fuel)%nat -> parts_loop fuel b body beg <> None.
Proof.
  induction fuel as [|f IH]; intros body beg Hm; [lia|].
  cbn [parts_loop].
  destruct (findboundary (S (S (length body))) b body false) as [[[bpos term]|]|] eqn:E.
  - apply findboundary_pos in E. destruct E as [Hne Hle].
    destruct beg as [bg|].
    + destruct term; [intros H; discriminate H|].
      destruct (parts_loop f b bpos None) as [[ps t]|] eqn:E2; [intros H; discriminate H|].
      exfalso. apply (IH bpos None); [unfold mu in *; lia|exact E2].
    + destruct term; [intros H; discriminate H|].
      apply IH. unfold mu in *.
      destruct bpos as [|c r]; [contradiction|]. pose proof (skipline_lt c r). lia.
  - intros H; discriminate H.
  - exfalso. eapply findboundary_fuel_false; [|exact E]. lia.
Qed.

Theorem parseattachments_total : forall d m, parseattachments d m <> AFuel.
Proof.
  induction d as [|d IH]; intros m; cbn [parseattachments]; [intros H; discriminate H|].
  destruct (get_header1 (m_headers m) s_content_type) as [type|]; [|intros H; discriminate H].
  destruct (parseboundary type) as [| |b]; try (intros H; discriminate H).
  destruct (parts_loop _ b (m_body m) None) as [[parts term]|] eqn:E.
  2:{ exfalso. eapply parts_loop_fuel; [|exact E]. unfold mu. lia. }
  clear E. revert term.
  induction parts as [|p r IHp]; intros term.
  - cbn. destruct term; intros H; discriminate H.
  - cbn.
    destruct (parse_part p) as [a|] eqn:Ep; [|exfalso; exact (parse_part_total p Ep)].
    destruct (parseattachments d a) as [sub| |] eqn:Ea; [| intros H; discriminate H | exfalso; exact (IH a Ea)].
    specialize (IHp true). cbn in IHp.
    match type of IHp with context [match ?X with AOk _ => _ | AErr => _ | AFuel => _ end] => destruct X as [rest| |] end;
      [destruct term; intros H; discriminate H | intros H; discriminate H | exact IHp].
Qed.

Theorem get_attachments_total m : get_attachments m <> AFuel.
Proof. apply parseattachments_total. Qed.

Theorem get_body_total m : get_body m <> BFuel.
Proof.
  unfold get_body.
  assert (Hd : forall a, decode_body a <> BFuel).
  { intros a. unfold decode_body. destruct (get_header1 _ _) as [enc|]; [|intros H; discriminate H].
    destruct (beq_bytes enc s_base64); [destruct (base64_decode _); intros H; discriminate H|].
    destruct (beq_bytes enc s_qp); intros H; discriminate H. }
  destruct (negb _); [apply Hd|].
  pose proof (get_attachments_total m) as Ht.
  destruct (get_attachments m) as [atts| |]; [|intros H; discriminate H|contradiction].
  destruct (pick_alternative atts None); [apply Hd|intros H; discriminate H].
Qed.
