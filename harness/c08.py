"""C08 - rewriting a message preserves everything it is not meant to change.
Tie: (a) message.h driver (parse / set_header / write) vs extracted model on generated messages,
(b) the mdsort binary doing label / add-header rewrites on maildirs vs the model's prediction.
Monitor: an independent RFC 5322 line-structure reader (below) applied to what the implementation
wrote: untouched fields identical and in order, set fields exactly once with the value, body
identical byte for byte."""
import os
import common, msggen, mdrun
from common import hexs, unhexs

WITNESSES = {   # known findings F-10a..d: input -> what the current code writes (see Properties_C08.v)
    'F-10a-nul-truncates': (b'A: b\n\nx\0y\n', b'A: b\n\nx'),
    'F-10b-unterminated-last-header': (b'A: b\nC: d', b'A: b\n\nC'),
    'F-10c-leading-empty-lines-collapsed': (b'A: b\n\n\n\nx\n', b'A: b\n\nx\n'),
    'F-10d-crlf-separator-gains-lf': (b'A: b\r\n\r\nx\r\n', b'A: b\r\n\n\r\nx\r\n'),
}


# ---- independent reader (monitor) -----------------------------------------------------------
def py_fields(text):
    """Split a message text into ([(name, value)], body) by RFC 5322 line structure.
    Returns None if the header block is not made of fields and continuations only."""
    i = 0
    fields = []
    n = len(text)
    while True:
        if i >= n:
            return None                      # no empty line
        j = text.find(b'\n', i)
        if j < 0:
            return None
        line = text[i:j]
        if line == b'':
            return fields, text[j + 1:]
        if line[:1] in (b' ', b'\t'):
            if not fields:
                return None
            fields[-1] = (fields[-1][0], fields[-1][1] + b'\n' + line)
        else:
            c = line.find(b':')
            if c < 0:
                return None
            fields.append((line[:c], line[c + 1:].lstrip(b' \t')))
        i = j + 1


def monitor(fields_in, body_in, sets, out):
    """Returns None if the property holds for this rewrite, else a description."""
    r = py_fields(out)
    if r is None:
        return 'written text is not a header block + empty line + body'
    fo, bo = r
    if bo != body_in:
        return 'body changed (%d -> %d bytes)' % (len(body_in), len(bo))
    names = [k.lower() for k, _ in sets]
    keep_in = [(k, v) for k, v in fields_in if k.lower() not in names]
    keep_out = [(k, v) for k, v in fo if k.lower() not in names]
    if keep_in != keep_out:
        return 'untouched fields differ: %r vs %r' % (keep_in[:4], keep_out[:4])
    last = {}
    for k, v in sets:
        last[k.lower()] = v
    for k, v in last.items():
        occ = [vv for kk, vv in fo if kk.lower() == k]
        if occ != [v]:
            return 'field %r: expected exactly once with value %r, found %r' % (k, v, occ[:3])
    return None


def wf_sets(rng, fields):
    sets = []
    for _ in range(rng.choice([0, 1, 1, 2, 3])):
        k = rng.choice(msggen.NAMES + [f[0] for f in fields[:3]])
        v = msggen.gen_value(rng, allow_fold=False).replace(b'\n', b' ').strip(b' \t')
        sets.append((k, v[:200]))
    return sets


def request(text, sets, pre_queries=()):
    ops = ['G' + hexs(n) for n in pre_queries]
    ops += ['S%s:%s' % (hexs(k), hexs(v)) for k, v in sets]
    ops.append('W')
    return 'msg %s %s %s' % (hexs(text), hexs(b'm'), ' '.join(ops))


def written(resp):
    for t in resp.split():
        if t.startswith('W') and t != 'WE':
            return unhexs(t[1:])
    return None


def run(ck):
    model = common.model_exe()
    drv = common.build_driver('msg_drv', 'plain')
    rng = ck.rng
    n_wf = 1500 if ck.tier == 'quick' else 40000
    n_mal = 600 if ck.tier == 'quick' else 15000
    stats = dict(evals=0, nontrivial=set(), dis=0, viol=0, mal=0, binary=0)
    samples = []

    # ---- known-finding witnesses replayed on the implementation -------------------------------
    lines = [request(inp, []) for inp, _ in WITNESSES.values()]
    impl, _ = common.run_lines(drv, lines)
    mod, _ = common.run_lines(model, lines)
    for (key, (inp, exp)), a, b in zip(WITNESSES.items(), impl, mod):
        wa = written(a)
        if a != b:
            ck.violation('witness %s: implementation %r, model %r' % (key, wa, written(b)),
                         {'input_hex': hexs(inp), 'impl': a, 'model': b, 'obligation': 'correspondence HeaderDefs on known-finding witness'},
                         found_input=False)
        elif wa == exp and wa != inp:
            if ck.is_known(key):
                ck.known_finding(key, 'input %r is rewritten as %r' % (inp, wa))
            else:
                ck.violation('rewrite of %r yields %r' % (inp, wa), {'input_hex': hexs(inp), 'written_hex': hexs(wa)})

    # ---- stream 1: well-formed messages through the API ------------------------------------------
    cases = []
    for i in range(n_wf):
        fields, body, text = msggen.gen_wf_message(rng)
        if len(text) > 20000:
            continue
        sets = wf_sets(rng, fields)
        cases.append((fields, body, text, sets))
    lines = [request(t, s, msggen.names_for_queries(rng, f)[:2]) for f, b, t, s in cases]
    impl, r1 = common.run_lines(drv, lines, timeout=1800)
    mod, _ = common.run_lines(model, lines, timeout=1800)
    if len(impl) != len(lines):
        ck.violation('message.h driver died (exit %s) after %d of %d requests: %s' % (r1.returncode, len(impl), len(lines), r1.stderr.decode(errors='replace')[-300:]),
                     {'request': lines[len(impl)] if len(impl) < len(lines) else None})
    for (fields, body, text, sets), a, b, line in zip(cases, impl, mod, lines):
        stats['evals'] += 1
        if fields and sets:
            stats['nontrivial'].add(line)
        out = written(a)
        fin = [(k, v) for k, _, v in fields]
        why = monitor(fin, body, sets, out) if out is not None else 'message_write failed'
        if why is not None:
            stats['viol'] += 1
            if stats['viol'] <= 5:
                ck.violation('rewrite violates C08: %s; message %r..., sets %r' % (why, text[:120], sets),
                             {'stream': 'api', 'message_hex': hexs(text), 'sets': [[hexs(k), hexs(v)] for k, v in sets],
                              'written_hex': hexs(out or b''), 'why': why, 'model': b[-200:]})
        elif a != b:
            stats['dis'] += 1
            if stats['dis'] <= 5:
                ck.violation('correspondence broken (HeaderDefs vs message.c) on a well-formed message although the written file satisfies C08: %r...' % text[:100],
                             {'stream': 'api', 'message_hex': hexs(text), 'request': line[:4000], 'impl': a[:2000], 'model': b[:2000],
                              'obligation': 'correspondence HeaderDefs.parse_message/get_header/set_header/message_write'}, found_input=False)
        if len(samples) < 3 and fields and sets:
            samples.append({'message': repr(text[:200]), 'sets': [repr(x) for x in sets]})

    # ---- stream 2: malformed / complementary messages: correspondence only ------------------------
    mal = []
    for i in range(n_mal):
        t = msggen.gen_malformed(rng)[:8000]
        mal.append((t, wf_sets(rng, [])))
    for f, b, t, s in cases[:n_mal // 2]:
        mal.append((t.replace(b'\n', b'\r\n'), s))          # CRLF line ends
    lines = [request(t, s, [b'To', b'Subject']) for t, s in mal]
    impl, r2 = common.run_lines(drv, lines, timeout=1800)
    mod, _ = common.run_lines(model, lines, timeout=1800)
    if len(impl) != len(lines):
        ck.violation('message.h driver died on the malformed stream (exit %s)' % r2.returncode,
                     {'request': lines[len(impl)] if len(impl) < len(lines) else None})
    for (t, s), a, b, line in zip(mal, impl, mod, lines):
        stats['evals'] += 1
        stats['mal'] += 1
        if a != b:
            stats['dis'] += 1
            if stats['dis'] <= 5:
                ck.violation('correspondence broken on a malformed message %r...: implementation and model differ' % t[:100],
                             {'stream': 'malformed', 'message_hex': hexs(t), 'request': line[:4000], 'impl': a[:2000], 'model': b[:2000],
                              'obligation': 'correspondence HeaderDefs (complementary classes)'}, found_input=False)

    # ---- stream 3: the binary: label / add-header rules on a maildir -------------------------------
    nbin = 6 if ck.tier == 'quick' else 60
    for round_ in range(nbin):
        sb = mdrun.Sandbox()
        md = sb.maildir('src')
        msgs = {}
        for i in range(25):
            fields, body, text = msggen.gen_wf_message(rng)
            # existing X-Label values that look like template syntax belong to C12 (F-07), not here
            fields = [(k, bl, rng.choice([b'old', b'a b', b'', b'keep me', b'x\n y'])) if k.lower() == b'x-label' else (k, bl, v)
                      for k, bl, v in fields]
            if round_ % 3 == 2 and i % 2 == 0:
                # several X-Label fields (plain, folded, empty), spread over the header block
                for v_ in rng.sample([b'one', b'two', b'work,\n urgent', b'', b'inbox'], rng.choice([2, 3])):
                    fields.insert(rng.randrange(len(fields) + 1), (rng.choice([b'X-Label', b'x-label', b'X-LABEL']), b' ', v_))
            text = msggen.render_text(fields, body)
            if len(text) > 20000:
                continue
            name = sb.add(md, 'new', text)
            msgs[name] = (fields, body, text)
        label = rng.choice([b'L', b'two words', b'x1'])
        hk, hv = rng.choice([(b'X-Added', b'v 1'), (b'Subject', b'replaced'), (b'x-label', b'direct'),
                             (b'X-MS-Exchange-Organization-AuthAs', b'Internal'), (b'X-MS-Exchange-Organization-AuthSource-Ext', b'host')])
        conf = b'maildir "%s" {\n match all label %s pass\n match all add-header %s %s\n}\n' % (
            md.encode(), mdrun.conf_quote(label), mdrun.conf_quote(hk), mdrun.conf_quote(hv))
        two_labels = None
        if round_ % 3 == 2:
            # two label actions (in one rule, or in two rules joined by pass) on messages that may carry several X-Label fields
            two_labels = (rng.choice([b'a', b'first one']), rng.choice([b'b', b'second']))
            form = rng.randrange(2)
            conf = (b'maildir "%s" {\n match all label %s label %s\n}\n' if form == 0 else b'maildir "%s" {\n match all label %s pass\n match all label %s\n}\n') % (
                md.encode(), mdrun.conf_quote(two_labels[0]), mdrun.conf_quote(two_labels[1]))
        cp = sb.write_conf(conf)
        rc, out, err = sb.run([], conf=cp)
        after = sb.snapshot(md)
        # prediction: label = existing X-Label values (decoded) joined by ' ' + configured label
        reqs = ['msg %s %s G%s' % (hexs(t), hexs(b'm'), hexs(b'X-Label')) for _, _, t in msgs.values()]
        got, _ = common.run_lines(model, reqs)
        bycontent = {}
        for (sub, n), b in after.items():
            bycontent.setdefault(b, []).append(n)
        for (name, (fields, body, text)), g in zip(msgs.items(), got):
            vals = [unhexs(x) for x in g.split(',')[1:]] if g.startswith('G') and g != 'GN' else []
            buf = b' '.join(vals)
            lab = (buf + b' ' if buf else b'') + label
            sets = [(b'X-Label', lab), (hk, hv)]
            if two_labels:
                sets = [(b'X-Label', (buf + b' ' if buf else b'') + two_labels[0] + b' ' + two_labels[1])]
            req = request(text, sets)
            exp = written(common.run_lines(model, [req])[0][0])
            stats['evals'] += 1
            stats['binary'] += 1
            cand = [b for b in after.values()]
            if exp in bycontent:
                continue
            # find the file that this message became: monitor on every unexplained file
            fin = [(k, v) for k, _, v in fields]
            okfile = [b for b in cand if monitor(fin, body, sets, b) is None]
            if okfile:
                ck.violation('correspondence broken: mdsort rewrote %r... into a file that satisfies C08 but differs from the model prediction' % text[:80],
                             {'stream': 'binary', 'message_hex': hexs(text), 'config': conf.decode(errors='replace'),
                              'model_hex': hexs(exp or b''), 'obligation': 'correspondence binary label/add-header'}, found_input=False)
            else:
                ck.violation('after ' + ('two label actions %r' % (two_labels,) if two_labels else '') + '"label %r; add-header %r %r" no file in the maildir is a faithful rewrite of message %r... (exit %d, stderr %r)'
                             % (label, hk, hv, text[:80], rc, err[-200:]),
                             {'stream': 'binary', 'message_hex': hexs(text), 'config': conf.decode(errors='replace'),
                              'expected_hex': hexs(exp or b''), 'exit': rc})
            break
        if rc != 0:
            ck.violation('mdsort exited %d on well-formed messages: %r' % (rc, err[-300:]), {'stream': 'binary', 'config': conf.decode(errors='replace')})
        sb.cleanup()

    # ---- stream 5 (runs before 4 for historical reasons of the random stream): a rewrite that FAILS for one message leaves no trace in the
    # rewrites of the messages after it: every file afterwards is an original or exactly what the fault-free run writes
    import iorun as _io
    for rule in ('label "L"', 'add-header "X-Added" "v"', 'label "L" add-header "X-B" "2"'):
        scen = _io.Scen('c08-%s' % rule.split()[0], rule, _io.make_msgs(3, with_label=True))
        rc0, err0, trace0, tree0, tl0 = scen.run()
        calls0 = _io.parse_trace(trace0)
        legit = set(b for b, mt in tree0.values()) | set(c for _, _, c in scen.msgs)
        cand = [c for c in calls0 if c['call'] in ('write', 'fprintf', 'fflush', 'fclose', 'fsync', 'openat') and '/src/' in c['args'] or c['call'] in ('fprintf', 'fflush', 'fclose', 'write', 'fsync')]
        step = max(1, len(cand) // (10 if ck.tier == 'quick' else 60))
        for c in cand[::step]:
            errs = _io.ERRNOS.get(c['call'])
            if not errs:
                continue
            plan = '%d:errno=%s' % (c['k'], errs[0])
            rc, err, trace, tree, tl = scen.run(plan=plan)
            stats['evals'] += 1; stats['binary'] += 1
            strange = [(loc, len(b)) for loc, (b, mt) in tree.items() if b not in legit]
            if strange:
                ck.violation('rule %r over three messages, %s at call %d (%s): afterwards the maildir holds file(s) that are neither an original nor what the fault-free '
                             'run writes: %r (exit %d)' % (rule, errs[0], c['k'], c['call'], strange[:3], rc),
                             {'stream': 'fault-then-rewrite', 'rule': rule, 'plan': plan, 'exit': rc, 'stderr': err[-300:].decode(errors='replace')})
                break
    # ---- stream 4: the copy across file systems (rename fails with EXDEV), alone and combined with a rewrite in the same rule ----
    import iorun
    nx = 4 if ck.tier == 'quick' else 40
    for round_ in range(nx):
        sb = mdrun.Sandbox()
        md = sb.maildir('src'); dst = sb.maildir('dst')
        msgs = {}
        for i in range(10):
            fields, body, text = msggen.gen_wf_message(rng)
            fields = [(k, bl, rng.choice([b'old', b'a b', b'keep me'])) if k.lower() == b'x-label' else (k, bl, v) for k, bl, v in fields]
            text = msggen.render_text(fields, body)
            if len(text) > 20000:
                continue
            msgs[sb.add(md, 'new', text)] = (fields, body, text)
        kind = round_ % 4
        label = rng.choice([b'L', b'two words'])
        acts = [b'move %s' % mdrun.conf_quote(dst.encode()),
                b'move %s label %s' % (mdrun.conf_quote(dst.encode()), mdrun.conf_quote(label)),
                b'label %s move %s' % (mdrun.conf_quote(label), mdrun.conf_quote(dst.encode())),
                b'move %s add-header "X-Added" "v 1"' % mdrun.conf_quote(dst.encode())][kind]
        conf = b'maildir "%s" {\n match all %s\n}\n' % (md.encode(), acts)
        cp = sb.write_conf(conf)
        rc, out, err = sb.run([], conf=cp, env={'VFIO_XDEV': '1', 'VFIO_ROOT': sb.root}, preload=iorun.SHIM)
        after = sb.snapshot(dst)
        reqs = ['msg %s %s G%s' % (hexs(t), hexs(b'm'), hexs(b'X-Label')) for _, _, t in msgs.values()]
        got, _ = common.run_lines(model, reqs)
        for (name, (fields, body, text)), g in zip(msgs.items(), got):
            vals = [unhexs(x) for x in g.split(',')[1:]] if g.startswith('G') and g != 'GN' else []
            buf = b' '.join(vals)
            lab = (buf + b' ' if buf else b'') + label
            sets = [[], [(b'X-Label', lab)], [(b'X-Label', lab)], [(b'X-Added', b'v 1')]][kind]
            stats['evals'] += 1
            stats['xdev'] = stats.get('xdev', 0) + 1
            fin = [(k, v) for k, _, v in fields]
            okfile = [b for b in after.values() if monitor(fin, body, sets, b) is None]
            if not okfile:
                ck.violation('copy across file systems with rule %r: no file in the destination is a faithful copy / rewrite of message %r... (exit %d, stderr %r)'
                             % (acts, text[:80], rc, err[-200:]),
                             {'stream': 'xdev', 'message_hex': hexs(text), 'config': conf.decode(errors='replace'), 'exit': rc})
                break
        if rc != 0:
            ck.violation('mdsort exited %d on well-formed messages (cross-device copy): %r' % (rc, err[-300:]), {'stream': 'xdev', 'config': conf.decode(errors='replace')})
        sb.cleanup()

    ck.coverage.update({
        'evaluations': stats['evals'],
        'distinct_nontrivial': len(stats['nontrivial']),
        'rule': 'messages from msggen.gen_wf_message (0-40 fields from a 29-name pool incl. names differing in case / prefixes of each other, '
                'duplicates, folded values (space, tab, tab+space), encoded words, 8-bit, values up to 8 KiB, From line, missing final newline) '
                'with 0-3 set_header operations then message_write; malformed stream (NUL, truncation, non-field lines, doubled empty lines, '
                'blank before colon, CRLF, random bytes); binary runs of label+add-header rules; binary runs in which the rename fails with EXDEV (plain copy, move then label, label then move, move then add-header). non-trivial = >=1 field and >=1 set; '
                'distinct = distinct request lines',
        'samples': samples,
        'traces_validated_against_impl': stats['evals'],
        'disagreements_checked': stats['dis'],
        'malformed_cases': stats['mal'], 'binary_message_rewrites': stats['binary'],
        'known_finding_witnesses_replayed': list(WITNESSES),
    })
    ck.assumptions += ['monitor = independent RFC 5322 line-structure reader (harness/c08.py:py_fields)',
                       'cross-device copies run under the interposer (VFIO_XDEV)',
                       'glibc qsort is a stable merge sort (ties keep table order)']


def replay(ck, rp):
    drv = common.build_driver('msg_drv', 'plain')
    text = unhexs(rp['message_hex'])
    sets = [(unhexs(k), unhexs(v)) for k, v in rp.get('sets', [])]
    out, _ = common.run_lines(drv, [request(text, sets)])
    r = py_fields(text)
    w = written(out[0]) if out else None
    why = monitor(r[0], r[1], sets, w) if (r and w is not None) else 'not applicable'
    print('written: %r\nmonitor: %s' % (w, why))
    return 0 if why is None else 1
