(* M7: interpolation.  isbackref (with strtoul's quirks), ismacro, interpolate, match_backref,
   match_copy's case folding, the per-action templates of match_interpolate, and the parse-time
   expandmacros.  No proofs here. *)
From MD Require Import Bytes Generated.
Local Open Scope N_scope.

(* ---- strtoul(s, &end, 10) ----------------------------------------------------------------------------- *)
Fixpoint digits_val (s : bytes) (acc : N) : N * bytes :=
  match s with
  | c :: r => if isdigit c then digits_val r (acc * 10 + (c - 48)) else (acc, s)
  | [] => (acc, [])
  end.

Fixpoint skip_space (s : bytes) : bytes :=
  match s with c :: r => if isspace c then skip_space r else s | [] => [] end.

Definition int_max : N := 2147483647.

(* value (None = larger than INT_MAX, the only thing the caller tests) and the rest after the number;
   if no digit follows, nothing is consumed (end = nptr) and the value is 0 *)
Definition strtoul10 (s : bytes) : option N * bytes :=
  let s1 := skip_space s in
  let '(neg, s2) := match s1 with
                    | c :: r => if c =? 45 then (true, r) else if c =? 43 then (false, r) else (false, s1)
                    | [] => (false, s1)
                    end in
  match s2 with
  | c :: _ =>
      if isdigit c then
        let '(v, rest) := digits_val s2 0 in
        let ok := if neg then v =? 0 else v <=? int_max in       (* -v wraps to a huge unsigned value unless v = 0 *)
        (if ok then Some (if neg then 0 else v) else None, rest)
      else (Some 0, s)
  | [] => (Some 0, s)
  end.

(* ---- isbackref ------------------------------------------------------------------------------------------- *)
Inductive br_res :=
| BrNone                                   (* not a back-reference: 0 *)
| BrErr                                    (* -1 *)
| Br (mi si : N) (rest : bytes).           (* match index, subexpression index, the text after it *)

Definition isbackref (s : bytes) : br_res :=
  match s with
  | b :: d :: t =>
      if negb ((b =? 92) && isdigit d) then BrNone else
      match strtoul10 (d :: t) with
      | (None, _) => BrErr
      | (Some v, e) =>
          match e with
          | c1 :: e1 =>
              if c1 =? 46 then
                match strtoul10 e1 with
                | (None, _) => BrErr
                | (Some v2, e2) => Br v v2 e2
                end
              else if (c1 =? 92) && (match e1 with c2 :: _ => c2 =? 46 | [] => false end)
                   then Br 0 v e1                       (* "\." : the backslash is consumed, the dot stays *)
                   else Br 0 v e
          | [] => Br 0 v e
          end
      end
  | _ => BrNone
  end.

(* ---- ismacro ------------------------------------------------------------------------------------------------ *)
Inductive mac_res := MacNone | MacErr | Mac (name rest : bytes).

Definition ismacro (s : bytes) : mac_res :=
  match s with
  | c0 :: c1 :: r =>
      if (c0 =? 36) && (c1 =? 123) then
        match split_at 125 r with
        | (name, Some rest) => Mac name rest
        | (_, None) => MacErr
        end
      else MacNone
  | _ => MacNone
  end.

(* ---- the match list as interpolation sees it ------------------------------------------------------------------ *)
Inductive lentry :=
| LSentinel                        (* EXPR_TYPE_MATCH *)
| LPat (caps : list bytes)         (* an entry with EXPR_FLAG_INTERPOLATE: captured strings, case folded *)
| LOther.                          (* any other entry *)

(* the entries after the last sentinel, None if there is no sentinel *)
Fixpoint after_last_sentinel (l : list lentry) : option (list lentry) :=
  match l with
  | [] => None
  | e :: r => match after_last_sentinel r with
              | Some t => Some t
              | None => match e with LSentinel => Some r | _ => None end
              end
  end.

(* indices stay binary numbers: a template may name an index close to INT_MAX *)
Fixpoint nth_pat (l : list lentry) (i : N) : option (list bytes) :=
  match l with
  | [] => None
  | LPat caps :: r => if i =? 0 then Some caps else nth_pat r (N.pred i)
  | _ :: r => nth_pat r i
  end.

Fixpoint nthN {A} (l : list A) (i : N) : option A :=
  match l with
  | [] => None
  | x :: r => if i =? 0 then Some x else nthN r (N.pred i)
  end.

(* match_backref(mh, br): before = the entries preceding mh *)
Definition match_backref (before : list lentry) (mi si : N) : option bytes :=
  match after_last_sentinel before with
  | None => None
  | Some seg => match nth_pat seg mi with
                | Some caps => nthN caps si
                | None => None
                end
  end.

(* match_copy: the l / u pattern flags *)
Inductive casefold := FoldNone | FoldLower | FoldUpper.
Definition fold_case (f : casefold) (s : bytes) : bytes :=
  match f with FoldNone => s | FoldLower => map tolower s | FoldUpper => map toupper s end.

(* ---- interpolate ---------------------------------------------------------------------------------------------- *)
Record ictx := mkictx { ic_before : list lentry; ic_macros : list (bytes * bytes) }.

Fixpoint macro_find (ms : list (bytes * bytes)) (name : bytes) : option bytes :=
  match ms with
  | [] => None
  | (n, v) :: r => if beq_bytes n name then Some v else macro_find r name
  end.

Fixpoint interpolate (fuel : nat) (ctx : ictx) (s : bytes) : option (option bytes) :=
  (* None = out of fuel; Some None = error (invalid back-reference / macro) *)
  match fuel with
  | O => None
  | S f =>
      match s with
      | [] => Some (Some [])
      | c :: r =>
          match isbackref s with
          | BrErr => Some None
          | Br mi si rest =>
              match match_backref (ic_before ctx) mi si with
              | None => Some None
              | Some sub => match interpolate f ctx rest with
                            | Some (Some o) => Some (Some (sub ++ o))
                            | x => x
                            end
              end
          | BrNone =>
              match ismacro s with
              | MacErr => Some None
              | Mac name rest =>
                  match macro_find (ic_macros ctx) name with
                  | None => Some None
                  | Some v => match interpolate f ctx rest with
                              | Some (Some o) => Some (Some (v ++ o))
                              | x => x
                              end
                  end
              | MacNone => match interpolate f ctx r with
                           | Some (Some o) => Some (Some (c :: o))
                           | x => x
                           end
              end
          end
      end
  end.

Definition interp (ctx : ictx) (s : bytes) : option bytes :=
  match interpolate (S (length s)) ctx s with
  | Some r => r
  | None => None
  end.

(* ---- templates per action (match_interpolate) -------------------------------------------------------------- *)
(* label: the existing X-Label values are kept as they are, each configured label is interpolated;
   separated by single blanks, nothing for an empty existing value list *)
Fixpoint join_sp (l : list bytes) : bytes :=
  match l with
  | [] => []
  | [x] => x
  | x :: r => x ++ 32 :: join_sp r
  end.

Fixpoint map_opt' {A B} (f : A -> option B) (l : list A) : option (list B) :=
  match l with
  | [] => Some []
  | x :: r => match f x, map_opt' f r with Some y, Some ys => Some (y :: ys) | _, _ => None end
  end.

Definition label_value (ctx : ictx) (existing : list bytes) (labels : list bytes) : option bytes :=
  match map_opt' (interp ctx) labels with
  | None => None
  | Some ls =>
      (* buffer logic: a separator is written only when the buffer is not empty *)
      Some (fold_left (fun buf l => if match buf with [] => true | _ => false end then l else buf ++ 32 :: l)
                      ls (join_sp existing))
  end.

Definition exec_argv (ctx : ictx) (strings : list bytes) : option (list bytes) := map_opt' (interp ctx) strings.

(* ---- parse-time expansion (expandmacros), default context ------------------------------------------------------- *)
(* returns the expanded string and the number of errors; path_is_action: the name belongs to the action
   context ("path"); in_action: the string is an action string (its ${path} is left for later) *)
Fixpoint expandmacros (fuel : nat) (macros : list (bytes * bytes)) (in_action : bool) (s : bytes) : option (bytes * nat) :=
  match fuel with
  | O => None
  | S f =>
      match s with
      | [] => Some ([], O)
      | c :: r =>
          match ismacro s with
          | MacErr => Some ([], 1%nat)                       (* unterminated macro: stop *)
          | Mac name rest =>
              let is_path := beq_bytes name [112; 97; 116; 104] in
              if is_path && in_action then
                (* deferred: copied as is, one character at a time *)
                match expandmacros f macros in_action r with Some (o, e) => Some (c :: o, e) | None => None end
              else if is_path then
                match expandmacros f macros in_action r with Some (o, e) => Some (c :: o, S e) | None => None end   (* wrong context *)
              else
                match macro_find macros name, expandmacros f macros in_action rest with
                | Some v, Some (o, e) => Some (v ++ o, e)
                | None, Some (o, e) => Some (o, S e)           (* unknown macro *)
                | _, None => None
                end
          | MacNone => match expandmacros f macros in_action r with Some (o, e) => Some (c :: o, e) | None => None end
          end
      end
  end.
