Bytes.vo Bytes.glob Bytes.v.beautified Bytes.required_vo: Bytes.v 
Bytes.vio: Bytes.v 
Bytes.vos Bytes.vok Bytes.required_vos: Bytes.v 
Generated.vo Generated.glob Generated.v.beautified Generated.required_vo: Generated.v 
Generated.vio: Generated.v 
Generated.vos Generated.vok Generated.required_vos: Generated.v 
DecodeDefs.vo DecodeDefs.glob DecodeDefs.v.beautified DecodeDefs.required_vo: DecodeDefs.v Bytes.vo Generated.vo
DecodeDefs.vio: DecodeDefs.v Bytes.vio Generated.vio
DecodeDefs.vos DecodeDefs.vok DecodeDefs.required_vos: DecodeDefs.v Bytes.vos Generated.vos
DecodeSpec.vo DecodeSpec.glob DecodeSpec.v.beautified DecodeSpec.required_vo: DecodeSpec.v Bytes.vo Generated.vo
DecodeSpec.vio: DecodeSpec.v Bytes.vio Generated.vio
DecodeSpec.vos DecodeSpec.vok DecodeSpec.required_vos: DecodeSpec.v Bytes.vos Generated.vos
DecodeProofs.vo DecodeProofs.glob DecodeProofs.v.beautified DecodeProofs.required_vo: DecodeProofs.v Bytes.vo Generated.vo DecodeDefs.vo DecodeSpec.vo
DecodeProofs.vio: DecodeProofs.v Bytes.vio Generated.vio DecodeDefs.vio DecodeSpec.vio
DecodeProofs.vos DecodeProofs.vok DecodeProofs.required_vos: DecodeProofs.v Bytes.vos Generated.vos DecodeDefs.vos DecodeSpec.vos
Properties_C16.vo Properties_C16.glob Properties_C16.v.beautified Properties_C16.required_vo: Properties_C16.v Bytes.vo Generated.vo DecodeDefs.vo DecodeSpec.vo DecodeProofs.vo
Properties_C16.vio: Properties_C16.v Bytes.vio Generated.vio DecodeDefs.vio DecodeSpec.vio DecodeProofs.vio
Properties_C16.vos Properties_C16.vok Properties_C16.required_vos: Properties_C16.v Bytes.vos Generated.vos DecodeDefs.vos DecodeSpec.vos DecodeProofs.vos
