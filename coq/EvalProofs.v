(* Rule evaluation: conditions are boolean formulas; in a block of plain rules the first matching
   rule wins and exactly its actions are performed. *)
From Coq Require Import List Bool Arith Lia.
Import ListNotations.
From MD Require Import EvalDefs.

(* ---- conditions -------------------------------------------------------------------------------------- *)
Definition ev_of (b : bool) : ev := if b then Match else NoMatch.

Lemma eval_cond_sem c env : forall cur ins ml st,
  fst (fst (eval (compile_cond c) env cur ins ml st)) = ev_of (sem c env).
Proof.
  induction c as [a|a| |l IHl r IHr|l IHl r IHr|c IH]; intros cur ins ml st; cbn [compile_cond eval sem].
  - destruct (env a); reflexivity.
  - destruct (env a); reflexivity.
  - reflexivity.
  - specialize (IHl cur ins ml st). destruct (eval (compile_cond l) env cur ins ml st) as [[v ml'] st'].
    cbn [fst] in IHl. subst v. destruct (sem l env); cbn [ev_of andb]; [apply IHr | reflexivity].
  - specialize (IHl cur ins ml st). destruct (eval (compile_cond l) env cur ins ml st) as [[v ml'] st'].
    cbn [fst] in IHl. subst v. destruct (sem l env); cbn [ev_of orb]; [reflexivity | apply IHr].
  - specialize (IH cur ins ml st). destruct (eval (compile_cond c) env cur ins ml st) as [[v ml'] st'].
    cbn [fst] in IH. subst v. destruct (sem c env); reflexivity.
Qed.

(* a condition never appends an action entry (it appends pattern matches, or clears the list) *)
Definition no_actions (ml : list tentry) : Prop := Forall (fun t => is_action (t_e t) = false) ml.

Lemma eval_cond_no_actions c env : forall cur ins ml st,
  no_actions ml -> no_actions (snd (fst (eval (compile_cond c) env cur ins ml st))).
Proof.
  induction c as [a|a| |l IHl r IHr|l IHl r IHr|c IH]; intros cur ins ml st H; cbn [compile_cond eval].
  - destruct (env a); cbn [fst snd]; [|exact H]. apply Forall_app. split; [exact H | repeat constructor].
  - destruct (env a); exact H.
  - exact H.
  - specialize (IHl cur ins ml st H). destruct (eval (compile_cond l) env cur ins ml st) as [[v ml'] st'].
    cbn [fst snd] in IHl. destruct v; [apply IHr; exact IHl | exact IHl].
  - specialize (IHl cur ins ml st H). destruct (eval (compile_cond l) env cur ins ml st) as [[v ml'] st'].
    cbn [fst snd] in IHl. destruct v; [exact IHl | apply IHr; exact IHl].
  - specialize (IH cur ins ml st H). destruct (eval (compile_cond c) env cur ins ml st) as [[v ml'] st'].
    cbn [fst snd] in IH. destruct v; cbn [fst snd]; [exact H | exact IH].
Qed.

(* ---- appending to a list whose front holds no action entry ------------------------------------------------ *)
Lemma take_first_pre p pre l : Forall (fun t => p t = false) pre ->
  take_first p (pre ++ l) = match take_first p l with Some (y, r) => Some (y, pre ++ r) | None => None end.
Proof.
  induction 1 as [|x pre Hx _ IH]; cbn [app take_first].
  - destruct (take_first p l) as [[y r]|]; reflexivity.
  - rewrite Hx, IH. destruct (take_first p l) as [[y r]|]; reflexivity.
Qed.

Lemma no_actions_kind k pre : no_actions pre -> Forall (fun t => tk k t = false) pre.
Proof.
  unfold no_actions. rewrite !Forall_forall. intros H t Hin. specialize (H t Hin).
  unfold tk, is_kind. destruct (t_e t); try reflexivity. cbn in H. discriminate H.
Qed.

Lemma append_pre pre l a o ins : no_actions pre -> l <> [] ->
  append (pre ++ l) a o ins = pre ++ append l a o ins.
Proof.
  intros Hp Hl.
  assert (Hrev : exists x r, rev l = x :: r).
  { destruct (rev l) as [|x r] eqn:E; [|eauto]. exfalso. apply Hl.
    rewrite <- (rev_involutive l), E. reflexivity. }
  destruct Hrev as (x & r & Er).
  unfold append. rewrite rev_app_distr, Er. cbn [app].
  destruct a; try (rewrite app_assoc; reflexivity).
  - destruct x as [[| |[] d] xo xi]; cbn [t_e];
      try (rewrite (take_first_pre _ pre l (no_actions_kind k_flag pre Hp));
           destruct (take_first (tk k_flag) l) as [[[[| |[] ?] ? ?] ?]|]; rewrite <- ?app_assoc; reflexivity).
    rewrite rev_app_distr, rev_involutive, <- app_assoc. reflexivity.
  - destruct x as [[| |[] d] xo xi]; cbn [t_e];
      try (rewrite (take_first_pre _ pre l (no_actions_kind k_move pre Hp));
           destruct (take_first (tk k_move) l) as [[[[| |[] ?] ? ?] ?]|]; rewrite <- ?app_assoc; reflexivity).
    rewrite rev_app_distr, rev_involutive, <- app_assoc. reflexivity.
Qed.

Lemma append_pre_nil pre a o ins : no_actions pre ->
  append pre a o ins = pre ++ append [] a o ins.
Proof.
  intros Hp. unfold append. cbn [rev take_first app].
  destruct a; try reflexivity.
  - assert (Hr : match rev pre with {| t_e := MAct (XMove _) _ |} :: _ => False | _ => True end).
    { destruct (rev pre) as [|x r] eqn:E; [exact I|].
      assert (Hin : In x pre) by (apply in_rev; rewrite E; left; reflexivity).
      unfold no_actions in Hp. rewrite Forall_forall in Hp. specialize (Hp x Hin).
      destruct x as [[| |[] d] xo xi]; cbn in *; try exact I; discriminate. }
    destruct (rev pre) as [|[[| |[] d] xo xi] r]; try contradiction;
      rewrite <- (app_nil_r pre) at 1; rewrite (take_first_pre _ pre [] (no_actions_kind k_flag pre Hp)); cbn [take_first]; rewrite ?app_nil_r; reflexivity.
  - assert (Hr : match rev pre with {| t_e := MAct (XFlag _) _ |} :: _ => False | _ => True end).
    { destruct (rev pre) as [|x r] eqn:E; [exact I|].
      assert (Hin : In x pre) by (apply in_rev; rewrite E; left; reflexivity).
      unfold no_actions in Hp. rewrite Forall_forall in Hp. specialize (Hp x Hin).
      destruct x as [[| |[] d] xo xi]; cbn in *; try exact I; discriminate. }
    destruct (rev pre) as [|[[| |[] d] xo xi] r]; try contradiction;
      rewrite <- (app_nil_r pre) at 1; rewrite (take_first_pre _ pre [] (no_actions_kind k_move pre Hp)); cbn [take_first]; rewrite ?app_nil_r; reflexivity.
Qed.

(* ---- action lists ------------------------------------------------------------------------------------------- *)
Definition tentries (acts : list act) (o : nat) (ins : list nat) : list tentry :=
  fold_left (fun ml a => append ml a o ins) acts [].

Definition plain_act (a : act) : bool := negb (k_pass a || k_break a).

Lemma append_nonempty ml a o ins : append ml a o ins <> [].
Proof.
  unfold append. destruct a;
    repeat match goal with
           | |- context [match ?x with _ => _ end] => destruct x
           end; try (intros H; apply app_eq_nil in H as [_ H]; discriminate H).
Qed.

Lemma fold_append_pre acts : forall pre l o ins, no_actions pre -> l <> [] ->
  fold_left (fun ml a => append ml a o ins) acts (pre ++ l) = pre ++ fold_left (fun ml a => append ml a o ins) acts l.
Proof.
  induction acts as [|a r IH]; intros pre l o ins Hp Hl; cbn [fold_left]; [reflexivity|].
  rewrite append_pre by assumption. apply IH; [exact Hp | apply append_nonempty].
Qed.

Lemma fold_append_pre_nil acts pre o ins : no_actions pre -> acts <> [] ->
  fold_left (fun ml a => append ml a o ins) acts pre = pre ++ tentries acts o ins.
Proof.
  intros Hp Ha. destruct acts as [|a r]; [congruence|]. unfold tentries. cbn [fold_left].
  rewrite append_pre_nil by exact Hp. apply fold_append_pre; [exact Hp | apply append_nonempty].
Qed.

Lemma eval_acts_chain acts : forall e0 env cur ins ml ml0 st st0,
  forallb (fun a => negb (k_pass a)) acts = true ->
  eval e0 env cur ins ml st = (Match, ml0, st0) ->
  eval (compile_acts_from e0 acts) env cur ins ml st
  = (Match, fold_left (fun ml a => append ml a cur ins) acts ml0, st0).
Proof.
  induction acts as [|a r IH]; intros e0 env cur ins ml ml0 st st0 Hp He; cbn [compile_acts_from fold_left]; [exact He|].
  cbn [forallb] in Hp. apply andb_true_iff in Hp as [Ha Hr].
  apply IH; [exact Hr|]. cbn [eval]. rewrite He.
  destruct a; try reflexivity. discriminate Ha.
Qed.

Lemma eval_acts acts e env cur ins ml st :
  compile_acts acts = Some e -> forallb (fun a => negb (k_pass a)) acts = true ->
  eval e env cur ins ml st = (Match, fold_left (fun ml a => append ml a cur ins) acts ml, st).
Proof.
  destruct acts as [|a r]; [discriminate|]. intros [= <-] Hp. cbn [forallb] in Hp. apply andb_true_iff in Hp as [Ha Hr].
  cbn [fold_left]. apply eval_acts_chain; [exact Hr|]. cbn [eval]. destruct a; try reflexivity. discriminate Ha.
Qed.

(* ---- a block of plain rules ------------------------------------------------------------------------------------ *)
Definition flat_rule (r : rule) : bool :=
  match r with
  | RActs _ acts => negb (match acts with [] => true | _ => false end) && forallb plain_act acts
  | RBlock _ _ => false
  end.

Definition rule_cond (r : rule) : cond := match r with RActs c _ | RBlock c _ => c end.

(* the OR chain over the rules of a block *)
Definition chain (e0 : expr) (rs : list rule) : expr := fold_left (fun e r => EOr e (compile_rule r)) rs e0.

Lemma compile_rules_chain rs : forall e0, compile_rules_from (Some e0) rs = Some (chain e0 rs).
Proof. induction rs as [|r t IH]; intros e0; cbn [compile_rules_from chain fold_left]; [reflexivity | apply IH]. Qed.

Lemma eval_chain rs : forall e0 env cur ins ml st,
  eval (chain e0 rs) env cur ins ml st
  = match eval e0 env cur ins ml st with
    | (NoMatch, ml', st') =>
        match rs with
        | [] => (NoMatch, ml', st')
        | r :: t => eval (chain (compile_rule r) t) env cur ins ml' st'
        end
    | x => x
    end.
Proof.
  induction rs as [|r t IH]; intros e0 env cur ins ml st; cbn [chain fold_left].
  - destruct (eval e0 env cur ins ml st) as [[[] ml'] st']; reflexivity.
  - fold (chain (EOr e0 (compile_rule r)) t). rewrite IH. cbn [eval].
    destruct (eval e0 env cur ins ml st) as [[[] ml'] st']; [reflexivity|].
    destruct t as [|r2 t2]; [cbn [chain fold_left]; destruct (eval (compile_rule r) env cur ins ml' st') as [[[] ?] ?]; reflexivity|].
    rewrite (IH (compile_rule r)). reflexivity.
Qed.

(* what a plain rule does to a list without pending actions *)
Lemma eval_flat_rule c acts env cur ins ml st : no_actions ml -> flat_rule (RActs c acts) = true ->
  exists pre st', no_actions pre /\
    eval (compile_rule (RActs c acts)) env cur ins ml st =
    if sem c env then (Match, pre ++ tentries acts cur ins, st') else (NoMatch, pre, st').
Proof.
  intros Hml Hf. cbn [flat_rule] in Hf. apply andb_true_iff in Hf as [Hne Hpl].
  assert (Hacts : acts <> []) by (destruct acts; [discriminate | discriminate]).
  assert (Hnp : forallb (fun a => negb (k_pass a)) acts = true).
  { rewrite forallb_forall in *. intros a Ha. specialize (Hpl a Ha). unfold plain_act in Hpl.
    destruct (k_pass a); [discriminate | reflexivity]. }
  cbn [compile_rule]. destruct (compile_acts acts) as [e|] eqn:Ec; [|destruct acts; [congruence | discriminate]].
  cbn [eval].
  assert (Hs : no_actions (ml ++ [mkt MSentinel cur ins])) by (apply Forall_app; split; [exact Hml | repeat constructor]).
  pose proof (eval_cond_sem c env cur ins (ml ++ [mkt MSentinel cur ins]) st) as Hv.
  pose proof (eval_cond_no_actions c env cur ins (ml ++ [mkt MSentinel cur ins]) st Hs) as Hn.
  destruct (eval (compile_cond c) env cur ins (ml ++ [mkt MSentinel cur ins]) st) as [[v ml'] st'].
  cbn [fst snd] in Hv, Hn. subst v. exists ml', st'. split; [exact Hn|].
  destruct (sem c env); cbn [ev_of]; [|reflexivity].
  rewrite (eval_acts acts e env cur ins ml' st' Ec Hnp). rewrite fold_append_pre_nil by assumption. reflexivity.
Qed.

Lemma tentries_actions acts o ins : Forall (fun t => is_action (t_e t) = true) (tentries acts o ins).
Proof.
  unfold tentries.
  assert (G : forall l, Forall (fun t => is_action (t_e t) = true) l ->
                        Forall (fun t => is_action (t_e t) = true) (fold_left (fun ml a => append ml a o ins) acts l)).
  { induction acts as [|a r IH]; intros l Hl; cbn [fold_left]; [exact Hl|]. apply IH.
    assert (Hsub : forall p x l', take_first p l = Some (x, l') -> Forall (fun t => is_action (t_e t) = true) l').
    { clear - Hl. intros p. induction Hl as [|y l Hy Hl' IHl]; intros x l' H; cbn [take_first] in H; [discriminate|].
      destruct (p y); [inversion H; subst; assumption|].
      destruct (take_first p l) as [[z r']|]; [|discriminate]. inversion H; subst. constructor; [exact Hy | eapply IHl; eauto]. }
    assert (Hrev : forall x r0, rev l = x :: r0 -> Forall (fun t => is_action (t_e t) = true) (rev r0)).
    { intros x r0 E. apply Forall_rev. assert (Forall (fun t => is_action (t_e t) = true) (rev l)) by (apply Forall_rev; exact Hl).
      rewrite E in H. inversion H; assumption. }
    unfold append. destruct a;
      repeat match goal with
             | |- context [match rev l with _ => _ end] => destruct (rev l) as [|[[| |[] ?] ? ?] ?] eqn:?
             | |- context [match take_first ?p l with _ => _ end] => destruct (take_first p l) as [[[[| |[] ?] ? ?] ?]|] eqn:?
             end;
      apply Forall_app; split; try (repeat constructor; fail); try assumption;
      try (eapply Hsub; eassumption); try (eapply Hrev; eassumption); try (eapply Hrev; reflexivity); try (eapply Hsub; reflexivity). }
  apply G. constructor.
Qed.

Lemma filter_actions_split pre acts o ins : no_actions pre ->
  filter is_action (map t_e (pre ++ tentries acts o ins)) = map t_e (tentries acts o ins).
Proof.
  intros Hp. rewrite map_app, filter_app.
  assert (filter is_action (map t_e pre) = []) as ->.
  { induction Hp as [|x l Hx _ IH]; [reflexivity|]. cbn [map filter]. rewrite Hx. exact IH. }
  cbn [app]. pose proof (tentries_actions acts o ins) as H.
  induction H as [|x l Hx _ IH]; [reflexivity|]. cbn [map filter]. rewrite Hx. f_equal. exact IH.
Qed.

Lemma no_marker_entries acts o ins k : forallb plain_act acts = true -> (forall a, k a = true -> plain_act a = false) ->
  existsb (tk k) (tentries acts o ins) = false.
Proof.
  intros Hpl Hk. unfold tentries.
  assert (G : forall l, existsb (tk k) l = false -> existsb (tk k) (fold_left (fun ml a => append ml a o ins) acts l) = false).
  { induction acts as [|a r IH]; intros l Hl; cbn [fold_left]; [exact Hl|].
    cbn [forallb] in Hpl. apply andb_true_iff in Hpl as [Ha Hr]. apply (IH Hr).
    assert (Hka : k a = false) by (destruct (k a) eqn:E; [rewrite (Hk a E) in Ha; discriminate | reflexivity]).
    assert (Hsub : forall p x l', take_first p l = Some (x, l') -> existsb (tk k) l' = false).
    { clear - Hl. revert Hl. induction l as [|y l IHl]; intros Hl p x l' H; cbn [take_first] in H; [discriminate|].
      cbn [existsb] in Hl. apply orb_false_iff in Hl as [Hy Hl].
      destruct (p y); [inversion H; subst; assumption|].
      destruct (take_first p l) as [[z r']|] eqn:E; [|discriminate]. inversion H; subst. cbn [existsb]. rewrite Hy. eapply IHl; eauto. }
    assert (Hrev : forall x r0, rev l = x :: r0 -> existsb (tk k) (rev r0) = false).
    { intros x r0 E. assert (H : existsb (tk k) (rev l) = false).
      { destruct (existsb (tk k) (rev l)) eqn:Ex; [|reflexivity]. apply existsb_exists in Ex as (y & Hy & Hky).
        apply in_rev in Hy. assert (existsb (tk k) l = true) by (apply existsb_exists; eauto). congruence. }
      rewrite E in H. cbn [existsb] in H. apply orb_false_iff in H as [_ H].
      destruct (existsb (tk k) (rev r0)) eqn:Ex; [|reflexivity]. apply existsb_exists in Ex as (y & Hy & Hky).
      apply in_rev in Hy. assert (existsb (tk k) r0 = true) by (apply existsb_exists; eauto). congruence. }
    unfold append. destruct a;
      repeat match goal with
             | |- context [match rev l with _ => _ end] => destruct (rev l) as [|[[| |[] ?] ? ?] ?] eqn:?
             | |- context [match take_first ?p l with _ => _ end] => destruct (take_first p l) as [[[[| |[] ?] ? ?] ?]|] eqn:?
             end;
      rewrite existsb_app; cbn [existsb tk is_kind t_e]; cbn [k_pass k_break] in *; rewrite ?Hka, ?orb_false_r;
      try assumption; try (eapply Hsub; eassumption); try (eapply Hrev; eassumption); try (eapply Hrev; reflexivity); try (eapply Hsub; reflexivity). }
  apply G. reflexivity.
Qed.

(* First match wins: in a block of plain rules (no pass / break, no nested block) nothing is done if no
   condition holds; otherwise exactly the actions of the first rule whose condition holds are
   performed (as matches_append builds them), whatever the later rules are. *)
Fixpoint first_rule (rs : list rule) (env : nat -> bool) : option (list act) :=
  match rs with
  | [] => None
  | r :: t => if sem (rule_cond r) env then (match r with RActs _ acts => Some acts | RBlock _ _ => None end)
              else first_rule t env
  end.

Lemma eval_flat_rules rs : forall env cur ins ml st, no_actions ml -> forallb flat_rule rs = true -> rs <> [] ->
  exists pre st', no_actions pre /\
    eval (match rs with r :: t => chain (compile_rule r) t | [] => EAll end) env cur ins ml st =
    match first_rule rs env with
    | Some acts => (Match, pre ++ tentries acts cur ins, st')
    | None => (NoMatch, pre, st')
    end.
Proof.
  induction rs as [|r t IH]; intros env cur ins ml st Hml Hf Hne; [congruence|].
  cbn [forallb] in Hf. apply andb_true_iff in Hf as [Hr Ht].
  destruct r as [c acts|c sub]; [|discriminate Hr].
  destruct (eval_flat_rule c acts env cur ins ml st Hml Hr) as (pre & st' & Hpre & He).
  rewrite eval_chain. rewrite He. cbn [first_rule rule_cond].
  destruct (sem c env).
  - exists pre, st'. split; [exact Hpre | reflexivity].
  - destruct t as [|r2 t2].
    + exists pre, st'. split; [exact Hpre | reflexivity].
    + destruct (IH env cur ins pre st' Hpre Ht ltac:(discriminate)) as (pre2 & st2 & Hpre2 & He2).
      exists pre2, st2. split; [exact Hpre2 | exact He2].
Qed.

Theorem flat_first_match rs env : forallb flat_rule rs = true ->
  run_rules rs env =
  match first_rule rs env with
  | Some acts => Some (map t_e (tentries acts 1 [1]))
  | None => None
  end.
Proof.
  intros Hf. unfold run_rules, compile.
  destruct rs as [|r t]; [reflexivity|].
  cbn [compile_rules_from]. rewrite compile_rules_chain.
  destruct (eval_flat_rules (r :: t) env 1 [1] [] (mkev 2 false false false) ltac:(constructor) Hf ltac:(discriminate))
    as (pre & st' & Hpre & Hev).
  cbn [eval ev0 next_id ev_t1 ev_t2 ev_t3]. rewrite Hev.
  destruct (first_rule (r :: t) env) as [acts|] eqn:Efr.
  - (* no pass / break entries: the block returns what its rules returned *)
    assert (Hpl : forallb plain_act acts = true).
    { clear - Hf Efr. revert Efr. induction (r :: t) as [|x l IH]; cbn [first_rule]; [discriminate|].
      cbn [forallb] in Hf. apply andb_true_iff in Hf as [Hx Hl].
      destruct (sem (rule_cond x) env).
      - destruct x as [c a|]; [|discriminate]. intros [= <-]. cbn [flat_rule] in Hx. apply andb_true_iff in Hx as [_ Hx]. exact Hx.
      - apply IH. exact Hl. }
    assert (Hnk : forall k, (forall a, k a = true -> plain_act a = false) -> existsb (tk k) (pre ++ tentries acts 1 [1]) = false).
    { intros k Hk. rewrite existsb_app, (no_marker_entries acts 1 [1] k Hpl Hk), orb_false_r.
      pose proof (no_actions_kind k pre Hpre) as Hp. clear - Hp. induction Hp as [|x l Hx _ IH]; [reflexivity|]. cbn [existsb]. rewrite Hx. exact IH. }
    rewrite (Hnk k_break) by (intros a Ha; unfold plain_act; rewrite Ha, orb_true_r; reflexivity).
    rewrite (Hnk k_pass) by (intros a Ha; unfold plain_act; rewrite Ha; reflexivity).
    rewrite filter_actions_split by exact Hpre. reflexivity.
  - assert (Hnk : forall k, existsb (tk k) pre = false).
    { intros k. pose proof (no_actions_kind k pre Hpre) as Hp. clear - Hp. induction Hp as [|x l Hx _ IH]; [reflexivity|]. cbn [existsb]. rewrite Hx. exact IH. }
    rewrite !Hnk. reflexivity.
Qed.
