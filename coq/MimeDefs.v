(* M4: executable model of the MIME part of message.c: parseboundary, findboundary, skipline,
   parseattachments (flattening, depth limit), message_is_content_type, message_decode_body,
   message_get_body.  No proofs here. *)
From MD Require Import Bytes Generated DecodeDefs HeaderDefs.
Local Open Scope N_scope.

Definition s_content_type : bytes := ascii [67;111;110;116;101;110;116;45;84;121;112;101]%nat.
Definition s_cte : bytes :=
  ascii [67;111;110;116;101;110;116;45;84;114;97;110;115;102;101;114;45;69;110;99;111;100;105;110;103]%nat.
Definition s_multipart : bytes := ascii [109;117;108;116;105;112;97;114;116;47]%nat.          (* "multipart/" *)
Definition s_boundary : bytes := ascii [98;111;117;110;100;97;114;121;61;34]%nat.             (* boundary= followed by a double quote *)
Definition s_mp_alt : bytes :=
  ascii [109;117;108;116;105;112;97;114;116;47;97;108;116;101;114;110;97;116;105;118;101]%nat.
Definition s_text_plain : bytes := ascii [116;101;120;116;47;112;108;97;105;110]%nat.
Definition s_text_html : bytes := ascii [116;101;120;116;47;104;116;109;108]%nat.
Definition s_base64 : bytes := ascii [98;97;115;101;54;52]%nat.
Definition s_qp : bytes := ascii [113;117;111;116;101;100;45;112;114;105;110;116;97;98;108;101]%nat.
Definition s_dd : bytes := [45; 45].

(* ---- parseboundary ----------------------------------------------------------------------- *)
Inductive pbres := PBNone | PBErr | PB (b : bytes).

Fixpoint after_semicolon (s : bytes) : option bytes :=
  match s with
  | [] => None
  | c :: r => if c =? 59 then Some r else after_semicolon r
  end.

Definition parseboundary (type : bytes) : pbres :=
  if negb (prefixb s_multipart type) then PBNone else
  match after_semicolon (skipn (length s_multipart) type) with
  | None => PBNone
  | Some r =>
      let r := skip_blanks r in
      if negb (prefixb s_boundary r) then PBNone else
      let r := skipn (length s_boundary) r in
      match split_at 34 r with
      | (_, None) => PBErr
      | ([], Some _) => PBErr
      | (b, Some _) => PB b
      end
  end.

(* ---- skipline / findboundary ---------------------------------------------------------------- *)
Fixpoint skipline (s : bytes) : bytes :=
  match s with
  | [] => []
  | c :: r => if c =? 10 then r else skipline r
  end.

(* None = out of fuel; Some None = NULL; Some (Some (position, term)) *)
Fixpoint findboundary (fuel : nat) (b s : bytes) (skip : bool) : option (option (bytes * bool)) :=
  match fuel with
  | O => None
  | S f =>
      let s := if skip then skipline s else s in
      match s with
      | [] => Some None
      | _ =>
          if negb (prefixb s_dd s) then findboundary f b s true else
          let s1 := skipn 2 s in
          if negb (prefixb b s1) then findboundary f b s1 true else
          let s2 := skipn (length b) s1 in
          let '(s3, term) := if prefixb s_dd s2 then (skipn 2 s2, true) else (s2, false) in
          match s3 with
          | c :: _ => if c =? 10 then Some (Some (s, term)) else findboundary f b s3 true
          | [] => findboundary f b s3 true
          end
      end
  end.

(* the loop of parseattachments, without the recursion: the texts of the parts at this level
   and whether a terminating boundary was seen.  None = out of fuel. *)
Fixpoint parts_loop (fuel : nat) (b body : bytes) (beg : option bytes) : option (list bytes * bool) :=
  match fuel with
  | O => None
  | S f =>
      match findboundary (S (S (length body))) b body false with
      | None => None
      | Some None => Some ([], false)
      | Some (Some (bpos, term)) =>
          match beg with
          | None =>
              let beg' := skipline bpos in
              if term then Some ([], true) else parts_loop f b beg' (Some beg')
          | Some bg =>
              let part := firstn (length bg - length bpos) bg in
              if term then Some ([part], true)
              else match parts_loop f b bpos None with
                   | Some (ps, t) => Some (part :: ps, t)
                   | None => None
                   end
          end
      end
  end.

(* parse of a part: message_parse_headers on the strndup'ed text *)
Definition parse_part (text : bytes) : option msg :=
  let s := skipseparator text in
  match parse_loop (S (length s)) s 0 with
  | Some (hs, b) => Some (mkmsg (sort_key hs) (skip_nl b))
  | None => None
  end.

Inductive ares := AOk (l : list msg) | AErr | AFuel.

(* d = depth_limit - depth *)
Fixpoint parseattachments (d : nat) (m : msg) : ares :=
  match d with
  | O => AErr                                          (* too many nested attachments *)
  | S d' =>
      match get_header1 (m_headers m) s_content_type with
      | None => AOk []
      | Some type =>
          match parseboundary type with
          | PBNone => AOk []
          | PBErr => AErr
          | PB b =>
              match parts_loop (S (S (2 * length (m_body m)))) b (m_body m) None with
              | None => AFuel
              | Some (parts, term) =>
                  let fix each (ps : list bytes) : ares :=
                    match ps with
                    | [] => AOk []
                    | p :: r =>
                        match parse_part p with
                        | None => AFuel
                        | Some a =>
                            match parseattachments d' a with
                            | AOk sub => match each r with
                                         | AOk rest => AOk (a :: sub ++ rest)
                                         | e => e
                                         end
                            | e => e
                            end
                        end
                    end in
                  match each parts with
                  | AOk l => if term then AOk l else AErr
                  | e => e
                  end
              end
          end
      end
  end.

Definition get_attachments (m : msg) : ares := parseattachments depth_limit m.

(* ---- bodies -------------------------------------------------------------------------------- *)
Definition is_content_type (m : msg) (needle : bytes) : bool :=
  match get_header1 (m_headers m) s_content_type with
  | None => false
  | Some type =>
      prefixb needle type &&
      match skipn (length needle) type with
      | [] => true
      | c :: _ => c =? 59
      end
  end.

Inductive bres := BOk (b : bytes) | BNull | BFuel.

(* message_decode_body(msg, attachment): the decoded C string, or NULL for undecodable base64 *)
Definition decode_body (a : msg) : bres :=
  match get_header1 (m_headers a) s_cte with
  | Some enc =>
      if beq_bytes enc s_base64 then
        match base64_decode (m_body a) with
        | Some d => BOk (cview d)
        | None => BNull
        end
      else if beq_bytes enc s_qp then BOk (cview (quoted_printable_decode (m_body a)))
      else BOk (m_body a)
  | None => BOk (m_body a)
  end.

Fixpoint pick_alternative (l : list msg) (found : option msg) : option msg :=
  match l with
  | [] => found
  | a :: r =>
      if is_content_type a s_text_plain then Some a
      else if is_content_type a s_text_html
           then pick_alternative r (match found with None => Some a | f => f end)
           else pick_alternative r found
  end.

Definition get_body (m : msg) : bres :=
  if negb (is_content_type m s_mp_alt) then decode_body m
  else match get_attachments m with
       | AFuel => BFuel
       | AErr => BNull
       | AOk atts =>
           match pick_alternative atts None with
           | None => BOk (m_body m)
           | Some a => decode_body a
           end
       end.
