(* C07 (part 2): the index-level scanners never read or write outside the buffer, for every byte
   string, and never run out of the fuel they are started with. *)
From MD Require Import Bytes Generated ScanDefs.
Require Import Lia.
Local Open Scope N_scope.

Lemma rd_ok s i : (i <= length s)%nat -> rd s i = Some (nth i s 0).
Proof. intros H. unfold rd. destruct (Nat.leb_spec i (length s)); [reflexivity|lia]. Qed.

Lemma nth_nz_lt s i : nth i s 0 <> 0 -> (i < length s)%nat.
Proof.
  intros H. destruct (Nat.lt_ge_cases i (length s)) as [Hl|Hg]; [exact Hl|].
  exfalso. apply H. apply nth_overflow. exact Hg.
Qed.

Lemma neqb_neq a b : (a =? b) = false -> a <> b.
Proof. intros H. apply N.eqb_neq. exact H. Qed.

Definition nonulb (s : bytes) : bool := forallb (fun c => negb (c =? 0)) s.

(* ---- strncmp ------------------------------------------------------------------------------- *)
Lemma ix_prefix_safe s : forall lit i, (i <= length s)%nat ->
  exists p, ix_prefix s i lit = Done p /\ (p = true -> nonulb lit = true -> (i + length lit <= length s)%nat).
Proof.
  induction lit as [|l lr IH]; intros i Hi; cbn [ix_prefix].
  - exists true. split; [reflexivity|]. intros _ _. cbn [length]. lia.
  - unfold rdk. rewrite rd_ok by exact Hi.
    destruct (nth i s 0 =? l) eqn:El.
    + destruct (nth i s 0 =? 0) eqn:E0.
      * exists true. split; [reflexivity|]. intros _ Hn. exfalso.
        apply N.eqb_eq in El, E0. cbn [nonulb forallb] in Hn. rewrite <- El, E0 in Hn. discriminate Hn.
      * apply neqb_neq in E0. pose proof (nth_nz_lt _ _ E0) as Hlt.
        destruct (IH (S i)) as [p [Hp Hb]]; [lia|].
        exists p. split; [exact Hp|]. intros Ht Hn. cbn [nonulb forallb] in Hn.
        apply andb_prop in Hn. destruct Hn as [_ Hn]. specialize (Hb Ht Hn). cbn [length]. lia.
    + exists false. split; [reflexivity|]. intros H; discriminate H.
Qed.

(* ---- skipline, strchr, strspn, strlen --------------------------------------------------------- *)
Lemma ix_skipline_safe s : forall fuel i, (i <= length s)%nat -> (length s - i < fuel)%nat ->
  exists j, ix_skipline fuel s i = Done j /\ (i <= j <= length s)%nat.
Proof.
  induction fuel as [|f IH]; intros i Hi Hf; [lia|].
  cbn [ix_skipline]. unfold rdk. rewrite rd_ok by exact Hi.
  destruct (nth i s 0 =? 0) eqn:E0; [exists i; split; [reflexivity|lia]|].
  apply neqb_neq in E0. pose proof (nth_nz_lt _ _ E0) as Hlt.
  destruct (nth i s 0 =? 10); [exists (S i); split; [reflexivity|lia]|].
  destruct (IH (S i)) as [j [Hj Hb]]; [lia|lia|]. exists j. split; [exact Hj|lia].
Qed.

Definition clean (s : bytes) (a b : nat) : Prop := forall k, (a <= k < b)%nat -> nth k s 0 <> 0.

Lemma ix_strchr_spec s ch : ch <> 0 -> forall fuel i, (i <= length s)%nat -> (length s - i < fuel)%nat ->
  exists r, ix_strchr fuel s i ch = Done r /\
    match r with
    | Some j => (i <= j < length s)%nat /\ nth j s 0 = ch /\ clean s i j
    | None => exists n, (i <= n <= length s)%nat /\ nth n s 0 = 0 /\ clean s i n
    end.
Proof.
  intros Hch. induction fuel as [|f IH]; intros i Hi Hf; [lia|].
  cbn [ix_strchr]. unfold rdk. rewrite rd_ok by exact Hi.
  destruct (nth i s 0 =? ch) eqn:Ec.
  - apply N.eqb_eq in Ec. exists (Some i). split; [reflexivity|].
    assert (nth i s 0 <> 0) as Hnz by (rewrite Ec; exact Hch).
    pose proof (nth_nz_lt _ _ Hnz). split; [lia|]. split; [exact Ec|]. intros k Hk. lia.
  - destruct (nth i s 0 =? 0) eqn:E0.
    + apply N.eqb_eq in E0. exists None. split; [reflexivity|]. exists i. split; [lia|]. split; [exact E0|].
      intros k Hk. lia.
    + apply neqb_neq in E0. pose proof (nth_nz_lt _ _ E0) as Hlt.
      destruct (IH (S i)) as [r [Hr Hs]]; [lia|lia|]. exists r. split; [exact Hr|].
      destruct r as [j|].
      * destruct Hs as [Hj [Hn Hc]]. split; [lia|]. split; [exact Hn|].
        intros k Hk. destruct (Nat.eq_dec k i) as [->|Hne]; [exact E0|apply Hc; lia].
      * destruct Hs as [n [Hn [Hz Hc]]]. exists n. split; [lia|]. split; [exact Hz|].
        intros k Hk. destruct (Nat.eq_dec k i) as [->|Hne]; [exact E0|apply Hc; lia].
Qed.

Lemma isblank_nz c : isblank c = true -> c <> 0.
Proof. intros H Hc. subst c. vm_compute in H. discriminate H. Qed.

Lemma ix_nspaces_safe s : forall fuel i, (i <= length s)%nat -> (length s - i < fuel)%nat ->
  exists n, ix_nspaces fuel s i = Done n /\ (i + n <= length s)%nat /\ clean s i (i + n).
Proof.
  induction fuel as [|f IH]; intros i Hi Hf; [lia|].
  cbn [ix_nspaces]. unfold rdk. rewrite rd_ok by exact Hi.
  destruct (isblank (nth i s 0)) eqn:Eb.
  - apply isblank_nz in Eb. pose proof (nth_nz_lt _ _ Eb) as Hlt.
    destruct (IH (S i)) as [n [Hn [Hb Hc]]]; [lia|lia|]. rewrite Hn. cbn [bind].
    exists (S n). split; [reflexivity|]. split; [lia|].
    intros k Hk. destruct (Nat.eq_dec k i) as [->|Hne]; [exact Eb|apply Hc; lia].
  - exists O. split; [reflexivity|]. split; [lia|]. intros k Hk. lia.
Qed.

Lemma ix_strlen_spec s : forall fuel i, (i <= length s)%nat -> (length s - i < fuel)%nat ->
  exists n, ix_strlen fuel s i = Done n /\ (i <= n <= length s)%nat /\ nth n s 0 = 0 /\ clean s i n.
Proof.
  induction fuel as [|f IH]; intros i Hi Hf; [lia|].
  cbn [ix_strlen]. unfold rdk. rewrite rd_ok by exact Hi.
  destruct (nth i s 0 =? 0) eqn:E0.
  - apply N.eqb_eq in E0. exists i. split; [reflexivity|]. split; [lia|]. split; [exact E0|]. intros k Hk. lia.
  - apply neqb_neq in E0. pose proof (nth_nz_lt _ _ E0) as Hlt.
    destruct (IH (S i)) as [n [Hn [Hb [Hz Hc]]]]; [lia|lia|]. exists n. split; [exact Hn|]. split; [lia|].
    split; [exact Hz|]. intros k Hk. destruct (Nat.eq_dec k i) as [->|Hne]; [exact E0|apply Hc; lia].
Qed.

(* ---- findboundary ---------------------------------------------------------------------------------- *)
Lemma ix_findboundary_safe b s : nonulb b = true -> forall fuel i (skip : bool), (i <= length s)%nat ->
  (length s - i + (if skip then O else 1%nat) < fuel)%nat ->
  exists r, ix_findboundary fuel b s i skip = Done r /\
            match r with Some (p, _) => (i <= p < length s)%nat | None => True end.
Proof.
  intros Hb. induction fuel as [|f IH]; intros i skip Hi Hf; [lia|].
  cbn [ix_findboundary].
  assert (exists i1, (if skip then ix_skipline (S (length s)) s i else Done i) = Done i1 /\ (i <= i1 <= length s)%nat) as [i1 [E1 H1]].
  { destruct skip; [apply ix_skipline_safe; lia|]. exists i. split; [reflexivity|lia]. }
  rewrite E1. cbn [bind]. unfold rdk at 1. rewrite rd_ok by lia.
  destruct (nth i1 s 0 =? 0) eqn:E0; [exists None; split; [reflexivity|exact I]|].
  apply neqb_neq in E0. pose proof (nth_nz_lt _ _ E0) as Hlt1.
  (* progress: with skip the scan has moved past i unless it already stood on the terminator *)
  assert (Hprog : (length s - i1 < f)%nat).
  { destruct skip; [|lia].
    (* i1 = i only if the byte at i is NUL, which it is not *)
    cbn [ix_skipline] in E1. unfold rdk in E1. rewrite rd_ok in E1 by exact Hi.
    destruct (nth i s 0 =? 0) eqn:Ei.
    - injection E1 as <-. apply N.eqb_eq in Ei. contradiction.
    - destruct (nth i s 0 =? 10).
      + injection E1 as <-. lia.
      + destruct (ix_skipline_safe s (length s) (S i)) as [j [Hj Hjb]].
        * apply neqb_neq in Ei. pose proof (nth_nz_lt _ _ Ei). lia.
        * apply neqb_neq in Ei. pose proof (nth_nz_lt _ _ Ei). lia.
        * rewrite Hj in E1. injection E1 as <-. lia. }
  destruct (ix_prefix_safe s [45; 45] i1) as [p1 [Ep1 Hp1]]; [lia|]. rewrite Ep1. cbn [bind].
  destruct p1; cbn [negb].
  2:{ destruct (IH i1 true) as [r [Hr Hs]]; [lia|lia|]. exists r. split; [exact Hr|].
      destruct r as [[p t]|]; [lia|exact I]. }
  specialize (Hp1 eq_refl eq_refl). cbn [length] in Hp1.
  destruct (ix_prefix_safe s b (i1 + 2)) as [p2 [Ep2 Hp2]]; [lia|]. rewrite Ep2. cbn [bind].
  destruct p2; cbn [negb].
  2:{ destruct (IH (i1 + 2)%nat true) as [r [Hr Hs]]; [lia|lia|]. exists r. split; [exact Hr|].
      destruct r as [[p t]|]; [lia|exact I]. }
  specialize (Hp2 eq_refl Hb).
  destruct (ix_prefix_safe s [45; 45] (i1 + 2 + length b)) as [p3 [Ep3 Hp3]]; [lia|]. rewrite Ep3. cbn [bind].
  assert (H4 : ((if p3 then (i1 + 2 + length b + 2) else (i1 + 2 + length b)) <= length s)%nat).
  { destruct p3; [specialize (Hp3 eq_refl eq_refl); cbn [length] in Hp3; lia|lia]. }
  set (i4 := if p3 then (i1 + 2 + length b + 2)%nat else (i1 + 2 + length b)%nat) in *.
  assert (Hi4 : (i1 <= i4)%nat) by (unfold i4; destruct p3; lia).
  clearbody i4.
  unfold rdk. rewrite rd_ok by exact H4.
  destruct (nth i4 s 0 =? 10).
  - exists (Some (i1, p3)). split; [reflexivity|lia].
  - destruct (IH i4 true) as [r [Hr Hs]]; [lia|lia|]. exists r. split; [exact Hr|].
    destruct r as [[p t]|]; [lia|exact I].
Qed.

(* ---- findheader -------------------------------------------------------------------------------------- *)
Lemma ix_key_safe s : forall fuel i, (i <= length s)%nat -> (length s - i < fuel)%nat ->
  exists r, ix_key fuel s i = Done r /\ match r with Some k => (i <= k < length s)%nat | None => True end.
Proof.
  induction fuel as [|f IH]; intros i Hi Hf; [lia|].
  cbn [ix_key]. unfold rdk. rewrite rd_ok by exact Hi.
  destruct (nth i s 0 =? 58) eqn:Ec.
  - apply N.eqb_eq in Ec. exists (Some i). split; [reflexivity|].
    assert (nth i s 0 <> 0) as Hnz by (rewrite Ec; discriminate). pose proof (nth_nz_lt _ _ Hnz). lia.
  - destruct (nth i s 0 =? 0) eqn:E0; cbn [orb]; [exists None; split; [reflexivity|exact I]|].
    destruct (isspace (nth i s 0)); [exists None; split; [reflexivity|exact I]|].
    apply neqb_neq in E0. pose proof (nth_nz_lt _ _ E0).
    destruct (IH (S i)) as [r [Hr Hs]]; [lia|lia|]. exists r. split; [exact Hr|].
    destruct r; [lia|exact I].
Qed.

Lemma ix_val_safe s : forall fuel i, (i <= length s)%nat -> (length s - i < fuel)%nat ->
  exists r, ix_val fuel s i = Done r /\ match r with Some e => (i <= e < length s)%nat | None => True end.
Proof.
  induction fuel as [|f IH]; intros i Hi Hf; [lia|].
  cbn [ix_val].
  destruct (ix_strchr_spec s 10 ltac:(discriminate) (S (length s)) i) as [q [Hq Hs]]; [lia|lia|].
  rewrite Hq. cbn [bind]. destruct q as [j|]; [|exists None; split; [reflexivity|exact I]].
  destruct Hs as [Hj _].
  destruct (ix_nspaces_safe s (S (length s)) (S j)) as [n [Hn [Hb _]]]; [lia|lia|].
  rewrite Hn. cbn [bind]. destruct n as [|n'].
  - exists (Some j). split; [reflexivity|lia].
  - destruct (IH (j + S n' + 1)%nat) as [r [Hr Hs']]; [lia|lia|]. exists r. split; [exact Hr|].
    destruct r; [lia|exact I].
Qed.

Theorem ix_findheader_safe s i : (i <= length s)%nat ->
  exists r, ix_findheader s i = Done r /\
    match r with
    | Some (kend, vbeg, vend) => (i <= kend /\ kend < vbeg /\ vbeg <= vend /\ vend < length s)%nat
    | None => True
    end.
Proof.
  intros Hi. unfold ix_findheader.
  destruct (ix_key_safe s (S (length s)) i) as [k [Hk Hks]]; [lia|lia|]. rewrite Hk. cbn [bind].
  destruct k as [kend|]; [|exists None; split; [reflexivity|exact I]].
  destruct (ix_nspaces_safe s (S (length s)) (S kend)) as [n [Hn [Hb _]]]; [lia|lia|]. rewrite Hn. cbn [bind].
  destruct (ix_val_safe s (S (length s)) (S kend + n)) as [v [Hv Hvs]]; [lia|lia|]. rewrite Hv. cbn [bind].
  destruct v as [vend|]; [|exists None; split; [reflexivity|exact I]].
  exists (Some (kend, (S kend + n)%nat, vend)). split; [reflexivity|lia].
Qed.

(* ---- skipseparator ------------------------------------------------------------------------------------- *)
Theorem ix_skipseparator_safe s : exists j, ix_skipseparator s = Done j /\ (j <= length s)%nat.
Proof.
  unfold ix_skipseparator.
  destruct (ix_prefix_safe s mbox_separator O) as [p [Hp _]]; [lia|]. rewrite Hp. cbn [bind].
  destruct p; cbn [negb]; [|exists O; split; [reflexivity|lia]].
  destruct (ix_strchr_spec s 10 ltac:(discriminate) (S (length s)) O) as [q [Hq Hs]]; [lia|lia|].
  rewrite Hq. cbn [bind]. destruct q as [j|]; [|exists O; split; [reflexivity|lia]].
  exists (S j). split; [reflexivity|lia].
Qed.

(* ---- parseboundary -------------------------------------------------------------------------------------- *)
Lemma ix_until_safe s stop : forall fuel i, (i <= length s)%nat -> (length s - i < fuel)%nat ->
  exists j, ix_until fuel s i stop = Done j /\ (i <= j <= length s)%nat.
Proof.
  induction fuel as [|f IH]; intros i Hi Hf; [lia|].
  cbn [ix_until]. unfold rdk. rewrite rd_ok by exact Hi.
  destruct (nth i s 0 =? 0) eqn:E0; cbn [orb]; [exists i; split; [reflexivity|lia]|].
  destruct (nth i s 0 =? stop); [exists i; split; [reflexivity|lia]|].
  apply neqb_neq in E0. pose proof (nth_nz_lt _ _ E0).
  destruct (IH (S i)) as [j [Hj Hb]]; [lia|lia|]. exists j. split; [exact Hj|lia].
Qed.

Theorem ix_parseboundary_safe s :
  exists r, ix_parseboundary s = Done r /\
    match r with IPB b l => (b + l <= length s /\ 0 < l)%nat | _ => True end.
Proof.
  unfold ix_parseboundary.
  destruct (ix_prefix_safe s s_multipart_ O) as [p [Hp Hpb]]; [lia|]. rewrite Hp. cbn [bind].
  destruct p; cbn [negb]; [|exists IPBNone; split; [reflexivity|exact I]].
  specialize (Hpb eq_refl eq_refl). cbn [Nat.add] in Hpb.
  destruct (ix_until_safe s 59 (S (length s)) (length s_multipart_)) as [i [Hi Hib]]; [lia|lia|].
  rewrite Hi. cbn [bind]. unfold rdk at 1. rewrite rd_ok by lia.
  destruct (nth i s 0 =? 0) eqn:E0; [exists IPBNone; split; [reflexivity|exact I]|].
  apply neqb_neq in E0. pose proof (nth_nz_lt _ _ E0).
  destruct (ix_nspaces_safe s (S (length s)) (S i)) as [n [Hn [Hnb _]]]; [lia|lia|]. rewrite Hn. cbn [bind].
  destruct (ix_prefix_safe s s_boundary_ (S i + n)) as [p2 [Hp2 Hp2b]]; [lia|]. rewrite Hp2. cbn [bind].
  destruct p2; cbn [negb]; [|exists IPBNone; split; [reflexivity|exact I]].
  specialize (Hp2b eq_refl eq_refl).
  destruct (ix_until_safe s 34 (S (length s)) (S i + n + length s_boundary_)) as [e [He Heb]]; [lia|lia|].
  rewrite He. cbn [bind]. unfold rdk. rewrite rd_ok by lia.
  destruct (nth e s 0 =? 34); cbn [negb]; [|exists IPBErr; split; [reflexivity|exact I]].
  destruct (Nat.eqb_spec (e - (S i + n + length s_boundary_)) 0) as [Hz|Hnz]; [exists IPBErr; split; [reflexivity|exact I]|].
  eexists. split; [reflexivity|]. cbn beta iota. lia.
Qed.

(* ---- unfoldheader ----------------------------------------------------------------------------------------- *)
Lemma ix_skip_tabs_spec s : forall fuel p, (p <= length s)%nat -> (length s - p < fuel)%nat ->
  exists p1, ix_skip_tabs fuel s p = Done p1 /\ (p <= p1 <= length s)%nat /\ clean s p p1.
Proof.
  induction fuel as [|f IH]; intros p Hp Hf; [lia|].
  cbn [ix_skip_tabs]. unfold rdk. rewrite rd_ok by exact Hp.
  destruct (nth p s 0 =? 9) eqn:E9.
  - apply N.eqb_eq in E9. assert (nth p s 0 <> 0) as Hnz by (rewrite E9; discriminate).
    pose proof (nth_nz_lt _ _ Hnz).
    destruct (IH (S p)) as [p1 [H1 [Hb Hc]]]; [lia|lia|]. exists p1. split; [exact H1|]. split; [lia|].
    intros k Hk. destruct (Nat.eq_dec k p) as [->|Hne]; [exact Hnz|apply Hc; lia].
  - exists p. split; [reflexivity|]. split; [lia|]. intros k Hk. lia.
Qed.

Lemma ix_copy_line_safe s alloc : forall fuel p e w, (p <= e <= length s)%nat -> (e - p < fuel)%nat ->
  (w + (e - p) < alloc \/ e = p)%nat ->
  exists l w', ix_copy_line fuel s p e alloc w = Done (l, w') /\ (w' = w + (e - p))%nat.
Proof.
  induction fuel as [|f IH]; intros p e w Hpe Hf Hw; [lia|].
  cbn [ix_copy_line]. destruct (Nat.eqb_spec p e) as [->|Hne].
  - exists [], w. split; [reflexivity|lia].
  - unfold rdk. rewrite rd_ok by lia. unfold wr.
    destruct (Nat.ltb_spec w alloc) as [Hlt|Hge]; [|lia].
    destruct (IH (S p) e (S w)) as [l [w' [Hl Hw']]]; [lia|lia|lia|].
    rewrite Hl. cbn [bind fst snd]. eexists _, _. split; [reflexivity|lia].
Qed.

(* the first NUL of the buffer: all indices below it hold non-zero bytes *)
Definition first_nul (s : bytes) (n : nat) : Prop := (n <= length s)%nat /\ nth n s 0 = 0 /\ clean s 0 n.

Lemma clean_le s n k : first_nul s n -> nth k s 0 = 0 -> (n <= k)%nat.
Proof.
  intros [_ [_ Hc]] Hz. destruct (Nat.le_gt_cases n k) as [H|H]; [exact H|].
  exfalso. apply (Hc k); [lia|exact Hz].
Qed.

Lemma clean_before s n a b : first_nul s n -> (a <= n)%nat -> clean s a b -> (b <= n)%nat.
Proof.
  intros [_ [Hz _]] Ha Hc. destruct (Nat.le_gt_cases b n) as [H|H]; [exact H|].
  exfalso. apply (Hc n); [lia|exact Hz].
Qed.

Lemma ix_unfold_loop_safe s n : first_nul s n -> forall fuel p w, (p <= n)%nat -> (w <= p)%nat -> (n - p < fuel)%nat ->
  exists l, ix_unfold_loop fuel s p (S n) w = Done l.
Proof.
  intros Hn. pose proof Hn as [Hnl [Hnz Hnc]].
  induction fuel as [|f IH]; intros p w Hp Hw Hf; [lia|].
  cbn [ix_unfold_loop]. unfold rdk at 1. rewrite rd_ok by lia.
  destruct (nth p s 0 =? 0) eqn:E0.
  - unfold wr. destruct (Nat.ltb_spec w (S n)); [eexists; reflexivity|lia].
  - apply neqb_neq in E0.
    assert (Hpn : (p < n)%nat).
    { destruct (Nat.eq_dec p n) as [->|]; [contradiction|lia]. }
    destruct (ix_skip_tabs_spec s (S (length s)) p) as [p1 [H1 [H1b H1c]]]; [lia|lia|].
    rewrite H1. cbn [bind].
    pose proof (clean_before s n p p1 Hn (Nat.lt_le_incl _ _ Hpn) H1c) as Hp1n.
    destruct (ix_strchr_spec s 10 ltac:(discriminate) (S (length s)) p1) as [q [Hq Hqs]]; [lia|lia|].
    rewrite Hq. cbn [bind].
    assert (exists e, (match q with Some e => Done e | None => ix_strlen (S (length s)) s p1 end) = Done e /\
                      (p1 <= e <= n)%nat /\ (nth e s 0 = 10 /\ (e < n)%nat \/ nth e s 0 <> 10 /\ e = n)) as [e [He [Heb Hek]]].
    { destruct q as [e|].
      - destruct Hqs as [Hj [Hv Hc]]. exists e. split; [reflexivity|].
        pose proof (clean_before _ _ _ _ Hn Hp1n Hc) as Hle.
        assert (e <> n) by (intros ->; rewrite Hnz in Hv; discriminate Hv).
        split; [lia|]. left. split; [exact Hv|lia].
      - destruct (ix_strlen_spec s (S (length s)) p1) as [e [He [Heb [Hez Hec]]]]; [lia|lia|].
        exists e. split; [exact He|].
        pose proof (clean_before _ _ _ _ Hn Hp1n Hec) as Hle.
        pose proof (clean_le _ _ _ Hn Hez) as Hge.
        split; [lia|]. right. split; [rewrite Hez; discriminate|lia]. }
    rewrite He. cbn [bind].
    destruct (ix_copy_line_safe s (S n) (S (length s)) p1 e w) as [l [w' [Hl Hw']]]; [lia|lia|lia|].
    rewrite Hl. cbn [bind fst snd]. unfold rdk. rewrite rd_ok by lia.
    destruct Hek as [[Hv Hlt]|[Hv Heq]].
    + rewrite Hv. cbn [N.eqb Pos.eqb].
      destruct (IH (S e) w') as [l' Hl']; [lia|lia|lia|]. rewrite Hl'. cbn [bind]. eexists; reflexivity.
    + destruct (nth e s 0 =? 10) eqn:E10; [apply N.eqb_eq in E10; contradiction|].
      destruct (IH e w') as [l' Hl']; [lia|lia|lia|]. rewrite Hl'. cbn [bind]. eexists; reflexivity.
Qed.

Theorem ix_unfoldheader_safe s : exists l, ix_unfoldheader s = Done l.
Proof.
  unfold ix_unfoldheader.
  destruct (ix_strlen_spec s (S (length s)) O) as [n [Hn [Hb [Hz Hc]]]]; [lia|lia|].
  rewrite Hn. cbn [bind].
  destruct (ix_strchr_spec s 10 ltac:(discriminate) (S (length s)) O) as [q [Hq _]]; [lia|lia|].
  rewrite Hq. cbn [bind]. destruct q; [|eexists; reflexivity].
  apply ix_unfold_loop_safe; [split; [lia|split; assumption]|lia|lia|lia].
Qed.

(* ---- handles into the attachment table ---------------------------------------------------------------------- *)
Lemma pa_walk_valid : forall t msg st, valid st msg = true -> pa_walk true t msg st <> None.
Proof.
  fix IH 1. intros [kids] msg st Hv. cbn [pa_walk]. rewrite Hv. cbn [negb]. clear Hv.
  revert msg st. induction kids as [|k r IHr]; intros msg st; [intros H; discriminate H|].
  cbn [t_gen t_size].
  destruct msg as [[g i]|]; cbn [valid t_gen]; rewrite ?Nat.eqb_refl; cbn [negb];
    (match goal with |- context [pa_walk true k ?h ?t] => destruct (pa_walk true k h t) as [st2|] eqn:E end;
     [apply IHr | exfalso; eapply IH; [|exact E]; cbn [valid t_gen]; apply Nat.eqb_refl]).
Qed.

Lemma pa_walk_stale_witness :
  pa_walk false (PNode [PNode [PNode []]]) None (mktbl 0 0) = None.
Proof. vm_compute. reflexivity. Qed.
