(* C03 - rules are evaluated with the documented first-match semantics.   (PARTIAL)
   Proved for every input:
   - conditions are exactly the boolean formulas over the matchers;
   - ARBITRARILY NESTED blocks of rules with plain action lists (no pass / break), any conditions: a nested block is
     entered only if its condition holds, the first rule that matches in depth-first order wins and exactly its
     actions are performed - equal to the documented semantics [spec_run] (C03_nested_first_match);
   - FLAT blocks whose action lists may end with pass or break, any conditions: the actions other than
     move / flag performed are exactly those the documented semantics selects - first match wins, pass keeps the
     actions and continues, break abandons the block (C03_flat_pass_break).
   - ANY nesting of blocks, any conditions, action lists that may end with pass or break (C03_general): whenever
     neither of the two pass events occurred during the evaluation (T1: a pass of another block is pending when a
     nested block ends; T2: the count of pending actions used there differs from the count of the block's own
     actions - the situations of the known findings F-03-T1 / F-03-T2), the actions other than move / flag
     performed are exactly those of the documented semantics [spec_run]: rules tried in order, first match wins,
     pass keeps the actions and continues, break abandons the block, a nested block is entered only if its
     condition holds.
   NOT proved: action lists with pass / break BEFORE their last action (the parser accepts them) and the final
   location when several move / flag actions are pending (refuted: F-21) - checked by the bounded-exhaustive
   and random correspondence of harness/c03.py against [spec_run]. *)
From Coq Require Import List Bool Arith.
Import ListNotations.
From MD Require Import EvalDefs EvalProofs EvalProofs2 EvalProofs3 EvalProofs4.

(* a condition built from and / or / ! / parentheses over matchers evaluates to its boolean meaning,
   whatever the match list holds and whichever sub-conditions are short-circuited *)
Theorem C03_condition_is_boolean_formula : forall c env cur ins ml st,
  fst (fst (eval (compile_cond c) env cur ins ml st)) = ev_of (sem c env).
Proof. exact eval_cond_sem. Qed.
Print Assumptions C03_condition_is_boolean_formula.

(* evaluating a condition never queues an action *)
Theorem C03_condition_queues_no_action : forall c env cur ins ml st,
  no_actions ml -> no_actions (snd (fst (eval (compile_cond c) env cur ins ml st))).
Proof. exact eval_cond_no_actions. Qed.
Print Assumptions C03_condition_queues_no_action.

(* first match wins (plain rules): nothing is done if no condition holds, otherwise exactly the
   actions of the first rule whose condition holds *)
Theorem C03_first_match_partial : forall rs env, forallb flat_rule rs = true ->
  run_rules rs env =
  match first_rule rs env with
  | Some acts => Some (map t_e (tentries acts 1 [1]))
  | None => None
  end.
Proof. exact flat_first_match. Qed.
Print Assumptions C03_first_match_partial.

(* nesting: depth-first, first match wins; equal to the documented semantics *)
Theorem C03_nested_first_match : forall rs env, plain_rules rs = true ->
  run_rules rs env = option_map entries_of (spec_run rs env).
Proof. exact nested_first_match_spec. Qed.
Print Assumptions C03_nested_first_match.

Theorem C03_nested_depth_first : forall rs env, plain_rules rs = true ->
  run_rules rs env = match first_tree (S (size_rules rs)) rs env with Some acts => Some (entries_of acts) | None => None end.
Proof. exact nested_first_match. Qed.
Print Assumptions C03_nested_depth_first.

(* pass and break in a flat block: the non-location actions are those of the documented semantics *)
Theorem C03_flat_pass_break : forall rs env, forallb flat2_rule rs = true ->
  option_map others_e (run_rules rs env) = option_map (filter other_act) (spec_run rs env).
Proof. exact flat_pass_break. Qed.
Print Assumptions C03_flat_pass_break.

Example C03_ex_nested_pass :
  let rules := [RActs (CAtom 0) [XLabel 0; XPass]; RActs (CAtom 1) [XLabel 1; XBreak]; RActs CAll [XDiscard]] in
  flat2_rule (hd (RActs CAll []) rules) = true /\
  run_rules rules (fun a => Nat.eqb a 0) = Some [MAct (XLabel 0) (mkdest None None); MAct XDiscard (mkdest None None)] /\
  run_rules rules (fun _ => true) = None.
Proof. vm_compute. repeat split; reflexivity. Qed.

(* pass and break in arbitrarily nested blocks, any conditions: on every evaluation without the pass events T1 / T2
   the non-location actions are those of the documented semantics *)
Theorem C03_general : forall rs env, ok_rules rs = true -> no_pass_events rs env = true ->
  option_map others_e (run_rules rs env) = option_map (filter other_act) (spec_run rs env).
Proof. exact general_rules. Qed.
Print Assumptions C03_general.

Theorem C03_general_clean : forall rs env, ok_rules rs = true -> clean rs env = true ->
  option_map others_e (run_rules rs env) = option_map (filter other_act) (spec_run rs env).
Proof. exact general_rules_clean. Qed.
Print Assumptions C03_general_clean.

(* non-vacuity: a block nested two deep with a pass in the inner block, a pass and a break in the outer one *)
Example C03_ex_general :
  let rules := [RBlock (CAtom 0) [RActs (CAtom 1) [XLabel 0; XPass];
                                  RBlock (CAtom 3) [RActs (CAtom 4) [XLabel 3; XPass]; RActs (CAtom 5) [XLabel 4]];
                                  RActs (CAtom 2) [XLabel 1; XBreak];
                                  RActs CAll [XLabel 2]];
                RActs CAll [XDiscard]] in
  let e1 := fun a => negb (Nat.eqb a 1) in                                   (* inner pass, then the next inner rule *)
  let e2 := fun a => negb (Nat.eqb a 1) && negb (Nat.eqb a 5) in             (* inner pass, nothing else in the inner block *)
  let e3 := fun a => negb (Nat.eqb a 1) && negb (Nat.eqb a 3) in             (* break abandons the outer block *)
  ok_rules rules = true /\
  no_pass_events rules e1 = true /\ option_map others_e (run_rules rules e1) = Some [XLabel 3; XLabel 4] /\
  no_pass_events rules e2 = true /\ option_map others_e (run_rules rules e2) = Some [XLabel 3] /\
  no_pass_events rules e3 = true /\ option_map others_e (run_rules rules e3) = Some [XLabel 1; XDiscard] /\
  no_pass_events rules (fun _ => true) = false.                              (* the outer pass is pending at the inner end: T1 *)
Proof. vm_compute. repeat split; reflexivity. Qed.

(* the statement without the restriction on action lists (pass / break anywhere in them): NOT PROVED *)
Definition C03_first_match_statement : Prop :=
  forall rules env, clean rules env = true ->
    match run_rules rules env, spec_run rules env with
    | Some l, Some acts => fst (summary l) = fst (summary (entries_of acts))
    | None, None => True
    | _, _ => False
    end.

(* non-vacuity *)
Example C03_ex_flat :
  run_rules [RActs (CAtom 0) [XMove 0]; RActs (COr (CAtom 1) (CNeg (CAtom 0))) [XLabel 1; XMove 1]; RActs CAll [XDiscard]]
            (fun a => Nat.eqb a 1)
  = Some [MAct (XLabel 1) (mkdest None None); MAct (XMove 1) (mkdest (Some 1) None)].
Proof. vm_compute. reflexivity. Qed.

(* ---- known findings: witnesses on the faithful model -------------------------------------------------------- *)
(* T1/T2 (pinned by the property text): a pass pending from the enclosing block decides a nested block:
   "label pass" / "match all { match <false> move }" / "match all move": only the label is performed *)
Lemma C03_refuted_pending_pass :
  let rules := [RActs CAll [XLabel 0; XPass]; RBlock CAll [RActs (CAtom 0) [XMove 0]]; RActs CAll [XMove 1]] in
  let env := fun _ : nat => false in
  run_rules rules env = Some [MAct (XLabel 0) (mkdest None None)] /\
  spec_run rules env = Some [XLabel 0; XMove 1] /\ clean rules env = false.
Proof. vm_compute. repeat split. Qed.
Print Assumptions C03_refuted_pending_pass.

(* F-02 (repaired in /repo): a negated condition that does not hold used to clear the WHOLE match list, losing the
   actions kept by an earlier pass ("label pass" / "match ! <true> move": the label was lost).  The evaluator now
   removes only the matches appended below the negation; the kept label is performed *)
Lemma C03_neg_keeps_pending :
  let rules := [RActs CAll [XLabel 0; XPass]; RActs (CNeg (CAtom 0)) [XMove 0]] in
  let env := fun _ : nat => true in
  run_rules rules env = Some [MAct (XLabel 0) (mkdest None None)] /\ spec_run rules env = Some [XLabel 0] /\ clean rules env = true.
Proof. vm_compute. repeat split. Qed.
Print Assumptions C03_neg_keeps_pending.

(* F-21 (location merge): "move A pass / move B pass / flag !new" ends in A/cur although the
   evaluation is clean and the selected actions are move A, move B, flag !new: matches_merge copies the
   maildir of the FIRST pending move *)
Lemma C03_refuted_location_merge :
  let rules := [RActs CAll [XMove 0; XPass]; RActs CAll [XMove 1; XPass]; RActs CAll [XFlag true]] in
  let env := fun _ : nat => true in
  clean rules env = true /\
  option_map (fun l => snd (summary l)) (run_rules rules env) = Some (Some (mkdest (Some 0) (Some true))) /\
  option_map (fun a => snd (summary (entries_of a))) (spec_run rules env) = Some (Some (mkdest (Some 1) (Some true))).
Proof. vm_compute. repeat split. Qed.
Print Assumptions C03_refuted_location_merge.
