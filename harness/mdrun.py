"""Helpers to run the mdsort binary built from /repo's working tree on generated maildirs."""
import os, shutil, subprocess, hashlib
import common


class Sandbox:
    """A scratch directory holding maildirs, a config and a private HOME/TMPDIR."""

    def __init__(self, prefix='mdv-sb-'):
        self.root = common.mktemp(prefix)
        self.home = os.path.join(self.root, 'home')
        self.tmp = os.path.join(self.root, 'tmp')
        os.makedirs(self.home)
        os.makedirs(self.tmp)
        self.counter = 0

    def maildir(self, name):
        p = os.path.join(self.root, name)
        for s in ('new', 'cur', 'tmp'):
            os.makedirs(os.path.join(p, s), exist_ok=True)
        return p

    def add(self, md, sub, content, name=None, mtime=None):
        if name is None:
            self.counter += 1
            name = '1600000000.%d_1.host' % self.counter + (':2,' if sub == 'cur' else '')
        p = os.path.join(md, sub, name)
        with open(p, 'wb') as f:
            f.write(content)
        if mtime is not None:
            os.utime(p, (mtime, mtime))
        return name

    def write_conf(self, text, name='mdsort.conf'):
        p = os.path.join(self.root, name)
        with open(p, 'wb') as f:
            f.write(text if isinstance(text, bytes) else text.encode())
        return p

    def env(self, extra=None):
        e = {'HOME': self.home, 'TMPDIR': self.tmp, 'PATH': os.environ.get('PATH', '/usr/bin:/bin'),
             'LC_ALL': 'C', 'TZ': 'UTC'}
        if extra:
            e.update(extra)
        return e

    def run(self, args, conf=None, stdin=None, env=None, kind='plain', timeout=60, preload=None, stdout_path=None, wrapper=None):
        exe = os.path.join(common.scratch_build(kind), 'mdsort')
        cmd = list(wrapper or []) + [exe]
        if conf is not None:
            cmd += ['-f', conf]
        cmd += list(args)
        e = self.env(env)
        if preload:
            e['LD_PRELOAD'] = preload
        try:
            if stdout_path is not None:
                with open(stdout_path, 'wb') as so:
                    r = subprocess.run(cmd, cwd=self.root, env=e, input=stdin, stdout=so, stderr=subprocess.PIPE, timeout=timeout)
                return r.returncode, b'', r.stderr
            r = subprocess.run(cmd, cwd=self.root, env=e, input=stdin, capture_output=True, timeout=timeout)
            return r.returncode, r.stdout, r.stderr
        except subprocess.TimeoutExpired as ex:
            return -999, ex.stdout or b'', ex.stderr or b''

    def snapshot(self, md, with_mtime=False):
        """{(sub, name): bytes}  (with_mtime: (bytes, mtime_ns))"""
        out = {}
        for sub in ('new', 'cur', 'tmp'):
            d = os.path.join(md, sub)
            if not os.path.isdir(d):
                continue
            for n in sorted(os.listdir(d)):
                p = os.path.join(d, n)
                if os.path.isfile(p) and not os.path.islink(p):
                    with open(p, 'rb') as f:
                        b = f.read()
                    out[(sub, n)] = (b, os.stat(p).st_mtime_ns) if with_mtime else b
        return out

    def tree(self):
        """Recursive listing of the whole sandbox: {relpath: (kind, size, sha1, mtime_ns)}"""
        out = {}
        for dp, dn, fn in os.walk(self.root):
            for n in dn + fn:
                p = os.path.join(dp, n)
                rel = os.path.relpath(p, self.root)
                st = os.lstat(p)
                if os.path.isfile(p) and not os.path.islink(p):
                    with open(p, 'rb') as f:
                        h = hashlib.sha1(f.read()).hexdigest()
                    out[rel] = ('f', st.st_size, h, st.st_mtime_ns)
                else:
                    out[rel] = ('d', 0, '', 0)
        return out

    def cleanup(self):
        shutil.rmtree(self.root, ignore_errors=True)


def conf_quote(s):
    """A configuration string literal for the bytes s (no NUL, escapes the double quote)."""
    return b'"' + s.replace(b'"', b'\\"') + b'"'
