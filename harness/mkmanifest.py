#!/usr/bin/env python3
"""Writes MANIFEST.json from the table below (kept here so that the manifest stays valid)."""
import json, os
HERE = os.path.dirname(os.path.dirname(os.path.abspath(__file__)))

CLAIMED = {
 'C16': dict(
   text='Coq theorems about the hand-written model of decode.c: base64_decode = RFC 4648 spec for every byte string, '
        'target bound branches unreachable, QP inverts every QP rendering and never fails, RFC 2047 total / raw on malformed '
        '(full factorisation theorem not proved: partial for that decoder). Model tied to the code by a differential run of the '
        'extracted model against decode.c (exhaustive <=4/<=6 over the 14-symbol alphabet + structured random, plain and ASan/UBSan builds).',
   note='Trusted: Coq kernel, gen_tables.py (Base64 alphabet, Pad64), ExtrOcamlBasic extraction, decode.h driver, C-locale ctype. '
        'Control flow of decode.c is modelled by hand and tied only by correspondence.',
   technique='Coq proof (induction over the input, finite sweeps lifted by forallb_forall) + extracted-model differential correspondence',
   ref='DESIGN 6 C16'),
 'C08': dict(
   text='Coq theorems about the hand-written model of message.c header handling: for every well-formed message text (any fields, duplicates, '
        'case, folding, 8-bit, length) parse recovers exactly fields+body; after any sequence of set_header calls the written bytes are the '
        'untouched original fields in order (names, values incl. folding), each set name exactly once with the last value, and the original body; '
        'the written file re-reads as exactly that. Complementary classes (NUL, unterminated last header, leading empty body lines, CRLF separator) '
        'are refuted by witness lemmas and pinned as known findings F-10a-d. Model tied by differential runs (message.h driver + mdsort binary) '
        'and an independent RFC 5322 line reader as monitor.',
   note='Trusted: Coq kernel, extraction, message.h driver, python monitor, glibc qsort being a stable merge sort (modelled as stable insertion sort; '
        'the binary-search theorem itself holds for any key-sorted permutation). Control flow of message.c modelled by hand.',
   technique='Coq proof (invariant over the sequence of set_header operations, sorted-permutation uniqueness, binary-search correctness) + differential correspondence',
   ref='DESIGN 6 C08'),
 'C10': dict(
   text='Coq theorems: a header condition on a parsed well-formed message is true iff the pattern (any regexec function) matches the unfolded, '
        'RFC 2047-decoded value of some occurrence of some named field (names case-insensitive); binary search + run extension returns exactly '
        'the run of equal names on any key-sorted table and never indexes out of bounds; unfolding yields one line. Tied by differential runs of '
        'message_get_header and of the binary with header rules whose regex outcome is computed by the platform regexec.',
   note='Trusted: as C08/C16 plus platform regcomp/regexec used as oracle on both sides; RFC 2047 full factorisation not proved (see C16).',
   technique='Coq proof (sorted-array binary search, stability of the sort, iff over names/fields) + differential correspondence with platform regexec',
   ref='DESIGN 6 C10'),
}

ALL = ['C%02d' % i for i in range(1, 19)]

def main():
    checks = []
    for pid in ALL:
        if pid not in CLAIMED:
            continue
        c = CLAIMED[pid]
        checks.append({
            'property_id': pid,
            'quick_cmd': './check %s --tier quick' % pid,
            'thorough_cmd': './check %s --tier thorough' % pid,
            'evidence_file': 'evidence/%s.json' % pid,
            'replay_cmd_template': './check %s --replay {path}' % pid,
            'engine': 'coq-model+correspondence',
            'level_claimed': {'category': 'proof', 'text': c['text'], 'design_ref': c['ref']},
            'level_note': c['note'],
            'technique': c['technique'],
        })
    na = [{'property_id': p, 'reason': 'not claimed yet: the model/theorems/correspondence for this property are not built at this commit (see DESIGN.md section 11)'}
          for p in ALL if p not in CLAIMED]
    m = {
        'version': 1,
        'setup_cmd': './setup.sh',
        'hooks': {'guard': 'MDSORT_VERIF', 'enable': 'none needed: checks observe through public headers, LD_PRELOAD and the binary; no hook commits',
                  'baseline_off_cmd': 'cd /repo && ./configure >/dev/null && make -j8 >/dev/null && make test',
                  'source_commits': [], 'add_only': True},
        'engines': [{'name': 'coq-model+correspondence', 'path': 'check', 'serves_properties': sorted(CLAIMED),
                     'kind_free_text': 'Coq 8.16 theorems about hand-written Gallina models (coq/), tables regenerated from source (harness/gen_tables.py), '
                                       'extracted OCaml model (ocaml/) compared with the implementation built from /repo working tree (cdrv/, shim/)'}],
        'checks': checks,
        'not_applicable': na,
        'notes': 'Entry point ./check <id> --tier quick|thorough; VERIF_SEED honoured. known-findings.txt lists pinned defects.',
    }
    with open(os.path.join(HERE, 'MANIFEST.json'), 'w') as f:
        json.dump(m, f, indent=1)

if __name__ == '__main__':
    main()
