(* C03, second fragment: blocks of plain rules whose action lists may END with pass or break, any conditions.  The non-location actions performed are exactly those the documented semantics
   selects (first match wins, pass keeps the actions and continues, break abandons the block).
   Location entries (move / flag) are merged by matches_merge and are not part of this statement (F-21). *)
From Coq Require Import List Bool Arith Lia.
Import ListNotations.
From MD Require Import EvalDefs EvalProofs.

(* ---- what is observed: the actions other than move / flag / pass / break, in order -------------------------- *)
Definition other_act (a : act) : bool := match a with XMove _ | XFlag _ | XPass | XBreak => false | _ => true end.
Definition proj (t : tentry) : list act := match t_e t with MAct a _ => if other_act a then [a] else [] | _ => [] end.
Definition others (ml : list tentry) : list act := flat_map proj ml.
Definition has (k : act -> bool) (ml : list tentry) : bool := existsb (tk k) ml.
Definition is_loc (t : tentry) : bool := tk k_move t || tk k_flag t.

Lemma others_app a b : others (a ++ b) = others a ++ others b.
Proof. apply flat_map_app. Qed.

Lemma has_app k a b : has k (a ++ b) = has k a || has k b.
Proof. apply existsb_app. Qed.

Lemma take_first_split p : forall l x l', take_first p l = Some (x, l') ->
  exists pre post, l = pre ++ x :: post /\ l' = pre ++ post /\ p x = true.
Proof.
  induction l as [|y l IH]; intros x l' H; cbn [take_first] in H; [discriminate H|].
  destruct (p y) eqn:Ep.
  - injection H as <- <-. exists [], l. repeat split; try reflexivity; exact Ep.
  - destruct (take_first p l) as [[z r]|] eqn:E; [|discriminate H]. injection H as <- <-.
    destruct (IH _ _ eq_refl) as (pre & post & -> & -> & Hp). exists (y :: pre), post. repeat split; try reflexivity; assumption.
Qed.

Lemma rev_cons_split {A} (l : list A) x r : rev l = x :: r -> l = rev r ++ [x].
Proof. intros H. rewrite <- (rev_involutive l), H. reflexivity. Qed.

(* matches_append puts the new entry last and removes at most one earlier move / flag entry *)
Ltac shape_same := eexists _, _; split; [reflexivity|left; reflexivity].
Ltac shape_removed Et :=
  apply take_first_split in Et; destruct Et as (pre & post & -> & -> & Hp);
  eexists _, _; split; [reflexivity|]; right; eexists pre, _, post; repeat split;
  unfold is_loc; rewrite Hp; first [reflexivity | apply orb_true_r].
Ltac shape_tf k :=
  match goal with
  | |- context [take_first (tk k) ?l] =>
      let Et := fresh "Et" in
      destruct (take_first (tk k) l) as [[[e0 o0 i0] l0]|] eqn:Et;
      [destruct e0 as [| |a0 d0]; [shape_same|shape_same|destruct a0; first [shape_same | shape_removed Et]]|shape_same]
  end.

Lemma append_shape ml a o ins : exists l1 d,
  append ml a o ins = l1 ++ [mkt (MAct a d) o ins] /\
  (l1 = ml \/ exists pre y post, ml = pre ++ y :: post /\ l1 = pre ++ post /\ is_loc y = true).
Proof.
  unfold append. destruct a as [md|c|n|n|n|n| | | |]; try shape_same.
  - destruct (rev ml) as [|[e' o' i'] rest] eqn:E.
    + assert (ml = []) as -> by (destruct ml; [reflexivity|apply (f_equal (@length _)) in E; rewrite rev_length in E; discriminate E]).
      cbn [take_first]. shape_same.
    + destruct e' as [| |a' d']; cbn [t_e]; [shape_tf k_flag|shape_tf k_flag|].
      destruct a'; try (shape_tf k_flag).
      apply rev_cons_split in E. subst ml.
      eexists (rev rest), _. split; [reflexivity|]. right. eexists (rev rest), _, []. rewrite app_nil_r. repeat split.
  - destruct (rev ml) as [|[e' o' i'] rest] eqn:E.
    + assert (ml = []) as -> by (destruct ml; [reflexivity|apply (f_equal (@length _)) in E; rewrite rev_length in E; discriminate E]).
      cbn [take_first]. shape_same.
    + destruct e' as [| |a' d']; cbn [t_e]; [shape_tf k_move|shape_tf k_move|].
      destruct a'; try (shape_tf k_move).
      apply rev_cons_split in E. subst ml.
      eexists (rev rest), _. split; [reflexivity|]. right. eexists (rev rest), _, []. rewrite app_nil_r. repeat split.
Qed.

Lemma proj_loc y : is_loc y = true -> proj y = [].
Proof.
  unfold is_loc, tk, is_kind, proj. destruct (t_e y) as [| |a d]; cbn; try discriminate.
  destruct a; cbn; intros H; try discriminate H; reflexivity.
Qed.

Lemma others_append ml a o ins : others (append ml a o ins) = others ml ++ (if other_act a then [a] else []).
Proof.
  destruct (append_shape ml a o ins) as (l1 & d & -> & [->|(pre & y & post & -> & -> & Hy)]).
  - rewrite others_app. change (others [mkt (MAct a d) o ins]) with ((if other_act a then [a] else []) ++ []). rewrite app_nil_r. reflexivity.
  - rewrite !others_app. change (others (y :: post)) with (proj y ++ others post). rewrite (proj_loc y Hy). cbn [app].
    change (others [mkt (MAct a d) o ins]) with ((if other_act a then [a] else []) ++ []). rewrite app_nil_r, <- app_assoc. reflexivity.
Qed.

Lemma has_append k ml a o ins : (forall b, k b = true -> k_move b = false /\ k_flag b = false) ->
  has k (append ml a o ins) = has k ml || k a.
Proof.
  intros Hk.
  assert (Hloc : forall y, is_loc y = true -> tk k y = false).
  { intros y Hy. unfold is_loc, tk, is_kind in *. destruct (t_e y) as [| |b d]; try reflexivity.
    destruct (k b) eqn:E; [|reflexivity]. destruct (Hk b E) as [H1 H2]. rewrite H1, H2 in Hy. discriminate Hy. }
  destruct (append_shape ml a o ins) as (l1 & d & -> & [->|(pre & y & post & -> & -> & Hy)]).
  - rewrite has_app. change (has k [mkt (MAct a d) o ins]) with (k a || false). rewrite orb_false_r. reflexivity.
  - rewrite !has_app. change (has k (y :: post)) with (tk k y || has k post). rewrite (Hloc y Hy). cbn [orb].
    change (has k [mkt (MAct a d) o ins]) with (k a || false). rewrite orb_false_r, <- orb_assoc. reflexivity.
Qed.

(* some action other than pass is pending *)
Definition real (ml : list tentry) : bool := existsb (fun t => is_action (t_e t) && negb (tk k_pass t)) ml.

Lemma real_app a b : real (a ++ b) = real a || real b.
Proof. apply existsb_app. Qed.

Lemma real_append ml a o ins : real (append ml a o ins) = real ml || negb (k_pass a).
Proof.
  destruct (append_shape ml a o ins) as (l1 & d & E & [->|(pre & y & post & -> & -> & Hy)]).
  - rewrite E, real_app. change (real [mkt (MAct a d) o ins]) with (negb (k_pass a) || false). rewrite orb_false_r. reflexivity.
  - rewrite E. rewrite !real_app. change (real [mkt (MAct a d) o ins]) with (negb (k_pass a) || false). rewrite !orb_false_r.
    (* a location entry was removed, so a itself is a move or a flag: not pass *)
    assert (Ha : k_pass a = false).
    { unfold append in E. destruct a; try reflexivity.
      exfalso. apply (f_equal (@length _)) in E. rewrite !app_length in E. cbn [length] in E. lia. }
    rewrite Ha. cbn [negb]. rewrite !orb_true_r. reflexivity.
Qed.

Lemma acts_left_real ml : Nat.eqb (acts_left (filter (fun t => negb (tk k_pass t)) ml)) 0 = negb (real ml).
Proof.
  unfold acts_left, real. induction ml as [|t r IH]; [reflexivity|].
  cbn [filter existsb]. destruct (tk k_pass t) eqn:Ep; cbn [negb].
  - rewrite andb_false_r. cbn [orb]. exact IH.
  - cbn [filter]. destruct (is_action (t_e t)); cbn [andb orb length Nat.eqb negb]; [reflexivity|exact IH].
Qed.

(* ---- a condition only appends pattern matches to the list and leaves the events alone ----------------------------- *)
Lemma eval_cond_pos c env : forall cur ins ml st,
  exists pats, no_actions pats /\ eval (compile_cond c) env cur ins ml st = (ev_of (sem c env), ml ++ pats, st).
Proof.
  induction c as [a|a| |l IHl r IHr|l IHl r IHr|c IH]; intros cur ins ml st; cbn [compile_cond eval sem] in *.
  - destruct (env a); [exists [mkt (MPat a) cur ins]; split; [repeat constructor|reflexivity]|
                        exists []; split; [constructor|rewrite app_nil_r; reflexivity]].
  - exists []. split; [constructor|]. rewrite app_nil_r. destruct (env a); reflexivity.
  - exists []. split; [constructor|]. rewrite app_nil_r. reflexivity.
  - destruct (IHl cur ins ml st) as (p1 & Hn1 & E1). rewrite E1.
    destruct (sem l env); cbn [ev_of andb].
    + destruct (IHr cur ins (ml ++ p1) st) as (p2 & Hn2 & E2). rewrite E2.
      exists (p1 ++ p2). split; [apply Forall_app; split; assumption|]. rewrite app_assoc. reflexivity.
    + exists p1. split; [exact Hn1|reflexivity].
  - destruct (IHl cur ins ml st) as (p1 & Hn1 & E1). rewrite E1.
    destruct (sem l env); cbn [ev_of orb].
    + exists p1. split; [exact Hn1|reflexivity].
    + destruct (IHr cur ins (ml ++ p1) st) as (p2 & Hn2 & E2). rewrite E2.
      exists (p1 ++ p2). split; [apply Forall_app; split; assumption|]. rewrite app_assoc. reflexivity.
  - destruct (IH cur ins ml st) as (p1 & Hn1 & E1). rewrite E1.
    destruct (sem c env); cbn [ev_of negb].
    + exists []. split; [constructor|]. rewrite app_nil_r. reflexivity.
    + exists p1. split; [exact Hn1|reflexivity].
Qed.

Lemma no_actions_others pats : no_actions pats -> others pats = [] /\ (forall k, has k pats = false) /\ real pats = false.
Proof.
  induction 1 as [|t r Ht _ [IH1 [IH2 IH3]]]; [repeat split; reflexivity|].
  unfold others, has, real in *. cbn [flat_map existsb]. unfold proj, tk, is_kind.
  destruct (t_e t) as [| |a d]; try discriminate Ht; cbn [app orb andb]; repeat split; try assumption; intros k; apply IH2.
Qed.

(* ---- action lists that may end with pass or break ------------------------------------------------------------- *)
Definition fold_app (acts : list act) (o : nat) (ins : list nat) (ml : list tentry) : list tentry :=
  fold_left (fun ml a => append ml a o ins) acts ml.

Lemma others_fold acts o ins : forall ml, others (fold_app acts o ins ml) = others ml ++ filter other_act acts.
Proof.
  unfold fold_app. induction acts as [|a r IH]; intros ml; cbn [fold_left filter]; [rewrite app_nil_r; reflexivity|].
  rewrite IH, others_append, <- app_assoc. destruct (other_act a); reflexivity.
Qed.

Lemma has_fold k acts o ins : (forall b, k b = true -> k_move b = false /\ k_flag b = false) ->
  forall ml, has k (fold_app acts o ins ml) = has k ml || existsb k acts.
Proof.
  intros Hk. unfold fold_app. induction acts as [|a r IH]; intros ml; cbn [fold_left existsb]; [rewrite orb_false_r; reflexivity|].
  rewrite IH, (has_append k _ _ _ _ Hk), orb_assoc. reflexivity.
Qed.

Lemma real_fold acts o ins : forall ml, real (fold_app acts o ins ml) = real ml || existsb (fun a => negb (k_pass a)) acts.
Proof.
  unfold fold_app. induction acts as [|a r IH]; intros ml; cbn [fold_left existsb]; [rewrite orb_false_r; reflexivity|].
  rewrite IH, real_append, orb_assoc. reflexivity.
Qed.

Lemma compile_acts_from_app a b : forall e0, compile_acts_from e0 (a ++ b) = compile_acts_from (compile_acts_from e0 a) b.
Proof. induction a as [|x r IH]; intros e0; cbn [app compile_acts_from]; [reflexivity|apply IH]. Qed.

Definition ends_pass (acts : list act) : bool := ends_with k_pass acts.
Definition pass_only_last (acts : list act) : bool := forallb (fun a => negb (k_pass a)) (removelast acts).

Lemma eval_acts2 acts e env cur ins ml st : compile_acts acts = Some e -> pass_only_last acts = true ->
  eval e env cur ins ml st = (if ends_pass acts then NoMatch else Match, fold_app acts cur ins ml, st).
Proof.
  intros Hc Hp. destruct acts as [|a r]; [discriminate Hc|]. injection Hc as <-.
  destruct (exists_last (l := a :: r) ltac:(discriminate)) as (body & z & E).
  assert (Hrl : removelast (a :: r) = body) by (rewrite E; apply removelast_last).
  unfold pass_only_last in Hp. rewrite Hrl in Hp.
  assert (Hend : ends_pass (a :: r) = k_pass z) by (unfold ends_pass, ends_with; rewrite E, rev_unit; reflexivity).
  rewrite Hend. unfold fold_app.
  destruct body as [|b0 body'].
  - cbn [app] in E. injection E as -> ->. cbn [compile_acts_from eval fold_left]. destruct z; reflexivity.
  - cbn [app] in E. injection E as -> ->.
    rewrite compile_acts_from_app. cbn [compile_acts_from]. cbn [eval].
    cbn [forallb] in Hp. apply andb_prop in Hp. destruct Hp as [Hb0 Hb].
    rewrite (eval_acts_chain body' (EAct b0) env cur ins ml (append ml b0 cur ins) st st Hb).
    + cbn [fold_left]. rewrite fold_left_app. cbn [fold_left]. destruct z; reflexivity.
    + cbn [eval]. destruct b0; try reflexivity. discriminate Hb0.
Qed.

(* ---- rules ------------------------------------------------------------------------------------------------------ *)
Definition marker (acts : list act) : nat :=          (* 0 none, 1 pass, 2 break *)
  match rev acts with XPass :: _ => 1 | XBreak :: _ => 2 | _ => 0 end.
Definition body_of (acts : list act) : list act := match marker acts with O => acts | _ => removelast acts end.

Definition flat2_rule (r : rule) : bool :=
  match r with
  | RActs c acts => negb (match acts with [] => true | _ => false end) && forallb plain_act (body_of acts)
  | RBlock _ _ => false
  end.

Lemma acts_split acts : acts <> [] ->
  acts = body_of acts ++ match marker acts with 1 => [XPass] | 2 => [XBreak] | _ => [] end.
Proof.
  intros Hne. destruct (exists_last Hne) as (b & z & E). unfold body_of, marker. rewrite E, rev_unit, removelast_last.
  destruct z; cbn; rewrite ?app_nil_r; reflexivity.
Qed.

Lemma plain_facts body : forallb plain_act body = true ->
  existsb k_pass body = false /\ existsb k_break body = false /\ forallb (fun a => negb (k_pass a)) body = true /\
  existsb (fun a => negb (k_pass a)) body = negb (match body with [] => true | _ => false end).
Proof.
  induction body as [|a r IH]; intros H; [repeat split; reflexivity|].
  cbn [forallb] in H. apply andb_prop in H. destruct H as [Ha Hr]. destruct (IH Hr) as (I1 & I2 & I3 & I4).
  unfold plain_act in Ha. apply negb_true_iff in Ha. apply orb_false_elim in Ha. destruct Ha as [Hp Hb].
  cbn [existsb forallb]. rewrite Hp, Hb, I1, I2, I3. repeat split; reflexivity.
Qed.

(* the state of the list relevant for the block's decision *)
Record lstate := mkls { ls_others : list act; ls_pass : bool; ls_break : bool; ls_real : bool }.
Definition state_of (ml : list tentry) : lstate := mkls (others ml) (has k_pass ml) (has k_break ml) (real ml).

Lemma kpass_loc b : k_pass b = true -> k_move b = false /\ k_flag b = false.
Proof. destruct b; cbn; intros H; try discriminate H; split; reflexivity. Qed.
Lemma kbreak_loc b : k_break b = true -> k_move b = false /\ k_flag b = false.
Proof. destruct b; cbn; intros H; try discriminate H; split; reflexivity. Qed.

Lemma eval_flat2_rule c acts env cur ins ml st : flat2_rule (RActs c acts) = true ->
  exists ml', eval (compile_rule (RActs c acts)) env cur ins ml st =
              ((if sem c env then (if Nat.eqb (marker acts) 1 then NoMatch else Match) else NoMatch), ml', st) /\
    state_of ml' =
    if sem c env
    then mkls (others ml ++ filter other_act (body_of acts))
              (has k_pass ml || Nat.eqb (marker acts) 1) (has k_break ml || Nat.eqb (marker acts) 2)
              (real ml || negb (match body_of acts with [] => true | _ => false end) || Nat.eqb (marker acts) 2)
    else state_of ml.
Proof.
  intros Hf. cbn [flat2_rule] in Hf. apply andb_prop in Hf. destruct Hf as [Hne Hpl].
  assert (Hacts : acts <> []) by (destruct acts; [discriminate Hne|discriminate]).
  cbn [compile_rule]. destruct (compile_acts acts) as [e|] eqn:Ec; [|destruct acts; [contradiction|discriminate Ec]].
  cbn [eval].
  destruct (eval_cond_pos c env cur ins (ml ++ [mkt MSentinel cur ins]) st) as (pats & Hn & Ecnd). rewrite Ecnd.
  destruct (no_actions_others pats Hn) as (Po & Ph & Pr).
  assert (Hbase : state_of ((ml ++ [mkt MSentinel cur ins]) ++ pats) = state_of ml).
  { unfold state_of. rewrite !others_app, !has_app, !real_app, Po, !Ph, Pr. cbn. rewrite !app_nil_r, !orb_false_r. reflexivity. }
  destruct (sem c env); cbn [ev_of].
  2:{ eexists. split; [reflexivity|exact Hbase]. }
  pose proof (acts_split acts Hacts) as Hsplit.
  destruct (plain_facts _ Hpl) as (B1 & B2 & B3 & B4).
  assert (Hpol : pass_only_last acts = true).
  { unfold pass_only_last. destruct (marker acts) as [|[|[|m]]] eqn:Em; unfold body_of in *; rewrite Em in *.
    - (* no marker: acts = body, all plain *)
      clear -B3. induction acts as [|a r IH]; [reflexivity|]. cbn [forallb] in B3. apply andb_prop in B3. destruct B3 as [Ha Hr].
      destruct r as [|b r']; [reflexivity|]. cbn [removelast forallb]. rewrite Ha. apply IH. exact Hr.
    - exact B3.
    - exact B3.
    - unfold marker in Em. destruct (rev acts) as [|[]]; discriminate Em. }
  rewrite (eval_acts2 acts e env cur ins _ st Ec Hpol).
  assert (Hep : ends_pass acts = Nat.eqb (marker acts) 1).
  { unfold ends_pass, ends_with, marker. destruct (rev acts) as [|[] ?]; reflexivity. }
  rewrite Hep. eexists. split; [reflexivity|].
  unfold state_of. rewrite others_fold, (has_fold k_pass _ _ _ kpass_loc), (has_fold k_break _ _ _ kbreak_loc), real_fold.
  injection Hbase as H1 H2 H3 H4. rewrite H1, H2, H3, H4.
  rewrite Hsplit at 1 2 3 4.
  rewrite filter_app, !existsb_app, B1, B2.
  destruct (marker acts) as [|[|[|m]]] eqn:Em;
    [| | |unfold marker in Em; destruct (rev acts) as [|[]]; discriminate Em];
    cbn [filter other_act existsb k_pass k_break negb app Nat.eqb orb];
    rewrite ?app_nil_r, ?orb_false_r, ?B4;
    destruct (real ml), (has k_pass ml), (has k_break ml), (match body_of acts with [] => true | _ => false end); reflexivity.
Qed.

(* ---- the documented semantics of such a block, as a plain recursion ---------------------------------------------- *)
Inductive fres := FMatched (acc : list act) (passed : bool) | FBroken | FFall (acc : list act) (passed : bool).

Fixpoint fsem (rs : list rule) (env : nat -> bool) (acc : list act) (passed : bool) : fres :=
  match rs with
  | [] => FFall acc passed
  | RActs c acts :: t =>
      if sem c env then
        match marker acts with
        | 1 => fsem t env (acc ++ body_of acts) true
        | 2 => FBroken
        | _ => FMatched (acc ++ body_of acts) passed
        end
      else fsem t env acc passed
  | RBlock _ _ :: _ => FFall acc passed
  end.

Definition isnil {A} (l : list A) : bool := match l with [] => true | _ => false end.

Definition Inv (ml : list tentry) (acc : list act) (passed : bool) : Prop :=
  state_of ml = mkls (filter other_act acc) passed false (negb (isnil acc)).

Lemma isnil_app {A} (a b : list A) : isnil (a ++ b) = isnil a && isnil b.
Proof. destruct a; reflexivity. Qed.

Lemma eval_flat2_rules rs : forall env cur ins ml st acc passed,
  Inv ml acc passed -> forallb flat2_rule rs = true -> rs <> [] ->
  exists v ml', eval (match rs with r :: t => chain (compile_rule r) t | [] => EAll end) env cur ins ml st = (v, ml', st) /\
    match fsem rs env acc passed with
    | FMatched acc' p' => v = Match /\ Inv ml' acc' p' /\ acc' <> []
    | FBroken => v = Match /\ has k_break ml' = true
    | FFall acc' p' => v = NoMatch /\ Inv ml' acc' p'
    end.
Proof.
  induction rs as [|r t IH]; intros env cur ins ml st acc passed HI Hf Hne; [contradiction|].
  cbn [forallb] in Hf. apply andb_prop in Hf. destruct Hf as [Hr Ht].
  destruct r as [c acts|c sub]; [|discriminate Hr].
  destruct (eval_flat2_rule c acts env cur ins ml st Hr) as (ml1 & E1 & S1).
  rewrite eval_chain, E1. cbn [fsem].
  assert (Hbody : marker acts = 0 -> body_of acts <> []).
  { intros Hm. unfold body_of. rewrite Hm. cbn [flat2_rule] in Hr. apply andb_prop in Hr. destruct Hr as [Hr _].
    destruct acts; [discriminate Hr|discriminate]. }
  unfold Inv in HI. injection HI as I1 I2 I3 I4.
  destruct (sem c env).
  - rewrite I1, I2, I3, I4 in S1.
    destruct (marker acts) as [|[|[|m]]] eqn:Em; cbn [Nat.eqb] in *.
    + (* a plain rule: the block stops here *)
      exists Match, ml1. split; [reflexivity|]. split; [reflexivity|]. split.
      * unfold Inv. rewrite S1, filter_app, isnil_app, !orb_false_r.
        destruct (body_of acts) eqn:Eb; [exfalso; apply (Hbody eq_refl); reflexivity|].
        cbn [isnil andb negb]. rewrite andb_false_r, orb_true_r. reflexivity.
      * intros H. apply app_eq_nil in H. destruct H as [_ H]. apply (Hbody eq_refl). exact H.
    + (* pass: keep going *)
      assert (HI' : Inv ml1 (acc ++ body_of acts) true).
      { unfold Inv. rewrite S1, filter_app, isnil_app, !orb_false_r, orb_true_r. cbn [orb]. unfold isnil.
        destruct acc, (body_of acts); reflexivity. }
      destruct t as [|r2 t2].
      * exists NoMatch, ml1. split; [reflexivity|]. cbn [fsem]. split; [reflexivity|exact HI'].
      * destruct (IH env cur ins ml1 st _ _ HI' Ht ltac:(discriminate)) as (v & ml2 & E2 & R2).
        exists v, ml2. split; [exact E2|exact R2].
    + exists Match, ml1. split; [reflexivity|]. split; [reflexivity|].
      injection S1 as _ _ S3 _. rewrite S3. reflexivity.
    + exfalso. unfold marker in Em. destruct (rev acts) as [|[]]; discriminate Em.
  - assert (HI' : Inv ml1 acc passed) by (unfold Inv; rewrite S1; unfold state_of; rewrite I1, I2, I3, I4; reflexivity).
    destruct t as [|r2 t2].
    + exists NoMatch, ml1. split; [reflexivity|]. cbn [fsem]. split; [reflexivity|exact HI'].
    + destruct (IH env cur ins ml1 st _ _ HI' Ht ltac:(discriminate)) as (v & ml2 & E2 & R2).
      exists v, ml2. split; [exact E2|exact R2].
Qed.

(* ---- the same recursion is what spec_rules (the documented semantics) computes on such blocks ------------------- *)
Lemma filter_plain_id body : forallb plain_act body = true -> plain_acts body = body.
Proof.
  unfold plain_acts. induction body as [|a r IH]; intros H; [reflexivity|].
  cbn [forallb] in H. apply andb_prop in H. destruct H as [Ha Hr]. cbn [filter].
  unfold plain_act in Ha. rewrite Ha. rewrite (IH Hr). reflexivity.
Qed.

Lemma flat2_spec_facts c acts : flat2_rule (RActs c acts) = true ->
  plain_acts acts = body_of acts /\ ends_with k_pass acts = Nat.eqb (marker acts) 1 /\
  (ends_with k_pass acts = false -> existsb k_break acts = Nat.eqb (marker acts) 2).
Proof.
  intros Hf. cbn [flat2_rule] in Hf. apply andb_prop in Hf. destruct Hf as [Hne Hpl].
  assert (Hacts : acts <> []) by (destruct acts; [discriminate Hne|discriminate]).
  pose proof (acts_split acts Hacts) as Hs. destruct (plain_facts _ Hpl) as (B1 & B2 & _ & _).
  split; [|split].
  - rewrite Hs at 1. unfold plain_acts. rewrite filter_app. fold (plain_acts (body_of acts)). rewrite (filter_plain_id _ Hpl).
    destruct (marker acts) as [|[|[|m]]]; cbn; rewrite ?app_nil_r; reflexivity.
  - unfold ends_with, marker. destruct (rev acts) as [|[] ?]; reflexivity.
  - intros _. rewrite Hs at 1. rewrite existsb_app, B2.
    destruct (marker acts) as [|[|[|m]]] eqn:Em; try reflexivity.
Qed.

Lemma spec_fsem rs env : forallb flat2_rule rs = true -> forall fuel acc passed, (length rs < fuel)%nat ->
  match fsem rs env acc passed with
  | FMatched a p => spec_rules fuel rs env acc passed = (a, BMatched)
  | FBroken => snd (spec_rules fuel rs env acc passed) = BBroken
  | FFall a p => spec_rules fuel rs env acc passed = (a, BFellThrough p)
  end.
Proof.
  induction rs as [|r t IH]; intros Hf fuel acc passed Hl.
  - destruct fuel; reflexivity.
  - destruct fuel as [|f]; [cbn [length] in Hl; lia|].
    cbn [forallb] in Hf. apply andb_prop in Hf. destruct Hf as [Hr Ht].
    destruct r as [c acts|c sub]; [|discriminate Hr].
    destruct (flat2_spec_facts c acts Hr) as (P1 & P2 & P3).
    cbn [fsem spec_rules]. destruct (sem c env); cbn [negb].
    + rewrite P2. destruct (marker acts) as [|[|[|m]]] eqn:Em; cbn [Nat.eqb] in *.
      * rewrite (P3 P2). rewrite P1. reflexivity.
      * rewrite P1. apply IH; [exact Ht|cbn [length] in Hl; lia].
      * rewrite (P3 P2). reflexivity.
      * exfalso. unfold marker in Em. destruct (rev acts) as [|[]]; discriminate Em.
    + apply IH; [exact Ht|cbn [length] in Hl; lia].
Qed.

Lemma rules_size_gt rs : (length rs < rules_size rs)%nat.
Proof.
  unfold rules_size. induction rs as [|r t IH]; cbn [length fold_right]; [lia|].
  assert (1 <= rule_size r)%nat by (destruct r; cbn; lia). lia.
Qed.

(* what is observed of the entries handed to matches_exec *)
Definition others_e (l : list entry) : list act :=
  flat_map (fun e => match e with MAct a _ => if other_act a then [a] else [] | _ => [] end) l.

Lemma others_e_actions ml : others_e (filter is_action (map t_e ml)) = others ml.
Proof.
  induction ml as [|t r IH]; [reflexivity|]. cbn [map filter]. unfold others in *. cbn [flat_map]. unfold proj at 1.
  destruct (t_e t) as [| |a d]; cbn [is_action]; [exact IH|exact IH|]. cbn [others_e flat_map]. fold (others_e (filter is_action (map t_e r))).
  rewrite IH. reflexivity.
Qed.

Lemma others_nopass ml : others (filter (fun t => negb (tk k_pass t)) ml) = others ml.
Proof.
  unfold others. induction ml as [|t r IH]; [reflexivity|]. cbn [filter flat_map].
  destruct (tk k_pass t) eqn:E; cbn [negb flat_map]; [|rewrite IH; reflexivity].
  rewrite IH. unfold proj, tk, is_kind in *. destruct (t_e t) as [| |a d]; try reflexivity. destruct a; try discriminate E; reflexivity.
Qed.

(* First match wins, pass keeps the rule's actions and continues, break abandons the block: for every block of plain
   rules (any conditions, action lists that may end with pass or break) the actions other than move and
   flag that mdsort performs are exactly those the documented semantics selects, in the same order, and something is
   done iff the documented semantics does something. *)
Theorem flat_pass_break rs env : forallb flat2_rule rs = true ->
  option_map others_e (run_rules rs env) = option_map (filter other_act) (spec_run rs env).
Proof.
  intros Hf. unfold run_rules, spec_run, compile.
  pose proof (spec_fsem rs env Hf (rules_size rs) [] false (rules_size_gt rs)) as Hs.
  destruct rs as [|r t].
  - reflexivity.
  - cbn [compile_rules_from]. rewrite compile_rules_chain.
    assert (HI0 : Inv [] [] false) by reflexivity.
    destruct (eval_flat2_rules (r :: t) env 1 [1] [] (mkev 2 false false false) [] false HI0 Hf ltac:(discriminate))
      as (v & ml' & Ev & R).
    cbn [eval ev0 next_id ev_t1 ev_t2 ev_t3]. rewrite Ev.
    fold (has k_break ml'). fold (has k_pass ml').
    destruct (fsem (r :: t) env [] false) as [acc' p'|  |acc' p'].
    + destruct R as (-> & HI & Hne). rewrite Hs. unfold Inv in HI. injection HI as I1 I2 I3 I4.
      rewrite I3, I2. destruct p'.
      * pose proof (acts_left_real ml') as Hn. rewrite I4 in Hn.
        destruct acc' as [|a0 r0]; [contradiction|]. cbn [isnil negb] in Hn.
        destruct (acts_left (filter (fun t0 => negb (tk k_pass t0)) ml')) eqn:En; [discriminate Hn|].
        cbn [option_map]. rewrite others_e_actions, others_nopass, I1. reflexivity.
      * cbn [option_map]. rewrite others_e_actions, I1. reflexivity.
    + destruct R as (-> & Hb). rewrite Hb. destruct (spec_rules (rules_size (r :: t)) (r :: t) env [] false) as [a b].
      cbn [snd] in Hs. subst b. reflexivity.
    + destruct R as (-> & HI). rewrite Hs. unfold Inv in HI. injection HI as I1 I2 I3 I4.
      rewrite I3, I2. destruct p'.
      * pose proof (acts_left_real ml') as Hn. rewrite I4 in Hn.
        destruct acc' as [|a0 r0]; cbn [isnil negb] in Hn.
        -- destruct (acts_left (filter (fun t0 => negb (tk k_pass t0)) ml')) eqn:En; [reflexivity|discriminate Hn].
        -- destruct (acts_left (filter (fun t0 => negb (tk k_pass t0)) ml')) eqn:En; [discriminate Hn|].
           cbn [option_map]. rewrite others_e_actions, others_nopass, I1. reflexivity.
      * reflexivity.
Qed.
