#!/bin/sh
# usage: run_on_mutant.sh <patch.diff> <check args...>   - apply to /repo, run ./check, always undo
PATCH=$1; shift
cd /verif
git -C /repo apply "$PATCH" || exit 2
./check "$@" 2>&1 | grep -E "VIOLATION|KNOWN-FINDING|violation\(s\)" | head -8
git -C /repo checkout -- .
git -C /repo status --short | grep -v '^??' && echo "REPO NOT CLEAN"
