(* C03, third fragment: arbitrarily nested blocks of rules with plain action lists (no pass, no break), any
   conditions.  A nested block is entered only if its condition holds, inside it the rules are tried in order,
   the first rule that matches anywhere in this depth-first order wins and exactly its actions are performed. *)
From Coq Require Import List Bool Arith Lia.
Import ListNotations.
From MD Require Import EvalDefs EvalProofs.

Fixpoint plain_rule (r : rule) : bool :=
  match r with
  | RActs _ acts => negb (match acts with [] => true | _ => false end) && forallb plain_act acts
  | RBlock _ sub => (fix all (l : list rule) : bool := match l with [] => true | x :: t => plain_rule x && all t end) sub
  end.
Definition plain_rules (rs : list rule) : bool := forallb plain_rule rs.

Lemma plain_rule_block c sub : plain_rule (RBlock c sub) = plain_rules sub.
Proof. cbn [plain_rule]. unfold plain_rules. induction sub as [|x t IH]; [reflexivity|]. cbn [forallb]. rewrite IH. reflexivity. Qed.

(* the documented semantics on such trees: depth-first, first match wins *)
Fixpoint first_tree (fuel : nat) (rs : list rule) (env : nat -> bool) : option (list act) :=
  match fuel with
  | O => None
  | S f =>
      match rs with
      | [] => None
      | RActs c acts :: t => if sem c env then Some acts else first_tree f t env
      | RBlock c sub :: t =>
          if sem c env then match first_tree f sub env with Some a => Some a | None => first_tree f t env end
          else first_tree f t env
      end
  end.

(* the OR chain the parser builds inside a nested block *)
Lemma block_chain sub : forall acc,
  (fix chain (acc : option expr) (l : list rule) : option expr :=
     match l with
     | [] => acc
     | x :: t => chain (Some (match acc with None => compile_rule x | Some e => EOr e (compile_rule x) end)) t
     end) acc sub = compile_rules_from acc sub.
Proof. induction sub as [|x t IH]; intros acc; [reflexivity|]. cbn [compile_rules_from]. apply IH. Qed.

Lemma compile_block c sub : compile_rule (RBlock c sub) = EMatch (compile_cond c) (EBlock (compile_rules_from None sub)).
Proof. cbn [compile_rule]. rewrite block_chain. reflexivity. Qed.

Lemma no_actions_markers k pre : no_actions pre -> existsb (tk k) pre = false.
Proof.
  intros H. pose proof (no_actions_kind k pre H) as Hp. clear H. induction Hp as [|x l Hx _ IH]; [reflexivity|].
  cbn [existsb]. rewrite Hx. exact IH.
Qed.

Lemma rule_size_pos r : (1 <= rule_size r)%nat.
Proof. destruct r; cbn; lia. Qed.

Definition size_rules (rs : list rule) : nat := fold_right (fun r n => (rule_size r + n)%nat) O rs.

Lemma sz_size_rules sub :
  (fix sz (l : list rule) : nat := match l with [] => 0 | x :: t => rule_size x + sz t end) sub = size_rules sub.
Proof. unfold size_rules. induction sub as [|x t IH]; [reflexivity|]. cbn [fold_right]. rewrite <- IH. reflexivity. Qed.

Lemma rule_size_block c sub : rule_size (RBlock c sub) = S (size_rules sub).
Proof. cbn [rule_size]. rewrite sz_size_rules. reflexivity. Qed.

(* the chain of a block of plain (possibly nested) rules on a list without pending actions *)
Lemma eval_plain_rules : forall n rs env cur ins ml st, (size_rules rs < n)%nat ->
  no_actions ml -> plain_rules rs = true -> rs <> [] ->
  exists pre st' o' i', no_actions pre /\
    eval (match rs with r :: t => chain (compile_rule r) t | [] => EAll end) env cur ins ml st =
    match first_tree n rs env with
    | Some acts => (Match, pre ++ tentries acts o' i', st')
    | None => (NoMatch, pre, st')
    end /\
    (match first_tree n rs env with Some acts => forallb plain_act acts = true /\ acts <> [] | None => True end).
Proof.
  induction n as [|n IH]; intros rs env cur ins ml st Hn Hml Hp Hne; [lia|].
  destruct rs as [|r t]; [contradiction|].
  unfold plain_rules in Hp. cbn [forallb] in Hp. apply andb_prop in Hp. destruct Hp as [Hr Ht].
  cbn [size_rules fold_right] in Hn. fold (size_rules t) in Hn.
  rewrite eval_chain.
  destruct r as [c acts|c sub].
  - (* a plain rule *)
    assert (Hfr : flat_rule (RActs c acts) = true) by exact Hr.
    destruct (eval_flat_rule c acts env cur ins ml st Hml Hfr) as (pre & st' & Hpre & He). rewrite He.
    cbn [first_tree]. destruct (sem c env).
    + exists pre, st', cur, ins. split; [exact Hpre|]. split; [reflexivity|].
      cbn [plain_rule] in Hr. apply andb_prop in Hr. destruct Hr as [Hne' Hpl]. split; [exact Hpl|].
      destruct acts; [discriminate Hne'|discriminate].
    + destruct t as [|r2 t2].
      * assert (first_tree n [] env = None) as -> by (destruct n; reflexivity).
        exists pre, st', cur, ins. split; [exact Hpre|]. split; [reflexivity|exact I].
      * destruct (IH (r2 :: t2) env cur ins pre st' ltac:(cbn [rule_size] in Hn; lia) Hpre Ht ltac:(discriminate)) as (pre2 & st2 & o2 & i2 & H1 & H2 & H3).
        exists pre2, st2, o2, i2. split; [exact H1|]. split; [exact H2|exact H3].
  - (* a nested block *)
    rewrite plain_rule_block in Hr. rewrite rule_size_block in Hn.
    rewrite compile_block. cbn [eval first_tree].
    assert (Hs : no_actions (ml ++ [mkt MSentinel cur ins])) by (apply Forall_app; split; [exact Hml|repeat constructor]).
    pose proof (eval_cond_sem c env cur ins (ml ++ [mkt MSentinel cur ins]) st) as Hv.
    pose proof (eval_cond_no_actions c env cur ins (ml ++ [mkt MSentinel cur ins]) st Hs) as Hna.
    destruct (eval (compile_cond c) env cur ins (ml ++ [mkt MSentinel cur ins]) st) as [[v ml1] st1].
    cbn [fst snd] in Hv, Hna. subst v.
    destruct (sem c env); cbn [ev_of].
    + (* entered *)
      destruct sub as [|s0 st0].
      * (* an empty nested block is rejected by the parser; the evaluator returns no match *)
        cbn [compile_rules_from eval]. destruct n as [|n']; [lia|]. cbn [first_tree].
        destruct t as [|r2 t2].
        -- exists ml1, st1, cur, ins. split; [exact Hna|]. split; [reflexivity|exact I].
        -- destruct (IH (r2 :: t2) env cur ins ml1 st1 ltac:(lia) Hna Ht ltac:(discriminate)) as (pre2 & st2 & o2 & i2 & H1 & H2 & H3).
           exists pre2, st2, o2, i2. split; [exact H1|]. split; [|exact H3].
           rewrite H2. destruct n'; reflexivity.
      * cbn [compile_rules_from]. rewrite compile_rules_chain. cbn [eval].
        set (id := next_id st1).
        destruct (IH (s0 :: st0) env id (id :: ins) ml1 (mkev (S id) (ev_t1 st1) (ev_t2 st1) (ev_t3 st1)) ltac:(lia) Hna Hr ltac:(discriminate))
          as (pre1 & st1' & o1 & i1 & Hp1 & He1 & Hf1).
        rewrite He1.
        destruct (first_tree n (s0 :: st0) env) as [acts|] eqn:Ef.
        -- destruct Hf1 as [Hpl Hnn].
           assert (Hnk : forall k, (forall a, k a = true -> plain_act a = false) -> existsb (tk k) (pre1 ++ tentries acts o1 i1) = false).
           { intros k Hk. rewrite existsb_app, (no_marker_entries acts o1 i1 k Hpl Hk), orb_false_r. apply no_actions_markers. exact Hp1. }
           rewrite (Hnk k_break) by (intros a Ha; unfold plain_act; rewrite Ha, orb_true_r; reflexivity).
           rewrite (Hnk k_pass) by (intros a Ha; unfold plain_act; rewrite Ha; reflexivity).
           exists pre1, st1', o1, i1. split; [exact Hp1|]. split; [reflexivity|split; assumption].
        -- rewrite (no_actions_markers k_break pre1 Hp1), (no_actions_markers k_pass pre1 Hp1).
           destruct t as [|r2 t2].
           ++ assert (first_tree n [] env = None) as -> by (destruct n; reflexivity).
              exists pre1, st1', cur, ins. split; [exact Hp1|]. split; [reflexivity|exact I].
           ++ destruct (IH (r2 :: t2) env cur ins pre1 st1' ltac:(lia) Hp1 Ht ltac:(discriminate)) as (pre2 & st2 & o2 & i2 & H1 & H2 & H3).
              exists pre2, st2, o2, i2. split; [exact H1|]. split; [exact H2|exact H3].
    + (* not entered *)
      destruct t as [|r2 t2].
      * assert (first_tree n [] env = None) as -> by (destruct n; reflexivity).
        exists ml1, st1, cur, ins. split; [exact Hna|]. split; [reflexivity|exact I].
      * destruct (IH (r2 :: t2) env cur ins ml1 st1 ltac:(lia) Hna Ht ltac:(discriminate)) as (pre2 & st2 & o2 & i2 & H1 & H2 & H3).
        exists pre2, st2, o2, i2. split; [exact H1|]. split; [exact H2|exact H3].
Qed.

(* ---- the tags on the entries do not influence what matches_append builds ------------------------------------------ *)
Definition retag (o : nat) (i : list nat) (t : tentry) : tentry := mkt (t_e t) o i.

Lemma take_first_retag k o i : forall l,
  take_first (tk k) (map (retag o i) l) =
  match take_first (tk k) l with Some (x, l') => Some (retag o i x, map (retag o i) l') | None => None end.
Proof.
  induction l as [|x l IH]; [reflexivity|]. cbn [map take_first].
  change (tk k (retag o i x)) with (tk k x). destruct (tk k x); [reflexivity|].
  rewrite IH. destruct (take_first (tk k) l) as [[y l']|]; reflexivity.
Qed.

Lemma append_retag ml a o ins o' i' : map (retag o' i') (append ml a o ins) = append (map (retag o' i') ml) a o' i'.
Proof.
  unfold append. destruct a; try (rewrite map_app; reflexivity).
  - rewrite <- map_rev. destruct (rev ml) as [|[e0 o0 i0] rest]; cbn [map retag t_e].
    + rewrite take_first_retag. destruct (take_first (tk k_flag) ml) as [[[e1 o1 i1] l1]|]; cbn [retag t_e];
        [destruct e1 as [| |a1 d1]; [| |destruct a1]|]; rewrite map_app; reflexivity.
    + destruct e0 as [| |a0 d0]; [| |destruct a0];
        try (rewrite take_first_retag; destruct (take_first (tk k_flag) ml) as [[[e1 o1 i1] l1]|]; cbn [retag t_e];
             [destruct e1 as [| |a1 d1]; [| |destruct a1]|]; rewrite map_app; reflexivity).
      rewrite map_app, map_rev. reflexivity.
  - rewrite <- map_rev. destruct (rev ml) as [|[e0 o0 i0] rest]; cbn [map retag t_e].
    + rewrite take_first_retag. destruct (take_first (tk k_move) ml) as [[[e1 o1 i1] l1]|]; cbn [retag t_e];
        [destruct e1 as [| |a1 d1]; [| |destruct a1]|]; rewrite map_app; reflexivity.
    + destruct e0 as [| |a0 d0]; [| |destruct a0];
        try (rewrite take_first_retag; destruct (take_first (tk k_move) ml) as [[[e1 o1 i1] l1]|]; cbn [retag t_e];
             [destruct e1 as [| |a1 d1]; [| |destruct a1]|]; rewrite map_app; reflexivity).
      rewrite map_app, map_rev. reflexivity.
Qed.

Lemma tentries_retag acts o i o' i' : map (retag o' i') (tentries acts o i) = tentries acts o' i'.
Proof.
  unfold tentries.
  assert (G : forall ml, map (retag o' i') (fold_left (fun ml a => append ml a o i) acts ml)
                         = fold_left (fun ml a => append ml a o' i') acts (map (retag o' i') ml)).
  { induction acts as [|a r IH]; intros ml; cbn [fold_left]; [reflexivity|]. rewrite IH, append_retag. reflexivity. }
  apply (G []).
Qed.

Lemma tentries_tags acts o i o' i' : map t_e (tentries acts o i) = map t_e (tentries acts o' i').
Proof.
  rewrite <- (tentries_retag acts o i o' i'). rewrite map_map. apply map_ext. intros t. reflexivity.
Qed.

(* ---- the theorem ---------------------------------------------------------------------------------------------------------- *)
Theorem nested_first_match rs env : plain_rules rs = true ->
  run_rules rs env =
  match first_tree (S (size_rules rs)) rs env with
  | Some acts => Some (entries_of acts)
  | None => None
  end.
Proof.
  intros Hp. unfold run_rules, compile.
  destruct rs as [|r t]; [reflexivity|].
  cbn [compile_rules_from]. rewrite compile_rules_chain.
  destruct (eval_plain_rules (S (size_rules (r :: t))) (r :: t) env 1 [1] [] (mkev 2 false false false) ltac:(lia) ltac:(constructor) Hp ltac:(discriminate))
    as (pre & st' & o' & i' & Hpre & Hev & Hfacts).
  cbn [eval ev0 next_id ev_t1 ev_t2 ev_t3]. rewrite Hev.
  destruct (first_tree (S (size_rules (r :: t))) (r :: t) env) as [acts|].
  - destruct Hfacts as [Hpl Hne].
    assert (Hnk : forall k, (forall a, k a = true -> plain_act a = false) -> existsb (tk k) (pre ++ tentries acts o' i') = false).
    { intros k Hk. rewrite existsb_app, (no_marker_entries acts o' i' k Hpl Hk), orb_false_r. apply no_actions_markers. exact Hpre. }
    rewrite (Hnk k_break) by (intros a Ha; unfold plain_act; rewrite Ha, orb_true_r; reflexivity).
    rewrite (Hnk k_pass) by (intros a Ha; unfold plain_act; rewrite Ha; reflexivity).
    rewrite filter_actions_split by exact Hpre. unfold entries_of. f_equal. apply tentries_tags.
  - rewrite (no_actions_markers k_break pre Hpre), (no_actions_markers k_pass pre Hpre). reflexivity.
Qed.

(* on such trees the documented semantics (spec_rules) is this depth-first search *)
Lemma plain_spec_facts acts : forallb plain_act acts = true -> ends_with k_pass acts = false /\ existsb k_break acts = false /\ plain_acts acts = acts.
Proof.
  intros H. assert (Hf : plain_acts acts = acts).
  { unfold plain_acts. induction acts as [|a r IH]; [reflexivity|]. cbn [forallb] in H. apply andb_prop in H. destruct H as [Ha Hr].
    cbn [filter]. unfold plain_act in Ha. rewrite Ha. rewrite (IH Hr). reflexivity. }
  assert (Hk : forall k, (forall a, k a = true -> plain_act a = false) -> existsb k acts = false).
  { intros k Hk. induction acts as [|a r IH]; [reflexivity|]. cbn [forallb] in H. apply andb_prop in H. destruct H as [Ha Hr].
    cbn [existsb]. destruct (k a) eqn:E; [rewrite (Hk a E) in Ha; discriminate Ha|]. apply IH; [exact Hr|].
    unfold plain_acts in *. cbn [filter] in Hf. unfold plain_act in Ha. rewrite Ha in Hf. injection Hf as Hf. exact Hf. }
  split; [|split; [|exact Hf]].
  - unfold ends_with. destruct (rev acts) as [|a r] eqn:E; [reflexivity|].
    assert (Hin : In a acts) by (apply in_rev; rewrite E; left; reflexivity).
    rewrite forallb_forall in H. specialize (H a Hin). unfold plain_act in H. destruct (k_pass a); [discriminate H|reflexivity].
  - apply Hk. intros a Ha. unfold plain_act. rewrite Ha, orb_true_r. reflexivity.
Qed.

Lemma spec_plain : forall n rs env acc passed, (size_rules rs < n)%nat -> plain_rules rs = true ->
  spec_rules n rs env acc passed =
  match first_tree n rs env with
  | Some acts => (acc ++ acts, BMatched)
  | None => (acc, BFellThrough passed)
  end.
Proof.
  induction n as [|n IH]; intros rs env acc passed Hn Hp; [lia|].
  destruct rs as [|r t]; [reflexivity|].
  unfold plain_rules in Hp. cbn [forallb] in Hp. apply andb_prop in Hp. destruct Hp as [Hr Ht].
  cbn [size_rules fold_right] in Hn. fold (size_rules t) in Hn.
  destruct r as [c acts|c sub]; cbn [spec_rules first_tree].
  - cbn [plain_rule] in Hr. apply andb_prop in Hr. destruct Hr as [_ Hpl].
    destruct (plain_spec_facts acts Hpl) as (F1 & F2 & F3).
    destruct (sem c env); cbn [negb].
    + rewrite F1, F2, F3. reflexivity.
    + apply IH; [cbn [rule_size] in Hn; lia|exact Ht].
  - rewrite plain_rule_block in Hr. rewrite rule_size_block in Hn.
    destruct (sem c env); cbn [negb].
    + rewrite (IH sub env acc false ltac:(lia) Hr).
      destruct (first_tree n sub env) as [acts|].
      * reflexivity.
      * rewrite Nat.eqb_refl. cbn [negb andb]. apply IH; [lia|exact Ht].
    + apply IH; [lia|exact Ht].
Qed.

Lemma rules_size_eq rs : rules_size rs = S (size_rules rs).
Proof. reflexivity. Qed.

Theorem nested_first_match_spec rs env : plain_rules rs = true ->
  run_rules rs env = option_map entries_of (spec_run rs env).
Proof.
  intros Hp. rewrite (nested_first_match rs env Hp). unfold spec_run. rewrite rules_size_eq.
  rewrite (spec_plain (S (size_rules rs)) rs env [] false ltac:(lia) Hp).
  destruct (first_tree (S (size_rules rs)) rs env); reflexivity.
Qed.
