"""Shared machinery for the property checks (python3, stdlib only)."""
import atexit, hashlib, json, os, random, re, shutil, subprocess, sys, tempfile, time

VERIF = os.path.dirname(os.path.dirname(os.path.abspath(__file__)))
REPO = os.environ.get('VERIF_REPO', '/repo')
COQ = os.path.join(VERIF, 'coq')
OCAML = os.path.join(VERIF, 'ocaml')
NPROC = str(os.cpu_count() or 4)

_scratch = {}
_tmpdirs = []


def _cleanup():
    for d in _tmpdirs:
        shutil.rmtree(d, ignore_errors=True)


atexit.register(_cleanup)


def mktemp(prefix='mdv-'):
    d = tempfile.mkdtemp(prefix=prefix, dir=os.environ.get('VERIF_TMP', '/tmp'))
    _tmpdirs.append(d)
    return d


def sh(cmd, cwd=None, timeout=600, env=None, inp=None, check=False):
    e = dict(os.environ)
    if env:
        e.update(env)
    r = subprocess.run(cmd, cwd=cwd, timeout=timeout, env=e, input=inp,
                       capture_output=True, shell=isinstance(cmd, str))
    if check and r.returncode != 0:
        raise RuntimeError('command failed: %s\n%s\n%s' % (cmd, r.stdout.decode(errors='replace')[-2000:],
                                                          r.stderr.decode(errors='replace')[-2000:]))
    return r


# ------------------------------------------------------------------------------------------
# implementation build (scratch copy of /repo's *working tree*)
# ------------------------------------------------------------------------------------------
def scratch_build(kind='plain'):
    """Copy /repo's working tree to a scratch dir outside /repo and /verif and build it.
    kind: 'plain' | 'asan' | 'diag' (DIAGNOSTIC, i.e. FAULT() probes).  Returns dir or raises."""
    if kind in _scratch:
        return _scratch[kind]
    d = mktemp('mdv-%s-' % kind)
    r = sh(['rsync', '-a', '--exclude=.git', '--exclude=*.o', '--exclude=*.d', '--exclude=/mdsort',
            '--exclude=/t', '--exclude=/parse.c', '--exclude=/config.h', '--exclude=/config.mk',
            '--exclude=/config.log', REPO + '/', d + '/'])
    if r.returncode != 0:
        raise RuntimeError('rsync failed: ' + r.stderr.decode())
    env = {}
    if kind == 'asan':
        env['CC'] = 'clang'
        env['CFLAGS'] = '-g -O1 -fsanitize=address,undefined -fno-sanitize-recover=all -fno-omit-frame-pointer'
        env['LDFLAGS'] = '-fsanitize=address,undefined'
    elif kind == 'diag':
        env['CFLAGS'] = '-g -O1 -DDIAGNOSTIC'
    else:
        env['CFLAGS'] = '-g -O1'
    r = sh('./configure && make -j%s mdsort' % NPROC, cwd=d, env=env, timeout=300)
    if r.returncode != 0 or not os.path.exists(os.path.join(d, 'mdsort')):
        raise BuildError('implementation does not build (%s):\n%s' % (kind, (r.stdout + r.stderr).decode(errors='replace')[-3000:]))
    _scratch[kind] = d
    return d


class BuildError(Exception):
    pass


def build_driver(name, kind='plain'):
    """Build cdrv/<name>.c against the objects of the scratch build.  Returns exe path."""
    d = scratch_build(kind)
    exe = os.path.join(d, name)
    if os.path.exists(exe):
        return exe
    objs = [os.path.join(d, f) for f in os.listdir(d)
            if f.endswith('.o') and f not in ('mdsort.o', 't.o', 'fuzz-config.o', 'fuzz-message.o')]
    cc = ['cc', '-g', '-O1']
    if kind == 'asan':
        cc = ['clang', '-g', '-O1', '-fsanitize=address,undefined', '-fno-sanitize-recover=all']
    r = sh(cc + ['-I', d, '-I', os.path.join(d, 'libks'), '-I', os.path.join(VERIF, 'cdrv'),
                 '-o', exe, os.path.join(VERIF, 'cdrv', name + '.c')] + objs, timeout=120)
    if r.returncode != 0:
        raise BuildError('driver %s does not compile against the tree:\n%s' % (name, r.stderr.decode(errors='replace')[-3000:]))
    return exe


def run_lines(exe, lines, timeout=600, env=None):
    """Feed request lines to a line-protocol program; return response lines (same count)."""
    inp = ('\n'.join(lines) + '\n').encode()
    r = sh([exe] if isinstance(exe, str) else exe, inp=inp, timeout=timeout, env=env)
    out = r.stdout.decode(errors='replace').split('\n')
    if out and out[-1] == '':
        out.pop()
    return out, r


def par_lines(exe, lines, shards=None, timeout=600, env=None, filler='DIED driver'):
    """run_lines over contiguous shards in parallel (the programs are stateless per request line);
    responses come back in request order; a shard that dies is padded with `filler`."""
    import concurrent.futures
    n = len(lines)
    if n == 0:
        return []
    shards = shards or max(1, min(int(NPROC), 12))
    size = max(1, (n + shards - 1) // shards)
    parts = [lines[i:i + size] for i in range(0, n, size)]

    def one(part):
        out, _ = run_lines(exe, part, timeout=timeout, env=env)
        if len(out) < len(part):
            out = out + [filler] * (len(part) - len(out))
        return out[:len(part)]
    with concurrent.futures.ThreadPoolExecutor(max_workers=len(parts)) as ex:
        res = list(ex.map(one, parts))
    return [x for part in res for x in part]


# ------------------------------------------------------------------------------------------
# Coq side
# ------------------------------------------------------------------------------------------
def regen_tables():
    r = sh([sys.executable, os.path.join(VERIF, 'harness', 'gen_tables.py'), REPO,
            os.path.join(COQ, 'Generated.v')])
    return r.returncode == 0, (r.stdout + r.stderr).decode(errors='replace')


def coq_make(targets, clean=False, timeout=3000):
    if not os.path.exists(os.path.join(COQ, 'Makefile')):
        sh(['coq_makefile', '-f', '_CoqProject', '-o', 'Makefile'], cwd=COQ, check=True)
    if clean:
        sh(['make', 'clean'], cwd=COQ)
    r = sh(['timeout', str(timeout), 'make', '-k', '-j' + NPROC] + targets, cwd=COQ, timeout=timeout + 60)
    return r.returncode == 0, (r.stdout + r.stderr).decode(errors='replace')


def coq_properties(pid, timeout=900):
    """Re-compile Properties_<pid>.v (a file of `exact` proofs + Print Assumptions) and return
    (ok, theorems, assumptions-text-per-theorem, log)."""
    f = 'Properties_%s.v' % pid
    src = open(os.path.join(COQ, f)).read()
    theorems = re.findall(r'^(?:Theorem|Lemma|Corollary)\s+(\w+)', src, re.M)
    r = sh(['timeout', str(timeout), 'coqc', '-Q', '.', 'MD', f], cwd=COQ, timeout=timeout + 30)
    log = (r.stdout + r.stderr).decode(errors='replace')
    assum = {}
    # Print Assumptions output follows in the order of the commands in the file
    names = re.findall(r'^Print Assumptions\s+(\w+)\.', src, re.M)
    blocks = re.split(r'(?m)^(?=Closed under the global context|Axioms:)', r.stdout.decode(errors='replace'))
    blocks = [b.strip() for b in blocks if b.strip().startswith(('Closed under', 'Axioms:'))]
    for n, b in zip(names, blocks):
        assum[n] = b
    return r.returncode == 0, theorems, assum, log


ALLOWED_AXIOMS = set()   # every property theorem is expected to be closed under the global context

AUDIT_PAT = re.compile(r'\b(Admitted|admit|Axiom|Parameter|Conjecture|Unset\s+Guard|bypass_check|'
                       r'type-in-type|impredicative-set|Admit\s+Obligations)\b')


def audit_sources():
    """Grep the development for forbidden constructs.  Returns list of offending lines."""
    bad = []
    for f in sorted(os.listdir(COQ)):
        if not f.endswith('.v'):
            continue
        depth = 0
        for i, line in enumerate(open(os.path.join(COQ, f)), 1):
            code = re.sub(r'\(\*.*?\*\)', '', line)
            if re.match(r'\s*Section\b', code):
                depth += 1
            if re.match(r'\s*End\b', code) and depth > 0:
                depth -= 1
            if AUDIT_PAT.search(code):
                bad.append('%s:%d: %s' % (f, i, line.strip()))
            if depth == 0 and re.match(r'\s*(Variable|Variables|Hypothesis|Hypotheses|Context)\b', code):
                bad.append('%s:%d: %s (outside a section)' % (f, i, line.strip()))
    proj = open(os.path.join(COQ, '_CoqProject')).read()
    if re.search(r'type-in-type|impredicative-set|-vos|-vok', proj):
        bad.append('_CoqProject: forbidden flag')
    return bad


def model_exe():
    """(Re)build the extracted OCaml model if any definition file is newer than the binary."""
    exe = os.path.join(OCAML, 'mdmodel')
    srcs = [os.path.join(COQ, f) for f in os.listdir(COQ) if f.endswith('.v') and
            (f.endswith('Defs.v') or f in ('Bytes.v', 'Generated.v', 'Extract.v'))]
    srcs += [os.path.join(OCAML, 'driver.ml'), os.path.join(OCAML, 'build.sh')]
    newest = max(os.path.getmtime(s) for s in srcs)
    if not os.path.exists(exe) or os.path.getmtime(exe) < newest:
        # Extract.v needs the compiled definition files it imports (a thorough run starts from `make clean` and has
        # built only what the property's theorems depend on)
        ex = open(os.path.join(COQ, 'Extract.v')).read()
        mods = []
        for m in re.finditer(r'From MD Require Import ([^.]*)\.', ex):
            mods += m.group(1).split()
        ok, log = coq_make([m + '.vo' for m in mods])
        if not ok:
            raise BuildError('definition files needed by the extraction do not build:\n' + log[-2000:])
        r = sh([os.path.join(OCAML, 'build.sh')], timeout=1200)
        if r.returncode != 0:
            raise BuildError('extraction / model build failed:\n' + (r.stdout + r.stderr).decode(errors='replace')[-3000:])
    return exe


# ------------------------------------------------------------------------------------------
# known findings
# ------------------------------------------------------------------------------------------
def load_known():
    """known-findings.txt lines:   finding: property=Cxx key=<key> <text>
                                   fixed: property=Cxx <commit> <text>        (suppresses nothing)"""
    known = {}
    p = os.path.join(VERIF, 'known-findings.txt')
    if os.path.exists(p):
        for line in open(p):
            m = re.match(r'finding:\s+property=(\w+)\s+key=(\S+)\s+(.*)', line.strip())
            if m:
                known[(m.group(1), m.group(2))] = m.group(3)
    return known


# ------------------------------------------------------------------------------------------
# reporting
# ------------------------------------------------------------------------------------------
class Check:
    def __init__(self, pid, tier, seed):
        self.pid, self.tier, self.seed = pid, tier, seed
        self.t0 = time.time()
        self.rng = random.Random(seed)
        self.known = load_known()
        self.known_hit = {}
        self.violations = []
        self.coverage = {}
        self.assumptions = []
        self.notes = []

    # -- findings -----------------------------------------------------------------
    def is_known(self, key):
        return (self.pid, key) in self.known

    def known_finding(self, key, detail=''):
        if key not in self.known_hit:
            self.known_hit[key] = detail
            print('KNOWN-FINDING: property=%s %s [%s] %s' % (self.pid, self.known[(self.pid, key)], key, detail))

    def violation(self, what, replay, found_input=True):
        """Record a violation; `replay` is a JSON-serialisable dict."""
        os.makedirs(os.path.join(VERIF, 'replays'), exist_ok=True)
        replay = dict(replay)
        replay.update({'property': self.pid, 'what': what, 'seed': self.seed, 'tier': self.tier,
                       'failing_input_found': found_input})
        h = hashlib.sha1(json.dumps(replay, sort_keys=True, default=str).encode()).hexdigest()[:12]
        name = '%s-%s%s.json' % (self.pid, '' if found_input else 'obligation-', h)
        path = os.path.join(VERIF, 'replays', name)
        with open(path, 'w') as f:
            json.dump(replay, f, indent=1, default=str)
        line = 'VIOLATION property=%s replay=%s' % (self.pid, os.path.relpath(path, VERIF))
        if not found_input:
            line += ' no-failing-input-found'
        self.violations.append((line, what))
        print('  ' + what)
        print(line)
        sys.stdout.flush()

    # -- evidence -----------------------------------------------------------------
    def finish(self, level='proof'):
        cov = dict(self.coverage)
        ev = {
            'property_id': self.pid,
            'tier': self.tier,
            'seed': self.seed,
            'level': level,
            'coverage': cov,
            'assumptions': self.assumptions,
            'wall_s': round(time.time() - self.t0, 2),
            'violations': len(self.violations),
            'known_findings_reproduced': sorted(self.known_hit),
            'notes': self.notes,
        }
        os.makedirs(os.path.join(VERIF, 'evidence'), exist_ok=True)
        with open(os.path.join(VERIF, 'evidence', self.pid + '.json'), 'w') as f:
            json.dump(ev, f, indent=1, default=str)
        print('%s %s: %d violation(s), %.1fs' % (self.pid, self.tier, len(self.violations), ev['wall_s']))
        return 1 if self.violations else 0


def hexs(b):
    return b.hex() if b else '-'


def unhexs(s):
    return b'' if s == '-' else bytes.fromhex(s)


_regex_exe = None


def regex_oracle():
    """Build (once) the platform regcomp/regexec helper; independent of /repo."""
    global _regex_exe
    if _regex_exe is None:
        d = mktemp('mdv-rx-')
        exe = os.path.join(d, 'regex_drv')
        sh(['cc', '-O1', '-I', os.path.join(VERIF, 'cdrv'), '-o', exe, os.path.join(VERIF, 'cdrv', 'regex_drv.c')], check=True)
        _regex_exe = exe
    return _regex_exe


def regex_eval(queries, loc=None):
    """queries: list of (icase, pattern bytes, subject bytes) -> list of None | [(so, eo), ...] | 'E'
    loc: the LC_CTYPE the oracle runs under (default: the C locale)"""
    lines = ['rx %d %s %s' % (1 if ic else 0, hexs(p), hexs(s)) for ic, p, s in queries]
    out, _ = run_lines(regex_oracle(), lines, env=({'VERIF_RX_LOCALE': loc} if loc and loc != 'C' else None))
    res = []
    for o in out:
        if o == 'N':
            res.append(None)
        elif o.startswith('M'):
            nums = [int(x) for x in o.split()[1:]]
            res.append(list(zip(nums[0::2], nums[1::2])))
        else:
            res.append('E')
    return res


_helper_exe = None


def rec_helper():
    """Build (once) the recording helper used by exec / command checks."""
    global _helper_exe
    if _helper_exe is None:
        d = mktemp('mdv-helper-')
        exe = os.path.join(d, 'rechelper')
        sh(['cc', '-O1', '-o', exe, os.path.join(VERIF, 'cdrv', 'rechelper.c')], check=True)
        _helper_exe = exe
    return _helper_exe


def helper_calls(outdir):
    """-> list of dict(argv=[bytes], stdin=bytes, fds=[(n, target)], offset=int) in call order"""
    res = []
    for h in sorted(os.listdir(outdir)):
        p = os.path.join(outdir, h)
        try:
            argv = open(os.path.join(p, 'argv'), 'rb').read().split(b'\0')[:-1]
            stdin = open(os.path.join(p, 'stdin'), 'rb').read()
            fds = [tuple(l.split(' ', 1)) for l in open(os.path.join(p, 'fds')).read().splitlines()]
            off = int(open(os.path.join(p, 'offset')).read().strip() or -1)
        except OSError:
            continue
        try:
            envp = open(os.path.join(p, 'environ'), 'rb').read().split(b'\0')[:-1]
            cwd = open(os.path.join(p, 'cwd'), 'rb').read()
        except OSError:
            envp, cwd = None, None
        res.append({'argv': argv, 'stdin': stdin, 'fds': fds, 'offset': off, 'environ': envp, 'cwd': cwd})
    return res
