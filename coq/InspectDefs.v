(* M8: what the dry run prints.  strnwidth over an abstract character decoder (mbtowc + wcwidth),
   expr_inspect (the quoted line and the ^ $ marker line per non-empty match), matches_inspect (the
   "path -> destination" line per action followed by the explanations of the matchers since the
   previous action), and two concrete decoders (the C locale, UTF-8).  No proofs here.
   expr_inspect is modelled with the clamp of the fix for F-08 (the leading blanks of the quoted line
   are never stripped beyond the beginning of the match). *)
From MD Require Import Bytes Generated.
Local Open Scope N_scope.

Definition spaces (n : nat) : bytes := repeat 32 n.
Definition slice_of (s : bytes) (i j : nat) : bytes := firstn (j - i) (skipn i s).

Section Width.
  (* one character at the head of a non-empty string: (bytes consumed, columns).  The error case of
     mbtowc (-1: one byte, one column) and a negative wcwidth (no column) are folded into the pair;
     consumed = 0 stands for the terminator. *)
  Variable mbw : bytes -> nat * nat.

  Fixpoint strnwidth (fuel : nat) (s : bytes) (len : nat) : nat :=
    match fuel with
    | O => O
    | S f =>
        match len with
        | O => O
        | _ =>
            match s with
            | [] => O
            | _ => let '(n, w) := mbw s in
                   if Nat.eqb n 0 then O else (w + strnwidth f (skipn n s) (len - n))%nat
            end
        end
    end.

  (* lbeg: the index after the last newline at an index <= beg *)
  Fixpoint lstart (s : bytes) (i beg cur : nat) : nat :=
    match s with
    | [] => cur
    | c :: r => if Nat.ltb beg i then cur else lstart r (S i) beg (if c =? 10 then S i else cur)
    end.

  Definition count_blanks (s : bytes) : nat := (length s - length (skip_blanks s))%nat.
  Definition line_end (val : bytes) (from : nat) : nat := (from + length (fst (split_at 10 (skipn from val))))%nat.

  Record shown := mkshown { sh_quoted : bytes; sh_indent : nat; sh_gap : nat }.

  Definition inspect_match (pindent : nat) (val : bytes) (b e : nat) : shown :=
    let l0 := lstart val 0 b 0 in
    let l1 := Nat.min (l0 + count_blanks (skipn l0 val)) b in
    let le := line_end val l1 in
    let w := strnwidth (S (e - b)) (skipn b val) (e - b) in
    mkshown (slice_of val l1 le)
            (pindent + strnwidth (S (b - l1)) (skipn l1 val) (b - l1))
            (w - 2).

  Definition marker_line (sh : shown) : bytes := spaces (sh_indent sh) ++ 94 :: spaces (sh_gap sh) ++ [36].

  (* expr_inspect for one match-list entry: prefix = "<conf path>:<line>: " as printed *)
  Fixpoint inspect_loop (prefix key val : bytes) (pindent : nat) (printkey : bool) (ms : list (nat * nat)) : list bytes :=
    match ms with
    | [] => []
    | (b, e) :: r =>
        if Nat.eqb b e then inspect_loop prefix key val pindent printkey r
        else
          let pindent' := if printkey then (pindent + length prefix)%nat else pindent in
          let sh := inspect_match pindent' val b e in
          let first := if printkey then prefix ++ key ++ [58; 32] ++ sh_quoted sh
                       else spaces pindent' ++ sh_quoted sh in
          first :: marker_line sh :: inspect_loop prefix key val pindent' false r
    end.

  Definition inspect_entry (prefix key val : bytes) (ms : list (nat * nat)) : list bytes :=
    inspect_loop prefix key val (length key + 2) true ms.

  (* ---- matches_inspect ------------------------------------------------------------------------------- *)
  Inductive dentry :=
  | DMatcher (prefix key val : bytes) (ms : list (nat * nat))     (* an entry with EXPR_FLAG_INSPECT and a recorded match *)
  | DAction (what : bytes)                                        (* its label, or the destination path *)
  | DOther.                                                       (* sentinels, pass, entries without INSPECT *)

  Definition arrow : bytes := [32; 45; 62; 32].

  Fixpoint dry_lines (path : bytes) (l pending : list dentry) : list bytes :=
    match l with
    | [] => []
    | DAction what :: r =>
        (path ++ arrow ++ what)
          :: flat_map (fun d => match d with DMatcher p k v ms => inspect_entry p k v ms | _ => [] end) (rev pending)
          ++ dry_lines path r []
    | d :: r => dry_lines path r (d :: pending)
    end.

  (* what a real run executes, in order: the action entries *)
  Fixpoint executed (l : list dentry) : list bytes :=
    match l with
    | [] => []
    | DAction what :: r => what :: executed r
    | _ :: r => executed r
    end.
End Width.

(* ---- the two decoders ---------------------------------------------------------------------------------- *)
Definition mbw_c (s : bytes) : nat * nat :=
  match s with
  | [] => (O, O)
  | c :: _ => if c =? 0 then (O, O)
              else if (32 <=? c) && (c <=? 126) then (1, 1)%nat
              else if 128 <=? c then (1, 1)%nat          (* mbtowc fails: one byte, one column *)
              else (1, O)%nat                             (* control character: wcwidth -1 *)
  end.

Definition cont (c : N) : bool := (128 <=? c) && (c <=? 191).

Definition in_range (cp lo hi : N) : bool := (lo <=? cp) && (cp <=? hi).

(* wcwidth, approximated by classes (control: no column; combining and zero-width: 0; wide East Asian
   and emoji blocks: 2; everything else: 1) *)
Definition cp_width (cp : N) : nat :=
  if (cp <? 32) || in_range cp 127 159 then O
  else if in_range cp 768 879 || in_range cp 8203 8207 || (cp =? 65279) then O
  else if in_range cp 4352 4447 || in_range cp 11904 42191 || in_range cp 44032 55203 || in_range cp 63744 64255
       || in_range cp 65072 65135 || in_range cp 65280 65376 || in_range cp 65504 65510
       || in_range cp 127744 129791 || in_range cp 131072 262141 then 2%nat
  else 1%nat.

Definition mbw_utf8 (s : bytes) : nat * nat :=
  match s with
  | [] => (O, O)
  | c0 :: r =>
      if c0 =? 0 then (O, O)
      else if c0 <? 128 then (1%nat, cp_width c0)
      else if in_range c0 194 223 then
        match r with
        | c1 :: _ => if cont c1 then (2%nat, cp_width ((c0 - 192) * 64 + (c1 - 128))) else (1, 1)%nat
        | [] => (1, 1)%nat
        end
      else if in_range c0 224 239 then
        match r with
        | c1 :: c2 :: _ =>
            let cp := (c0 - 224) * 4096 + (c1 - 128) * 64 + (c2 - 128) in
            if cont c1 && cont c2 && (2048 <=? cp) && negb (in_range cp 55296 57343)
            then (3%nat, cp_width cp) else (1, 1)%nat
        | _ => (1, 1)%nat
        end
      else if in_range c0 240 244 then
        match r with
        | c1 :: c2 :: c3 :: _ =>
            let cp := (c0 - 240) * 262144 + (c1 - 128) * 4096 + (c2 - 128) * 64 + (c3 - 128) in
            if cont c1 && cont c2 && cont c3 && (65536 <=? cp) && (cp <=? 1114111)
            then (4%nat, cp_width cp) else (1, 1)%nat
        | _ => (1, 1)%nat
        end
      else (1, 1)%nat
  end.
