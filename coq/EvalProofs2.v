(* C03, second fragment: blocks of plain rules whose action lists may END with pass or break, conditions
   without negation.  The non-location actions performed are exactly those the documented semantics
   selects (first match wins, pass keeps the actions and continues, break abandons the block).
   Location entries (move / flag) are merged by matches_merge and are not part of this statement (F-21). *)
From Coq Require Import List Bool Arith Lia.
Import ListNotations.
From MD Require Import EvalDefs EvalProofs.

(* ---- what is observed: the actions other than move / flag / pass / break, in order -------------------------- *)
Definition other_act (a : act) : bool := match a with XMove _ | XFlag _ | XPass | XBreak => false | _ => true end.
Definition proj (t : tentry) : list act := match t_e t with MAct a _ => if other_act a then [a] else [] | _ => [] end.
Definition others (ml : list tentry) : list act := flat_map proj ml.
Definition has (k : act -> bool) (ml : list tentry) : bool := existsb (tk k) ml.
Definition is_loc (t : tentry) : bool := tk k_move t || tk k_flag t.

Lemma others_app a b : others (a ++ b) = others a ++ others b.
Proof. apply flat_map_app. Qed.

Lemma has_app k a b : has k (a ++ b) = has k a || has k b.
Proof. apply existsb_app. Qed.

Lemma take_first_split p : forall l x l', take_first p l = Some (x, l') ->
  exists pre post, l = pre ++ x :: post /\ l' = pre ++ post /\ p x = true.
Proof.
  induction l as [|y l IH]; intros x l' H; cbn [take_first] in H; [discriminate H|].
  destruct (p y) eqn:Ep.
  - injection H as <- <-. exists [], l. repeat split; try reflexivity; exact Ep.
  - destruct (take_first p l) as [[z r]|] eqn:E; [|discriminate H]. injection H as <- <-.
    destruct (IH _ _ eq_refl) as (pre & post & -> & -> & Hp). exists (y :: pre), post. repeat split; try reflexivity; assumption.
Qed.

Lemma rev_cons_split {A} (l : list A) x r : rev l = x :: r -> l = rev r ++ [x].
Proof. intros H. rewrite <- (rev_involutive l), H. reflexivity. Qed.

(* matches_append puts the new entry last and removes at most one earlier move / flag entry *)
Ltac shape_same := eexists _, _; split; [reflexivity|left; reflexivity].
Ltac shape_removed Et :=
  apply take_first_split in Et; destruct Et as (pre & post & -> & -> & Hp);
  eexists _, _; split; [reflexivity|]; right; eexists pre, _, post; repeat split;
  unfold is_loc; rewrite Hp; first [reflexivity | apply orb_true_r].
Ltac shape_tf k :=
  match goal with
  | |- context [take_first (tk k) ?l] =>
      let Et := fresh "Et" in
      destruct (take_first (tk k) l) as [[[e0 o0 i0] l0]|] eqn:Et;
      [destruct e0 as [| |a0 d0]; [shape_same|shape_same|destruct a0; first [shape_same | shape_removed Et]]|shape_same]
  end.

Lemma append_shape ml a o ins : exists l1 d,
  append ml a o ins = l1 ++ [mkt (MAct a d) o ins] /\
  (l1 = ml \/ exists pre y post, ml = pre ++ y :: post /\ l1 = pre ++ post /\ is_loc y = true).
Proof.
  unfold append. destruct a as [md|c|n|n|n|n| | | |]; try shape_same.
  - destruct (rev ml) as [|[e' o' i'] rest] eqn:E.
    + assert (ml = []) as -> by (destruct ml; [reflexivity|apply (f_equal (@length _)) in E; rewrite rev_length in E; discriminate E]).
      cbn [take_first]. shape_same.
    + destruct e' as [| |a' d']; cbn [t_e]; [shape_tf k_flag|shape_tf k_flag|].
      destruct a'; try (shape_tf k_flag).
      apply rev_cons_split in E. subst ml.
      eexists (rev rest), _. split; [reflexivity|]. right. eexists (rev rest), _, []. rewrite app_nil_r. repeat split.
  - destruct (rev ml) as [|[e' o' i'] rest] eqn:E.
    + assert (ml = []) as -> by (destruct ml; [reflexivity|apply (f_equal (@length _)) in E; rewrite rev_length in E; discriminate E]).
      cbn [take_first]. shape_same.
    + destruct e' as [| |a' d']; cbn [t_e]; [shape_tf k_move|shape_tf k_move|].
      destruct a'; try (shape_tf k_move).
      apply rev_cons_split in E. subst ml.
      eexists (rev rest), _. split; [reflexivity|]. right. eexists (rev rest), _, []. rewrite app_nil_r. repeat split.
Qed.

Lemma proj_loc y : is_loc y = true -> proj y = [].
Proof.
  unfold is_loc, tk, is_kind, proj. destruct (t_e y) as [| |a d]; cbn; try discriminate.
  destruct a; cbn; intros H; try discriminate H; reflexivity.
Qed.

Lemma others_append ml a o ins : others (append ml a o ins) = others ml ++ (if other_act a then [a] else []).
Proof.
  destruct (append_shape ml a o ins) as (l1 & d & -> & [->|(pre & y & post & -> & -> & Hy)]).
  - rewrite others_app. change (others [mkt (MAct a d) o ins]) with ((if other_act a then [a] else []) ++ []). rewrite app_nil_r. reflexivity.
  - rewrite !others_app. change (others (y :: post)) with (proj y ++ others post). rewrite (proj_loc y Hy). cbn [app].
    change (others [mkt (MAct a d) o ins]) with ((if other_act a then [a] else []) ++ []). rewrite app_nil_r, <- app_assoc. reflexivity.
Qed.

Lemma has_append k ml a o ins : (forall b, k b = true -> k_move b = false /\ k_flag b = false) ->
  has k (append ml a o ins) = has k ml || k a.
Proof.
  intros Hk.
  assert (Hloc : forall y, is_loc y = true -> tk k y = false).
  { intros y Hy. unfold is_loc, tk, is_kind in *. destruct (t_e y) as [| |b d]; try reflexivity.
    destruct (k b) eqn:E; [|reflexivity]. destruct (Hk b E) as [H1 H2]. rewrite H1, H2 in Hy. discriminate Hy. }
  destruct (append_shape ml a o ins) as (l1 & d & -> & [->|(pre & y & post & -> & -> & Hy)]).
  - rewrite has_app. change (has k [mkt (MAct a d) o ins]) with (k a || false). rewrite orb_false_r. reflexivity.
  - rewrite !has_app. change (has k (y :: post)) with (tk k y || has k post). rewrite (Hloc y Hy). cbn [orb].
    change (has k [mkt (MAct a d) o ins]) with (k a || false). rewrite orb_false_r, <- orb_assoc. reflexivity.
Qed.

(* some action other than pass is pending *)
Definition real (ml : list tentry) : bool := existsb (fun t => is_action (t_e t) && negb (tk k_pass t)) ml.

Lemma real_app a b : real (a ++ b) = real a || real b.
Proof. apply existsb_app. Qed.

Lemma real_append ml a o ins : real (append ml a o ins) = real ml || negb (k_pass a).
Proof.
  destruct (append_shape ml a o ins) as (l1 & d & E & [->|(pre & y & post & -> & -> & Hy)]).
  - rewrite E, real_app. change (real [mkt (MAct a d) o ins]) with (negb (k_pass a) || false). rewrite orb_false_r. reflexivity.
  - rewrite E. rewrite !real_app. change (real [mkt (MAct a d) o ins]) with (negb (k_pass a) || false). rewrite !orb_false_r.
    (* a location entry was removed, so a itself is a move or a flag: not pass *)
    assert (Ha : k_pass a = false).
    { unfold append in E. destruct a; try reflexivity.
      exfalso. apply (f_equal (@length _)) in E. rewrite !app_length in E. cbn [length] in E. lia. }
    rewrite Ha. cbn [negb]. rewrite !orb_true_r. reflexivity.
Qed.

Lemma acts_left_real ml : Nat.eqb (acts_left (filter (fun t => negb (tk k_pass t)) ml)) 0 = negb (real ml).
Proof.
  unfold acts_left, real. induction ml as [|t r IH]; [reflexivity|].
  cbn [filter existsb]. destruct (tk k_pass t) eqn:Ep; cbn [negb].
  - rewrite andb_false_r. cbn [orb]. exact IH.
  - cbn [filter]. destruct (is_action (t_e t)); cbn [andb orb length Nat.eqb negb]; [reflexivity|exact IH].
Qed.

(* ---- conditions without negation only append pattern matches ------------------------------------------------ *)
Fixpoint posc (c : cond) : bool :=
  match c with CNeg _ => false | CAnd l r | COr l r => posc l && posc r | _ => true end.

Lemma eval_cond_pos c env : posc c = true -> forall cur ins ml st,
  exists pats, no_actions pats /\ eval (compile_cond c) env cur ins ml st = (ev_of (sem c env), ml ++ pats, st).
Proof.
  induction c as [a|a| |l IHl r IHr|l IHl r IHr|c IH]; intros Hp cur ins ml st; cbn [compile_cond eval sem posc] in *.
  - destruct (env a); [exists [mkt (MPat a) cur ins]; split; [repeat constructor|reflexivity]|
                        exists []; split; [constructor|rewrite app_nil_r; reflexivity]].
  - exists []. split; [constructor|]. rewrite app_nil_r. destruct (env a); reflexivity.
  - exists []. split; [constructor|]. rewrite app_nil_r. reflexivity.
  - apply andb_prop in Hp. destruct Hp as [Hl Hr].
    destruct (IHl Hl cur ins ml st) as (p1 & Hn1 & E1). rewrite E1.
    destruct (sem l env); cbn [ev_of andb].
    + destruct (IHr Hr cur ins (ml ++ p1) st) as (p2 & Hn2 & E2). rewrite E2.
      exists (p1 ++ p2). split; [apply Forall_app; split; assumption|]. rewrite app_assoc. reflexivity.
    + exists p1. split; [exact Hn1|reflexivity].
  - apply andb_prop in Hp. destruct Hp as [Hl Hr].
    destruct (IHl Hl cur ins ml st) as (p1 & Hn1 & E1). rewrite E1.
    destruct (sem l env); cbn [ev_of orb].
    + exists p1. split; [exact Hn1|reflexivity].
    + destruct (IHr Hr cur ins (ml ++ p1) st) as (p2 & Hn2 & E2). rewrite E2.
      exists (p1 ++ p2). split; [apply Forall_app; split; assumption|]. rewrite app_assoc. reflexivity.
  - discriminate Hp.
Qed.

Lemma no_actions_others pats : no_actions pats -> others pats = [] /\ (forall k, has k pats = false) /\ real pats = false.
Proof.
  induction 1 as [|t r Ht _ [IH1 [IH2 IH3]]]; [repeat split; reflexivity|].
  unfold others, has, real in *. cbn [flat_map existsb]. unfold proj, tk, is_kind.
  destruct (t_e t) as [| |a d]; try discriminate Ht; cbn [app orb andb]; repeat split; try assumption; intros k; apply IH2.
Qed.
