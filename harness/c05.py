"""C05 - dry run (-d) and syntax check (-n) never change anything.
Tie: interposer traces of -d / -n runs over generated configurations (every action kind incl. exec,
label, discard, move to missing destinations, invalid interpolation, command conditions) and
populations, in maildir and stdin mode; the whole sandbox is snapshotted before and after (names,
sizes, hashes, mtimes).  The model fact is structural (MainDefs.pipeline): the monitor is the
snapshot comparison plus the absence of any mutating call / exec-action fork in the trace."""
import os, random
import common, mdrun, confgen, iorun
from iorun import parse_trace

MUTATING = ('renameat', 'unlinkat', 'unlink', 'utimensat', 'mkdir', 'rmdir', 'mkdtemp', 'mkstemp', 'write', 'fprintf', 'fflush', 'fsync')


def special_configs(ctx):
    return [
        'maildir "%(src)s" {\n\tmatch all move "%(mdA)s/nowhere"\n}\n' % ctx,
        'maildir "%(src)s" {\n\tmatch header "Subject" /(message)/ move "%(mdA)s/\\7"\n}\n' % ctx,
        'maildir "%(src)s" {\n\tmatch command { "%(helper)s" "cond" } exec stdin { "%(helper)s" "act" } label "z" move "%(mdA)s"\n}\n' % ctx,
        'maildir "%(src)s" {\n\tmatch all exec stdin body { "%(helper)s" "body" } discard\n}\n' % ctx if False else
        'maildir "%(src)s" {\n\tmatch all exec stdin body { "%(helper)s" "body" }\n\tmatch new discard\n}\n' % ctx,
        'maildir "%(src)s" {\n\tmatch date modified > 1 seconds and isdirectory "%(mdA)s" add-header "X-D" "1" flag !new\n}\n' % ctx,
        'maildir "%(src)s" {\n\tmatch all attachment {\n\t\tmatch all exec { "%(helper)s" "att" }\n\t}\n}\n' % ctx,
        'maildir "%(src)s" "%(mdB)s" {\n\tmatch all label "both" pass\n\tmatch all flags "T"\n}\n' % ctx,
        # the same maildir met more than once in one run (several blocks, a path listed twice): under -d the messages are all still there the
        # second time, and still nothing is done to them
        'maildir "%(src)s" {\n\tmatch new move "%(mdA)s"\n\tmatch all discard\n}\nmaildir "%(src)s" {\n\tmatch all label "again" exec { "%(helper)s" "second" } move "%(mdB)s"\n}\n' % ctx,
        'maildir { "%(src)s" "%(src)s" } {\n\tmatch all move "%(mdA)s" flag !new\n}\nmaildir "%(src)s" {\n\tmatch all discard\n}\n' % ctx,
    ]


def failing_configs(ctx, stdin):
    """configurations whose real run would fail while evaluating or interpolating (over-long paths after
    interpolation or as configured, missing destination, invalid back-reference, exec): -d must still leave nothing"""
    head = 'stdin' if stdin else 'maildir "%(src)s"' % ctx
    return [
        head + ' {\n\tmatch header "X-Long" /(.+)/ move "%(mdA)s/\\1"\n}\n' % ctx,
        head + (' {\n\tmatch all move "%(mdA)s/' % ctx) + 'd' * 4200 + '"\n}\n',
        head + ' {\n\tmatch header "X-Long" /(.+)/ and isdirectory "%(mdA)s/\\1" move "%(mdA)s"\n}\n' % ctx,
        head + ' {\n\tmatch header "X-Long" /(.+)/ label "\\1" flag !new\n}\n' % ctx,
        head + ' {\n\tmatch all move "%(mdA)s/nowhere"\n}\n' % ctx,
        head + ' {\n\tmatch header "X-Long" /(x)/ move "%(mdA)s/\\7"\n}\n' % ctx,
        head + ' {\n\tmatch all exec stdin { "%(helper)s" "act" } move "%(mdA)s"\n}\n' % ctx,
    ]


LONG_MSG = b'From: a@example.org\nTo: b@example.org\nSubject: long\nX-Long: ' + b'x' * 5000 + b'\n\nbody\n'


def one_run(ck, rng, stats, mode, conf_text, stdin_msg=None, samples=None, variant=None, long_msg=False):
    sb = mdrun.Sandbox()
    src = sb.maildir('src'); mdA = sb.maildir('mdA'); mdB = sb.maildir('mdB')
    helper, hout = confgen.install_helper(sb)
    ctx = {'src': src, 'mdA': mdA, 'mdB': mdB, 'helper': helper}
    text = conf_text(ctx, sb) if callable(conf_text) else conf_text % ctx
    for i, env in enumerate(confgen.all_envs()):
        sub = 'new' if i % 2 == 0 else 'cur'
        extra = b'Content-Type: multipart/mixed; boundary="q"\n' if i == 3 else b''
        body = b'--q\nContent-Type: text/plain\n\npart\n--q--\n' if i == 3 else None
        sb.add(src, sub, confgen.message_for(env, i, extra, body), mtime=1500000000 + i)
    sb.add(mdB, 'cur', confgen.message_for((True, False, True), 99), mtime=1400000000)
    if long_msg:
        sb.add(src, 'new', LONG_MSG, mtime=1500000100)
    conf = sb.write_conf(text)
    before = sb.tree()
    def dir_times():
        out = {}
        for dp, dn, fn in os.walk(sb.root):
            for n in dn:
                p_ = os.path.join(dp, n)
                rel = os.path.relpath(p_, sb.root)
                if rel.startswith('helper-out'):
                    continue
                out[rel] = os.lstat(p_).st_mtime_ns
        return out
    dbefore = dir_times()
    log = os.path.join(sb.root, 'trace.log')
    env = {'VFIO_LOG': log, 'VFIO_ROOT': sb.root, 'VERIF_HELPER_OUT': hout}
    if variant == 'dtunknown':
        env['VFIO_DTUNKNOWN'] = '1'          # a file system that does not report file types
    if variant and variant.startswith('env:'):
        # an unusual environment: a variable of the given length (realistic spelling: a zone file path padded with "./")
        _, var, ln = variant.split(':')
        ln = int(ln)
        val = ':/usr/share/zoneinfo/' + './' * ((ln - 28) // 2) + ('/' if (ln - 28) % 2 else '') + 'Etc/UTC' if var == 'TZ' else '/' + 'd' * (ln - 1)
        assert len(val) == ln, (len(val), ln)
        env[var] = val
    args = mode.split() + (['-'] if stdin_msg is not None else [])
    rc, out, err = sb.run(args, conf=conf, env=env, stdin=stdin_msg, preload=iorun.SHIM,
                          stdout_path='/dev/full' if variant == 'devfull' else None)   # stdout that cannot be written
    stats['runs'] += 1
    trace = []
    if os.path.exists(log):
        trace = parse_trace([l.rstrip('\n') for l in open(log, errors='replace')])
        os.unlink(log)
    after = sb.tree()
    dafter = dir_times()
    # the spool directory of stdin mode is created in and removed from TMPDIR: its modification time may change
    dchanged = sorted(k for k in set(dbefore) | set(dafter) if dbefore.get(k) != dafter.get(k) and not (stdin_msg is not None and k == 'tmp'))
    rep = {'mode': mode, 'stdin': stdin_msg is not None, 'variant': variant, 'config': text, 'exit': rc, 'stderr': err[-300:].decode(errors='replace')}
    # ---- monitor -----------------------------------------------------------------------------------
    diff = [k for k in set(before) | set(after) if before.get(k) != after.get(k) and not k.startswith('helper-out')]
    helper_calls = sorted(os.listdir(hout))
    argvs = []
    for h in helper_calls:
        try:
            argvs.append(open(os.path.join(hout, h, 'argv'), 'rb').read().split(b'\0')[0])
        except OSError:
            pass
    bad = None
    if rc < 0 or rc > 100:
        bad = 'mdsort did not terminate normally (status %d)' % rc
    elif diff:
        bad = 'the sandbox changed: %s' % sorted(diff)[:4]
    elif dchanged:
        bad = 'the modification time of director%s %s changed (something was created or removed there)' % ('y' if len(dchanged) == 1 else 'ies', dchanged[:4])
    elif any(a != b'cond' for a in argvs):
        bad = 'an exec action was run: helper calls %r' % argvs[:4]
    elif 'n' in mode:          # -n, also combined with -d in any order or spelling
        touched = [c for c in trace if c['call'] in ('opendir', 'openat', 'open', 'fork', 'readdir', 'mkdtemp') or c['call'] in MUTATING]
        if touched or argvs:
            bad = 'syntax check touched something: %s' % [(c['call'], c['args'][:60]) for c in touched[:4]]
    else:
        # dry run: no mutating call outside the stdin spool (which must be created and removed: net effect none)
        # stdin mode: the spool DIRECTORY created by mkdtemp (and what is inside it) is the one thing -d may create and must
        # remove again; anything else under TMPDIR (e.g. a temporary file for exec stdin body) is a mutation like any other
        spools = [c['args'].split(' ')[0] for c in trace if c['call'] == 'mkdtemp'] if stdin_msg is not None else []
        def in_spool(c):
            a0 = c['args'].split(' ')[0]
            return any(a0 == sp or a0.startswith(sp + '/') or (' ' in c['args'] and c['args'].split(' ')[1].startswith(sp)) for sp in spools)
        # (a call on the empty path - rmdir("") in the clean-up after a spool that was never created - cannot change anything)
        mut = [c for c in trace if c['call'] in MUTATING and not in_spool(c) and c['args'].split(' ')[0] != '']
        forks = [c for c in trace if c['call'] == 'fork']
        if mut:
            bad = 'mutating call(s) under -d: %s' % [(c['call'], c['args'][:60]) for c in mut[:4]]
        elif len(forks) != len(argvs):
            bad = '%d fork(s) but %d command condition(s) ran' % (len(forks), len(argvs))
    if bad:
        stats['viol'] += 1
        if stats['viol'] <= 4:
            ck.violation('%s%s: %s' % (mode, ' -' if stdin_msg is not None else '', bad), rep)
    stats['calls'] += len(trace)
    if trace and any(c['call'] == 'openat' for c in trace):
        stats['nontrivial'] += 1
    if samples is not None and len(samples) < 3:
        samples.append({'mode': mode, 'config': text[:300], 'calls': len(trace), 'exit': rc})
    sb.cleanup()


def broken_stdin_runs(ck, stats):
    """stdin mode when the message cannot be read (stdin closed, stdin a directory): status 75 and nothing left in TMPDIR,
    with -d and without"""
    import subprocess
    exe = os.path.join(common.scratch_build('plain'), 'mdsort')
    for mode in (['-d'], [], ['-d', '-vv']):
        for how in ('closed', 'directory'):
            sb = mdrun.Sandbox()
            dst = sb.maildir('dst')
            conf = sb.write_conf(('stdin {\n\tmatch all move "%s"\n}\n' % dst).encode())
            env = sb.env({})
            before = sb.tree()
            if how == 'closed':
                p_ = subprocess.run([exe, '-f', conf] + mode + ['-'], cwd=sb.root, env=env, stdin=subprocess.DEVNULL, capture_output=True,
                                    preexec_fn=lambda: os.close(0), timeout=30)
            else:
                fd = os.open(sb.root, os.O_RDONLY)
                try:
                    p_ = subprocess.run([exe, '-f', conf] + mode + ['-'], cwd=sb.root, env=env, stdin=fd, capture_output=True, timeout=30)
                finally:
                    os.close(fd)
            stats['runs'] += 1; stats['broken_stdin'] = stats.get('broken_stdin', 0) + 1
            after = sb.tree()
            diff = sorted(k for k in set(before) | set(after) if before.get(k) != after.get(k))
            rc = p_.returncode
            if diff:
                ck.violation('stdin %s, mdsort %s -: left behind / changed %r (exit %d)' % (how, ' '.join(mode), diff[:4], rc),
                             {'stage': 'broken-stdin', 'how': how, 'mode': mode, 'exit': rc, 'stderr': p_.stderr[-300:].decode(errors='replace')})
            elif rc != 75:
                ck.violation('stdin %s, mdsort %s -: exit status %d instead of 75' % (how, ' '.join(mode), rc),
                             {'stage': 'broken-stdin', 'how': how, 'mode': mode, 'exit': rc, 'stderr': p_.stderr[-300:].decode(errors='replace')})
            sb.cleanup()


def run(ck):
    rng = ck.rng
    stats = dict(runs=0, viol=0, calls=0, nontrivial=0)
    broken_stdin_runs(ck, stats)
    samples = []
    n = 25 if ck.tier == 'quick' else 400
    confs = []
    for i in range(n):
        rules = confgen.gen_block(rng, 0, rng.choice([0, 1, 2]), atoms=confgen.NATOMS)
        confs.append(lambda ctx, sb, rules=rules: confgen.render_conf(rules, ctx))
    for k in range(9):
        confs.append(lambda ctx, sb, k=k: special_configs(ctx)[k])
    for idx, c in enumerate(confs):
        one_run(ck, rng, stats, '-d', c, samples=samples)
        one_run(ck, rng, stats, '-n', c)
        if idx % 5 == 0 or idx >= n:
            one_run(ck, rng, stats, rng.choice(['-n -d', '-d -n', '-dn', '-nd', '-n -v', '-vn']), c)
            one_run(ck, rng, stats, rng.choice(['-d -vv', '-d -v -v', '-dvvv', '-vvd', '-d -v']), c)
        if idx % 4 == 0 or idx >= n:
            one_run(ck, rng, stats, '-d', c, variant='devfull')
            one_run(ck, rng, stats, '-d', c, variant='dtunknown')
        if len(ck.violations) > 6:
            break
    # unusual environments: values at and beyond what mdsort's own buffers hold (TZ: 256 bytes; HOME, TMPDIR: PATH_MAX) - whether mdsort
    # refuses to start or copes, -d and -n change nothing
    envs = ['env:TZ:%d' % l for l in (255, 256, 272, 279, 280, 281, 282, 283, 284, 288, 300)] + ['env:TMPDIR:%d' % l for l in (4095, 4096)] + ['env:HOME:4096']
    if ck.tier == 'quick':
        envs = envs[ck.rng.randrange(2)::2] + ['env:TZ:280']
    for v in envs:
        c = confs[n + 2] if v.endswith(('0', '2')) else confs[0]
        for mode in ('-d', '-n'):
            one_run(ck, rng, stats, mode, c, variant=v)
        f = lambda ctx, sb: confgen.render_conf(confgen.gen_block(random.Random(7), 0, 1, atoms=confgen.NATOMS), ctx, stdin=True)
        one_run(ck, rng, stats, '-d', f, stdin_msg=confgen.message_for(confgen.all_envs()[0], 7), variant=v)
    # stdin mode
    for i in range(6 if ck.tier == 'quick' else 60):
        rules = confgen.gen_block(rng, 0, 1, atoms=confgen.NATOMS)
        f = lambda ctx, sb, rules=rules: confgen.render_conf(rules, ctx, stdin=True)
        msg = confgen.message_for(rng.choice(confgen.all_envs()), 7)
        one_run(ck, rng, stats, '-d', f, stdin_msg=msg)
        one_run(ck, rng, stats, '-n', f, stdin_msg=msg)
        one_run(ck, rng, stats, rng.choice(['-n -d', '-dn', '-nd']), f, stdin_msg=msg)
        one_run(ck, rng, stats, rng.choice(['-d -vv', '-dvvv', '-d -v -v']), f, stdin_msg=msg)
        one_run(ck, rng, stats, '-d', f, stdin_msg=msg, variant='dtunknown')
        one_run(ck, rng, stats, '-d', f, stdin_msg=msg, variant='devfull')
    # configurations whose real run would fail, in both modes
    for stdin in (False, True):
        for k in range(7):
            f = lambda ctx, sb, k=k, stdin=stdin: failing_configs(ctx, stdin)[k]
            one_run(ck, rng, stats, '-d', f, stdin_msg=(LONG_MSG if stdin else None), long_msg=True)
            one_run(ck, rng, stats, '-n', f, stdin_msg=(LONG_MSG if stdin else None), long_msg=True)
            if ck.tier != 'quick' or k < 3:
                one_run(ck, rng, stats, '-d', f, stdin_msg=(LONG_MSG if stdin else None), long_msg=True, variant='devfull')
    ck.coverage.update({
        'evaluations': stats['runs'],
        'distinct_nontrivial': stats['nontrivial'],
        'rule': 'random rule trees (confgen: and/or/!/parentheses/unparenthesised chains, nested blocks, actions move/flag/flags/label/add-header/discard/exec, '
                'pass/break) plus 9 special configurations (the same maildir in several blocks / listed twice, missing destination, invalid back-reference, command condition + exec stdin + label, exec stdin body, '
                'date+isdirectory, attachment block, two maildirs) over a population of 9 messages in new/cur; each with -d and with -n, a fifth also with -n and -d / -v combined in either order and spelling and with -d and repeated -v; stdin variants; -d / -n under TZ values of 255-300 characters and HOME / TMPDIR of PATH_MAX characters; 7 configurations whose real run '
                'would fail (path too long after interpolation / as configured, missing destination, invalid back-reference, exec) in maildir and stdin mode. '
                'non-trivial = a run that opened at least one message; distinct = distinct runs',
        'samples': samples,
        'traces_validated_against_impl': stats['runs'],
        'interposed_calls_inspected': stats['calls'],
    })
    ck.assumptions += ['snapshot = names, sizes, SHA-1, mtimes of everything in the sandbox (maildirs, TMPDIR, HOME)']


def replay(ck, rp):
    stats = dict(runs=0, viol=0, calls=0, nontrivial=0)
    import random
    text = rp['config']
    lm = 'X-Long' in text
    one_run(ck, random.Random(1), stats, rp['mode'], lambda ctx, sb: text, stdin_msg=((LONG_MSG if lm else confgen.message_for((True, True, True), 7)) if rp.get('stdin') else None), variant=rp.get('variant'), long_msg=lm)
    return 1 if ck.violations else 0
