#!/bin/sh
# usage: try_mutant.sh Cxx i [check-id]  - confirm /tmp/wtout/Cxx/patch<i>.diff in scratch copies, then run the property's quick check on it
P=$1; I=$2; CK=${3:-$1}
[ -f /tmp/wtout/$P/patch$I.diff ] || { echo "$P-$I: no patch"; exit 0; }
r=$(sh /verif/harness/verify_seeded.sh /tmp/wtout/$P/patch$I.diff /tmp/wtout/$P/demo$I.sh 2>&1 | tail -1)
c=$(sh /verif/harness/run_on_mutant.sh /tmp/wtout/$P/patch$I.diff $CK --skip-proof 2>&1 | grep -c '^VIOLATION')
echo "$P-$I: $r; check $CK: $c violation line(s)"
