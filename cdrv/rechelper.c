/* recording helper for exec / command checks: writes, into a fresh directory under
 * $VERIF_HELPER_OUT, its argv (NUL separated), everything readable on stdin, the list of open
 * descriptors with their targets (descriptor inheritance), its environment and working directory, then exits as $VERIF_HELPER_EXIT says
 * ("N" = exit status N, "sigN" = kill itself with signal N; argv[1] of the form "exit=N"/"sig=N" wins). */
#define _GNU_SOURCE
#include <dirent.h>
#include <fcntl.h>
#include <signal.h>
#include <stdio.h>
#include <stdlib.h>
#include <string.h>
#include <sys/stat.h>
#include <unistd.h>

int main(int argc, char **argv) {
	const char *out = getenv("VERIF_HELPER_OUT");
	const char *ex = getenv("VERIF_HELPER_EXIT");
	char dir[4096], path[4200], buf[65536];
	int i, n = 0, fd;
	ssize_t r;
	DIR *d;
	struct dirent *e;
	FILE *f;
	if (out == NULL) return 99;
	for (;;) {
		snprintf(dir, sizeof dir, "%s/call-%03d", out, n);
		if (mkdir(dir, 0700) == 0) break;
		if (++n > 999) return 98;
	}
	/* descriptors first, before this program opens anything else */
	snprintf(path, sizeof path, "%s/fds", dir);
	d = opendir("/proc/self/fd");
	{
		char lines[8192] = "";
		size_t used = 0;
		int dfd = dirfd(d);
		while ((e = readdir(d)) != NULL) {
			char link[64], target[1024];
			ssize_t l;
			int k = atoi(e->d_name);
			if (e->d_name[0] == '.' || k == dfd) continue;
			snprintf(link, sizeof link, "/proc/self/fd/%d", k);
			l = readlink(link, target, sizeof target - 1);
			if (l < 0) l = 0;
			target[l] = '\0';
			used += (size_t)snprintf(lines + used, sizeof lines - used, "%d %s\n", k, target);
		}
		closedir(d);
		f = fopen(path, "w"); fputs(lines, f); fclose(f);
	}
	snprintf(path, sizeof path, "%s/argv", dir);
	f = fopen(path, "w");
	for (i = 0; i < argc; i++) { fwrite(argv[i], 1, strlen(argv[i]) + 1, f); }
	fclose(f);
	{
		extern char **environ;
		char **ep, cwd[4096];
		snprintf(path, sizeof path, "%s/environ", dir);
		f = fopen(path, "w");
		for (ep = environ; *ep != NULL; ep++) { fwrite(*ep, 1, strlen(*ep) + 1, f); }
		fclose(f);
		snprintf(path, sizeof path, "%s/cwd", dir);
		f = fopen(path, "w");
		if (getcwd(cwd, sizeof cwd) != NULL) fputs(cwd, f);
		fclose(f);
	}
	snprintf(path, sizeof path, "%s/stdin", dir);
	fd = open(path, O_WRONLY | O_CREAT | O_TRUNC, 0600);
	{
		off_t pos = lseek(0, 0, SEEK_CUR);
		char p[64];
		snprintf(p, sizeof p, "%ld\n", (long)pos);
		snprintf(path, sizeof path, "%s/offset", dir);
		f = fopen(path, "w"); fputs(p, f); fclose(f);
	}
	while ((r = read(0, buf, sizeof buf)) > 0) { if (write(fd, buf, (size_t)r) != r) break; }
	close(fd);
	if (argc > 1 && strncmp(argv[1], "exit=", 5) == 0) return atoi(argv[1] + 5);
	if (argc > 1 && strncmp(argv[1], "sig=", 4) == 0) { raise(atoi(argv[1] + 4)); pause(); }
	if (ex != NULL) {
		if (strncmp(ex, "sig", 3) == 0) { raise(atoi(ex + 3)); pause(); }
		return atoi(ex);
	}
	return 0;
}
