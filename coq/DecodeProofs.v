(* Proofs about the decode.c model: base64 = RFC 4648 spec, target bound unreachable,
   quoted-printable decodes every encoding and never fails, RFC 2047 fuel adequacy. *)
From MD Require Import Bytes Generated DecodeDefs DecodeSpec.
From Coq Require Import ZifyBool ZifyN ZifyNat.
Local Open Scope N_scope.

Arguments N.shiftl : simpl never.
Arguments N.shiftr : simpl never.
Arguments N.lor : simpl never.
Arguments N.land : simpl never.
Arguments N.mul : simpl never.
Arguments N.div : simpl never.
Arguments N.modulo : simpl never.
Arguments N.add : simpl never.
Arguments Nat.modulo : simpl never.
Arguments Nat.ltb : simpl never.

(* ---------------------------------------------------------------------------------------- *)
(* generic list facts                                                                        *)
Lemma list_ind4 {A} (P : list A -> Prop) :
  P [] -> (forall a, P [a]) -> (forall a b, P [a; b]) -> (forall a b c, P [a; b; c]) ->
  (forall a b c d r, P r -> P (a :: b :: c :: d :: r)) -> forall l, P l.
Proof.
  intros H0 H1 H2 H3 H4. fix IH 1. intros [|a [|b [|c [|d r]]]];
    [exact H0 | apply H1 | apply H2 | apply H3 | apply H4, IH].
Qed.

Lemma filter_length_le' {A} (f : A -> bool) l : (length (filter f l) <= length l)%nat.
Proof. induction l as [|x l IH]; simpl; [lia|]. destruct (f x); simpl; lia. Qed.

Lemma map_opt_length {A B} (f : A -> option B) l r : map_opt f l = Some r -> length r = length l.
Proof.
  revert r; induction l as [|x l IH]; simpl; intros r H.
  - inversion H; reflexivity.
  - destruct (f x); [|discriminate]. destruct (map_opt f l) as [ys|]; [|discriminate].
    inversion H; subst; simpl. f_equal. apply IH. reflexivity.
Qed.

Lemma map_opt_Forall {A B} (f : A -> option B) (P : B -> Prop) l r :
  (forall x y, f x = Some y -> P y) -> map_opt f l = Some r -> Forall P r.
Proof.
  intros Hf. revert r; induction l as [|x l IH]; simpl; intros r H.
  - inversion H; constructor.
  - destruct (f x) eqn:E; [|discriminate]. destruct (map_opt f l) as [ys|]; [|discriminate].
    inversion H; subst. constructor; eauto.
Qed.

Lemma split_at_length c s pre post : split_at c s = (pre, post) -> (length pre <= length s)%nat.
Proof.
  revert pre post; induction s as [|x s IH]; simpl; intros pre post H.
  - inversion H; simpl; lia.
  - destruct (x =? c).
    + inversion H; simpl; lia.
    + destruct (split_at c s) as [a b]. specialize (IH a b eq_refl).
      inversion H; subst; simpl. lia.
Qed.

(* ---------------------------------------------------------------------------------------- *)
(* the alphabet                                                                              *)
Lemma alpha_index_index c l i :
  alpha_index c l i = match index_of c l with Some j => Some (i + j) | None => None end.
Proof.
  revert i; induction l as [|x l IH]; intros i; simpl; [reflexivity|].
  destruct (x =? c).
  - f_equal. lia.
  - rewrite IH. destruct (index_of c l); [f_equal; lia | reflexivity].
Qed.

Lemma sextet_of_b64val c : sextet_of c = b64val c.
Proof.
  unfold sextet_of, b64val. rewrite alpha_index_index. destruct (index_of c base64_alphabet); reflexivity.
Qed.

Lemma index_of_bound c l j : index_of c l = Some j -> j < N.of_nat (length l).
Proof.
  revert j; induction l as [|x l IH]; simpl; intros j H; [discriminate|].
  destruct (x =? c).
  - inversion H; lia.
  - destruct (index_of c l) as [i|]; [|discriminate]. inversion H; subst.
    specialize (IH i eq_refl). lia.
Qed.

Lemma b64val_lt64 c v : b64val c = Some v -> v < 64.
Proof.
  intros H. apply index_of_bound in H.
  replace (N.of_nat (length base64_alphabet)) with 64 in H by (vm_compute; reflexivity). exact H.
Qed.

Lemma pad_not_space : isspace pad64 = false.
Proof. vm_compute. reflexivity. Qed.

(* ---------------------------------------------------------------------------------------- *)
(* sextet arithmetic: finite sweeps lifted to all values below 64                            *)
Definition seq64 : list N := map N.of_nat (seq 0 64).

Lemma in_seq64 a : a < 64 -> In a seq64.
Proof.
  intros H. unfold seq64. replace a with (N.of_nat (N.to_nat a)) by lia.
  apply in_map. apply in_seq. lia.
Qed.

Lemma sweep2 (f : N -> N -> bool) :
  forallb (fun a => forallb (f a) seq64) seq64 = true ->
  forall a b, a < 64 -> b < 64 -> f a b = true.
Proof.
  intros H a b Ha Hb. rewrite forallb_forall in H. specialize (H a (in_seq64 a Ha)).
  rewrite forallb_forall in H. exact (H b (in_seq64 b Hb)).
Qed.

Lemma bits1 a b : a < 64 -> b < 64 -> N.lor (N.shiftl a 2) (N.shiftr b 4) = a * 4 + b / 16.
Proof.
  intros Ha Hb. apply N.eqb_eq.
  apply (sweep2 (fun a b => N.lor (N.shiftl a 2) (N.shiftr b 4) =? a * 4 + b / 16));
    [vm_compute; reflexivity | assumption | assumption].
Qed.

Lemma bits2 b c : b < 64 -> c < 64 ->
  N.lor (N.shiftl (N.land b 15) 4) (N.shiftr c 2) = (b mod 16) * 16 + c / 4.
Proof.
  intros Hb Hc. apply N.eqb_eq.
  apply (sweep2 (fun b c => N.lor (N.shiftl (N.land b 15) 4) (N.shiftr c 2) =? (b mod 16) * 16 + c / 4));
    [vm_compute; reflexivity | assumption | assumption].
Qed.

Lemma bits3 c d : c < 64 -> d < 64 -> N.lor (N.shiftl (N.land c 3) 6) d = (c mod 4) * 64 + d.
Proof.
  intros Hc Hd. apply N.eqb_eq.
  apply (sweep2 (fun c d => N.lor (N.shiftl (N.land c 3) 6) d =? (c mod 4) * 64 + d));
    [vm_compute; reflexivity | assumption | assumption].
Qed.

Lemma slop2 b : b < 64 -> N.shiftl (N.land b 15) 4 = (b mod 16) * 16.
Proof.
  intros Hb. apply N.eqb_eq.
  apply (sweep2 (fun b _ => N.shiftl (N.land b 15) 4 =? (b mod 16) * 16)) with (b := 0);
    [vm_compute; reflexivity | assumption | lia].
Qed.

Lemma slop3 c : c < 64 -> N.shiftl (N.land c 3) 6 = (c mod 4) * 64.
Proof.
  intros Hc. apply N.eqb_eq.
  apply (sweep2 (fun c _ => N.shiftl (N.land c 3) 6 =? (c mod 4) * 64)) with (b := 0);
    [vm_compute; reflexivity | assumption | lia].
Qed.

(* ---------------------------------------------------------------------------------------- *)
(* the state machine over sextets                                                            *)
Definition mstep (st : nat) (rout : bytes) (cur v : N) : nat * bytes * N :=
  match st with
  | O => (1%nat, rout, N.shiftl v 2)
  | 1%nat => (2%nat, N.lor cur (N.shiftr v 4) :: rout, N.shiftl (N.land v 15) 4)
  | 2%nat => (3%nat, N.lor cur (N.shiftr v 2) :: rout, N.shiftl (N.land v 3) 6)
  | _ => (O, N.lor cur v :: rout, 0)
  end.

Fixpoint run (vs : list N) (st : nat) (rout : bytes) (cur : N) : nat * bytes * N :=
  match vs with
  | [] => (st, rout, cur)
  | v :: r => let '(st', rout', cur') := mstep st rout cur v in run r st' rout' cur'
  end.

(* the characters up to the first pad, as sextets; Some rest = what follows the pad *)
Fixpoint scan (s : bytes) : option (list N * option bytes) :=
  match s with
  | [] => Some ([], None)
  | ch :: r =>
      if isspace ch then scan r
      else if ch =? pad64 then Some ([], Some r)
      else match b64val ch with
           | None => None
           | Some v => match scan r with
                       | Some (vs, x) => Some (v :: vs, x)
                       | None => None
                       end
           end
  end.

Definition loop_of_scan (s : bytes) (st : nat) (rout : bytes) (cur : N) : loopres :=
  match scan s with
  | None => LErr
  | Some (vs, post) =>
      let '(st', rout', cur') := run vs st rout cur in
      match post with
      | None => LEnd st' rout' cur'
      | Some p => LPad p st' rout' cur'
      end
  end.

(* With a target of more than |rout| + |s| bytes no bound branch of b64_pton is taken. *)
Lemma loop_scan T s : forall st rout cur,
  (length rout + length s < T)%nat ->
  pton_loop T s st rout cur = loop_of_scan s st rout cur.
Proof.
  induction s as [|ch r IH]; intros st rout cur HT.
  - reflexivity.
  - unfold loop_of_scan. cbn [pton_loop scan]. cbn [length] in HT.
    destruct (isspace ch) eqn:Hs.
    { rewrite IH by lia. reflexivity. }
    destruct (ch =? pad64) eqn:Hp.
    { reflexivity. }
    destruct (b64val ch) as [v|] eqn:Hv; [|reflexivity].
    assert (H1 : Nat.ltb (length rout) T = true) by (apply Nat.ltb_lt; lia).
    assert (H2 : Nat.ltb (S (length rout)) T = true) by (apply Nat.ltb_lt; lia).
    rewrite H1. cbn [negb].
    destruct st as [|[|[|st]]]; cbn [mstep run].
    + rewrite IH by lia. unfold loop_of_scan. destruct (scan r) as [[vs x]|]; reflexivity.
    + rewrite H2. rewrite IH by (cbn [length]; lia). unfold loop_of_scan.
      destruct (scan r) as [[vs x]|]; reflexivity.
    + rewrite H2. rewrite IH by (cbn [length]; lia). unfold loop_of_scan.
      destruct (scan r) as [[vs x]|]; reflexivity.
    + rewrite IH by (cbn [length]; lia). unfold loop_of_scan.
      destruct (scan r) as [[vs x]|]; reflexivity.
Qed.

Lemma scan_spec s :
  scan s = let (pre, post) := split_at pad64 s in
           match map_opt sextet_of (filter nonspace pre) with
           | Some vs => Some (vs, post)
           | None => None
           end.
Proof.
  induction s as [|ch r IH]; [reflexivity|].
  cbn [scan split_at]. destruct (isspace ch) eqn:Hs.
  - assert (ch =? pad64 = false) as ->.
    { apply N.eqb_neq. intros ->. rewrite pad_not_space in Hs. discriminate. }
    rewrite IH. destruct (split_at pad64 r) as [a b]. cbn [filter].
    assert (nonspace ch = false) as -> by (unfold nonspace; rewrite Hs; reflexivity).
    reflexivity.
  - destruct (ch =? pad64) eqn:Hp; [reflexivity|].
    rewrite IH. destruct (split_at pad64 r) as [a b]. cbn [filter].
    assert (nonspace ch = true) as -> by (unfold nonspace; rewrite Hs; reflexivity).
    cbn [map_opt]. rewrite sextet_of_b64val. destruct (b64val ch); [|reflexivity].
    destruct (map_opt sextet_of (filter nonspace a)); reflexivity.
Qed.

Lemma pack_length vs : (length (pack vs) <= length vs)%nat.
Proof.
  induction vs as [| | | |a b c d r IH] using list_ind4; simpl; lia.
Qed.

Lemma mod4_step {A} (a b c d : A) r :
  (length (a :: b :: c :: d :: r) mod 4 = length r mod 4)%nat.
Proof.
  replace (length (a :: b :: c :: d :: r)) with (length r + 1 * 4)%nat by (simpl; lia).
  apply Nat.mod_add. lia.
Qed.

(* What the machine has produced after any list of sextets. *)
Lemma run_pack vs : forall rout cur, Forall (fun v => v < 64) vs ->
  exists cur',
    run vs 0 rout cur = ((length vs mod 4)%nat, rev (pack vs) ++ rout, cur') /\
    ((length vs mod 4 = 2)%nat -> cur' = (last vs 0 mod 16) * 16) /\
    ((length vs mod 4 = 3)%nat -> cur' = (last vs 0 mod 4) * 64).
Proof.
  induction vs as [|a|a b|a b c|a b c d r IH] using list_ind4; intros rout cur HF.
  - exists cur. cbn. repeat split; intros H; discriminate H.
  - eexists. cbn. repeat split; intros H; discriminate H.
  - inversion HF as [|? ? Ha HF1]; subst. inversion HF1 as [|? ? Hb _]; subst.
    eexists. cbn [run mstep pack rev app length]. rewrite bits1 by assumption.
    repeat split; intros H; try discriminate H. cbn [last]. apply slop2; assumption.
  - inversion HF as [|? ? Ha HF1]; subst. inversion HF1 as [|? ? Hb HF2]; subst.
    inversion HF2 as [|? ? Hc _]; subst.
    eexists. cbn [run mstep pack rev app length]. rewrite bits1, bits2 by assumption.
    repeat split; intros H; try discriminate H. cbn [last]. apply slop3; assumption.
  - inversion HF as [|? ? Ha HF1]; subst. inversion HF1 as [|? ? Hb HF2]; subst.
    inversion HF2 as [|? ? Hc HF3]; subst. inversion HF3 as [|? ? Hd HF4]; subst.
    cbn [run mstep]. rewrite bits1, bits2, bits3 by assumption.
    destruct (IH (((c mod 4) * 64 + d) :: ((b mod 16) * 16 + c / 4) :: (a * 4 + b / 16) :: rout) 0 HF4)
      as [cur' [Hr [H2 H3]]].
    exists cur'. rewrite Hr. rewrite mod4_step. split.
    + cbn [pack rev]. rewrite <- !app_assoc. reflexivity.
    + assert (HL : forall k, (k = 2 \/ k = 3)%nat -> (length r mod 4 = k)%nat ->
                               last (a :: b :: c :: d :: r) 0 = last r 0).
      { intros k Hk Hm. destruct r as [|x r']; [cbn in Hm; lia|]. reflexivity. }
      split; intros H.
      * rewrite (HL 2%nat) by auto. auto.
      * rewrite (HL 3%nat) by auto. auto.
Qed.

(* ---------------------------------------------------------------------------------------- *)
(* the padding tail                                                                          *)
Lemma filter_nonspace_nil r : beq_bytes (filter nonspace r) [] = all_spaces r.
Proof.
  induction r as [|c r IH]; [reflexivity|]. cbn [filter all_spaces forallb]. unfold nonspace at 1.
  destruct (isspace c); cbn [negb andb]; [exact IH | reflexivity].
Qed.

Lemma tail2_eq p :
  beq_bytes (filter nonspace p) [pad64] =
  match skip_spaces p with
  | ch :: r2 => (ch =? pad64) && all_spaces r2
  | [] => false
  end.
Proof.
  induction p as [|c r IH]; [reflexivity|].
  cbn [filter skip_spaces]. unfold nonspace at 1. destruct (isspace c) eqn:Hs; cbn [negb].
  - exact IH.
  - cbn [beq_bytes]. rewrite filter_nonspace_nil. reflexivity.
Qed.

(* ---------------------------------------------------------------------------------------- *)
(* main theorems                                                                             *)
Definition res_of_opt (o : option bytes) : b64res :=
  match o with Some b => B64Ok b | None => B64Err end.

Theorem base64_decode_raw_spec s : base64_decode_raw s = res_of_opt (spec_b64 s).
Proof.
  unfold base64_decode_raw, b64_pton, spec_b64.
  rewrite loop_scan by (cbn [length]; lia).
  unfold loop_of_scan. rewrite scan_spec.
  destruct (split_at pad64 s) as [pre post] eqn:Hsp.
  destruct (map_opt sextet_of (filter nonspace pre)) as [vs|] eqn:Hvs; [|reflexivity].
  assert (HF : Forall (fun v => v < 64) vs).
  { eapply map_opt_Forall; [|exact Hvs]. intros x y Hxy. rewrite sextet_of_b64val in Hxy.
    eapply b64val_lt64; eauto. }
  assert (HL : (length vs <= length s)%nat).
  { apply map_opt_length in Hvs. rewrite Hvs.
    pose proof (filter_length_le' nonspace pre). pose proof (split_at_length _ _ _ _ Hsp). lia. }
  destruct (run_pack vs [] 0 HF) as [cur' [Hr [H2 H3]]]. rewrite Hr. rewrite app_nil_r.
  assert (HT : Nat.ltb (length (rev (pack vs))) (S (length s)) = true).
  { apply Nat.ltb_lt. rewrite rev_length. pose proof (pack_length vs). lia. }
  assert (Hm : (length vs mod 4 < 4)%nat) by (apply Nat.mod_upper_bound; lia).
  destruct post as [p|].
  - destruct (length vs mod 4)%nat as [|[|[|[|k]]]] eqn:Hmod; try lia.
    + reflexivity.
    + reflexivity.
    + rewrite tail2_eq. unfold pton_tail. rewrite HT, rev_involutive.
      specialize (H2 eq_refl). unfold unused_bits. rewrite Hmod.
      destruct (skip_spaces p) as [|ch r2]; [reflexivity|].
      destruct (ch =? pad64); [|reflexivity]. cbn [andb].
      destruct (all_spaces r2); cbn [negb andb]; [|reflexivity].
      subst cur'. destruct (last vs 0 mod 16 =? 0) eqn:E.
      * assert (last vs 0 mod 16 * 16 =? 0 = true) as -> by lia. reflexivity.
      * assert (last vs 0 mod 16 * 16 =? 0 = false) as -> by lia. reflexivity.
    + unfold pton_tail. rewrite HT, rev_involutive, filter_nonspace_nil.
      specialize (H3 eq_refl). unfold unused_bits. rewrite Hmod.
      destruct (all_spaces p); cbn [negb andb]; [|reflexivity].
      subst cur'. destruct (last vs 0 mod 4 =? 0) eqn:E.
      * assert (last vs 0 mod 4 * 64 =? 0 = true) as -> by lia. reflexivity.
      * assert (last vs 0 mod 4 * 64 =? 0 = false) as -> by lia. reflexivity.
  - rewrite rev_involutive. destruct (length vs mod 4)%nat; reflexivity.
Qed.

Theorem base64_decode_spec s : base64_decode s = spec_b64 s.
Proof.
  unfold base64_decode. rewrite base64_decode_raw_spec. destruct (spec_b64 s); reflexivity.
Qed.

(* None of the tarindex >= targsize branches is reachable with the size base64_decode passes. *)
Theorem base64_decode_no_bound s : base64_decode_raw s <> B64Bound.
Proof. rewrite base64_decode_raw_spec. destruct (spec_b64 s); discriminate. Qed.

(* Every write of base64_decode is inside the len+1 byte target, the final terminator included. *)
Theorem base64_decode_fits s o : base64_decode s = Some o -> (length o <= length s)%nat.
Proof.
  rewrite base64_decode_spec. unfold spec_b64.
  destruct (split_at pad64 s) as [pre post] eqn:Hsp.
  destruct (map_opt sextet_of (filter nonspace pre)) as [vs|] eqn:Hvs; [|discriminate].
  assert (HL : (length vs <= length s)%nat).
  { apply map_opt_length in Hvs. rewrite Hvs.
    pose proof (filter_length_le' nonspace pre). pose proof (split_at_length _ _ _ _ Hsp). lia. }
  pose proof (pack_length vs) as HP.
  intros H.
  assert (o = pack vs) as ->.
  { destruct post as [p|]; destruct (length vs mod 4)%nat as [|[|[|[|k]]]]; try discriminate;
      repeat match type of H with
             | (if ?b then _ else _) = _ => destruct b; try discriminate
             end; inversion H; reflexivity. }
  lia.
Qed.

(* ---------------------------------------------------------------------------------------- *)
(* quoted-printable                                                                          *)
Lemma htoa_hexdigit n : n < 16 -> htoa (hexdigit n) = Some n.
Proof.
  intros H. unfold htoa, hexdigit.
  destruct (n <? 10) eqn:E.
  - assert ((65 <=? 48 + n) && (48 + n <=? 70) = false) as -> by lia.
    assert ((48 <=? 48 + n) && (48 + n <=? 57) = true) as -> by lia. f_equal. lia.
  - assert ((65 <=? 55 + n) && (55 + n <=? 70) = true) as -> by lia. f_equal. lia.
Qed.

Lemma hexdigit_not_nl n : n < 16 -> hexdigit n =? 10 = false.
Proof. intros H. unfold hexdigit. destruct (n <? 10) eqn:E; lia. Qed.

Lemma nibbles c : c < 256 -> N.lor (N.shiftl (c / 16) 4) (c mod 16) = c.
Proof.
  intros H. apply N.eqb_eq.
  assert (HA : forallb (fun c => N.lor (N.shiftl (c / 16) 4) (c mod 16) =? c) (map N.of_nat (seq 0 256)) = true)
    by (vm_compute; reflexivity).
  rewrite forallb_forall in HA. apply HA.
  replace c with (N.of_nat (N.to_nat c)) by lia. apply in_map. apply in_seq. lia.
Qed.

(* Every quoted-printable rendering of bs decodes to bs (soft breaks removed, =XY decoded,
   literal text copied, '_' a space in header mode only). *)
Theorem qp_decode_enc hdr bs s : qp_enc hdr bs s -> qp_decode hdr s = bs.
Proof.
  induction 1 as [|c bs s Hc Hu _ IH|c bs s Hc _ IH|bs s _ IH|bs s Hh _ IH].
  - reflexivity.
  - cbn [qp_decode].
    assert (hdr && (c =? 95) = false) as ->.
    { destruct hdr; [|reflexivity]. cbn [andb]. apply N.eqb_neq. auto. }
    assert (c =? 61 = false) as -> by (apply N.eqb_neq; assumption). cbn [negb]. rewrite IH. reflexivity.
  - cbn [qp_decode]. assert (61 =? 95 = false) as -> by reflexivity. rewrite andb_false_r.
    cbn [N.eqb Pos.eqb negb].
    assert (Hh : c / 16 < 16) by (apply N.div_lt_upper_bound; lia).
    assert (Hl : c mod 16 < 16) by (apply N.mod_lt; lia).
    rewrite hexdigit_not_nl, !htoa_hexdigit by assumption.
    rewrite nibbles by assumption. rewrite IH. reflexivity.
  - cbn [qp_decode]. rewrite andb_false_r. cbn [N.eqb Pos.eqb negb]. exact IH.
  - subst hdr. cbn [qp_decode andb N.eqb Pos.eqb]. rewrite IH. reflexivity.
Qed.

(* Text without '=' (and, in header mode, without '_') is copied unchanged. *)
Theorem qp_decode_plain hdr s :
  Forall (fun c => c <> 61 /\ (hdr = true -> c <> 95)) s -> qp_decode hdr s = s.
Proof.
  induction 1 as [|c s [Hc Hu] _ IH]; [reflexivity|]. cbn [qp_decode].
  assert (hdr && (c =? 95) = false) as ->.
  { destruct hdr; [|reflexivity]. cbn [andb]. apply N.eqb_neq. auto. }
  assert (c =? 61 = false) as -> by (apply N.eqb_neq; assumption). cbn [negb]. rewrite IH. reflexivity.
Qed.

(* The decoder never produces more bytes than it reads (the buffer it was given suffices). *)
Theorem qp_decode_length hdr s : (length (qp_decode hdr s) <= length s)%nat.
Proof.
  assert (H : forall n s, (length s <= n)%nat -> (length (qp_decode hdr s) <= length s)%nat).
  { induction n as [|n IH]; intros s0 Hn.
    - destruct s0; [cbn; lia | cbn in Hn; lia].
    - destruct s0 as [|c r]; [cbn; lia|]. cbn [qp_decode]. cbn [length] in Hn.
      destruct (hdr && (c =? 95)). { cbn [length]. specialize (IH r). lia. }
      destruct (negb (c =? 61)). { cbn [length]. specialize (IH r). lia. }
      destruct r as [|d r']; [cbn; lia|].
      destruct (d =? 10). { cbn [length] in *. specialize (IH r'). lia. }
      destruct r' as [|e r'']. { cbn [length] in *. specialize (IH [d]). cbn [length] in IH. lia. }
      destruct (htoa d), (htoa e); cbn [length] in *;
        try (specialize (IH (d :: e :: r'')); cbn [length] in IH; lia).
      specialize (IH r''). lia. }
  apply (H (length s)). lia.
Qed.

(* ---------------------------------------------------------------------------------------- *)
(* RFC 2047                                                                                  *)
Lemma skipn_length_le {A} n (l : list A) : (length (skipn n l) <= length l)%nat.
Proof. rewrite skipn_length. lia. Qed.

Lemma find_sub_rest_le p s a b : find_sub p s = Some (a, b) -> (length b <= length s)%nat.
Proof.
  revert a b; induction s as [|x r IH]; intros a b H; cbn [find_sub] in H.
  - destruct (prefixb p []); [|discriminate]. inversion H; subst. apply skipn_length_le.
  - destruct (prefixb p (x :: r)).
    + inversion H; subst. apply skipn_length_le.
    + destruct (find_sub p r) as [[a' b']|]; [|discriminate]. inversion H; subst.
      specialize (IH _ _ eq_refl). cbn [length]. lia.
Qed.

Lemma split_at_rest_le c s a b : split_at c s = (a, Some b) -> (length b < length s)%nat.
Proof.
  revert a b; induction s as [|x r IH]; intros a b H; cbn [split_at] in H; [discriminate|].
  destruct (x =? c).
  - inversion H; subst. cbn; lia.
  - destruct (split_at c r) as [a' b'] eqn:E. inversion H; subst. specialize (IH _ _ eq_refl). cbn [length]. lia.
Qed.

Lemma r2047_word_rest_le es dec rest : r2047_word es = Some (dec, rest) -> (length rest <= length es)%nat.
Proof.
  unfold r2047_word. destruct (split_at 63 es) as [cs [es1|]] eqn:E1; [|discriminate].
  apply split_at_rest_le in E1.
  destruct es1 as [|enc [|q es3]]; try discriminate.
  destruct (negb (q =? 63)); [discriminate|].
  destruct (find_sub q_markeq es3) as [[txt r]|] eqn:E2; [|discriminate].
  apply find_sub_rest_le in E2. cbn [length] in *.
  intros H. assert (rest = r) as ->.
  { destruct (toupper enc =? 66).
    - destruct (base64_decode txt); inversion H; reflexivity.
    - destruct (toupper enc =? 81); inversion H; reflexivity. }
  lia.
Qed.

Lemma skip_ws_le es : (length (skip_ws_before_word es) <= length es)%nat.
Proof.
  unfold skip_ws_before_word. destruct (find_sub q_eqmark es) as [[b a]|]; [|lia].
  destruct (all_spaces b); [apply skipn_length_le | lia].
Qed.

(* fuel adequacy: the loop never runs out of fuel with strlen+1 iterations *)
Lemma r2047_fuel : forall fuel es, (length es < fuel)%nat -> r2047_loop fuel es <> None.
Proof.
  induction fuel as [|f IH]; intros es H; [lia|].
  cbn [r2047_loop]. destruct es as [|c r]; [discriminate|].
  destruct (prefixb q_eqmark (c :: r)) eqn:Hp.
  - destruct (r2047_word (skipn 2 (c :: r))) as [[dec rest]|] eqn:Hw; [|discriminate].
    apply r2047_word_rest_le in Hw.
    assert (Hs : (length (skipn 2 (c :: r)) <= length r)%nat).
    { destruct r as [|x r']; [cbn in Hp; rewrite andb_false_r in Hp; discriminate|]. cbn [skipn length]. lia. }
    pose proof (skip_ws_le rest) as Hk.
    specialize (IH (skip_ws_before_word rest)). cbn [length] in H.
    destruct (r2047_loop f (skip_ws_before_word rest)) as [[o|]|]; try discriminate.
    exfalso. apply IH; [lia | reflexivity].
  - specialize (IH r). cbn [length] in H.
    destruct (r2047_loop f r) as [[o|]|]; try discriminate.
    exfalso. apply IH; [lia | reflexivity].
Qed.

Theorem rfc2047_total s : r2047_loop (S (length s)) s <> None.
Proof. apply r2047_fuel. lia. Qed.

(* Text that contains no "=?" is returned unchanged. *)
Fixpoint no_eqmark (s : bytes) : bool :=
  match s with
  | [] => true
  | c :: r => negb (prefixb q_eqmark s) && no_eqmark r
  end.

Lemma r2047_plain : forall fuel s, (length s < fuel)%nat -> no_eqmark s = true ->
  r2047_loop fuel s = Some (Some s).
Proof.
  induction fuel as [|f IH]; intros s H Hn; [lia|].
  destruct s as [|c r]; [reflexivity|].
  cbn [r2047_loop]. cbn [no_eqmark] in Hn. apply andb_true_iff in Hn as [Hp Hr].
  apply negb_true_iff in Hp. rewrite Hp. cbn [length] in H. rewrite IH by (auto; lia). reflexivity.
Qed.

Theorem rfc2047_plain s : no_eqmark s = true -> rfc2047_decode s = s.
Proof.
  intros H. unfold rfc2047_decode. rewrite r2047_plain; auto.
Qed.

(* A value that is not decodable is returned in its raw form (never an error, never partial). *)
Theorem rfc2047_raw_on_malformed s :
  r2047_loop (S (length s)) s = Some None -> rfc2047_decode s = s.
Proof. intros H. unfold rfc2047_decode. rewrite H. reflexivity. Qed.

(* One step of the decoder at an encoded word: decoded text, then the rest with the white space
   before a following "=?" dropped. *)
Theorem rfc2047_word_step s dec rest o :
  prefixb q_eqmark s = true ->
  r2047_word (skipn 2 s) = Some (dec, rest) ->
  r2047_loop (length s) (skip_ws_before_word rest) = Some (Some o) ->
  rfc2047_decode s = dec ++ o.
Proof.
  intros Hp Hw Hl. unfold rfc2047_decode. cbn [r2047_loop].
  destruct s as [|c r]; [cbn in Hp; discriminate|]. rewrite Hp, Hw, Hl. reflexivity.
Qed.
