(* MIME: which body a condition sees, propagation of errors, the depth limit. *)
From MD Require Import Bytes Generated DecodeDefs DecodeSpec DecodeProofs HeaderDefs MimeDefs.
From Coq Require Import Lia.
Local Open Scope N_scope.

(* ---- the body a body condition / exec stdin body sees ------------------------------------------------------ *)
Fixpoint find_type (ty : bytes) (l : list msg) : option msg :=
  match l with
  | [] => None
  | a :: r => if is_content_type a ty then Some a else find_type ty r
  end.

(* for multipart/alternative the first text/plain part is preferred over the first text/html part *)
Lemma pick_alternative_spec l : forall found,
  pick_alternative l found =
  match find_type s_text_plain l with
  | Some a => Some a
  | None => match found with Some f => Some f | None => find_type s_text_html l end
  end.
Proof.
  induction l as [|a r IH]; intros found; cbn [pick_alternative find_type]; [destruct found; reflexivity|].
  destruct (is_content_type a s_text_plain) eqn:Ep; [reflexivity|].
  destruct (is_content_type a s_text_html) eqn:Eh.
  - rewrite IH. destruct (find_type s_text_plain r); [reflexivity|]. destruct found; reflexivity.
  - apply IH.
Qed.

Theorem get_body_not_alternative m : is_content_type m s_mp_alt = false -> get_body m = decode_body m.
Proof. intros H. unfold get_body. rewrite H. reflexivity. Qed.

Theorem get_body_alternative m atts : is_content_type m s_mp_alt = true -> get_attachments m = AOk atts ->
  get_body m = match find_type s_text_plain atts with
               | Some a => decode_body a
               | None => match find_type s_text_html atts with
                         | Some a => decode_body a
                         | None => BOk (m_body m)
                         end
               end.
Proof.
  intros H Ha. unfold get_body. rewrite H, Ha. cbn [negb]. rewrite pick_alternative_spec.
  destruct (find_type s_text_plain atts); [reflexivity|]. destruct (find_type s_text_html atts); reflexivity.
Qed.

(* an error while parsing the parts (missing terminator, invalid boundary, too deep) makes the body NULL:
   an error for the message, never a match *)
Theorem get_body_alternative_error m : is_content_type m s_mp_alt = true -> get_attachments m = AErr -> get_body m = BNull.
Proof. intros H Ha. unfold get_body. rewrite H, Ha. reflexivity. Qed.

(* decoding is chosen by the exact Content-Transfer-Encoding value; base64 is RFC 4648 (C16), and
   undecodable base64 is NULL (an error), quoted-printable never fails, anything else is the raw body *)
Theorem decode_body_spec a :
  decode_body a =
  match get_header1 (m_headers a) s_cte with
  | Some enc =>
      if beq_bytes enc s_base64 then match spec_b64 (m_body a) with Some d => BOk (cview d) | None => BNull end
      else if beq_bytes enc s_qp then BOk (cview (qp_decode false (m_body a)))
      else BOk (m_body a)
  | None => BOk (m_body a)
  end.
Proof.
  unfold decode_body. destruct (get_header1 (m_headers a) s_cte) as [enc|]; [|reflexivity].
  rewrite base64_decode_spec. reflexivity.
Qed.

(* ---- the depth limit --------------------------------------------------------------------------------------- *)
Theorem depth_exhausted m : parseattachments 0 m = AErr.
Proof. reflexivity. Qed.

(* a message that is not a multipart with a quoted boundary parameter has no attachments *)
Theorem not_multipart_no_attachments d m :
  get_header1 (m_headers m) s_content_type = None -> parseattachments (S d) m = AOk [].
Proof. intros H. cbn [parseattachments]. rewrite H. reflexivity. Qed.

(* ---- attachment conditions: exists with short-circuit on the first result that is not "no match" ------------ *)
Inductive cres := RMatch | RNoMatch | RError.

Fixpoint attachment_cond (f : msg -> cres) (atts : list msg) : cres :=
  match atts with
  | [] => RNoMatch
  | a :: r => match f a with RNoMatch => attachment_cond f r | x => x end
  end.

(* attachment blocks: the rules run on every part; an error on any part is an error; match if any matched *)
Fixpoint attachment_block (f : msg -> cres) (atts : list msg) (acc : cres) : cres :=
  match atts with
  | [] => acc
  | a :: r => match f a with
              | RError => RError
              | RMatch => attachment_block f r RMatch
              | RNoMatch => attachment_block f r acc
              end
  end.

Theorem attachment_cond_spec f atts :
  attachment_cond f atts = RMatch <->
  exists pre a post, atts = pre ++ a :: post /\ f a = RMatch /\ Forall (fun x => f x = RNoMatch) pre.
Proof.
  induction atts as [|x r IH]; cbn [attachment_cond].
  - split; [discriminate|]. intros (pre & a & post & H & _). destruct pre; discriminate.
  - destruct (f x) eqn:E.
    + split; [|reflexivity]. intros _. exists [], x, r. repeat split; auto.
    + rewrite IH. split.
      * intros (pre & a & post & -> & Ha & Hp). exists (x :: pre), a, post. repeat split; auto.
      * intros (pre & a & post & H & Ha & Hp). destruct pre as [|y pre]; cbn [app] in H; inversion H; subst; [congruence|].
        inversion Hp; subst. exists pre, a, post. repeat split; auto.
    + split; [discriminate|]. intros (pre & a & post & H & Ha & Hp).
      destruct pre as [|y pre]; cbn [app] in H; inversion H; subst; [congruence|]. inversion Hp; subst. congruence.
Qed.

Theorem attachment_block_error f atts acc : (exists a, In a atts /\ f a = RError) -> attachment_block f atts acc = RError.
Proof.
  revert acc; induction atts as [|x r IH]; intros acc (a & Hin & Ha); [destruct Hin|].
  cbn [attachment_block]. destruct Hin as [->|Hin]; [rewrite Ha; reflexivity|].
  destruct (f x); [apply IH; eauto | apply IH; eauto | reflexivity].
Qed.
