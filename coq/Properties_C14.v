(* C14 - a configuration is accepted or rejected as a whole, and the parser is total.      (PARTIAL)
   Model: ConfDefs.parse_config (lexer of parse.y byte for byte; recursive-descent recogniser of its
   grammar; the semantic checks; macro table; tilde expansion; regcomp as an oracle).
   Proved:
   - whatever the file contains, IF the model accepts it THEN every rule of every block satisfies the
     semantic rules (no discard / reject next to another action, every rule has an action, attachment
     blocks hold only exec actions, no empty block, reject only under stdin, exec body only with stdin,
     patterns compile and never carry both l and u, ages fit 32 bits): so a file with such a defect in ANY
     of its rules is rejected as a whole - the valid rules do not rescue it (C14_accepted_is_wellformed and
     the per-class corollaries);
   - lexical bounds: integers never exceed 2^32-1, a string / pattern never exceeds the lexeme buffer;
   - the gate: a rejected configuration makes main exit non-zero with no message examined (C14_gate).
   - the converse (ConfAccept.v, C14_generated_accepted): EVERY configuration generated from the documented grammar
     is accepted and yields the tree the grammar denotes.  A configuration is an abstract syntax tree - maildir / stdin
     sections; rules "match cond actions" and "match cond { rules }" nested to any depth; conditions built from
     and / or / ! / parentheses / attachment over body, header, date (all fields, < and >, every scalar), new, old, all,
     isdirectory, command; all twelve actions including exec options and attachment blocks - that satisfies the
     semantic rules of mdsort.conf(5) (decidable predicate secs_ok); it is written out with ANY separator made of white
     space and comments in front of every token; the model parser, with the fuel config_parse gives itself, accepts the
     text.  Excluded from the tree type: macros and tilde expansion (strings without "$" and a leading "~"), escaped
     delimiters inside strings and patterns.
   NOT proved: anything about the yacc automaton: its error recovery after the first diagnostic and
   the termination of config_parse on arbitrary bytes.  These are covered only by the correspondence runs of
   harness/c14.py (grammar-generated files, a catalogue of invalidating edits, byte-level mutations under
   sanitizers and a time limit) and are labelled tests there. *)
From Coq Require Import List Bool NArith ZArith String Ascii.
Import ListNotations.
From MD Require Import Bytes Generated InterpDefs ConfDefs MainDefs ConfProofs ConfAccept.

Theorem C14_accepted_is_wellformed : forall home regcomp_ok file cs,
  parse_config home regcomp_ok file = Accepted cs -> Forall (config_ok regcomp_ok) cs.
Proof. exact accepted_wf. Qed.
Print Assumptions C14_accepted_is_wellformed.

Theorem C14_gate : forall home ok file stdin syntax mds,
  parse_config home ok file = Rejected ->
  exists status, main false stdin (conf_ok (parse_config home ok file)) syntax mds = Exit status 0 /\ status <> 0%Z.
Proof. exact rejected_config_gate. Qed.
Print Assumptions C14_gate.

(* the classes *)
Theorem C14_exclusive_actions : forall ok c a, wf ok (QMatch c a) = true -> not_block a = true -> (1 < count_actions a)%nat ->
  count_if is_discard a = O /\ count_if is_reject a = O.
Proof. exact wf_rule_exclusive. Qed.
Print Assumptions C14_exclusive_actions.

Theorem C14_rule_has_action : forall ok c a, wf ok (QMatch c a) = true -> count_actions a <> O.
Proof. exact wf_rule_has_action. Qed.
Print Assumptions C14_rule_has_action.

Theorem C14_attachment_block_exec_only : forall ok b, wf ok (QAttBlock b) = true -> (count_actions b <= count_if is_exec b)%nat.
Proof. exact wf_attachment_block. Qed.
Print Assumptions C14_attachment_block_exec_only.

Theorem C14_pattern_valid : forall ok p, wf ok (QBody p) = true -> ok p = true /\ (p_lcase p && p_ucase p = false).
Proof. exact wf_pattern. Qed.
Print Assumptions C14_pattern_valid.

Theorem C14_header_pattern_valid : forall ok k p, wf ok (QHeader k p) = true -> ok p = true /\ (p_lcase p && p_ucase p = false).
Proof. exact wf_header_pattern. Qed.
Print Assumptions C14_header_pattern_valid.

Theorem C14_age_fits : forall ok f g age, wf ok (QDate f g age) = true -> (age <= u32max)%N.
Proof. exact wf_age. Qed.
Print Assumptions C14_age_fits.

Theorem C14_exec_body_needs_stdin : forall ok s b l, wf ok (QExec s b l) = true -> b = true -> s = true.
Proof. exact wf_exec_options. Qed.
Print Assumptions C14_exec_body_needs_stdin.

Theorem C14_block_not_empty : forall paths b, maildir_checks paths b = true -> count_actions b <> O.
Proof. exact checks_nonempty. Qed.
Print Assumptions C14_block_not_empty.

Theorem C14_reject_only_under_stdin : forall paths b, maildir_checks paths b = true -> count_if is_reject b <> O ->
  forall p, In p paths -> beq_bytes s_dev_stdin p = true.
Proof. exact checks_reject_only_stdin. Qed.
Print Assumptions C14_reject_only_under_stdin.

(* lexical bounds *)
Theorem C14_integer_bound : forall s acc n r, (acc <= u32max)%N -> lex_int s acc = Some (n, r) -> (n <= u32max)%N.
Proof. exact lex_int_bound. Qed.
Print Assumptions C14_integer_bound.

Theorem C14_lexeme_bound : forall delim n s acc stored out rest, (length s <= n)%nat ->
  stored = N.of_nat (length acc) -> (stored <= bufsiz - 1)%N ->
  lex_delim delim s acc stored = Some (out, rest) -> (N.of_nat (length out) <= bufsiz - 1)%N.
Proof. exact lex_delim_bound. Qed.
Print Assumptions C14_lexeme_bound.

(* non-vacuity: a configuration that is accepted, one rejected for a defect in its second rule only *)
Definition ok_all (p : pat) : bool := true.
Definition conf_good : bytes :=
  ascii [109;97;105;108;100;105;114;32;34;97;34;32;123;32;109;97;116;99;104;32;97;108;108;32;109;111;118;101;32;34;98;34;32;125]%nat.
  (* maildir "a" { match all move "b" } *)
Definition conf_bad : bytes :=
  ascii [109;97;105;108;100;105;114;32;34;97;34;32;123;32;109;97;116;99;104;32;97;108;108;32;109;111;118;101;32;34;98;34;32;
         109;97;116;99;104;32;110;101;119;32;100;105;115;99;97;114;100;32;98;114;101;97;107;32;125]%nat.
  (* maildir "a" { match all move "b" match new discard break } *)

Example C14_example_accept :
  parse_config [] ok_all conf_good = Accepted [mkconfig [[97%N]] (QBlock (Some (QMatch QAll (QMove [98%N]))))].
Proof. vm_compute. reflexivity. Qed.
Print Assumptions C14_example_accept.

Example C14_example_reject : parse_config [] ok_all conf_bad = Rejected.
Proof. vm_compute. reflexivity. Qed.
Print Assumptions C14_example_reject.

(* ---- the converse: every configuration generated from the grammar is accepted ------------------------------------------------------- *)
Theorem C14_generated_accepted : forall home regcomp_ok sp fin secs,
  sepb sp = true -> blankb false fin = true -> secs_ok regcomp_ok [] secs = true ->
  parse_config home regcomp_ok (render_config sp secs fin) = Accepted (map conf_of secs).
Proof. exact generated_config_accepted. Qed.
Print Assumptions C14_generated_accepted.

(* non-vacuity: a configuration using every kind of condition and action; rendered with single spaces, and with a
   separator made of a newline, a tab, a comment and a space *)
Definition bs (s : string) : bytes := map (fun a => N.of_nat (nat_of_ascii a)) (list_ascii_of_string s).
Definition str_of (b : bytes) : string := string_of_list_ascii (map (fun c => ascii_of_nat (N.to_nat c)) b).
Definition sp1 (src fl : string) : spat := mkspat 47 (bs src) (bs fl).
Definition ex_secs : list section :=
  [ SMaildir (SMany [bs "/home/u/Maildir/INBOX"; bs "/home/u/Maildir/Lists"])
      [ RActs (mkc (UHeader (SOne (bs "From")) (sp1 "boss@example" "i")) [(true, UNeg UNew)]) [AMove (bs "/home/u/work"); AFlagNew];
        RBlock (mkc (UParen UAll [(false, UDate 3 true (bs "2") 2 (bs "weeks") 604800)]) [])
          [ RActs (mkc (UBody (sp1 "viagra" "")) []) [ADiscard];
            RActs (mkc UAll []) [ALabel (SMany [bs "a"; bs "b"]); APass] ];
        RActs (mkc (UAtt (UHeader (SOne (bs "Content-Type")) (sp1 "pdf" ""))) [])
          [ AAttBlock [RActs (mkc UAll []) [AExec true true (SOne (bs "cat"))]]; AAddHeader (bs "X-A") (bs "1") ] ];
    SStdin [RActs (mkc (UCommand (SMany [bs "spamc"; bs "-c"])) []) [AReject];
            RActs (mkc UOld [(false, UIsDir (bs "/tmp"))]) [AFlagNotNew; ABreak]] ].
Definition ex_sep : bytes := [10; 9; 35; 32; 99; 10; 32]%N.            (* LF TAB "# c" LF SPACE *)

Example C14_ex_generated :
  secs_ok ok_all [] ex_secs = true /\ sepb (bs " ") = true /\ sepb ex_sep = true /\
  str_of (render_config (bs " ") ex_secs []) =
  (" maildir { ""/home/u/Maildir/INBOX"" ""/home/u/Maildir/Lists"" } { match header ""From"" /boss@example/i and ! new move ""/home/u/work"" flag new" ++
   " match ( all or date modified > 2 weeks ) { match body /viagra/ discard match all label { ""a"" ""b"" } pass }" ++
   " match attachment header ""Content-Type"" /pdf/ attachment { match all exec stdin body ""cat"" } add-header ""X-A"" ""1"" }" ++
   " stdin { match command { ""spamc"" ""-c"" } reject match old or isdirectory ""/tmp"" flag ! new break }")%string /\
  parse_config (bs "/home/u") ok_all (render_config ex_sep ex_secs [10%N]) = Accepted (map conf_of ex_secs).
Proof. vm_compute. repeat split; reflexivity. Qed.
