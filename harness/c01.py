"""C01 - no message is lost or duplicated when an I/O operation fails.
Tie: for every scenario of the corpus the fault-free run is recorded under the interposer; then
EVERY call index k and every applicable failure of call k (errno, short read/write) is replayed on
a fresh copy.  For single-message scenarios the action phase of each faulted trace is normalised to
the model's op vocabulary and the model (IODefs.replay_action) must issue exactly the same calls
for the observed outcomes and end in the same state.  Monitor (every run): the C01 clauses on the
final tree and the exit status."""
import os
import common, iorun
from iorun import parse_trace, segments, versions, classify_tree

# failures mdsort deliberately tolerates (finding F-15): recognised by call kind / position
def tolerated_call(call, calls, idx, scen):
    c = call['call']
    if c in ('closedir', 'fstatat', 'rmdir'):
        return 'F-15-tolerated-' + c
    if c == 'fclose' and call['args'].endswith('mdsort.conf'):
        return 'F-15-tolerated-close'               # the configuration stream, opened for reading
    if c == 'close':
        # only the close() of the stdin spool file is checked by mdsort
        if scen.stdin and '/tmp/' in call['args'] and not any(x['call'] == 'readdir' for x in calls[:idx]):
            return None
        return 'F-15-tolerated-close'
    if scen.stdin and c in ('unlinkat', 'readdir') and any(x['call'] == 'readdir' and x['res'] == 'NULL' for x in calls[:idx]):
        return 'F-15-tolerated-cleanup'             # maildir_close(): best effort removal of the temporary maildir
    return None


def fault_list(call, tier):
    kinds = []
    errs = iorun.ERRNOS.get(call['call'])
    if errs:
        # quick tier: the first errno of the list; for unlinkat also ENOENT (the name vanished: somebody else renamed or removed
        # the message - an errno that code is tempted to treat as success)
        # (and for read / write also EINTR: a failure code is tempted to retry - the retry must not lose or repeat bytes)
        for e in (errs if tier == 'thorough' else (errs[:2] if call['call'] in ('unlinkat', 'write', 'read') else errs[:1])):
            kinds.append('errno=' + e)
    if call['call'] in iorun.SHORTABLE:
        kinds.append('short=1')
    return kinds


def check_model(ck, scen, calls, rc, stats, plan):
    """single-message scenarios: the action phase must be what the model does"""
    segs = segments(calls, scen.stdin)
    model = common.model_exe()
    reqs = ['io %s %d %s' % (tok, ver, ''.join(o for _, o in ops) or '-') for tok, ver, ops in segs]
    if not reqs:
        return
    outs, _ = common.run_lines(model, reqs)
    for (tok, ver, ops), resp in zip(segs, outs):
        stats['segments'] += 1
        want = ','.join('%s=%s' % x for x in ops)
        got = resp.split(' ')[0]
        # the model continues with Ok beyond the observed outcomes; the real trace may be cut by the
        # end of the segment, so the real ops must be a prefix-complete run: equal sequences
        if got != want:
            stats['dis'] += 1
            if stats['dis'] <= 3:
                ck.violation('correspondence broken (IODefs.%s): scenario %s plan %s: mdsort issued [%s], the model issues [%s]'
                             % (tok, scen.sid, plan, want, got),
                             {'scenario': scen.describe(), 'plan': plan, 'impl_ops': want, 'model_ops': got,
                              'obligation': 'correspondence IODefs.prog_of ' + tok}, found_input=False)
            return


def monitor(ck, scen, base, rc, err, calls, tree, tmpleft, k, kind, stats):
    """the C01 clauses on the implementation's final state; returns True if a violation was reported"""
    vs = base['versions']
    copies, strays = classify_tree(scen, tree, vs)
    discard = 'discard' in scen.rule
    plan = '%d:%s' % (k, kind) if k else None
    call = None
    idx = None
    for i, c in enumerate(calls):
        if c['k'] == k:
            call, idx = c, i
    # a short read / write that mdsort completes by retrying is not a failure: only the tree is judged
    injected = call is not None and not call['ok']
    desc = 'scenario %s, %s at call %s (%s %s)' % (scen.sid, kind, k, call['call'] if call else '-', (call['args'] if call else '')[:80])
    rep = {'scenario': scen.describe(), 'plan': plan, 'exit': rc, 'stderr': err[-400:].decode(errors='replace'),
           'tree': [[list(loc), len(b)] for loc, (b, mt) in tree.items()]}
    bad = None
    for mk, lst in copies.items():
        intact = [x for x in lst if x[1]]
        broken = [x for x in lst if not x[1]]
        if broken:
            bad = 'a partial/corrupt copy of %s is left behind at %s (%d bytes)' % (mk.decode(), broken[0][0], len(broken[0][2]))
        elif len(intact) > 1:
            bad = 'message %s exists %d times: %s' % (mk.decode(), len(intact), [x[0] for x in intact])
        elif len(intact) == 0:
            if scen.stdin:
                # the stdin message lives in the pipe/MTA queue: it is lost only if mdsort claims success
                if rc == 0 and not discard:
                    bad = 'stdin message not stored anywhere although the exit status is 0'
            elif not discard:
                bad = 'message %s is lost (no intact copy anywhere)' % mk.decode()
        if bad:
            break
    if not bad and strays:
        bad = 'stray file(s) left in a maildir: %s' % strays[:3]
    cleanup_fault = injected and call['call'] in ('rmdir', 'unlinkat', 'readdir') and tolerated_call(call, calls, idx, scen) is not None
    if not bad and tmpleft and not cleanup_fault:
        # (when the removal call itself is the one that fails the directory necessarily stays)
        bad = 'left behind in TMPDIR: %s' % tmpleft[:3]
    known = None
    if not bad and injected and rc == 0:
        tol = tolerated_call(call, calls, idx, scen)
        if tol:
            known = tol
        else:
            bad = 'the failure was not reported: exit status 0'
    if not bad and rc == 0 and not injected:
        pass
    if not bad and rc == 0:
        # status 0 => every matched message at its final destination with its final content
        want = sorted((loc[0], loc[1], b) for loc, (b, mt) in base['tree'].items())
        got = sorted((loc[0], loc[1], b) for loc, (b, mt) in tree.items())
        if want != got and not known:
            bad = 'exit status 0 but the final tree differs from the fault-free one'
        elif want != got and known:
            pass
    if known and ck.is_known(known):
        ck.known_finding(known, desc)
    elif known:
        bad = 'tolerated failure site %s is not listed as a known finding' % known
    if bad:
        stats['viol'] += 1
        if stats['viol'] <= 4:
            ck.violation('%s: %s (exit %d)' % (desc, bad, rc), rep)
        return True
    return False


def run(ck):
    stats = dict(runs=0, triples=0, segments=0, dis=0, viol=0, bykind={}, byerr={})
    scens = iorun.corpus(ck.tier)
    if ck.tier == 'quick':
        # quick: a rotating subset, every action kind present
        keep = {}
        for s in scens:
            keep.setdefault(s.sid.rsplit('-', 1)[0] if not s.stdin else s.sid, s)
        scens = list(keep.values())
    samples = []
    for scen in scens:
        rc0, err0, trace0, tree0, tl0 = scen.run()
        calls0 = parse_trace(trace0)
        stats['runs'] += 1
        base = {'tree': tree0, 'versions': versions(scen, tree0), 'rc': rc0}
        if rc0 != 0 or tl0:
            ck.violation('fault-free run of scenario %s exits %d (stderr %r, TMPDIR %r)' % (scen.sid, rc0, err0[-200:], tl0), {'scenario': scen.describe()})
            continue
        if monitor(ck, scen, base, rc0, err0, calls0, tree0, tl0, 0, 'none', stats):
            continue
        # (the descriptor work of a command that follows a rewrite is not part of the rewrite protocol the model describes: such
        # scenarios are judged on their final state only)
        single = len(scen.msgs) == 1 and 'exec' not in scen.rule and 'command' not in scen.rule
        if single:
            check_model(ck, scen, calls0, rc0, stats, None)
        if any(c['call'] == 'waitpid' for c in calls0):
            # an unusual but legitimate environment: mdsort inherits SIGCHLD ignored (some supervisors and MTAs hand that down), so that
            # the kernel reaps the children itself and every waitpid fails with ECHILD without any injection
            rc, err, trace, tree, tl = scen.run(wrapper=['env', '--ignore-signal=CHLD'])
            calls = parse_trace(trace)
            stats['runs'] += 1
            failing = [c for c in calls if c['call'] == 'waitpid' and not c['ok']]
            if failing:
                stats['triples'] += 1
                monitor(ck, scen, base, rc, err, calls, tree, tl, failing[0]['k'], 'SIGCHLD ignored', stats)
        for c in calls0:
            for kind in fault_list(c, ck.tier):
                plan = '%d:%s' % (c['k'], kind)
                rc, err, trace, tree, tl = scen.run(plan=plan)
                calls = parse_trace(trace)
                stats['runs'] += 1
                stats['triples'] += 1
                stats['bykind'][c['call']] = stats['bykind'].get(c['call'], 0) + 1
                stats['byerr'][kind] = stats['byerr'].get(kind, 0) + 1
                if rc == -999:
                    ck.violation('scenario %s plan %s: mdsort hangs' % (scen.sid, plan), {'scenario': scen.describe(), 'plan': plan})
                    continue
                monitor(ck, scen, base, rc, err, calls, tree, tl, c['k'], kind, stats)
                if single:
                    check_model(ck, scen, calls, rc, stats, plan)
                if len(samples) < 4 and c['call'] in ('renameat', 'fsync', 'fprintf', 'unlinkat'):
                    samples.append({'scenario': scen.sid, 'plan': plan, 'exit': rc, 'ops': [' '.join('%s=%s' % x for x in ops) for _, _, ops in segments(calls, scen.stdin)]})
            if len(ck.violations) > 8:
                break
        if len(ck.violations) > 8:
            break
        # thorough: sampled pairs of faults - only loss-freedom is required
        if ck.tier == 'thorough':
            cand = [(c['k'], k) for c in calls0 for k in fault_list(c, 'quick')]
            for _ in range(40):
                if len(cand) < 2:
                    break
                (k1, f1), (k2, f2) = ck.rng.sample(cand, 2)
                plan = '%d:%s,%d:%s' % (k1, f1, k2, f2)
                rc, err, trace, tree, tl = scen.run(plan=plan)
                stats['runs'] += 1
                copies, strays = classify_tree(scen, tree, base['versions'])
                for mk, lst in copies.items():
                    if not [x for x in lst if x[1]] and not scen.stdin and 'discard' not in scen.rule:
                        ck.violation('scenario %s, two faults %s: message %s lost' % (scen.sid, plan, mk.decode()), {'scenario': scen.describe(), 'plan': plan})
    ck.coverage.update({
        'evaluations': stats['runs'],
        'distinct_nontrivial': stats['triples'],
        'rule': 'scenario corpus (harness/iorun.py: action kinds move / move across file systems / flag / flags / label / add-header / discard / label+move / '
                'move+flag / add-header+flag / two rewrites / label then pass then a rule whose condition stats the file or runs a command / exec + move / label + exec stdin / stdin delivery with and without rewriting, 1-3 messages, small and > stdio buffer) x every call index of the '
                'fault-free trace x every applicable failure (errno per call kind; short read/write), plus every scenario with a command once with SIGCHLD inherited as ignored (waitpid fails by itself); non-trivial = a (scenario, call index, failure) triple '
                'in which the failure was really injected; distinct by construction',
        'samples': samples,
        'traces_validated_against_impl': stats['segments'],
        'disagreements_checked': stats['dis'],
        'triples_per_call_kind': stats['bykind'],
        'triples_per_failure': stats['byerr'],
        'scenarios': len(scens),
    })
    ck.assumptions += ['fault semantics: a failing call has no effect (close/fclose release the descriptor; failing stdio writes leave partial data); '
                       'the interposer injects at libc call level (stdio failures at fprintf/fflush/fclose)',
                       'file systems that fail after applying a rename are outside the model']


def replay(ck, rp):
    for scen in iorun.corpus('thorough'):
        if scen.sid == rp['scenario']['id']:
            rc, err, trace, tree, tl = scen.run(plan=rp.get('plan'))
            print('exit', rc, err[-200:], sorted((loc, len(b)) for loc, (b, mt) in tree.items()), tl)
            rc0, err0, trace0, tree0, tl0 = scen.run()
            base = {'tree': tree0, 'versions': versions(scen, tree0), 'rc': rc0}
            stats = dict(runs=0, triples=0, segments=0, dis=0, viol=0, bykind={}, byerr={})
            k, kind = (rp['plan'].split(':', 1) if rp.get('plan') else (0, 'none'))
            return 1 if monitor(ck, scen, base, rc, err, parse_trace(trace), tree, tl, int(k), kind, stats) else 0
    return 1
