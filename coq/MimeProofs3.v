(* C11: the closed form of attachment flattening over whole rendered MIME trees.  A tree is a message whose body
   is either opaque or, for a multipart, a preamble, the rendered sub-messages between delimiter lines, the closing
   delimiter and an epilogue (RFC 2046).  For every well-formed tree (fields and bodies as in the header round trip
   of C08; the Content-Type of a multipart yields its boundary; no line of a preamble or of a rendered part is a
   delimiter line of the enclosing boundary) the attachments mdsort computes are exactly the sub-messages in
   pre-order when the nesting fits the depth limit, and an error otherwise. *)
From Coq Require Import List Bool NArith Arith Lia.
Import ListNotations.
From MD Require Import Bytes Generated DecodeDefs HeaderDefs HeaderSpec ParseProofs MimeDefs MimeProofs MimeProofs2.

Inductive tree :=
| Leaf (fs : list field) (body : bytes)
| Multi (fs : list field) (b pre : bytes) (kids : list tree) (epi : bytes).

Fixpoint text_of (t : tree) : bytes :=
  match t with
  | Leaf fs body => message_text fs body
  | Multi fs b pre kids epi => message_text fs (pre ++ parts_text b (map text_of kids) epi)
  end.

Definition fields_of (t : tree) : list field := match t with Leaf fs _ | Multi fs _ _ _ _ => fs end.
Definition body_of (t : tree) : bytes :=
  match t with
  | Leaf _ body => body
  | Multi _ b pre kids epi => pre ++ parts_text b (map text_of kids) epi
  end.

(* what mdsort holds for the message after parsing it *)
Definition msg_of (t : tree) : msg := mkmsg (sort_key (hdrs_of 0 (fields_of t))) (body_of t).

(* the sub-messages in pre-order *)
Fixpoint flatten (t : tree) : list msg :=
  match t with
  | Leaf _ _ => []
  | Multi _ _ _ kids _ => flat_map (fun k => msg_of k :: flatten k) kids
  end.

(* the nesting fits into d levels *)
Fixpoint fits (d : nat) (t : tree) : bool :=
  match d with
  | O => false
  | S d' => match t with
            | Leaf _ _ => true
            | Multi _ _ _ kids _ => forallb (fits d') kids
            end
  end.

Definition not_multipart (T : list hdr) : Prop :=
  match get_header1 T s_content_type with
  | None => True
  | Some type => parseboundary type = PBNone
  end.

Fixpoint wf_tree (t : tree) : Prop :=
  match t with
  | Leaf fs body => wf_message fs body = true /\ not_multipart (sort_key (hdrs_of 0 fs))
  | Multi fs b pre kids epi =>
      wf_message fs (pre ++ parts_text b (map text_of kids) epi) = true /\
      (exists type, get_header1 (sort_key (hdrs_of 0 fs)) s_content_type = Some type /\ parseboundary type = PB b) /\
      nonl b = true /\ quiet b pre /\
      (fix all (l : list tree) : Prop :=
         match l with [] => True | k :: r => quiet b (text_of k) /\ wf_tree k /\ all r end) kids
  end.

Lemma text_of_eq t : text_of t = message_text (fields_of t) (body_of t).
Proof. destruct t; reflexivity. Qed.

Lemma wf_tree_message t : wf_tree t -> wf_message (fields_of t) (body_of t) = true.
Proof. destruct t; cbn [wf_tree fields_of body_of]; intros H; apply H. Qed.

(* a rendered well-formed tree parses back to its message *)
Lemma parse_part_text t : wf_tree t -> parse_part (text_of t) = Some (msg_of t).
Proof.
  intros Hw. pose proof (wf_tree_message t Hw) as Hm. rewrite text_of_eq.
  pose proof (parse_message_text _ _ Hm) as HP. unfold parse_message in HP.
  assert (Hn : nonul (message_text (fields_of t) (body_of t)) = true).
  { unfold wf_message in Hm. apply andb_true_iff in Hm as [Hf Hb]. unfold message_text.
    rewrite !nonul_app, nonul_fields by exact Hf. cbn [nonul forallb N.eqb negb andb].
    unfold wf_body in Hb. apply andb_true_iff in Hb as [Hb _]. exact Hb. }
  rewrite cview_nonul in HP by exact Hn. exact HP.
Qed.

(* ---- the theorem ---------------------------------------------------------------------------------------------------------- *)
Theorem attachments_of_tree : forall d t, wf_tree t ->
  parseattachments d (msg_of t) = if fits d t then AOk (flatten t) else AErr.
Proof.
  induction d as [|d IH]; intros t Hw; [reflexivity|].
  destruct t as [fs body|fs b pre kids epi].
  - cbn [wf_tree] in Hw. destruct Hw as [_ Hn]. unfold not_multipart in Hn.
    cbn [parseattachments msg_of fields_of m_headers fits flatten].
    destruct (get_header1 (sort_key (hdrs_of 0 fs)) s_content_type) as [type|]; [rewrite Hn|]; reflexivity.
  - cbn [wf_tree] in Hw. destruct Hw as (_ & (type & Ht & Hpb) & Hb & Hq & Hk).
    cbn [parseattachments msg_of fields_of body_of m_headers m_body fits flatten]. rewrite Ht, Hpb.
    assert (Hquiet : Forall (quiet b) (map text_of kids)).
    { clear -Hk. induction kids as [|k r IHk]; [constructor|]. destruct Hk as (H1 & _ & H3). constructor; [exact H1|apply IHk; exact H3]. }
    rewrite (parts_of_body b pre (map text_of kids) epi Hb Hq Hquiet). clear Hquiet Ht Hpb Hq.
    induction kids as [|k r IHk]; [reflexivity|].
    destruct Hk as (_ & Hwk & Hr). specialize (IHk Hr).
    cbn [map forallb flat_map]. rewrite (parse_part_text k Hwk), (IH k Hwk).
    destruct (fits d k); cbn [andb]; [|reflexivity].
    revert IHk.
    match goal with |- (match ?Y with AOk l => _ | AErr => _ | AFuel => _ end = _) -> _ => destruct Y as [rest| |] eqn:E end;
      destruct (forallb (fits d) r); intros IHk; try discriminate IHk; try reflexivity.
    injection IHk as <-. reflexivity.
Qed.

(* the depth limit of the implementation *)
Corollary attachments_of_message t : wf_tree t ->
  get_attachments (msg_of t) = if fits depth_limit t then AOk (flatten t) else AErr.
Proof. apply attachments_of_tree. Qed.

Lemma fits_mono : forall d t, fits d t = true -> fits (S d) t = true.
Proof.
  induction d as [|d IH]; intros t H; [discriminate H|].
  destruct t as [fs body|fs b pre kids epi]; [reflexivity|]. cbn [fits] in *.
  rewrite forallb_forall in *. intros k Hk. apply IH. apply H. exact Hk.
Qed.

Local Open Scope N_scope.

(* ---- a decision procedure for "no line is a delimiter line", for concrete trees ------------------------------------------ *)
Fixpoint lines_from (cur : bytes) (s : bytes) : option (list bytes) :=
  match s with
  | [] => match cur with [] => Some [] | _ => None end
  | c :: r => if c =? 10 then option_map (cons (rev cur ++ nl)) (lines_from [] r) else lines_from (c :: cur) r
  end.

Definition quietb (b s : bytes) : bool :=
  match lines_from [] s with
  | Some ls => forallb (fun l => negb (beq_bytes l (delim b)) && negb (beq_bytes l (closing b))) ls
  | None => false
  end.

Lemma lines_from_sound : forall s cur ls, nonl (rev cur) = true -> lines_from cur s = Some ls ->
  rev cur ++ s = concat ls /\ Forall is_line ls.
Proof.
  induction s as [|c r IH]; intros cur ls Hc H; cbn [lines_from] in H.
  - destruct cur; [|discriminate H]. inversion H; subst. split; [reflexivity|constructor].
  - destruct (c =? 10) eqn:E.
    + apply N.eqb_eq in E. subst c.
      destruct (lines_from [] r) as [ls'|] eqn:E'; [|discriminate H]. cbn [option_map] in H. inversion H; subst ls; clear H.
      destruct (IH [] ls' eq_refl E') as [H1 H2]. cbn [rev app] in H1. split.
      * cbn [concat]. rewrite <- H1. unfold nl. rewrite <- app_assoc. reflexivity.
      * constructor; [exists (rev cur); split; [reflexivity|exact Hc]|exact H2].
    + assert (Hc' : nonl (rev (c :: cur)) = true).
      { cbn [rev]. rewrite nonl_app, Hc. unfold nonl. cbn [forallb]. rewrite E. reflexivity. }
      destruct (IH (c :: cur) ls Hc' H) as [H1 H2]. split; [|exact H2].
      rewrite <- H1. cbn [rev]. rewrite <- app_assoc. reflexivity.
Qed.

Lemma quietb_sound b s : quietb b s = true -> quiet b s.
Proof.
  unfold quietb. destruct (lines_from [] s) as [ls|] eqn:E; [|discriminate]. intros H.
  destruct (lines_from_sound s [] ls eq_refl E) as [H1 H2]. exists ls. split; [exact H1|].
  rewrite forallb_forall in H. rewrite Forall_forall in *. intros l Hl. specialize (H l Hl). specialize (H2 l Hl).
  apply andb_prop in H. destruct H as [Ha Hb]. split; [exact H2|]. split; intros ->.
  - rewrite (proj2 (beq_bytes_eq _ _) eq_refl) in Ha. discriminate Ha.
  - rewrite (proj2 (beq_bytes_eq _ _) eq_refl) in Hb. discriminate Hb.
Qed.
