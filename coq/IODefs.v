(* M8: the I/O protocols of maildir.c / message.c / match.c as interaction trees over an abstract
   file system, with a fault oracle.  One [op] per (normalised) libc call.  The world maps the
   names a protocol can touch to inodes, and inodes to what the file holds (empty / partial / a
   complete version) together with whether that content has reached stable storage.
   Everything here is finite and computable.  No proofs in this file. *)
From Coq Require Import List Bool Arith.
Import ListNotations.

(* ---- names, inodes, contents ---------------------------------------------------------------------- *)
Inductive name := Src | Dst | New.
(* Src: the message's current file; Dst: the placeholder / destination created by maildir_move;
   New: the file created by maildir_write *)
Inductive ino := IOrig | ICreated.

Definition name_eqb (a b : name) : bool :=
  match a, b with Src, Src | Dst, Dst | New, New => true | _, _ => false end.
Definition ino_eqb (a b : ino) : bool :=
  match a, b with IOrig, IOrig | ICreated, ICreated => true | _, _ => false end.

Inductive data :=
| Empty                      (* a placeholder: created, nothing written *)
| Partial                    (* some unknown prefix of a version (buffered / torn write) *)
| Complete (v : nat).        (* the complete bytes of version v of the message: 0 = current content,
                                1 = rewritten (label / add-header) *)

Record file := mkfile { f_data : data; f_durable : bool; f_mtime : nat }.  (* mtime: 1 = the message's, 0 = now *)

Record world := mkworld { names : name -> option ino; inodes : ino -> file }.

Definition upd_name (w : world) (n : name) (i : option ino) : world :=
  mkworld (fun m => if name_eqb m n then i else names w m) (inodes w).
Definition upd_ino (w : world) (i : ino) (f : file) : world :=
  mkworld (names w) (fun j => if ino_eqb j i then f else inodes w j).
Definition file_at (w : world) (n : name) : option file :=
  match names w n with Some i => Some (inodes w i) | None => None end.
Definition on_file (w : world) (n : name) (g : file -> file) : world :=
  match names w n with Some i => upd_ino w i (g (inodes w i)) | None => w end.

(* ---- calls ----------------------------------------------------------------------------------------- *)
Inductive op :=
| Opendir                         (* maildir_open of the destination *)
| Stat (n : name)                 (* fstatat for the mtime *)
| Creat (n : name)                (* openat O_CREAT|O_EXCL in maildir_genname (EEXIST retries collapsed) *)
| Rename (a b : name)
| Dup | Fdopen
| Write (n : name) (v : nat)      (* all fprintf calls of message_write *)
| Flush (n : name) (v : nat)
| Fsync (n : name)
| Fclose (n : name)
| Close (n : name)
| Unlink (n : name)
| Utimens (n : name)
| OpenR (n : name).

Inductive outcome := Ok | Fail | Exdev.

Definition is_meta (o : op) : bool :=
  match o with Creat _ | Rename _ _ | Unlink _ => true | _ => false end.

(* Effect of a call given its outcome.  A failing call has no effect, except that a failing Write
   leaves unknown partial data behind (Fclose / Close release the descriptor anyway: no state). *)
Definition effect (o : op) (r : outcome) (w : world) : world :=
  match o, r with
  | Creat n, Ok => upd_ino (upd_name w n (Some ICreated)) ICreated (mkfile Empty true 0)
  | Rename a b, Ok => match names w a with
                      | Some i => upd_name (upd_name w b (Some i)) a None
                      | None => w
                      end
  | Write n v, _ => on_file w n (fun f => mkfile Partial false (f_mtime f))
  | Flush n v, Ok => on_file w n (fun f => mkfile (Complete v) false (f_mtime f))
  | Fsync n, Ok => on_file w n (fun f => mkfile (f_data f) true (f_mtime f))
  | Unlink n, Ok => upd_name w n None
  | Utimens n, Ok => on_file w n (fun f => mkfile (f_data f) (f_durable f) 1)
  | _, _ => w
  end.

(* ---- programs --------------------------------------------------------------------------------------- *)
Inductive prog :=
| Ret (status : nat)                       (* 0 = success *)
| Call (o : op) (k : outcome -> prog).

Definition oracle := nat -> outcome.

Record result := mkres { r_world : world; r_status : nat; r_trace : list (op * outcome) }.

Fixpoint run (p : prog) (O : oracle) (i : nat) (w : world) (tr : list (op * outcome)) : result :=
  match p with
  | Ret s => mkres w s (rev tr)
  | Call o k => let r := O i in run (k r) O (S i) (effect o r w) ((o, r) :: tr)
  end.

Fixpoint bind (p : prog) (k : nat -> prog) : prog :=
  match p with
  | Ret s => k s
  | Call o c => Call o (fun r => bind (c r) k)
  end.

(* message_write(msg, fd) on the file n, which holds version v afterwards; then [k error] *)
Definition message_write (n : name) (v : nat) (k : bool -> prog) : prog :=
  Call Dup (fun r => match r with
  | Ok => Call Fdopen (fun r => match r with
      | Ok => Call (Write n v) (fun r => match r with
          | Ok => Call (Flush n v) (fun r => match r with
              | Ok => Call (Fsync n) (fun r2 =>
                        Call (Fclose n) (fun r3 => k (negb (match r2, r3 with Ok, Ok => true | _, _ => false end))))
              | _ => Call (Fclose n) (fun _ => k true)
              end)
          | _ => Call (Fclose n) (fun _ => k true)         (* goto out *)
          end)
      | _ => Call (Close n) (fun _ => k true)               (* close(newfd) *)
      end)
  | _ => k true
  end).

(* maildir_move(src, dst, msg).  ver = the version the message file holds.
   stdin = true (MAILDIR_STDIN source): no fstatat / utimensat. *)
Definition maildir_move (stdin : bool) (ver : nat) : prog :=
  let body (doutime : bool) :=
    Call (Creat Dst) (fun r => match r with
    | Ok =>
        Call (Rename Src Dst) (fun r =>
          let finish (error : bool) :=
            let after_close :=
              Call (Close Dst) (fun _ =>
                if negb error && doutime
                then Call (Utimens Dst) (fun r => match r with Ok => Ret 0 | _ => Ret 1 end)
                else Ret (if error then 1 else 0)) in
            if error then Call (Unlink Dst) (fun _ => after_close) else after_close in
          match r with
          | Ok => finish false
          | Exdev =>
              message_write Dst ver (fun err =>
                if err then finish true
                else Call (Unlink Src) (fun r => finish (match r with Ok => false | _ => true end)))
          | Fail => finish true
          end)
    | _ => Ret 1
    end) in
  if stdin then body false
  else Call (Stat Src) (fun r => body (match r with Ok => true | _ => false end)).

(* matches_exec for a move / flag / flags entry: maildir_open(dst), then maildir_move *)
Definition exec_move (stdin : bool) (ver : nat) : prog :=
  Call Opendir (fun r => match r with Ok => maildir_move stdin ver | _ => Ret 1 end).

(* maildir_write(md, msg): the message is rewritten as version 1 into New, the old file removed *)
Definition maildir_write : prog :=
  Call (Creat New) (fun r => match r with
  | Ok =>
      message_write New 1 (fun err =>
        Call (Close New) (fun _ =>
          let rollback := Call (Unlink New) (fun _ => Ret 1) in
          if err then rollback
          else Call (Unlink Src) (fun r => match r with
               | Ok => Call (OpenR New) (fun r => match r with Ok => Ret 0 | _ => Ret 1 end)
               | _ => rollback
               end)))
  | _ => Ret 1
  end).

(* discard *)
Definition maildir_discard : prog :=
  Call (Unlink Src) (fun r => match r with Ok => Ret 0 | _ => Ret 1 end).

(* ---- worlds and oracles ---------------------------------------------------------------------------- *)
(* one message: its file holds the complete current content, durable, with the message's mtime *)
Definition w0 : world :=
  mkworld (fun n => match n with Src => Some IOrig | _ => None end)
          (fun _ => mkfile (Complete 0) true 1).

Definition nofault : oracle := fun _ => Ok.
Definition single (k : nat) (r : outcome) : oracle := fun i => if Nat.eqb i k then r else Ok.
Definition double (k1 : nat) (r1 : outcome) (k2 : nat) (r2 : outcome) : oracle :=
  fun i => if Nat.eqb i k1 then r1 else if Nat.eqb i k2 then r2 else Ok.
(* outcomes given as a list (the observed outcomes of a real run), Ok beyond its end *)
Definition from_list (l : list outcome) : oracle := fun i => nth i l Ok.

(* ---- crash states ------------------------------------------------------------------------------------ *)
Fixpoint apply_all (tr : list (op * outcome)) (w : world) : world :=
  match tr with
  | [] => w
  | (o, r) :: t => apply_all t (effect o r w)
  end.

(* only the directory operations among the calls *)
Fixpoint apply_meta (tr : list (op * outcome)) (w : world) : world :=
  match tr with
  | [] => w
  | (o, r) :: t => apply_meta t (if is_meta o then effect o r w else w)
  end.

(* what is left of a file after a power failure: its data only if it was fsynced *)
Definition persist (f : file) : file :=
  if f_durable f then f else mkfile (match f_data f with Empty => Empty | _ => Partial end) false (f_mtime f).

(* process killed before call k: everything done so far is kept by the kernel *)
Definition kill_state (tr : list (op * outcome)) (k : nat) (w : world) : world :=
  apply_all (firstn k tr) w.

(* power failure after k calls on a file system that persists directory operations in order
   (any prefix j <= k of them) and file data only up to the last successful fsync *)
Definition powerfail_state (tr : list (op * outcome)) (j k : nat) (w : world) : world :=
  let wk := apply_all (firstn k tr) w in
  let wj := apply_meta (firstn j tr) w in
  mkworld (names wj) (fun i => persist (inodes wk i)).

(* ---- the judgements used by the theorems (all decidable) ---------------------------------------------- *)
Definition intact (f : file) : bool := match f_data f with Complete _ => true | _ => false end.

Definition holds (w : world) (n : name) : bool :=
  match file_at w n with Some f => intact f | None => false end.
Definition absent (w : world) (n : name) : bool :=
  match names w n with None => true | Some _ => false end.

(* the message exists exactly once, intact, under one of the three names, and nothing else is left *)
Definition exactly_once (w : world) : bool :=
  (holds w Src && absent w Dst && absent w New) ||
  (absent w Src && holds w Dst && absent w New) ||
  (absent w Src && absent w Dst && holds w New).

Definition some_intact (w : world) : bool := holds w Src || holds w Dst || holds w New.

(* leftovers allowed after a crash: besides an intact copy, other names may hold an empty
   placeholder, a complete duplicate or a partial copy *)
Definition crash_ok (w : world) : bool := some_intact w.

(* ---- entry points for the correspondence checks ---------------------------------------------------- *)
Inductive action := AMove (stdin : bool) | AMoveX (stdin : bool) | AWrite | ADiscard.
(* AMoveX: the rename of this move fails with EXDEV (source and destination on different file systems) *)

Definition prog_of (a : action) (ver : nat) : prog :=
  match a with
  | AMove s | AMoveX s => exec_move s ver
  | AWrite => maildir_write
  | ADiscard => maildir_discard
  end.

Definition w0v (v mt : nat) : world :=
  mkworld (fun n => match n with Src => Some IOrig | _ => None end) (fun _ => mkfile (Complete v) true mt).

(* run an action against the outcomes observed in a real run *)
Definition replay_action (a : action) (ver : nat) (outs : list outcome) : result :=
  run (prog_of a ver) (from_list outs) 0 (w0v ver 1) [].

(* first (j, k) with j <= k <= length tr at which a trace admits a crash state without an intact copy *)
Fixpoint find_first {A} (f : A -> bool) (l : list A) : option A :=
  match l with [] => None | x :: r => if f x then Some x else find_first f r end.

Definition crash_violation (tr : list (op * outcome)) (ver : nat) : option (nat * nat) :=
  let w := w0v ver 1 in
  find_first (fun jk => negb (crash_ok (powerfail_state tr (fst jk) (snd jk) w)) ||
                        negb (crash_ok (kill_state tr (snd jk) w)))
             (flat_map (fun k => map (fun j => (j, k)) (seq 0 (S k))) (seq 0 (S (length tr)))).
