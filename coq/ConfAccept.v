(* C14, converse direction: every configuration generated from the documented grammar (macros aside) is accepted.
   A configuration is an abstract syntax tree; [render] writes it out with an arbitrary blank string (white space
   and comments) in front of every token; the model of config_parse accepts the text and builds the tree the
   grammar denotes.  Part 1: the lexer on rendered tokens. *)
From Coq Require Import List Bool NArith Arith Lia ZifyBool ZifyN ZifyNat.
Import ListNotations.
From MD Require Import Bytes Generated InterpDefs ConfDefs.
Local Open Scope N_scope.

(* a token ends where white space (or the end of the file) begins *)
Definition Stop (rest : bytes) : Prop := rest = [] \/ exists c r, rest = c :: r /\ isspace c = true.

Lemma isspace_not_word c : isspace c = true -> wordchar c = false.
Proof. unfold isspace, wordchar, islower. intros H. lia. Qed.
Lemma isspace_not_digit c : isspace c = true -> isdigit c = false.
Proof. unfold isspace, isdigit. intros H. lia. Qed.

Lemma take_while_app f w rest : forallb f w = true -> (rest = [] \/ exists c r, rest = c :: r /\ f c = false) ->
  take_while f (w ++ rest) = (w, rest).
Proof.
  intros Hw Hr. induction w as [|c w IH]; cbn [app take_while].
  - destruct Hr as [->|(c & r & -> & Hc)]; [reflexivity|]. cbn [take_while]. rewrite Hc. reflexivity.
  - cbn [forallb] in Hw. apply andb_prop in Hw. destruct Hw as [Hc Hw]. rewrite Hc, (IH Hw). reflexivity.
Qed.

Lemma skip_blank_start c r : isspace c = false -> c <> 35 -> skip_blank false (c :: r) = c :: r.
Proof. intros H1 H2. cbn [skip_blank]. rewrite H1. destruct (N.eqb_spec c 35); [contradiction|reflexivity]. Qed.

(* ---- words: keywords and scalars ---------------------------------------------------------------------------------------------- *)
Definition wordb (w : bytes) : bool :=
  match w with c :: _ => islower c | [] => false end && forallb wordchar w && (N.of_nat (length w) <=? bufsiz - 1).

Lemma lex_word w rest : wordb w = true -> Stop rest ->
  lex (w ++ rest) = POk (if is_keyword w then TKw w else TWord w) rest.
Proof.
  unfold wordb. intros H Hs. apply andb_prop in H. destruct H as [H Hl]. apply andb_prop in H. destruct H as [Hc Hw].
  destruct w as [|c w]; [discriminate Hc|]. unfold lex. cbn [app].
  assert (Hsp : isspace c = false) by (unfold isspace, islower in *; lia).
  assert (H35 : c <> 35) by (unfold islower in Hc; lia).
  rewrite (skip_blank_start c _ Hsp H35).
  assert (c =? 33 = false) as -> by (unfold islower in Hc; lia).
  assert (c =? 34 = false) as -> by (unfold islower in Hc; lia).
  assert (isdigit c = false) as -> by (unfold islower, isdigit in *; lia).
  rewrite Hc.
  change (c :: w ++ rest) with ((c :: w) ++ rest).
  rewrite (take_while_app wordchar (c :: w) rest Hw).
  - assert (bufsiz - 1 <? N.of_nat (length (c :: w)) = false) as -> by lia. destruct (is_keyword (c :: w)); reflexivity.
  - destruct Hs as [->|(d & r & -> & Hd)]; [left; reflexivity|right]. exists d, r. split; [reflexivity|apply isspace_not_word; exact Hd].
Qed.

Lemma lex_scalar_word w rest v : wordb w = true -> is_keyword w = false -> scalar_matches w scalars = [v] -> Stop rest ->
  lex_scalar (w ++ rest) = POk (Z.to_N v) rest.
Proof.
  unfold wordb. intros H Hk Hv Hs. apply andb_prop in H. destruct H as [H Hl]. apply andb_prop in H. destruct H as [Hc Hw].
  destruct w as [|c w]; [discriminate Hc|]. unfold lex_scalar. cbn [app].
  assert (Hsp : isspace c = false) by (unfold isspace, islower in *; lia).
  assert (H35 : c <> 35) by (unfold islower in Hc; lia).
  rewrite (skip_blank_start c _ Hsp H35), Hc.
  change (c :: w ++ rest) with ((c :: w) ++ rest).
  rewrite (take_while_app wordchar (c :: w) rest Hw).
  - assert (bufsiz - 1 <? N.of_nat (length (c :: w)) = false) as -> by lia. rewrite Hk, Hv. reflexivity.
  - destruct Hs as [->|(d & r & -> & Hd)]; [left; reflexivity|right]. exists d, r. split; [reflexivity|apply isspace_not_word; exact Hd].
Qed.

(* ---- strings and patterns ------------------------------------------------------------------------------------------------------- *)
(* the characters between the delimiters: not the delimiter, not a backslash, not NUL *)
Definition plainb (d : N) (x : bytes) : bool :=
  forallb (fun c => negb (c =? d) && negb (c =? 92) && negb (c =? 0)) x && (N.of_nat (length x) <=? bufsiz - 1).

Lemma lex_delim_plain d x rest : forall acc stored,
  forallb (fun c => negb (c =? d) && negb (c =? 92) && negb (c =? 0)) x = true ->
  stored + N.of_nat (length x) <= bufsiz - 1 ->
  lex_delim d (x ++ d :: rest) acc stored = Some (rev acc ++ x, rest).
Proof.
  induction x as [|c x IH]; intros acc stored Hx Hl; cbn [app lex_delim].
  - rewrite N.eqb_refl, app_nil_r. reflexivity.
  - cbn [forallb] in Hx. apply andb_prop in Hx. destruct Hx as [Hc Hx].
    apply andb_prop in Hc. destruct Hc as [Hc H0]. apply andb_prop in Hc. destruct Hc as [Hd H92].
    apply negb_true_iff in Hd. apply negb_true_iff in H92. rewrite Hd.
    cbn [length] in Hl. assert (stored =? bufsiz - 1 = false) as -> by lia. rewrite H92. cbn [andb].
    rewrite IH by (try exact Hx; lia). cbn [rev]. rewrite <- app_assoc. reflexivity.
Qed.

Lemma cview_plain d x : forallb (fun c => negb (c =? d) && negb (c =? 92) && negb (c =? 0)) x = true -> cview x = x.
Proof.
  induction x as [|c x IH]; intros H; [reflexivity|]. cbn [forallb] in H. apply andb_prop in H. destruct H as [Hc Hx].
  apply andb_prop in Hc. destruct Hc as [_ H0]. apply negb_true_iff in H0. cbn [cview]. rewrite H0. f_equal. apply IH. exact Hx.
Qed.

Definition strb (x : bytes) : bool := plainb 34 x && negb (match x with [] => true | _ => false end).

Lemma lex_string x rest : strb x = true -> lex (34 :: x ++ 34 :: rest) = POk (TStr x) rest.
Proof.
  unfold strb, plainb. intros H. apply andb_prop in H. destruct H as [H Hne]. apply andb_prop in H. destruct H as [Hx Hl].
  unfold lex. rewrite skip_blank_start by (cbv; congruence). cbn [N.eqb Pos.eqb].
  rewrite (lex_delim_plain 34 x rest [] 0 Hx) by lia. cbn [rev app]. rewrite (cview_plain 34 x Hx).
  destruct x; [discriminate Hne|reflexivity].
Qed.

(* pattern flags *)
Lemma pat_flags_app fl rest : forall a b c ic lc uc, pat_flags fl a b c = Some (ic, lc, uc, []) -> Stop rest ->
  pat_flags (fl ++ rest) a b c = Some (ic, lc, uc, rest).
Proof.
  induction fl as [|x fl IH]; intros a b c ic lc uc H Hs; cbn [app].
  - cbn [pat_flags] in H. inversion H; subst. destruct Hs as [->|(d & r & -> & Hd)]; [reflexivity|].
    cbn [pat_flags]. unfold isspace in Hd.
    assert (d =? 105 = false) as -> by lia. assert (d =? 108 = false) as -> by lia. assert (d =? 117 = false) as -> by lia. reflexivity.
  - cbn [pat_flags] in *. destruct (x =? 105); [apply IH; assumption|].
    destruct (x =? 108); [destruct c; [discriminate H|apply IH; assumption]|].
    destruct (x =? 117); [destruct b; [discriminate H|apply IH; assumption]|]. discriminate H.
Qed.

Definition delimb (d : N) : bool := negb (isspace d) && negb (d =? 35) && negb (d =? 33) && negb (d =? 34).

Lemma lex_pattern_plain d src fl rest ic lc uc : delimb d = true -> plainb d src = true ->
  pat_flags fl false false false = Some (ic, lc, uc, []) -> Stop rest ->
  lex_pattern (d :: src ++ d :: fl ++ rest) = POk (mkpat src ic lc uc) rest.
Proof.
  unfold delimb, plainb. intros Hd Hp Hf Hs. apply andb_prop in Hp. destruct Hp as [Hx Hl].
  assert (isspace d = false /\ d <> 35 /\ d =? 33 = false /\ d =? 34 = false) as (D1 & D2 & D3 & D4) by lia.
  unfold lex_pattern. rewrite (skip_blank_start d _ D1 D2), D3, D4. cbn [orb].
  rewrite (lex_delim_plain d src (fl ++ rest) [] 0 Hx) by lia. cbn [rev app].
  rewrite (pat_flags_app fl rest _ _ _ _ _ _ Hf Hs), (cview_plain d src Hx). reflexivity.
Qed.

(* ---- integers -------------------------------------------------------------------------------------------------------------------- *)
Lemma lex_int_app ds rest : forall acc n, forallb isdigit ds = true -> lex_int ds acc = Some (n, []) -> Stop rest ->
  lex_int (ds ++ rest) acc = Some (n, rest).
Proof.
  induction ds as [|c ds IH]; intros acc n Hd H Hs; cbn [app].
  - cbn [lex_int] in H. inversion H; subst. destruct Hs as [->|(d & r & -> & Hsp)]; [reflexivity|].
    cbn [lex_int]. rewrite (isspace_not_digit d Hsp). reflexivity.
  - cbn [forallb] in Hd. apply andb_prop in Hd. destruct Hd as [Hc Hd]. cbn [lex_int] in *. rewrite Hc in *.
    destruct ((u32max <? acc * 10) || (u32max <? acc * 10 + (c - 48))); [discriminate H|]. apply IH; assumption.
Qed.

Definition intb (ds : bytes) (n : N) : bool :=
  negb (match ds with [] => true | _ => false end) && forallb isdigit ds &&
  match lex_int ds 0 with Some (m, []) => m =? n | _ => false end.

Lemma lex_integer ds n rest : intb ds n = true -> Stop rest -> lex (ds ++ rest) = POk (TInt n) rest.
Proof.
  unfold intb. intros H Hs. apply andb_prop in H. destruct H as [H Hv]. apply andb_prop in H. destruct H as [Hne Hd].
  destruct ds as [|c ds]; [discriminate Hne|].
  destruct (lex_int (c :: ds) 0) as [[m [|? ?]]|] eqn:E; try discriminate Hv. apply N.eqb_eq in Hv. subst m.
  pose proof Hd as Hd'. cbn [forallb] in Hd'. apply andb_prop in Hd'. destruct Hd' as [Hc _].
  unfold lex. cbn [app].
  assert (isspace c = false /\ c <> 35 /\ c =? 33 = false /\ c =? 34 = false) as (D1 & D2 & D3 & D4) by (unfold isdigit, isspace in *; lia).
  rewrite (skip_blank_start c _ D1 D2), D3, D4, Hc.
  change (c :: ds ++ rest) with ((c :: ds) ++ rest). rewrite (lex_int_app (c :: ds) rest 0 n Hd E Hs). reflexivity.
Qed.

(* ---- single characters ------------------------------------------------------------------------------------------------------------ *)
Lemma lex_neg rest : lex (33 :: rest) = POk TNeg rest.
Proof. reflexivity. Qed.
Lemma lex_lbrace rest : lex (123 :: rest) = POk (TChar 123) rest.
Proof. reflexivity. Qed.
Lemma lex_rbrace rest : lex (125 :: rest) = POk (TChar 125) rest.
Proof. reflexivity. Qed.
Lemma lex_lparen rest : lex (40 :: rest) = POk (TChar 40) rest.
Proof. reflexivity. Qed.
Lemma lex_rparen rest : lex (41 :: rest) = POk (TChar 41) rest.
Proof. reflexivity. Qed.
Lemma lex_lt rest : lex (60 :: rest) = POk (TChar 60) rest.
Proof. reflexivity. Qed.
Lemma lex_gt rest : lex (62 :: rest) = POk (TChar 62) rest.
Proof. reflexivity. Qed.

(* ---- strings that expand to themselves (no tilde, no macro) -------------------------------------------------------------------- *)
Definition noexpb (x : bytes) : bool :=
  forallb (fun c => negb (c =? 36)) x && match x with c :: _ => negb (c =? 126) | [] => true end.

Lemma expand_macros_plain : forall x fuel ms ctx, forallb (fun c => negb (c =? 36)) x = true -> (length x < fuel)%nat ->
  expand_macros fuel ms ctx x = Some (x, ms).
Proof.
  induction x as [|c x IH]; intros fuel ms ctx Hx Hf; (destruct fuel as [|f]; [cbn [length] in Hf; lia|]); cbn [expand_macros]; [reflexivity|].
  cbn [forallb] in Hx. apply andb_prop in Hx. destruct Hx as [Hc Hx]. apply negb_true_iff in Hc.
  assert (ismacro (c :: x) = MacNone) as ->.
  { unfold ismacro. destruct x as [|c1 r]; [reflexivity|]. rewrite Hc. reflexivity. }
  rewrite IH by (try exact Hx; cbn [length] in Hf; lia). reflexivity.
Qed.

Section Accept.
Variable home : bytes.
Variable regcomp_ok : pat -> bool.

Lemma expand_plain ms ctx x : noexpb x = true -> expand home ms ctx x = Some (x, ms).
Proof.
  unfold noexpb. intros H. apply andb_prop in H. destruct H as [Hd Ht]. unfold expand.
  assert (expand_tilde home x = Some x) as ->.
  { unfold expand_tilde. destruct x as [|c r]; [reflexivity|]. apply negb_true_iff in Ht.
    destruct (N.eqb_spec c 126) as [->|Hn]; [discriminate Ht|]. destruct c as [|p]; [reflexivity|].
    repeat (destruct p as [p|p|]; try reflexivity). exfalso. apply Hn. reflexivity. }
  apply expand_macros_plain; [exact Hd|lia].
Qed.

Lemma expand_all_plain ms ctx l : forallb noexpb l = true -> expand_all home ms ctx l = Some (l, ms).
Proof.
  induction l as [|x l IH]; intros H; [reflexivity|]. cbn [forallb] in H. apply andb_prop in H. destruct H as [Hx Hl].
  cbn [expand_all]. rewrite (expand_plain ms ctx x Hx), (IH Hl). reflexivity.
Qed.

(* ---- the separator ---------------------------------------------------------------------------------------------------------------- *)
Variable sp : bytes.
Hypothesis sp_blank : forall x, skip_blank false (sp ++ x) = skip_blank false x.
Hypothesis sp_space : exists c r, sp = c :: r /\ isspace c = true.

Lemma Stop_sp x : Stop (sp ++ x).
Proof. destruct sp_space as (c & r & -> & Hc). right. exists c, (r ++ x). split; [reflexivity|exact Hc]. Qed.

Lemma lex_sp s : lex (sp ++ s) = lex s.
Proof. unfold lex. rewrite sp_blank. reflexivity. Qed.
Lemma lex_pattern_sp s : lex_pattern (sp ++ s) = lex_pattern s.
Proof. unfold lex_pattern. rewrite sp_blank. reflexivity. Qed.
Lemma lex_scalar_sp s : lex_scalar (sp ++ s) = lex_scalar s.
Proof. unfold lex_scalar. rewrite sp_blank. reflexivity. Qed.

(* ---- rendering of tokens: every token is preceded by the separator ------------------------------------------------------------------ *)
Definition t_kw (k : bytes) : bytes := sp ++ k.
Definition t_str (x : bytes) : bytes := sp ++ 34 :: x ++ [34].
Definition t_chr (c : N) : bytes := sp ++ [c].

Lemma lex_t_kw k rest : wordb k = true -> is_keyword k = true -> Stop rest -> lex (t_kw k ++ rest) = POk (TKw k) rest.
Proof. intros Hw Hk Hs. unfold t_kw. rewrite <- app_assoc, lex_sp, (lex_word k rest Hw Hs), Hk. reflexivity. Qed.

Lemma lex_t_str x rest : strb x = true -> lex (t_str x ++ rest) = POk (TStr x) rest.
Proof. intros Hx. unfold t_str. rewrite <- app_assoc, lex_sp. cbn [app]. rewrite <- app_assoc. cbn [app]. apply lex_string. exact Hx. Qed.

(* strings: STRING | '{' STRING* '}' *)
Inductive strs := SOne (x : bytes) | SMany (l : list bytes).
Definition strs_list (k : strs) : list bytes := match k with SOne x => [x] | SMany l => l end.
Definition r_strs (k : strs) : bytes :=
  match k with
  | SOne x => t_str x
  | SMany l => t_chr 123 ++ concat (map t_str l) ++ t_chr 125
  end.
Definition strs_ok (k : strs) : bool := forallb strb (strs_list k).

Lemma string_block_rendered : forall l fuel rest, forallb strb l = true -> (length l < fuel)%nat ->
  string_block fuel (concat (map t_str l) ++ t_chr 125 ++ rest) = POk l rest.
Proof.
  induction l as [|x l IH]; intros fuel rest Hl Hf; (destruct fuel as [|f]; [cbn [length] in Hf; lia|]); cbn [string_block map concat app].
  - unfold t_chr. rewrite <- app_assoc, lex_sp. cbn [app]. rewrite lex_rbrace. reflexivity.
  - cbn [forallb] in Hl. apply andb_prop in Hl. destruct Hl as [Hx Hl]. rewrite <- app_assoc, (lex_t_str x _ Hx).
    rewrite IH by (try exact Hl; cbn [length] in Hf; lia). reflexivity.
Qed.

Lemma strings_rendered k fuel rest : strs_ok k = true -> (length (strs_list k) < fuel)%nat ->
  strings fuel (r_strs k ++ rest) = POk (strs_list k) rest.
Proof.
  intros Hk Hf. unfold strings. destruct k as [x|l]; cbn [r_strs strs_list] in *.
  - unfold strs_ok in Hk. cbn [strs_list forallb] in Hk. apply andb_prop in Hk. destruct Hk as [Hx _]. rewrite (lex_t_str x rest Hx). reflexivity.
  - unfold t_chr at 1. rewrite <- !app_assoc, lex_sp. cbn [app]. rewrite lex_lbrace.
    apply string_block_rendered; assumption.
Qed.

Lemma one_string_rendered x rest : strb x = true -> one_string (t_str x ++ rest) = POk x rest.
Proof. intros Hx. unfold one_string. rewrite (lex_t_str x rest Hx). reflexivity. Qed.


(* ---- patterns ---------------------------------------------------------------------------------------------------------------------- *)
Record spat := mkspat { sd : N; ssrc : bytes; sfl : bytes }.          (* delimiter, source, flag letters as written *)
Definition r_pat (p : spat) : bytes := sp ++ sd p :: ssrc p ++ sd p :: sfl p.
Definition pat_of (p : spat) : option pat :=
  match pat_flags (sfl p) false false false with
  | Some (ic, lc, uc, []) => Some (mkpat (ssrc p) ic lc uc)
  | _ => None
  end.
Definition the_pat (p : spat) : pat := match pat_of p with Some q => q | None => mkpat [] false false false end.
Definition spat_ok (p : spat) : bool :=
  delimb (sd p) && plainb (sd p) (ssrc p) && match pat_of p with Some q => regcomp_ok q | None => false end.

Lemma lex_r_pat p rest : spat_ok p = true -> Stop rest ->
  lex_pattern (r_pat p ++ rest) = POk (the_pat p) rest /\ regcomp_ok (the_pat p) = true.
Proof.
  unfold spat_ok, the_pat, pat_of. intros H Hs. apply andb_prop in H. destruct H as [H Hr]. apply andb_prop in H. destruct H as [Hd Hp].
  destruct (pat_flags (sfl p) false false false) as [[[[ic lc] uc] [|? ?]]|] eqn:E; try discriminate Hr.
  split; [|exact Hr]. unfold r_pat. rewrite <- app_assoc, lex_pattern_sp. cbn [app]. rewrite <- app_assoc. cbn [app].
  apply lex_pattern_plain; assumption.
Qed.

(* ---- conditions -------------------------------------------------------------------------------------------------------------------- *)
Inductive ucond :=
| UNeg (u : ucond)
| UParen (first : ucond) (links : list (bool * ucond))        (* "(" cond ")" ; true = and, false = or *)
| UAtt (u : ucond)
| UBody (p : spat)
| UHeader (k : strs) (p : spat)
| UDate (fld : N) (gt : bool) (ds : bytes) (n : N) (unit : bytes) (v : Z)   (* fld: 0 omitted, 1 header, 2 access, 3 modified, 4 created *)
| UNew | UOld | UAll
| UIsDir (x : bytes)
| UCommand (k : strs).

Definition fld_kw (fld : N) : bytes :=
  if fld =? 1 then t_kw k_header else if fld =? 2 then t_kw k_access else if fld =? 3 then t_kw k_modified
  else if fld =? 4 then t_kw k_created else [].
Definition fld_no (fld : N) : N := if fld =? 2 then 1 else if fld =? 3 then 2 else if fld =? 4 then 3 else 0.

Definition r_links (ru : ucond -> bytes) : list (bool * ucond) -> bytes :=
  fix go (l : list (bool * ucond)) : bytes :=
  match l with
  | [] => []
  | (b, x) :: r => t_kw (if b then k_and else k_or) ++ ru x ++ go r
  end.
Definition tr_links (tu : ucond -> cexpr) : cexpr -> list (bool * ucond) -> cexpr :=
  fix go (acc : cexpr) (l : list (bool * ucond)) : cexpr :=
  match l with
  | [] => acc
  | (b, x) :: r => go (if b then QAnd acc (tu x) else QOr acc (tu x)) r
  end.
Definition sz_links (su : ucond -> nat) : list (bool * ucond) -> nat :=
  fix go (l : list (bool * ucond)) : nat :=
  match l with [] => O | (_, x) :: r => (1 + su x + go r)%nat end.
Definition ok_links (ou : ucond -> bool) : list (bool * ucond) -> bool :=
  fix go (l : list (bool * ucond)) : bool :=
  match l with [] => true | (_, x) :: r => ou x && go r end.

Fixpoint r_u (u : ucond) : bytes :=
  match u with
  | UNeg x => t_chr 33 ++ r_u x
  | UParen f l => t_chr 40 ++ r_u f ++ r_links r_u l ++ t_chr 41
  | UAtt x => t_kw k_attachment ++ r_u x
  | UBody p => t_kw k_body ++ r_pat p
  | UHeader k p => t_kw k_header ++ r_strs k ++ r_pat p
  | UDate fld gt ds n unit v => t_kw k_date ++ fld_kw fld ++ t_chr (if gt then 62 else 60) ++ (sp ++ ds) ++ (sp ++ unit)
  | UNew => t_kw k_new | UOld => t_kw k_old | UAll => t_kw k_all
  | UIsDir x => t_kw k_isdirectory ++ t_str x
  | UCommand k => t_kw k_command ++ r_strs k
  end.

Fixpoint tr_u (u : ucond) : cexpr :=
  match u with
  | UNeg x => QNeg (tr_u x)
  | UParen f l => tr_links tr_u (tr_u f) l
  | UAtt x => QAttachment (tr_u x)
  | UBody p => QBody (the_pat p)
  | UHeader k p => QHeader (strs_list k) (the_pat p)
  | UDate fld gt ds n unit v => QDate (fld_no fld) gt (n * Z.to_N v)
  | UNew => QNew | UOld => QOld | UAll => QAll
  | UIsDir x => QStat x
  | UCommand k => QCommand (strs_list k)
  end.

Fixpoint usz (u : ucond) : nat :=
  match u with
  | UNeg x | UAtt x => S (usz x)
  | UParen f l => (2 + usz f + sz_links usz l)%nat
  | UBody _ => 2%nat
  | UHeader k _ => (3 + length (strs_list k))%nat
  | UDate _ _ _ _ _ _ => 5%nat
  | UNew | UOld | UAll => 1%nat
  | UIsDir _ => 2%nat
  | UCommand k => (2 + length (strs_list k))%nat
  end.

Fixpoint u_ok (u : ucond) : bool :=
  match u with
  | UNeg x | UAtt x => u_ok x
  | UParen f l => u_ok f && ok_links u_ok l
  | UBody p => spat_ok p
  | UHeader k p => strs_ok k && forallb noexpb (strs_list k) && spat_ok p
  | UDate fld gt ds n unit v =>
      (fld <=? 4) && intb ds n && wordb unit && negb (is_keyword unit) &&
      match scalar_matches unit scalars with [v'] => Z.eqb v' v | _ => false end && (n * Z.to_N v <=? u32max)
  | UNew | UOld | UAll => true
  | UIsDir x => strb x && noexpb x
  | UCommand k => strs_ok k && forallb noexpb (strs_list k)
  end.

(* every rendered item begins with the separator *)
Definition Starts (x : bytes) : Prop := exists y, x = sp ++ y.
Lemma Starts_app x r : Starts x -> Starts (x ++ r).
Proof. intros [y ->]. exists (y ++ r). rewrite app_assoc. reflexivity. Qed.
Lemma Starts_stop x : Starts x -> Stop x.
Proof. intros [y ->]. apply Stop_sp. Qed.
Lemma Starts_kw k : Starts (t_kw k). Proof. exists k. reflexivity. Qed.
Lemma Starts_str x : Starts (t_str x). Proof. eexists. reflexivity. Qed.
Lemma Starts_chr c : Starts (t_chr c). Proof. eexists. reflexivity. Qed.
Lemma Starts_pat p : Starts (r_pat p). Proof. eexists. reflexivity. Qed.
Lemma Starts_strs k : Starts (r_strs k).
Proof. destruct k; cbn [r_strs]; [apply Starts_str|apply Starts_app, Starts_chr]. Qed.
Lemma Starts_u u : Starts (r_u u).
Proof. destruct u; cbn [r_u]; first [apply Starts_kw | apply Starts_app; first [apply Starts_kw | apply Starts_chr]]. Qed.

Lemma lex_t_chr c rest : lex (c :: rest) = POk (TChar c) rest -> lex (t_chr c ++ rest) = POk (TChar c) rest.
Proof. intros H. unfold t_chr. rewrite <- app_assoc, lex_sp. exact H. Qed.

Lemma lex_t_neg rest : lex (t_chr 33 ++ rest) = POk TNeg rest.
Proof. unfold t_chr. rewrite <- app_assoc, lex_sp. reflexivity. Qed.

(* what follows a condition: not "and" / "or" *)
Definition chain_stop (rest : bytes) : Prop :=
  match lex rest with
  | POk (TKw k) _ => beq_bytes k k_and = false /\ beq_bytes k k_or = false
  | POk _ _ => True
  | _ => False
  end.

Ltac starts := first [apply Starts_u | apply Starts_kw | apply Starts_chr | apply Starts_str | apply Starts_strs | apply Starts_pat | apply Starts_app; starts].
Ltac kw_side := first [reflexivity | assumption | apply Stop_sp | apply Starts_stop; starts].

Lemma chain_rendered n (HU : forall u, (usz u <= n)%nat -> u_ok u = true -> forall f ms rest, (usz u < f)%nat -> Stop rest ->
                               unary home regcomp_ok f ms (r_u u ++ rest) = SOk (tr_u u) rest ms) :
  forall links, (sz_links usz links <= n)%nat -> ok_links u_ok links = true ->
  forall f left ms rest, (sz_links usz links < f)%nat -> Stop rest -> chain_stop rest ->
  chain home regcomp_ok f ms left (r_links r_u links ++ rest) = SOk (tr_links tr_u left links) rest ms.
Proof.
  induction links as [|[b x] l IH]; intros Hn Hok f left ms rest Hf Hs Hc; (destruct f as [|f]; [lia|]); cbn [chain r_links tr_links app].
  - unfold chain_body. unfold chain_stop in Hc. destruct (lex rest) as [[| | | |k| |] r| |]; try contradiction; try reflexivity.
    destruct Hc as [-> ->]. reflexivity.
  - cbn [sz_links ok_links] in *. apply andb_prop in Hok. destruct Hok as [Hx Hl].
    unfold chain_body. rewrite <- app_assoc.
    destruct b.
    + rewrite lex_t_kw by kw_side. change (beq_bytes k_and k_and) with true. cbv iota.
      rewrite <- app_assoc. rewrite (HU x ltac:(lia) Hx f ms _ ltac:(lia)) by (destruct l as [|[? ?] ?]; cbn [r_links app]; [exact Hs|kw_side]).
      apply IH; try assumption; lia.
    + rewrite lex_t_kw by kw_side. change (beq_bytes k_or k_and) with false. change (beq_bytes k_or k_or) with true. cbv iota.
      rewrite <- app_assoc. rewrite (HU x ltac:(lia) Hx f ms _ ltac:(lia)) by (destruct l as [|[? ?] ?]; cbn [r_links app]; [exact Hs|kw_side]).
      apply IH; try assumption; lia.
Qed.

Ltac kwtests := repeat match goal with
  | |- context [beq_bytes ?a ?b] => let v := eval vm_compute in (beq_bytes a b) in change (beq_bytes a b) with v
  end; cbv iota.

Lemma unfold_unary f ms s : unary home regcomp_ok (S f) ms s =
  unary_body home regcomp_ok f (cond home regcomp_ok f) (unary home regcomp_ok f) ms s.
Proof. reflexivity. Qed.
Lemma unfold_cond f ms s : cond home regcomp_ok (S f) ms s =
  cond_body (chain home regcomp_ok f) (unary home regcomp_ok f) ms s.
Proof. reflexivity. Qed.

Lemma chain_stop_rparen rest : chain_stop (t_chr 41 ++ rest).
Proof. unfold chain_stop. rewrite (lex_t_chr 41 rest (lex_rparen rest)). exact I. Qed.

Lemma unary_rendered : forall n u, (usz u <= n)%nat -> u_ok u = true -> forall f ms rest, (usz u < f)%nat -> Stop rest ->
  unary home regcomp_ok f ms (r_u u ++ rest) = SOk (tr_u u) rest ms.
Proof.
  induction n as [|n IH]; intros u Hn Hok f ms rest Hf Hs; [destruct u; cbn [usz] in Hn; lia|].
  destruct f as [|f]; [lia|]. rewrite unfold_unary. unfold unary_body.
  destruct u as [x|first links|x|p|k p|fld gt ds nn unit v| | | |x|k]; cbn [r_u tr_u usz u_ok] in *.
  - (* ! u *)
    rewrite <- app_assoc, lex_t_neg. rewrite (IH x ltac:(lia) Hok f ms rest ltac:(lia) Hs). reflexivity.
  - (* ( cond ) *)
    apply andb_prop in Hok. destruct Hok as [Hfirst Hlinks].
    rewrite <- app_assoc, (lex_t_chr 40 _ (lex_lparen _)).
    destruct f as [|f]; [lia|]. rewrite unfold_cond. unfold cond_body.
    rewrite <- !app_assoc.
    rewrite (IH first ltac:(lia) Hfirst f ms _ ltac:(lia)) by (destruct links as [|[? ?] ?]; cbn [r_links app]; kw_side).
    rewrite (chain_rendered n IH links ltac:(lia) Hlinks f (tr_u first) ms (t_chr 41 ++ rest) ltac:(lia) ltac:(kw_side) (chain_stop_rparen rest)).
    rewrite (lex_t_chr 41 rest (lex_rparen rest)). reflexivity.
  - (* attachment u *)
    rewrite <- app_assoc, lex_t_kw by kw_side. kwtests.
    rewrite (IH x ltac:(lia) Hok f ms rest ltac:(lia) Hs). reflexivity.
  - (* body /pat/ *)
    rewrite <- app_assoc, lex_t_kw by kw_side. kwtests.
    destruct (lex_r_pat p rest Hok Hs) as [-> ->]. reflexivity.
  - (* header strings /pat/ *)
    apply andb_prop in Hok. destruct Hok as [Hok Hp]. apply andb_prop in Hok. destruct Hok as [Hk Hx].
    rewrite <- !app_assoc, lex_t_kw by kw_side. kwtests.
    rewrite (strings_rendered k f _ Hk ltac:(lia)).
    destruct (lex_r_pat p rest Hp Hs) as [-> ->]. rewrite (expand_all_plain ms false _ Hx). reflexivity.
  - (* date *)
    repeat (apply andb_prop in Hok; destruct Hok as [Hok ?]).
    rewrite <- !app_assoc, lex_t_kw by (first [reflexivity | unfold fld_kw; destruct (fld =? 1), (fld =? 2), (fld =? 3), (fld =? 4); cbn [app]; kw_side]). kwtests.
    match goal with H : (nn * Z.to_N v <=? u32max) = true |- _ => rename H into Hov end.
    match goal with H : match scalar_matches unit scalars with _ => _ end = true |- _ => rename H into Hsc end.
    destruct (scalar_matches unit scalars) as [|v' [|? ?]] eqn:Esc; try discriminate Hsc. apply Z.eqb_eq in Hsc. subst v'.
    match goal with H : negb (is_keyword unit) = true |- _ => apply negb_true_iff in H; rename H into Hnk end.
    match goal with H : wordb unit = true |- _ => rename H into Hw end.
    match goal with H : intb ds nn = true |- _ => rename H into Hi end.
    set (c := if gt then 62 else 60) in *.
    assert (Hc : lex (c :: sp ++ ds ++ sp ++ unit ++ rest) = POk (TChar c) (sp ++ ds ++ sp ++ unit ++ rest))
      by (unfold c; destruct gt; reflexivity).
    assert (Hc2 : (c =? 60) || (c =? 62) = true /\ (c =? 62) = gt) by (unfold c; destruct gt; split; reflexivity).
    destruct Hc2 as [Hc2 Hc3].
    assert (Hrest : forall field,
      match lex (t_chr c ++ sp ++ ds ++ sp ++ unit ++ rest) with
      | POk (TChar c0) r3 =>
          if (c0 =? 60) || (c0 =? 62)
          then match lex r3 with
               | POk (TInt n0) r4 =>
                   match lex_scalar r4 with
                   | POk sc r5 => if u32max <? n0 * sc then SErr else SOk (QDate field (c0 =? 62) (n0 * sc)) r5 ms
                   | PErr => SErr | PFuel => SFuel
                   end
               | PFuel => SFuel
               | _ => SErr
               end
          else SErr
      | PFuel => SFuel
      | _ => SErr
      end = SOk (QDate field gt (nn * Z.to_N v)) rest ms).
    { intros field. rewrite (lex_t_chr c _ Hc), Hc2, Hc3.
      rewrite lex_sp, (lex_integer ds nn (sp ++ unit ++ rest) Hi (Stop_sp _)).
      rewrite lex_scalar_sp, (lex_scalar_word unit rest v Hw Hnk Esc Hs).
      assert (u32max <? nn * Z.to_N v = false) as -> by lia. reflexivity. }
    assert (Hf4 : fld = 0 \/ fld = 1 \/ fld = 2 \/ fld = 3 \/ fld = 4) by lia.
    destruct Hf4 as [->|[->|[->|[->| ->]]]]; cbn [fld_kw fld_no N.eqb Pos.eqb app].
    + rewrite (lex_t_chr c _ Hc). apply Hrest.
    + rewrite lex_t_kw by kw_side. kwtests. apply Hrest.
    + rewrite lex_t_kw by kw_side. kwtests. apply Hrest.
    + rewrite lex_t_kw by kw_side. kwtests. apply Hrest.
    + rewrite lex_t_kw by kw_side. kwtests. apply Hrest.
  - rewrite lex_t_kw by kw_side. kwtests. reflexivity.
  - rewrite lex_t_kw by kw_side. kwtests. reflexivity.
  - rewrite lex_t_kw by kw_side. kwtests. reflexivity.
  - (* isdirectory *)
    apply andb_prop in Hok. destruct Hok as [Hx Hne].
    rewrite <- app_assoc, lex_t_kw by kw_side. kwtests.
    rewrite (one_string_rendered x rest Hx), (expand_plain ms false x Hne). reflexivity.
  - (* command *)
    apply andb_prop in Hok. destruct Hok as [Hk Hx].
    rewrite <- app_assoc, lex_t_kw by kw_side. kwtests.
    rewrite (strings_rendered k f rest Hk ltac:(lia)), (expand_all_plain ms false _ Hx). reflexivity.
Qed.

(* ---- a whole condition: unary (and|or unary)* ----------------------------------------------------------------------------------- *)
Record cnd := mkc { c_first : ucond; c_links : list (bool * ucond) }.
Definition r_c (c : cnd) : bytes := r_u (c_first c) ++ r_links r_u (c_links c).
Definition tr_c (c : cnd) : cexpr := tr_links tr_u (tr_u (c_first c)) (c_links c).
Definition csz (c : cnd) : nat := (1 + usz (c_first c) + sz_links usz (c_links c))%nat.
Definition c_ok (c : cnd) : bool := u_ok (c_first c) && ok_links u_ok (c_links c).

Lemma Starts_c c : Starts (r_c c).
Proof. unfold r_c. apply Starts_app, Starts_u. Qed.

Lemma cond_rendered c f ms rest : c_ok c = true -> (csz c < f)%nat -> Stop rest -> chain_stop rest ->
  cond home regcomp_ok f ms (r_c c ++ rest) = SOk (tr_c c) rest ms.
Proof.
  unfold c_ok, csz, r_c, tr_c. destruct c as [first links]. cbn [c_first c_links]. intros Hok Hf Hs Hc.
  apply andb_prop in Hok. destruct Hok as [H1 H2].
  destruct f as [|f]; [lia|]. rewrite unfold_cond. unfold cond_body. rewrite <- app_assoc.
  rewrite (unary_rendered (usz first) first (le_n _) H1 f ms _ ltac:(lia))
    by (destruct links as [|[? ?] ?]; cbn [r_links app]; [exact Hs|kw_side]).
  apply (chain_rendered (sz_links usz links)); try assumption; try lia.
  intros u Hu Huok f0 ms0 rest0 Hf0 Hs0. apply (unary_rendered (usz u)); try assumption; lia.
Qed.

(* ---- actions, rules, blocks -------------------------------------------------------------------------------------------------------- *)
Inductive action :=
| ABreak | AMove (x : bytes) | AFlagNew | AFlagNotNew | AFlags (x : bytes) | ADiscard | ALabel (l : strs) | APass | AReject
| AExec (fs fb : bool) (l : strs) | AAttBlock (rs : list rule) | AAddHeader (x y : bytes)
with rule :=
| RActs (c : cnd) (acts : list action)
| RBlock (c : cnd) (rs : list rule).

Definition and_fold (ta : action -> cexpr) : option cexpr -> list action -> option cexpr :=
  fix go (acc : option cexpr) (l : list action) : option cexpr :=
  match l with [] => acc | a :: r => go (and_opt acc (ta a)) r end.
Definition or_fold (tr : rule -> cexpr) : option cexpr -> list rule -> option cexpr :=
  fix go (acc : option cexpr) (l : list rule) : option cexpr :=
  match l with [] => acc | x :: r => go (or_opt acc (tr x)) r end.
Definition the (o : option cexpr) : cexpr := match o with Some e => e | None => QAll end.

Fixpoint tr_act (a : action) : cexpr :=
  match a with
  | ABreak => QBreak | AMove x => QMove x | AFlagNew => QFlag k_new | AFlagNotNew => QFlag s_cur | AFlags x => QFlags x
  | ADiscard => QDiscard | ALabel l => QLabel (strs_list l) | APass => QPass | AReject => QReject
  | AExec fs fb l => QExec fs fb (strs_list l)
  | AAttBlock rs => QAttBlock (QBlock (or_fold tr_rule None rs))
  | AAddHeader x y => QAddHeader x y
  end
with tr_rule (r : rule) : cexpr :=
  match r with
  | RActs c acts => QMatch (tr_c c) (the (and_fold tr_act None acts))
  | RBlock c rs => QMatch (tr_c c) (QBlock (or_fold tr_rule None rs))
  end.
Definition tr_block (rs : list rule) : cexpr := QBlock (or_fold tr_rule None rs).

Definition cat_acts (ra : action -> bytes) : list action -> bytes :=
  fix go (l : list action) : bytes := match l with [] => [] | a :: r => ra a ++ go r end.
Definition cat_rules (rr : rule -> bytes) : list rule -> bytes :=
  fix go (l : list rule) : bytes := match l with [] => [] | x :: r => rr x ++ go r end.

Fixpoint r_act (a : action) : bytes :=
  match a with
  | ABreak => t_kw k_break
  | AMove x => t_kw k_move ++ t_str x
  | AFlagNew => t_kw k_flag ++ t_kw k_new
  | AFlagNotNew => t_kw k_flag ++ t_chr 33 ++ t_kw k_new
  | AFlags x => t_kw k_flags ++ t_str x
  | ADiscard => t_kw k_discard
  | ALabel l => t_kw k_label ++ r_strs l
  | APass => t_kw k_pass
  | AReject => t_kw k_reject
  | AExec fs fb l => t_kw k_exec ++ (if fs then t_kw k_stdin else []) ++ (if fb then t_kw k_body else []) ++ r_strs l
  | AAttBlock rs => t_kw k_attachment ++ t_chr 123 ++ cat_rules r_rule rs ++ t_chr 125
  | AAddHeader x y => t_kw k_addheader ++ t_str x ++ t_str y
  end
with r_rule (r : rule) : bytes :=
  match r with
  | RActs c acts => t_kw k_match ++ r_c c ++ cat_acts r_act acts
  | RBlock c rs => t_kw k_match ++ r_c c ++ t_chr 123 ++ cat_rules r_rule rs ++ t_chr 125
  end.

Definition sum_acts (sa : action -> nat) : list action -> nat :=
  fix go (l : list action) : nat := match l with [] => O | a :: r => (sa a + go r)%nat end.
Definition sum_rules (sr : rule -> nat) : list rule -> nat :=
  fix go (l : list rule) : nat := match l with [] => O | x :: r => (sr x + go r)%nat end.

Fixpoint asz (a : action) : nat :=
  match a with
  | ALabel l | AExec _ _ l => (5 + length (strs_list l))%nat
  | AAttBlock rs => (4 + sum_rules rsz rs)%nat
  | _ => 4%nat
  end
with rsz (r : rule) : nat :=
  match r with
  | RActs c acts => (3 + csz c + sum_acts asz acts)%nat
  | RBlock c rs => (5 + csz c + sum_rules rsz rs)%nat
  end.

Definition all_acts (oa : action -> bool) : list action -> bool :=
  fix go (l : list action) : bool := match l with [] => true | a :: r => oa a && go r end.
Definition all_rules (orr : rule -> bool) : list rule -> bool :=
  fix go (l : list rule) : bool := match l with [] => true | x :: r => orr x && go r end.

Fixpoint a_ok (a : action) : bool :=
  match a with
  | AMove x => strb x && noexpb x
  | AFlags x => strb x
  | ALabel l => strs_ok l && forallb noexpb (strs_list l)
  | AExec fs fb l => strs_ok l && forallb noexpb (strs_list l) && negb (fb && negb fs)
  | AAttBlock rs => all_rules r_ok rs && validate_attachment_block (QBlock (or_fold tr_rule None rs))
  | AAddHeader x y => strb x && strb y
  | _ => true
  end
with r_ok (r : rule) : bool :=
  match r with
  | RActs c acts => c_ok c && negb (match acts with [] => true | _ => false end) && all_acts a_ok acts &&
                    validate_actions (the (and_fold tr_act None acts))
  | RBlock c rs => c_ok c && all_rules r_ok rs && negb (Nat.eqb (count_actions (QBlock (or_fold tr_rule None rs))) 0)
  end.

Lemma Starts_act a : Starts (r_act a).
Proof. destruct a; cbn [r_act]; first [apply Starts_kw | apply Starts_app; apply Starts_kw]. Qed.
Lemma Starts_rule r : Starts (r_rule r).
Proof. destruct r; cbn [r_rule]; apply Starts_app; apply Starts_kw. Qed.
Lemma Stop_cat_acts l rest : Stop rest -> Stop (cat_acts r_act l ++ rest).
Proof. intros Hs. destruct l as [|a l]; [exact Hs|]. cbn [cat_acts]. apply Starts_stop. repeat apply Starts_app. apply Starts_act. Qed.

(* what follows a list of actions: the next rule or the end of the block *)
Definition ends_acts (rest : bytes) : Prop :=
  (exists r, lex rest = POk (TKw k_match) r) \/ (exists r, lex rest = POk (TChar 125) r).

Lemma unfold_actions f ms acc s : actions home regcomp_ok (S f) ms acc s =
  actions_body home f (block home regcomp_ok f) (actions home regcomp_ok f) ms acc s.
Proof. reflexivity. Qed.
Lemma unfold_rules f ms acc s : rules home regcomp_ok (S f) ms acc s =
  rules_body home regcomp_ok f (block home regcomp_ok f) (rules home regcomp_ok f) (actions home regcomp_ok f) ms acc s.
Proof. reflexivity. Qed.
Lemma unfold_block f ms s : block home regcomp_ok (S f) ms s = rules home regcomp_ok f ms None s.
Proof. reflexivity. Qed.

Fixpoint exec_go (fuel n : nat) (s : bytes) (fs fb : bool) : pres (bool * bool * list bytes) :=
  match n with
  | O => PFuel
  | S n' =>
      match lex s with
      | POk (TKw k) r =>
          if beq_bytes k k_stdin then (if fs then PErr else exec_go fuel n' r true fb)
          else if beq_bytes k k_body then (if fb then PErr else exec_go fuel n' r fs true)
          else PErr
      | PFuel => PFuel
      | POk _ _ =>
          match strings fuel s with
          | POk l r => POk (fs, fb, l) r
          | PErr => PErr
          | PFuel => PFuel
          end
      | PErr => PErr
      end
  end.

Lemma exec_go_S fuel n s fs fb : exec_go fuel (S n) s fs fb =
      match lex s with
      | POk (TKw k) r =>
          if beq_bytes k k_stdin then (if fs then PErr else exec_go fuel n r true fb)
          else if beq_bytes k k_body then (if fb then PErr else exec_go fuel n r fs true)
          else PErr
      | PFuel => PFuel
      | POk _ _ =>
          match strings fuel s with
          | POk l r => POk (fs, fb, l) r
          | PErr => PErr
          | PFuel => PFuel
          end
      | PErr => PErr
      end.
Proof. reflexivity. Qed.

Lemma exec_flags_eq fuel s : exec_flags_then_strings fuel s = exec_go fuel 4 s false false.
Proof. reflexivity. Qed.

Lemma exec_go_strings fuel n k tail fs fb : strs_ok k = true -> (length (strs_list k) < fuel)%nat ->
  exec_go fuel (S n) (r_strs k ++ tail) fs fb = POk (fs, fb, strs_list k) tail.
Proof.
  intros Hk Hf. rewrite exec_go_S. rewrite (strings_rendered k fuel tail Hk Hf).
  destruct k as [x0|l0]; cbn [r_strs].
  - unfold strs_ok in Hk. cbn [strs_list forallb] in Hk. apply andb_prop in Hk. destruct Hk as [Hx0 _].
    rewrite (lex_t_str x0 _ Hx0). reflexivity.
  - rewrite <- !app_assoc. rewrite (lex_t_chr 123 _ (lex_lbrace _)). reflexivity.
Qed.

Lemma exec_rendered fs fb k f tail : strs_ok k = true -> negb (fb && negb fs) = true -> (length (strs_list k) < f)%nat ->
  exec_flags_then_strings f ((if fs then t_kw k_stdin else []) ++ (if fb then t_kw k_body else []) ++ r_strs k ++ tail)
  = POk (fs, fb, strs_list k) tail.
Proof.
  intros Hk Hfl Hf. rewrite exec_flags_eq. destruct fs, fb; cbn [app negb andb] in *; try discriminate Hfl.
  - rewrite exec_go_S. rewrite <- ?app_assoc. rewrite lex_t_kw by kw_side. kwtests.
    rewrite exec_go_S. rewrite lex_t_kw by kw_side. kwtests. apply exec_go_strings; assumption.
  - rewrite exec_go_S. rewrite lex_t_kw by kw_side. kwtests. apply exec_go_strings; assumption.
  - apply exec_go_strings; assumption.
Qed.

Definition A_stmt (acts : list action) : Prop :=
  all_acts a_ok acts = true -> forall f acc ms rest, (2 * sum_acts asz acts + 2 < f)%nat -> Stop rest -> ends_acts rest ->
  (acc <> None \/ acts <> []) ->
  actions home regcomp_ok f ms acc (cat_acts r_act acts ++ rest) = SOk (the (and_fold tr_act acc acts)) rest ms.

Definition R_stmt (rs : list rule) : Prop :=
  all_rules r_ok rs = true -> forall f acc ms rest, (2 * sum_rules rsz rs + 2 < f)%nat ->
  rules home regcomp_ok f ms acc (cat_rules r_rule rs ++ t_chr 125 ++ rest) = SOk (QBlock (or_fold tr_rule acc rs)) rest ms.

Lemma and_opt_some acc e : and_opt acc e <> None.
Proof. destruct acc; discriminate. Qed.

Lemma acts_step n : (forall rs, (sum_rules rsz rs < n)%nat -> R_stmt rs) ->
  forall acts, (sum_acts asz acts <= n)%nat -> A_stmt acts.
Proof.
  intros HR. induction acts as [|a l IHl]; intros Hn Hok f acc ms rest Hf Hs He Hne;
    cbn [cat_acts all_acts sum_acts and_fold app] in *; (destruct f as [|f]; [lia|]);
    rewrite unfold_actions; unfold actions_body.
  - (* no more actions *)
    destruct Hne as [Hne|Hne]; [|contradiction]. destruct acc as [e|]; [|contradiction].
    destruct He as [(r & ->)|(r & ->)]; kwtests; reflexivity.
  - apply andb_prop in Hok. destruct Hok as [Ha Hl].
    assert (Hcont : forall ms', actions home regcomp_ok f ms' (and_opt acc (tr_act a)) (cat_acts r_act l ++ rest)
                                = SOk (the (and_fold tr_act (and_opt acc (tr_act a)) l)) rest ms').
    { intros ms'. assert (Hpos : (4 <= asz a)%nat) by (destruct a; cbn [asz]; lia).
      apply IHl; [lia|exact Hl|lia|exact Hs|exact He|left; apply and_opt_some]. }
    assert (Hstop : Stop (cat_acts r_act l ++ rest)) by (apply Stop_cat_acts; exact Hs).
    destruct a as [|x| | |x| |k| | |fs fb k|rs|x y]; cbn [r_act tr_act asz a_ok] in *; rewrite <- ?app_assoc.
    + rewrite lex_t_kw by kw_side. kwtests. apply Hcont.
    + apply andb_prop in Ha. destruct Ha as [Hx Hne'].
      rewrite lex_t_kw by kw_side. kwtests. rewrite (one_string_rendered x _ Hx), (expand_plain ms true x Hne'). apply Hcont.
    + rewrite lex_t_kw by kw_side. kwtests. rewrite lex_t_kw by kw_side. kwtests. apply Hcont.
    + rewrite lex_t_kw by kw_side. kwtests. rewrite lex_t_neg. rewrite lex_t_kw by kw_side. kwtests. apply Hcont.
    + rewrite lex_t_kw by kw_side. kwtests. rewrite (one_string_rendered x _ Ha). apply Hcont.
    + rewrite lex_t_kw by kw_side. kwtests. apply Hcont.
    + apply andb_prop in Ha. destruct Ha as [Hk Hx].
      rewrite lex_t_kw by kw_side. kwtests. rewrite (strings_rendered k f _ Hk ltac:(lia)), (expand_all_plain ms true _ Hx). apply Hcont.
    + rewrite lex_t_kw by kw_side. kwtests. apply Hcont.
    + rewrite lex_t_kw by kw_side. kwtests. apply Hcont.
    + (* exec [stdin [body]] strings *)
      apply andb_prop in Ha. destruct Ha as [Ha Hfl]. apply andb_prop in Ha. destruct Ha as [Hk Hx].
      rewrite lex_t_kw by (first [reflexivity | destruct fs, fb; cbn [app]; kw_side]). kwtests.
      rewrite (exec_rendered fs fb k f _ Hk Hfl ltac:(lia)), (expand_all_plain ms true _ Hx).
      apply negb_true_iff in Hfl. rewrite Hfl. apply Hcont.
    + (* attachment { rules } *)
      apply andb_prop in Ha. destruct Ha as [Hrs Hval].
      rewrite lex_t_kw by kw_side. kwtests. rewrite (lex_t_chr 123 _ (lex_lbrace _)).
      destruct f as [|f']; [lia|]. rewrite unfold_block.
      rewrite (HR rs ltac:(lia) Hrs f' None ms _ ltac:(lia)). fold (tr_block rs). unfold tr_block. rewrite Hval. apply Hcont.
    + (* add-header "k" "v" *)
      apply andb_prop in Ha. destruct Ha as [Hx Hy].
      rewrite lex_t_kw by kw_side. kwtests. rewrite (one_string_rendered x _ Hx), (one_string_rendered y _ Hy). apply Hcont.
Qed.

Definition act_kw (a : action) : bytes :=
  match a with
  | ABreak => k_break | AMove _ => k_move | AFlagNew | AFlagNotNew => k_flag | AFlags _ => k_flags | ADiscard => k_discard
  | ALabel _ => k_label | APass => k_pass | AReject => k_reject | AExec _ _ _ => k_exec | AAttBlock _ => k_attachment
  | AAddHeader _ _ => k_addheader
  end.

Lemma lex_act a y : Stop y -> exists r', lex (r_act a ++ y) = POk (TKw (act_kw a)) r'.
Proof.
  intros Hy. destruct a as [|x| | |x| |k| | |fs fb k|rs|x y0]; cbn [r_act act_kw]; rewrite <- ?app_assoc; eexists;
    rewrite lex_t_kw by (first [reflexivity | assumption | destruct fs, fb; cbn [app]; kw_side | kw_side]); reflexivity.
Qed.

Lemma act_kw_facts a : beq_bytes (act_kw a) k_and = false /\ beq_bytes (act_kw a) k_or = false.
Proof. destruct a; split; reflexivity. Qed.

Lemma rules_step n : (forall acts, (sum_acts asz acts < n)%nat -> A_stmt acts) -> (forall rs, (sum_rules rsz rs < n)%nat -> R_stmt rs) ->
  forall rs, (sum_rules rsz rs <= n)%nat -> R_stmt rs.
Proof.
  intros HA HR. induction rs as [|r l IHl]; intros Hn Hok f acc ms rest Hf;
    cbn [cat_rules all_rules sum_rules or_fold app] in *; (destruct f as [|f]; [lia|]); rewrite unfold_rules; unfold rules_body.
  - rewrite (lex_t_chr 125 rest (lex_rbrace rest)). reflexivity.
  - apply andb_prop in Hok. destruct Hok as [Hr Hl].
    assert (Hpos : (3 <= rsz r)%nat) by (destruct r; cbn [rsz]; lia).
    assert (Hcont : forall ms', rules home regcomp_ok f ms' (or_opt acc (tr_rule r)) (cat_rules r_rule l ++ t_chr 125 ++ rest)
                                = SOk (QBlock (or_fold tr_rule (or_opt acc (tr_rule r)) l)) rest ms').
    { intros ms'. apply IHl; [lia|exact Hl|lia]. }
    assert (Htail_stop : Stop (cat_rules r_rule l ++ t_chr 125 ++ rest)).
    { destruct l as [|r2 l2]; cbn [cat_rules app]; apply Starts_stop; [apply Starts_app, Starts_chr|repeat apply Starts_app; apply Starts_rule]. }
    assert (Htail_ends : ends_acts (cat_rules r_rule l ++ t_chr 125 ++ rest)).
    { destruct l as [|r2 l2]; cbn [cat_rules app].
      - right. eexists. apply (lex_t_chr 125 rest (lex_rbrace rest)).
      - left. destruct r2; cbn [r_rule]; rewrite <- !app_assoc; eexists; rewrite lex_t_kw by kw_side; reflexivity. }
    destruct r as [c acts|c rs']; cbn [r_rule tr_rule rsz r_ok] in *; rewrite <- !app_assoc.
    + (* match cond actions *)
      apply andb_prop in Hr. destruct Hr as [Hr Hval]. apply andb_prop in Hr. destruct Hr as [Hr Hacts].
      apply andb_prop in Hr. destruct Hr as [Hc Hne].
      destruct acts as [|a0 acts0]; [discriminate Hne|].
      rewrite lex_t_kw by (first [reflexivity | apply Starts_stop; apply Starts_app; apply Starts_c]). kwtests.
      remember (cat_rules r_rule l ++ t_chr 125 ++ rest) as tail eqn:Etail.
      assert (Hs1 : Stop (cat_acts r_act (a0 :: acts0) ++ tail)) by (apply Stop_cat_acts; exact Htail_stop).
      destruct (lex_act a0 (cat_acts r_act acts0 ++ tail) (Stop_cat_acts _ _ Htail_stop)) as (r' & Hlex).
      assert (Hlex' : lex (cat_acts r_act (a0 :: acts0) ++ tail) = POk (TKw (act_kw a0)) r').
      { cbn [cat_acts]. rewrite <- app_assoc. exact Hlex. }
      assert (Hcs : chain_stop (cat_acts r_act (a0 :: acts0) ++ tail)).
      { unfold chain_stop. rewrite Hlex'. apply act_kw_facts. }
      assert (Hlt : (sum_acts asz (a0 :: acts0) < n)%nat) by (clear -Hn; cbn [sum_acts] in *; lia).
      assert (Hfu : (2 * sum_acts asz (a0 :: acts0) + 2 < f)%nat) by (clear -Hf; cbn [sum_acts] in *; lia).
      assert (Hcf : (csz c < f)%nat) by (clear -Hf; lia).
      rewrite (cond_rendered c f ms _ Hc Hcf Hs1 Hcs).
      rewrite Hlex'. cbv iota.
      assert (Hnn : @None cexpr <> None \/ a0 :: acts0 <> []) by (right; discriminate).
      pose proof (HA (a0 :: acts0) Hlt Hacts f None ms tail Hfu Htail_stop Htail_ends Hnn) as HAeq.
      rewrite HAeq. rewrite Hval. apply Hcont.
    + (* match cond { rules } *)
      apply andb_prop in Hr. destruct Hr as [Hr Hcnt]. apply andb_prop in Hr. destruct Hr as [Hc Hrs].
      rewrite lex_t_kw by (first [reflexivity | apply Starts_stop; apply Starts_app; apply Starts_c]). kwtests.
      remember (cat_rules r_rule l ++ t_chr 125 ++ rest) as tail eqn:Etail.
      assert (Hs1 : Stop (t_chr 123 ++ cat_rules r_rule rs' ++ t_chr 125 ++ tail)) by (apply Starts_stop, Starts_app, Starts_chr).
      assert (Hcs : chain_stop (t_chr 123 ++ cat_rules r_rule rs' ++ t_chr 125 ++ tail)).
      { unfold chain_stop. rewrite (lex_t_chr 123 _ (lex_lbrace _)). exact I. }
      assert (Hcf : (csz c < f)%nat) by (clear -Hf; lia).
      rewrite (cond_rendered c f ms _ Hc Hcf Hs1 Hcs).
      rewrite (lex_t_chr 123 _ (lex_lbrace _)).
      destruct f as [|f']; [clear -Hf; lia|]. rewrite unfold_block.
      assert (Hlt : (sum_rules rsz rs' < n)%nat) by (clear -Hn; lia).
      assert (Hfu : (2 * sum_rules rsz rs' + 2 < f')%nat) by (clear -Hf; lia).
      pose proof (HR rs' Hlt Hrs f' None ms tail Hfu) as HReq. rewrite HReq.
      apply negb_true_iff in Hcnt. rewrite Hcnt. apply Hcont.
Qed.

Theorem blocks_rendered : forall n,
  (forall acts, (sum_acts asz acts <= n)%nat -> A_stmt acts) /\ (forall rs, (sum_rules rsz rs <= n)%nat -> R_stmt rs).
Proof.
  induction n as [|n [IHA IHR]].
  - split; [apply acts_step|apply rules_step]; intros ? H; lia.
  - assert (HR' : forall rs, (sum_rules rsz rs < S n)%nat -> R_stmt rs) by (intros rs H; apply IHR; lia).
    assert (HA' : forall acts, (sum_acts asz acts < S n)%nat -> A_stmt acts) by (intros acts H; apply IHA; lia).
    split; [apply acts_step; exact HR'|apply rules_step; assumption].
Qed.

(* ---- the top level ------------------------------------------------------------------------------------------------------------------ *)
Inductive section := SMaildir (paths : strs) (rs : list rule) | SStdin (rs : list rule).

Definition r_sec (s : section) : bytes :=
  match s with
  | SMaildir ps rs => t_kw k_maildir ++ r_strs ps ++ t_chr 123 ++ cat_rules r_rule rs ++ t_chr 125
  | SStdin rs => t_kw k_stdin ++ t_chr 123 ++ cat_rules r_rule rs ++ t_chr 125
  end.
Definition conf_of (s : section) : config :=
  match s with
  | SMaildir ps rs => mkconfig (strs_list ps) (tr_block rs)
  | SStdin rs => mkconfig [s_dev_stdin] (tr_block rs)
  end.
Definition ssz (s : section) : nat :=
  match s with
  | SMaildir ps rs => (8 + length (strs_list ps) + 2 * sum_rules rsz rs)%nat
  | SStdin rs => (8 + 2 * sum_rules rsz rs)%nat
  end.
(* the semantic rules for a section, given the sections before it (most recent first) *)
Definition sec_ok (before : list config) (s : section) : bool :=
  match s with
  | SMaildir ps rs => strs_ok ps && forallb noexpb (strs_list ps) && all_rules r_ok rs && maildir_checks (strs_list ps) (tr_block rs)
  | SStdin rs => negb (has_stdin before) && all_rules r_ok rs && maildir_checks [s_dev_stdin] (tr_block rs)
  end.
Fixpoint secs_ok (before : list config) (l : list section) : bool :=
  match l with
  | [] => true
  | s :: r => sec_ok before s && secs_ok (conf_of s :: before) r
  end.

Lemma Starts_sec s : Starts (r_sec s).
Proof. destruct s; cbn [r_sec]; apply Starts_app, Starts_kw. Qed.

Lemma toplevel_rendered fin : skip_blank false fin = [] ->
  forall l before f, secs_ok before l = true -> (fold_right (fun s n => (ssz s + n)%nat) 0%nat l < f)%nat ->
  toplevel home regcomp_ok f [] before (concat (map r_sec l) ++ fin) = TOk (rev before ++ map conf_of l) [].
Proof.
  intros Hfin. induction l as [|s l IH]; intros before f Hok Hf; (destruct f as [|f]; [cbn [fold_right] in Hf; lia|]);
    cbn [toplevel map concat app secs_ok fold_right] in *.
  - unfold lex. rewrite Hfin. rewrite app_nil_r. reflexivity.
  - apply andb_prop in Hok. destruct Hok as [Hs Hl].
    assert (Hpos : (8 <= ssz s)%nat) by (destruct s; cbn [ssz]; lia).
    specialize (IH (conf_of s :: before) f Hl ltac:(lia)).
    cbn [rev] in IH. rewrite <- app_assoc in IH. cbn [app] in IH.
    destruct s as [ps rs|rs]; cbn [r_sec conf_of sec_ok ssz] in *; rewrite <- !app_assoc.
    + apply andb_prop in Hs. destruct Hs as [Hs Hmc]. apply andb_prop in Hs. destruct Hs as [Hs Hrs]. apply andb_prop in Hs. destruct Hs as [Hps Hne].
      rewrite lex_t_kw by kw_side. kwtests.
      rewrite (strings_rendered ps f _ Hps ltac:(lia)), (expand_all_plain [] false _ Hne).
      rewrite (lex_t_chr 123 _ (lex_lbrace _)).
      destruct f as [|f']; [lia|]. rewrite unfold_block.
      rewrite (proj2 (blocks_rendered (sum_rules rsz rs)) rs (le_n _) Hrs f' None [] _ ltac:(lia)).
      fold (tr_block rs). rewrite Hmc. exact IH.
    + apply andb_prop in Hs. destruct Hs as [Hs Hmc]. apply andb_prop in Hs. destruct Hs as [Hst Hrs].
      rewrite lex_t_kw by kw_side. kwtests. apply negb_true_iff in Hst. rewrite Hst.
      rewrite (lex_t_chr 123 _ (lex_lbrace _)).
      destruct f as [|f']; [lia|]. rewrite unfold_block.
      rewrite (proj2 (blocks_rendered (sum_rules rsz rs)) rs (le_n _) Hrs f' None [] _ ltac:(lia)).
      fold (tr_block rs). rewrite Hmc. exact IH.
Qed.

(* ---- the fuel config_parse gives itself is enough: sizes against rendered lengths -------------------------------------------------- *)
Lemma sp_len : (1 <= length sp)%nat.
Proof. destruct sp_space as (c & r & -> & _). cbn [length]. lia. Qed.

Ltac lens := unfold t_kw, t_chr, t_str, r_pat in *; rewrite ?app_length in *; cbn [length] in *;
  repeat match goal with |- context [length ?k] => is_const k; let v := eval vm_compute in (length k) in change (length k) with v end.

Lemma len_strs k : (length (strs_list k) <= length (r_strs k))%nat.
Proof.
  pose proof sp_len as Hsp. destruct k as [x|l]; cbn [strs_list r_strs]; [lens; lia|].
  assert (H : (length l <= length (concat (map t_str l)))%nat).
  { induction l as [|x l IH]; [cbn; lia|]. cbn [map concat length]. rewrite app_length. unfold t_str at 1. rewrite !app_length. cbn [length]. lia. }
  lens. lia.
Qed.

Lemma len_u : forall n u, (usz u <= n)%nat -> (usz u <= length (r_u u))%nat.
Proof.
  pose proof sp_len as Hsp.
  induction n as [|n IH]; intros u Hn; [destruct u; cbn [usz] in Hn; lia|].
  destruct u as [x|first links|x|p|k p|fld gt ds nn unit v| | | |x|k]; cbn [r_u usz] in *.
  - pose proof (IH x ltac:(lia)). lens. lia.
  - pose proof (IH first ltac:(lia)) as Hf.
    assert (Hl : (sz_links usz links <= length (r_links r_u links))%nat).
    { clear Hf. induction links as [|[b y] l IHl]; [cbn; lia|]. cbn [sz_links r_links] in *.
      pose proof (IH y ltac:(lia)). specialize (IHl ltac:(lia)). destruct b; lens; lia. }
    lens. lia.
  - pose proof (IH x ltac:(lia)). lens. lia.
  - lens. lia.
  - pose proof (len_strs k). lens. lia.
  - lens. lia.
  - lens. lia.
  - lens. lia.
  - lens. lia.
  - lens. lia.
  - pose proof (len_strs k). lens. lia.
Qed.

Lemma len_c c : (csz c <= S (length (r_c c)))%nat.
Proof.
  destruct c as [first links]. unfold csz, r_c. cbn [c_first c_links]. rewrite app_length.
  pose proof (len_u _ first (le_n _)).
  assert (Hl : (sz_links usz links <= length (r_links r_u links))%nat).
  { pose proof sp_len as Hsp. induction links as [|[b y] l IHl]; [cbn; lia|]. cbn [sz_links r_links].
    pose proof (len_u _ y (le_n _)). destruct b; lens; lia. }
  lia.
Qed.

Lemma len_blocks : forall n,
  (forall a, (asz a <= n)%nat -> (asz a <= length (r_act a))%nat) /\ (forall r, (rsz r <= n)%nat -> (rsz r <= length (r_rule r))%nat).
Proof.
  pose proof sp_len as Hsp.
  induction n as [|n [IHA IHR]]; (split; [intros a Hn|intros r Hn]); try (destruct a; cbn [asz] in Hn; lia); try (destruct r; cbn [rsz] in Hn; lia).
  - destruct a as [|x| | |x| |k| | |fs fb k|rs|x y]; cbn [r_act asz] in *; try (lens; lia).
    + pose proof (len_strs k). lens. lia.
    + pose proof (len_strs k). destruct fs, fb; lens; lia.
    + assert (Hl : (sum_rules rsz rs <= length (cat_rules r_rule rs))%nat).
      { induction rs as [|r l IHl]; [cbn; lia|]. cbn [sum_rules cat_rules] in *. rewrite app_length.
        pose proof (IHR r ltac:(lia)). specialize (IHl ltac:(lia)). lia. }
      lens. lia.
  - destruct r as [c acts|c rs]; cbn [r_rule rsz] in *; pose proof (len_c c).
    + assert (Hl : (sum_acts asz acts <= length (cat_acts r_act acts))%nat).
      { induction acts as [|a l IHl]; [cbn; lia|]. cbn [sum_acts cat_acts] in *. rewrite app_length.
        pose proof (IHA a ltac:(lia)). specialize (IHl ltac:(lia)). lia. }
      lens. lia.
    + assert (Hl : (sum_rules rsz rs <= length (cat_rules r_rule rs))%nat).
      { induction rs as [|r l IHl]; [cbn; lia|]. cbn [sum_rules cat_rules] in *. rewrite app_length.
        pose proof (IHR r ltac:(lia)). specialize (IHl ltac:(lia)). lia. }
      lens. lia.
Qed.

Lemma len_rules rs : (sum_rules rsz rs <= length (cat_rules r_rule rs))%nat.
Proof.
  induction rs as [|r l IHl]; [cbn; lia|]. cbn [sum_rules cat_rules]. rewrite app_length.
  pose proof (proj2 (len_blocks (rsz r)) r (le_n _)). lia.
Qed.

Lemma len_sec s : (ssz s <= 4 * length (r_sec s))%nat.
Proof.
  pose proof sp_len as Hsp. destruct s as [ps rs|rs]; cbn [ssz r_sec]; pose proof (len_rules rs); [pose proof (len_strs ps)|]; lens; lia.
Qed.

(* ---- the theorem -------------------------------------------------------------------------------------------------------------------- *)
Theorem generated_is_accepted secs fin : secs_ok [] secs = true -> skip_blank false fin = [] ->
  parse_config home regcomp_ok (concat (map r_sec secs) ++ fin) = Accepted (map conf_of secs).
Proof.
  intros Hok Hfin. unfold parse_config.
  rewrite (toplevel_rendered fin Hfin secs [] _ Hok).
  - reflexivity.
  - rewrite app_length.
    assert (H : (fold_right (fun s n => (ssz s + n)%nat) 0%nat secs <= 4 * length (concat (map r_sec secs)))%nat).
    { clear Hok. induction secs as [|s l IH]; [cbn; lia|]. cbn [fold_right map concat]. rewrite app_length.
      pose proof (len_sec s). lia. }
    lia.
Qed.

End Accept.

(* ---- separators: any non-empty run of white space and comments that begins with white space ----------------------------------------- *)
Fixpoint blankb (in_comment : bool) (s : bytes) : bool :=
  match s with
  | [] => negb in_comment
  | c :: r => if in_comment then blankb (negb (c =? 10)) r
              else if isspace c then blankb false r
              else if c =? 35 then blankb true r else false
  end.

Lemma blank_skip : forall s ic, blankb ic s = true -> forall x, skip_blank ic (s ++ x) = skip_blank false x.
Proof.
  induction s as [|c r IH]; intros ic H x; cbn [blankb app] in *.
  - destruct ic; [discriminate H|reflexivity].
  - cbn [skip_blank]. destruct ic; [apply IH; exact H|].
    destruct (isspace c); [apply IH; exact H|]. destruct (c =? 35); [apply IH; exact H|discriminate H].
Qed.

Definition sepb (s : bytes) : bool := blankb false s && match s with c :: _ => isspace c | [] => false end.

Lemma sep_props s : sepb s = true ->
  (forall x, skip_blank false (s ++ x) = skip_blank false x) /\ (exists c r, s = c :: r /\ isspace c = true).
Proof.
  unfold sepb. intros H. apply andb_prop in H. destruct H as [Hb Hc]. split.
  - apply blank_skip. exact Hb.
  - destruct s as [|c r]; [discriminate Hc|]. exists c, r. split; [reflexivity|exact Hc].
Qed.

(* the rendered file: every token preceded by the separator [sp], the file ends with [fin] (white space / comments or nothing) *)
Definition render_config (sp : bytes) (secs : list section) (fin : bytes) : bytes := concat (map (r_sec sp) secs) ++ fin.

Theorem generated_config_accepted home regcomp_ok sp fin secs :
  sepb sp = true -> blankb false fin = true -> secs_ok regcomp_ok [] secs = true ->
  parse_config home regcomp_ok (render_config sp secs fin) = Accepted (map conf_of secs).
Proof.
  intros Hsp Hfin Hok. destruct (sep_props sp Hsp) as [H1 H2].
  apply generated_is_accepted; try assumption.
  pose proof (blank_skip fin false Hfin []) as H. rewrite app_nil_r in H. exact H.
Qed.
