(* C13 - commands get exactly the configured arguments and a clean process environment.
   Statements only.  The argument vector is C12's interpolation applied per configured string
   (InterpDefs.exec_argv: one element per string, by construction no splitting); what a rewritten
   message looks like to "exec stdin" is C08; here: exit status handling, descriptor inheritance and
   the header table being searchable after a rewrite, and the one variable of the process environment that
   mdsort itself modifies while it runs (TZ, around every zone abbreviation of a Date header). *)
From Coq Require Import List Bool NArith ZArith.
Import ListNotations.
From MD Require Import Bytes Generated HeaderDefs OrderProofs RewriteProofs InterpDefs ExecDefs ExecProofs.

Theorem C13_exec_status : forall w, exec_action_error w = false <-> w = WExited 0%Z.
Proof. exact exec_action_error_iff. Qed.
Print Assumptions C13_exec_status.

Theorem C13_command_status : forall w,
  command_cond w = match w with
                   | WExited c => if (c =? 0)%Z then CMatch else if (c =? 127)%Z then CError else if (c <? 0)%Z then CError else CNoMatch
                   | WSignaled _ => CNoMatch
                   | _ => CError
                   end.
Proof. exact command_cond_spec. Qed.
Print Assumptions C13_command_status.

(* in the model of the descriptor table (every open / dup / temporary file sets close-on-exec) no
   sequence of operations leaves a descriptor for a child to inherit *)
Theorem C13_cloexec : forall ops, inherited (fold_left fd_step ops []) = [].
Proof. exact no_descriptor_inherited. Qed.
Print Assumptions C13_cloexec.

(* one argument per configured string: the vector has exactly as many elements as strings *)
Theorem C13_argv_length : forall ctx strings argv, exec_argv ctx strings = Some argv -> length argv = length strings.
Proof.
  intros ctx strings. unfold exec_argv. induction strings as [|s r IH]; intros argv H; cbn [map_opt'] in H.
  - inversion H. reflexivity.
  - destruct (interp ctx s); [|discriminate]. destruct (map_opt' (interp ctx) r) as [l|] eqn:E; [|discriminate].
    inversion H; subst. cbn [length]. f_equal. apply IH. reflexivity.
Qed.
Print Assumptions C13_argv_length.

(* after message_write the header table is key-sorted again, so the lookups behind "exec stdin body"
   (Content-Transfer-Encoding, Content-Type) and behind attachment parsing see every header
   (this is the behaviour after the F-06 repair) *)
Theorem C13_table_searchable_after_rewrite : forall m, SortedK (m_headers (snd (message_write m))).
Proof. exact message_write_keeps_sorted. Qed.
Print Assumptions C13_table_searchable_after_rewrite.

(* the environment: mdsort changes TZ for the duration of one localtime() call per zone abbreviation and restores it from
   the snapshot taken at start (unset / empty / set are three different states): whatever the messages carried, a child
   is started with the TZ mdsort itself was started with.  (setenv / unsetenv assumed not to fail; every other variable is
   never written by mdsort.)  A TZ that does not fit the snapshot buffer (Generated.tz_buf_size) keeps mdsort from starting. *)
Theorem C13_environment_restored : forall tz zones e, child_tz tz zones = Some e -> e = tz.
Proof. exact child_tz_is_initial. Qed.
Print Assumptions C13_environment_restored.

Theorem C13_environment_defined : forall tz zones, child_tz tz zones <> None <->
  match tz with None => True | Some s => (N.of_nat (length s) < tz_buf_size)%N end.
Proof. exact child_tz_defined. Qed.
Print Assumptions C13_environment_defined.

(* non-vacuity: started with an EMPTY TZ, after "GMT", "" and "EST" went through tzabbr, TZ is still present and empty *)
Example C13_ex_environment : child_tz (Some []) [[71; 77; 84]; []; [69; 83; 84]]%N = Some (Some []).
Proof. vm_compute. reflexivity. Qed.
