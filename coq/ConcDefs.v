(* M8c: several parties on one message.  Every party runs one of the I/O protocols of IODefs (the same
   interaction trees the fault and crash theorems are about) or is a mail client renaming / deleting the
   message; a schedule picks which party performs its next call.  There is no fault oracle here: the
   outcome of a call is what the shared directory state makes it (ENOENT when the name is gone, EXDEV for
   a party whose destination is on another device).  The message's name (Src) is shared, the names a
   party creates itself (Dst: O_EXCL placeholder / rename target, New: rewritten copy) are unique to it
   (C09: maildir_genname never reuses a name).  No proofs here. *)
From Coq Require Import List Bool Arith NArith PArith FMapPositive.
Import ListNotations.
From MD Require Import IODefs.

(* ---- parties ------------------------------------------------------------------------------------------ *)
Inductive pkind := KAct (a : action) | KExtRename | KExtDelete.

Definition kprog (k : pkind) : prog :=
  match k with
  | KAct a => prog_of a 0
  | KExtRename => Call (Rename Src Dst) (fun _ => Ret 0)       (* mv: no placeholder *)
  | KExtDelete => Call (Unlink Src) (fun _ => Ret 0)
  end.

Definition is_xdev (k : pkind) : bool := match k with KAct (AMoveX _) => true | _ => false end.

(* the position of a party in its program: the outcomes it has seen so far *)
Fixpoint replay (p : prog) (h : list outcome) : prog :=
  match h with
  | [] => p
  | r :: t => match p with Call _ k => replay (k r) t | Ret s => Ret s end
  end.

(* ---- the shared world: slot 0 = Src, slot 1 + 2p = Dst of party p, slot 2 + 2p = New of party p ---------- *)
Definition gworld := list (option data).

Definition slot (p : nat) (n : name) : nat :=
  match n with Src => 0 | Dst => 1 + 2 * p | New => 2 + 2 * p end.

Definition gget (w : gworld) (i : nat) : option data := nth i w None.

Fixpoint gset (w : gworld) (i : nat) (v : option data) : gworld :=
  match w, i with
  | [], _ => []
  | _ :: r, O => v :: r
  | x :: r, S j => x :: gset r j v
  end.

Definition bound (w : gworld) (i : nat) : bool := match gget w i with Some _ => true | None => false end.

(* what the kernel answers *)
Definition outcome_in (xdev : bool) (w : gworld) (p : nat) (o : op) : outcome :=
  match o with
  | Stat n | Utimens n | Unlink n | OpenR n => if bound w (slot p n) then Ok else Fail
  | Rename a b => if bound w (slot p a) then (if xdev then Exdev else Ok) else Fail
  | Creat n => if bound w (slot p n) then Fail else Ok
  | _ => Ok
  end.

(* the effect of IODefs.effect, on the shared world; data written through a descriptor comes from the
   message the party opened before (the descriptor stays valid whatever happens to the name) *)
Definition geffect (w : gworld) (p : nat) (o : op) (r : outcome) : gworld :=
  match o, r with
  | Creat n, Ok => gset w (slot p n) (Some Empty)
  | Rename a b, Ok => match gget w (slot p a) with
                      | Some d => gset (gset w (slot p b) (Some d)) (slot p a) None
                      | None => w
                      end
  | Write n v, _ => if bound w (slot p n) then gset w (slot p n) (Some Partial) else w
  | Flush n v, Ok => if bound w (slot p n) then gset w (slot p n) (Some (Complete v)) else w
  | Unlink n, Ok => gset w (slot p n) None
  | _, _ => w
  end.

Record gstate := mkg { g_world : gworld; g_hist : list (list outcome) }.

Definition init_world (n : nat) : gworld := Some (Complete 0) :: repeat None (2 * n).
Definition init_state (n : nat) : gstate := mkg (init_world n) (repeat [] n).

Fixpoint set_nth {A} (l : list A) (i : nat) (v : A) : list A :=
  match l, i with
  | [], _ => []
  | _ :: r, O => v :: r
  | x :: r, S j => x :: set_nth r j v
  end.

(* party p performs its next call; None if it has finished (or does not exist) *)
Definition gstep (kinds : list pkind) (s : gstate) (p : nat) : option gstate :=
  match nth_error kinds p, nth_error (g_hist s) p with
  | Some k, Some h =>
      match replay (kprog k) h with
      | Ret _ => None
      | Call o _ =>
          let r := outcome_in (is_xdev k) (g_world s) p o in
          Some (mkg (geffect (g_world s) p o r) (set_nth (g_hist s) p (h ++ [r])))
      end
  | _, _ => None
  end.

Fixpoint grun (kinds : list pkind) (s : gstate) (sched : list nat) : gstate :=
  match sched with
  | [] => s
  | p :: t => match gstep kinds s p with Some s' => grun kinds s' t | None => grun kinds s t end
  end.

Definition finished (kinds : list pkind) (s : gstate) : bool :=
  forallb (fun p => match gstep kinds s p with None => true | Some _ => false end) (seq 0 (length kinds)).

(* ---- the judgement on a final state ----------------------------------------------------------------------- *)
Definition status_of (k : pkind) (h : list outcome) : option nat :=
  match replay (kprog k) h with Ret s => Some s | Call _ _ => None end.

Definition is_complete (d : option data) : bool := match d with Some (Complete _) => true | _ => false end.
Definition is_junk (d : option data) : bool := match d with Some Empty | Some Partial => true | _ => false end.

Definition count_complete (w : gworld) : nat := length (filter is_complete w).

Definition is_remover (k : pkind) : bool := match k with KAct ADiscard | KExtDelete => true | _ => false end.

(* exactly one intact copy - or none if a party whose job is to delete the message succeeded -, no empty or
   partial file anywhere, and if the message is still under its old name nobody reports success *)
Definition final_ok (kinds : list pkind) (s : gstate) : bool :=
  let w := g_world s in
  negb (existsb is_junk w) &&
  (Nat.eqb (count_complete w) 1 ||
   (Nat.eqb (count_complete w) 0 &&
    existsb (fun kh => is_remover (fst kh) && match status_of (fst kh) (snd kh) with Some 0 => true | _ => false end)
            (combine kinds (g_hist s)))).

(* a party that reports success owns the surviving copy (or removed the message); one that lost reports an error *)
Definition winners_report (kinds : list pkind) (s : gstate) : bool :=
  forallb (fun pkh =>
    let '(p, (k, h)) := pkh in
    match status_of k h with
    | Some 0 => match k with
                | KAct ADiscard | KExtDelete | KExtRename => true
                | KAct AWrite => is_complete (gget (g_world s) (slot p New))
                | KAct _ => is_complete (gget (g_world s) (slot p Dst))
                end
    | _ => true
    end) (combine (seq 0 (length kinds)) (combine kinds (g_hist s))).

(* ---- reachability by exhaustive exploration (for a fixed list of parties) ------------------------------------ *)
Definition ocode (r : outcome) : N := match r with Ok => 1 | Fail => 2 | Exdev => 3 end%N.
Fixpoint hcode (h : list outcome) : N := match h with [] => 0 | r :: t => ocode r + 4 * hcode t end%N.
Fixpoint scode (hs : list (list outcome)) : N :=
  match hs with [] => 0 | h :: t => hcode h + 1073741824 * scode t end%N.     (* 4^15 per party *)
Definition key (s : gstate) : positive := N.succ_pos (scode (g_hist s)).

Definition data_eqb (a b : option data) : bool :=
  match a, b with
  | None, None | Some Empty, Some Empty | Some Partial, Some Partial => true
  | Some (Complete x), Some (Complete y) => Nat.eqb x y
  | _, _ => false
  end.
Definition outcome_eqb (a b : outcome) : bool := N.eqb (ocode a) (ocode b).
Fixpoint list_eqb {A} (f : A -> A -> bool) (a b : list A) : bool :=
  match a, b with
  | [], [] => true
  | x :: r, y :: t => f x y && list_eqb f r t
  | _, _ => false
  end.
Definition gstate_eqb (a b : gstate) : bool :=
  list_eqb data_eqb (g_world a) (g_world b) && list_eqb (list_eqb outcome_eqb) (g_hist a) (g_hist b).

Definition succs (kinds : list pkind) (s : gstate) : list gstate :=
  flat_map (fun p => match gstep kinds s p with Some s' => [s'] | None => [] end) (seq 0 (length kinds)).

Definition table := PositiveMap.t gstate.

Definition tmem (t : table) (s : gstate) : bool :=
  match PositiveMap.find (key s) t with Some s' => gstate_eqb s s' | None => false end.

Fixpoint explore (fuel : nat) (kinds : list pkind) (frontier : list gstate) (t : table) : table :=
  match fuel with
  | O => t
  | S f =>
      let '(fresh, t') :=
        fold_left (fun acc s => let '(fr, tb) := acc in
                                if tmem tb s then (fr, tb) else (s :: fr, PositiveMap.add (key s) s tb))
                  (flat_map (succs kinds) frontier) ([], t) in
      match fresh with
      | [] => t'
      | _ => explore f kinds fresh t'
      end
  end.

Definition reach_table (kinds : list pkind) : table :=
  let s0 := init_state (length kinds) in
  explore 64 kinds [s0] (PositiveMap.add (key s0) s0 (PositiveMap.empty gstate)).

Definition states_of (t : table) : list gstate := map snd (PositiveMap.elements t).

(* the table contains the initial state and is closed under every party's step *)
Definition closed (kinds : list pkind) (t : table) : bool :=
  tmem t (init_state (length kinds)) &&
  forallb (fun s => forallb (tmem t) (succs kinds s)) (states_of t).

Definition all_final_ok (kinds : list pkind) (t : table) : bool :=
  forallb (fun s => if finished kinds s then final_ok kinds s && winners_report kinds s else true) (states_of t).

Definition check_kinds (kinds : list pkind) : bool :=
  let t := reach_table kinds in closed kinds t && all_final_ok kinds t.

Definition all_kinds : list pkind :=
  [KAct (AMove false); KAct (AMoveX false); KAct AWrite; KAct ADiscard; KExtRename; KExtDelete].

Definition pairs : list (list pkind) := flat_map (fun a => map (fun b => [a; b]) all_kinds) all_kinds.
Definition triples : list (list pkind) := flat_map (fun a => map (fun bc => a :: bc) pairs) all_kinds.
