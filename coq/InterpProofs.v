(* Interpolation is single pass: the template is cut into tokens independently of the message, each
   token is substituted once, substituted text is never scanned. *)
From MD Require Import Bytes Generated InterpDefs.
From Coq Require Import ZifyBool ZifyN ZifyNat.
Local Open Scope N_scope.

(* ---- every scanner step consumes at least one character -------------------------------------------------- *)
Lemma digits_val_le s : forall acc v rest, digits_val s acc = (v, rest) -> (length rest <= length s)%nat.
Proof.
  induction s as [|c r IH]; intros acc v rest H; cbn [digits_val] in H.
  - inversion H; subst. lia.
  - destruct (isdigit c).
    + apply IH in H. cbn [length]. lia.
    + inversion H; subst. lia.
Qed.

Lemma digits_val_lt c r acc v rest : isdigit c = true -> digits_val (c :: r) acc = (v, rest) -> (length rest <= length r)%nat.
Proof. intros Hc H. cbn [digits_val] in H. rewrite Hc in H. apply digits_val_le in H. exact H. Qed.

Lemma skip_space_le s : (length (skip_space s) <= length s)%nat.
Proof. induction s as [|c r IH]; cbn [skip_space]; [lia|]. destruct (isspace c); cbn [length]; lia. Qed.

Lemma strtoul10_le s v rest : strtoul10 s = (v, rest) -> (length rest <= length s)%nat.
Proof.
  unfold strtoul10. pose proof (skip_space_le s) as Hs.
  set (s1 := skip_space s) in *.
  assert (G : forall (neg : bool) s2, (length s2 <= length s)%nat ->
     match s2 with
     | c :: _ => if isdigit c
                 then let '(v0, rest0) := digits_val s2 0 in
                      (if (if neg then v0 =? 0 else v0 <=? int_max) then Some (if neg then 0 else v0) else None, rest0)
                 else (Some 0, s)
     | [] => (Some 0, s)
     end = (v, rest) -> (length rest <= length s)%nat).
  { intros neg s2 H2 H. destruct s2 as [|c r]; [inversion H; subst; lia|].
    destruct (isdigit c) eqn:Ec; [|inversion H; subst; lia].
    destruct (digits_val (c :: r) 0) as [v0 rest0] eqn:Ed. apply digits_val_le in Ed.
    inversion H; subst. cbn [length] in *. lia. }
  destruct s1 as [|c1 r1] eqn:E1.
  - intros H. apply (G false [] ltac:(cbn; lia) H).
  - assert (Hr1 : (length r1 <= length s)%nat) by (cbn [length] in Hs; lia).
    destruct (c1 =? 45); [intros H; apply (G true r1 Hr1 H)|].
    destruct (c1 =? 43); [intros H; apply (G false r1 Hr1 H)|].
    intros H. apply (G false (c1 :: r1) Hs H).
Qed.

Lemma strtoul10_digit d t v e : isdigit d = true -> strtoul10 (d :: t) = (v, e) -> (length e <= length t)%nat.
Proof.
  intros Ed. unfold strtoul10. cbn [skip_space].
  assert (isspace d = false) as -> by (unfold isdigit, isspace in *; lia).
  assert ((d =? 45) = false) as -> by (unfold isdigit in Ed; lia).
  assert ((d =? 43) = false) as -> by (unfold isdigit in Ed; lia).
  rewrite Ed. destruct (digits_val (d :: t) 0) as [v0 rest0] eqn:Edv.
  apply digits_val_lt in Edv; [|exact Ed]. intros H. inversion H; subst. exact Edv.
Qed.

Lemma isbackref_shorter s mi si rest : isbackref s = Br mi si rest -> (length rest < length s)%nat.
Proof.
  unfold isbackref. destruct s as [|b [|d t]]; try discriminate.
  destruct ((b =? 92) && isdigit d) eqn:Eb; cbn [negb]; [|discriminate].
  apply andb_true_iff in Eb as [_ Ed].
  destruct (strtoul10 (d :: t)) as [[v|] e] eqn:E1; [|discriminate].
  apply (strtoul10_digit d t _ _ Ed) in E1.
  destruct e as [|c1 e1].
  - intros [= _ _ <-]. cbn [length]. lia.
  - destruct (c1 =? 46).
    + destruct (strtoul10 e1) as [[v2|] e2] eqn:E2; [|discriminate].
      apply strtoul10_le in E2. intros [= _ _ <-]. cbn [length] in *. lia.
    + destruct ((c1 =? 92) && match e1 with c2 :: _ => c2 =? 46 | [] => false end);
        intros [= _ _ <-]; cbn [length] in *; lia.
Qed.

Lemma split_at_rest_lt c s a b : split_at c s = (a, Some b) -> (length b < length s)%nat.
Proof.
  revert a b; induction s as [|x r IH]; intros a b H; cbn [split_at] in H; [discriminate|].
  destruct (x =? c).
  - inversion H; subst. cbn; lia.
  - destruct (split_at c r) as [a' b'] eqn:E. inversion H; subst. specialize (IH _ _ eq_refl). cbn [length]. lia.
Qed.

Lemma ismacro_shorter s name rest : ismacro s = Mac name rest -> (length rest < length s)%nat.
Proof.
  unfold ismacro. destruct s as [|c0 [|c1 r]]; try discriminate.
  destruct ((c0 =? 36) && (c1 =? 123)); [|discriminate].
  destruct (split_at 125 r) as [n [x|]] eqn:E; [|discriminate].
  apply split_at_rest_lt in E. intros [= _ <-]. cbn [length]. lia.
Qed.

(* ---- tokens ---------------------------------------------------------------------------------------------------- *)
Inductive token := TLit (c : N) | TRef (mi si : N) | TMac (name : bytes).

(* the tokenizer does not look at the message, the match list or the macro values *)
Fixpoint tokenize (fuel : nat) (s : bytes) : option (option (list token)) :=
  match fuel with
  | O => None
  | S f =>
      match s with
      | [] => Some (Some [])
      | c :: r =>
          match isbackref s with
          | BrErr => Some None
          | Br mi si rest => match tokenize f rest with Some (Some t) => Some (Some (TRef mi si :: t)) | x => x end
          | BrNone =>
              match ismacro s with
              | MacErr => Some None
              | Mac name rest => match tokenize f rest with Some (Some t) => Some (Some (TMac name :: t)) | x => x end
              | MacNone => match tokenize f r with Some (Some t) => Some (Some (TLit c :: t)) | x => x end
              end
          end
      end
  end.

Lemma tokenize_total : forall fuel s, (length s < fuel)%nat -> tokenize fuel s <> None.
Proof.
  induction fuel as [|f IH]; intros s H; [lia|]. cbn [tokenize]. destruct s as [|c r]; [discriminate|].
  destruct (isbackref (c :: r)) as [| |mi si rest] eqn:Eb.
  - destruct (ismacro (c :: r)) as [| |name rest] eqn:Em.
    + specialize (IH r). cbn [length] in H. destruct (tokenize f r) as [[t|]|]; try discriminate. apply IH. lia.
    + discriminate.
    + apply ismacro_shorter in Em. specialize (IH rest). destruct (tokenize f rest) as [[t|]|]; try discriminate. apply IH. lia.
  - discriminate.
  - apply isbackref_shorter in Eb. specialize (IH rest). destruct (tokenize f rest) as [[t|]|]; try discriminate. apply IH. lia.
Qed.

Definition tokens (s : bytes) : option (list token) :=
  match tokenize (S (length s)) s with Some r => r | None => None end.

Definition subst (ctx : ictx) (t : token) : option bytes :=
  match t with
  | TLit c => Some [c]
  | TRef mi si => match_backref (ic_before ctx) mi si
  | TMac name => macro_find (ic_macros ctx) name
  end.

Definition subst_all (ctx : ictx) (toks : list token) : option bytes :=
  match map_opt' (subst ctx) toks with Some l => Some (concat l) | None => None end.

Lemma interpolate_tokens : forall fuel ctx s, (length s < fuel)%nat ->
  interpolate fuel ctx s =
  match tokenize fuel s with
  | Some (Some toks) => Some (subst_all ctx toks)
  | Some None => Some None
  | None => None
  end.
Proof.
  induction fuel as [|f IH]; intros ctx s Hf; [lia|].
  cbn [interpolate tokenize]. destruct s as [|c r]; [reflexivity|].
  destruct (isbackref (c :: r)) as [| |mi si rest] eqn:Eb.
  - destruct (ismacro (c :: r)) as [| |name rest] eqn:Em.
    + cbn [length] in Hf. rewrite IH by lia. pose proof (tokenize_total f r ltac:(lia)) as Ht.
      destruct (tokenize f r) as [[t|]|]; [| reflexivity | congruence].
      unfold subst_all. cbn [map_opt' subst]. destruct (map_opt' (subst ctx) t); reflexivity.
    + reflexivity.
    + apply ismacro_shorter in Em. rewrite IH by lia. pose proof (tokenize_total f rest ltac:(lia)) as Ht.
      unfold subst_all. cbn [map_opt' subst].
      destruct (tokenize f rest) as [[t|]|]; [| |congruence].
      * cbn [map_opt' subst]. destruct (macro_find (ic_macros ctx) name); [|reflexivity].
        destruct (map_opt' (subst ctx) t); reflexivity.
      * destruct (macro_find (ic_macros ctx) name); reflexivity.
  - reflexivity.
  - apply isbackref_shorter in Eb. rewrite IH by lia. pose proof (tokenize_total f rest ltac:(lia)) as Ht.
    unfold subst_all.
    destruct (tokenize f rest) as [[t|]|]; [| |congruence].
    + cbn [map_opt' subst]. destruct (match_backref (ic_before ctx) mi si); [|reflexivity].
      destruct (map_opt' (subst ctx) t); reflexivity.
    + destruct (match_backref (ic_before ctx) mi si); reflexivity.
Qed.

(* Single pass: the result is the concatenation of the substituted tokens; [tokens s] does not depend on
   the context, so captured text and macro values are inserted literally, whatever they look like. *)
Theorem interp_single_pass ctx s :
  interp ctx s = match tokens s with Some toks => subst_all ctx toks | None => None end.
Proof.
  unfold interp, tokens. rewrite interpolate_tokens by lia.
  destruct (tokenize (S (length s)) s) as [[t|]|]; reflexivity.
Qed.

Theorem interp_total ctx s : interpolate (S (length s)) ctx s <> None.
Proof.
  rewrite interpolate_tokens by lia. pose proof (tokenize_total (S (length s)) s ltac:(lia)).
  destruct (tokenize (S (length s)) s) as [[t|]|]; congruence.
Qed.

(* two contexts that provide the same values give the same text; the values themselves never
   influence how the rest of the template is read *)
Corollary interp_values_are_data ctx1 ctx2 s toks :
  tokens s = Some toks -> interp ctx1 s = subst_all ctx1 toks /\ interp ctx2 s = subst_all ctx2 toks.
Proof. intros H. rewrite !interp_single_pass, H. split; reflexivity. Qed.

(* a reference to a missing pattern or group makes the whole interpolation fail *)
Theorem interp_missing_ref ctx s toks mi si :
  tokens s = Some toks -> In (TRef mi si) toks -> match_backref (ic_before ctx) mi si = None -> interp ctx s = None.
Proof.
  intros Ht Hin Hm. rewrite interp_single_pass, Ht. unfold subst_all.
  assert (G : forall l, In (TRef mi si) l -> map_opt' (subst ctx) l = None).
  { induction l as [|x l IHl]; intros []; cbn [map_opt'].
    - subst x. cbn [subst]. rewrite Hm. reflexivity.
    - rewrite (IHl H). destruct (subst ctx x); reflexivity. }
  rewrite (G toks Hin). reflexivity.
Qed.

(* back-references reach only the patterns of the same rule: entries before the nearest sentinel are invisible *)
Theorem backref_same_rule older newer mi si :
  match_backref (older ++ LSentinel :: newer) mi si =
  match after_last_sentinel newer with
  | Some seg => match nth_pat seg mi with Some caps => nthN caps si | None => None end
  | None => match nth_pat newer mi with Some caps => nthN caps si | None => None end
  end.
Proof.
  unfold match_backref.
  assert (G : forall o, after_last_sentinel (o ++ LSentinel :: newer) =
                        match after_last_sentinel newer with Some t => Some t | None => Some newer end).
  { induction o as [|e o IHo]; cbn [app after_last_sentinel].
    - destruct (after_last_sentinel newer); reflexivity.
    - rewrite IHo. destruct (after_last_sentinel newer); reflexivity. }
  rewrite G. destruct (after_last_sentinel newer); reflexivity.
Qed.
