/* time.h driver.  One request per line:
 *   tp <TZ hex | - (unset) | e (empty)> <now> <string hex>
 * Answer: OK <seconds since the epoch>   or   ERR
 * The environment is set up the way mdsort.c:readenv() does it (ev_now, ev_tz state/buffer/offset). */
#include "config.h"
#include <time.h>
#include <unistd.h>
#include <err.h>
#include "extern.h"
#include "hex.h"

int main(void) {
	char *line = NULL;
	size_t cap = 0;
	setvbuf(stdout, NULL, _IOLBF, 0);
	while (getline(&line, &cap, stdin) > 0) {
		char *tok[8];
		int n = split(line, tok, 8);
		static struct environment env;
		struct tm *tm;
		char *tz = NULL, *str;
		time_t res;
		int fd2;
		if (n < 4 || strcmp(tok[0], "tp") != 0) { puts("ERR?"); continue; }
		memset(&env, 0, sizeof(env));
		if (strcmp(tok[1], "-") == 0) {
			unsetenv("TZ");
			env.ev_tz.t_state = TZ_STATE_LOCAL;
		} else {
			tz = strcmp(tok[1], "e") == 0 ? strdup("") : unhex(tok[1], NULL);
			setenv("TZ", tz, 1);
			env.ev_tz.t_state = strlen(tz) == 0 ? TZ_STATE_UTC : TZ_STATE_SET;
			strlcpy(env.ev_tz.t_buf, tz, sizeof(env.ev_tz.t_buf));
		}
		tzset();
		env.ev_now = (time_t)atoll(tok[2]);
		tm = localtime(&env.ev_now);
		env.ev_tz.t_offset = tm->tm_gmtoff;
		str = unhex(tok[3], NULL);
		/* diagnostics of time_parse go to stderr: silence them */
		fd2 = dup(2); freopen("/dev/null", "w", stderr);
		if (time_parse(str, &res, &env) == 0) printf("OK %lld\n", (long long)res); else puts("ERR");
		fflush(stderr); dup2(fd2, 2); close(fd2);
		free(str); free(tz);
	}
	return 0;
}
