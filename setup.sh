#!/bin/sh
# Build the framework from files on disk only (offline): tables, Coq development (full .vo
# build), extracted model, LD_PRELOAD shim.
set -e
cd "$(dirname "$0")"
python3 harness/gen_tables.py /repo coq/Generated.v
(cd coq && coq_makefile -f _CoqProject -o Makefile >/dev/null && timeout 3000 make -j16 2>&1 | tail -5)
sh ocaml/build.sh
if [ -f shim/build.sh ]; then sh shim/build.sh; fi
echo "setup ok"
