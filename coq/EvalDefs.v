(* M6: rule evaluation.  The expression tree parse.y builds, the faithful evaluator of expr.c over
   the flat, mutable match list of match.c (sentinels, pattern matches, pending actions, pass /
   break markers, matches_merge), and the documented semantics as a specification.  No proofs. *)
From Coq Require Import List Bool Arith.
Import ListNotations.

(* ---- the surface syntax (mdsort.conf(5)) ---------------------------------------------------------- *)
Inductive cond :=
| CAtom (a : nat)          (* a matcher that records a match (header / body / date): outcome env a *)
| CPlain (a : nat)         (* a matcher that records nothing (new / old / isdirectory / command) *)
| CAll
| CAnd (l r : cond) | COr (l r : cond) | CNeg (c : cond).

Inductive act :=
| XMove (md : nat)         (* move "maildir md" *)
| XFlag (cur : bool)       (* flag new (false) / flag !new (true) *)
| XFlags (n : nat)
| XLabel (n : nat)
| XAddHeader (n : nat)
| XExec (n : nat)
| XDiscard
| XReject
| XPass
| XBreak.

Inductive rule :=
| RActs (c : cond) (acts : list act)
| RBlock (c : cond) (rules : list rule).

(* ---- what parse.y builds --------------------------------------------------------------------------- *)
Inductive expr :=
| EBlock (e : option expr)
| EAnd (l r : expr) | EOr (l r : expr) | ENeg (e : expr)
| EMatch (l r : expr)               (* sentinel, then and *)
| EAtom (a : nat) | EPlain (a : nat) | EAll
| EAct (a : act).

Fixpoint compile_cond (c : cond) : expr :=
  match c with
  | CAtom a => EAtom a
  | CPlain a => EPlain a
  | CAll => EAll
  | CAnd l r => EAnd (compile_cond l) (compile_cond r)
  | COr l r => EOr (compile_cond l) (compile_cond r)
  | CNeg c => ENeg (compile_cond c)
  end.

(* expractions: left-nested AND chain *)
Fixpoint compile_acts_from (e : expr) (acts : list act) : expr :=
  match acts with
  | [] => e
  | a :: r => compile_acts_from (EAnd e (EAct a)) r
  end.
Definition compile_acts (acts : list act) : option expr :=
  match acts with
  | [] => None
  | a :: r => Some (compile_acts_from (EAct a) r)
  end.

(* exprs: left-nested OR chain of the rules of a block *)
Fixpoint compile_rule (r : rule) : expr :=
  match r with
  | RActs c acts => match compile_acts acts with
                    | Some e => EMatch (compile_cond c) e
                    | None => EMatch (compile_cond c) EAll          (* rejected by the parser; unused *)
                    end
  | RBlock c rs =>
      let fix chain (acc : option expr) (l : list rule) : option expr :=
        match l with
        | [] => acc
        | x :: t => chain (Some (match acc with None => compile_rule x | Some e => EOr e (compile_rule x) end)) t
        end in
      EMatch (compile_cond c) (EBlock (chain None rs))
  end.

Fixpoint compile_rules_from (acc : option expr) (l : list rule) : option expr :=
  match l with
  | [] => acc
  | x :: t => compile_rules_from (Some (match acc with None => compile_rule x | Some e => EOr e (compile_rule x) end)) t
  end.
Definition compile (rules : list rule) : expr := EBlock (compile_rules_from None rules).

(* ---- the match list ----------------------------------------------------------------------------------- *)
(* an action entry carries the destination fields matches_append / matches_merge fill in *)
Record dest := mkdest { d_md : option nat; d_cur : option bool }.   (* None = inferred from the message path *)

Inductive entry :=
| MSentinel                         (* EXPR_TYPE_MATCH *)
| MPat (a : nat)                    (* a header / body / date match (EXPR_FLAG_INTERPOLATE) *)
| MAct (a : act) (d : dest).

Definition is_action (e : entry) : bool := match e with MAct _ _ => true | _ => false end.
Definition is_kind (k : act -> bool) (e : entry) : bool := match e with MAct a _ => k a | _ => false end.
Definition k_move (a : act) := match a with XMove _ => true | _ => false end.
Definition k_flag (a : act) := match a with XFlag _ => true | _ => false end.
Definition k_pass (a : act) := match a with XPass => true | _ => false end.
Definition k_break (a : act) := match a with XBreak => true | _ => false end.

(* Every entry carries, besides what match.c stores, two tags that do not influence evaluation:
   the id of the innermost block being evaluated when it was appended, and the ids of all blocks
   enclosing that point.  They only serve to state which evaluations are "clean" (see below). *)
Record tentry := mkt { t_e : entry; t_owner : nat; t_inside : list nat }.

Definition tk (k : act -> bool) (t : tentry) : bool := is_kind k (t_e t).

(* remove the first entry satisfying p; also return it *)
Fixpoint take_first (p : tentry -> bool) (l : list tentry) : option (tentry * list tentry) :=
  match l with
  | [] => None
  | x :: r => if p x then Some (x, r)
              else match take_first p r with
                   | Some (y, r') => Some (y, x :: r')
                   | None => None
                   end
  end.

(* matches_append (with matches_merge) *)
Definition append (ml : list tentry) (a : act) (o : nat) (ins : list nat) : list tentry :=
  let mk d := mkt (MAct a d) o ins in
  match a with
  | XMove md =>
      match rev ml with
      | {| t_e := MAct (XMove _) _ |} :: rest => rev rest ++ [mk (mkdest (Some md) None)]      (* replaces the last entry *)
      | _ =>
          match take_first (tk k_flag) ml with
          | Some ({| t_e := MAct (XFlag c) _ |}, ml') => ml' ++ [mk (mkdest (Some md) (Some c))]  (* subdir copied from the flag *)
          | _ => ml ++ [mk (mkdest (Some md) None)]
          end
      end
  | XFlag c =>
      match rev ml with
      | {| t_e := MAct (XFlag _) _ |} :: rest => rev rest ++ [mk (mkdest None (Some c))]
      | _ =>
          match take_first (tk k_move) ml with
          | Some ({| t_e := MAct (XMove _) d |}, ml') => ml' ++ [mk (mkdest (d_md d) (Some c))]   (* maildir copied from the move *)
          | _ => ml ++ [mk (mkdest None (Some c))]
          end
      end
  | _ => ml ++ [mk (mkdest None None)]
  end.

Inductive ev := Match | NoMatch.          (* EXPR_ERROR is not part of this model: matchers are total here *)

(* events recorded during an evaluation (they do not influence it) *)
Record events := mkev { next_id : nat; ev_t1 : bool; ev_t2 : bool; ev_t3 : bool }.

Definition acts_left (ml : list tentry) : nat := length (filter (fun t => is_action (t_e t)) ml).

(* expr_eval.  cur / ins: id of the innermost block and ids of all enclosing blocks *)
Fixpoint eval (e : expr) (env : nat -> bool) (cur : nat) (ins : list nat) (ml : list tentry) (st : events)
  : ev * list tentry * events :=
  match e with
  | EAll => (Match, ml, st)
  | EPlain a => (if env a then Match else NoMatch, ml, st)
  | EAtom a => if env a then (Match, ml ++ [mkt (MPat a) cur ins], st) else (NoMatch, ml, st)
  | EAct a => (match a with XPass => NoMatch | _ => Match end, append ml a cur ins, st)
      (* not modelled: expr_eval_flags also sets the flag letters on the message object right away; the letters
         survive a later matches_clear (only observable together with T3, see harness/c03.py) *)
  | EAnd l r =>
      match eval l env cur ins ml st with
      | (Match, ml', st') => eval r env cur ins ml' st'
      | x => x
      end
  | EOr l r =>
      match eval l env cur ins ml st with
      | (NoMatch, ml', st') => eval r env cur ins ml' st'
      | x => x
      end
  | ENeg c =>
      match eval c env cur ins ml st with
      | (NoMatch, ml', st') => (Match, ml', st')
      | (Match, _, st') =>
          (* the matches appended below the negation are removed; whatever the list held before stays
             (expr_eval_neg after the repair of F-02; before it the WHOLE list was cleared) *)
          (NoMatch, ml, st')
      end
  | EMatch l r =>
      match eval l env cur ins (ml ++ [mkt MSentinel cur ins]) st with
      | (Match, ml', st') => eval r env cur ins ml' st'
      | x => x
      end
  | EBlock None => (NoMatch, ml, st)
  | EBlock (Some b) =>
      let id := next_id st in
      let '(v, ml', st') := eval b env id (id :: ins) ml (mkev (S id) (ev_t1 st) (ev_t2 st) (ev_t3 st)) in
      if existsb (tk k_break) ml' then (NoMatch, filter (fun t => negb (tk k_break t)) ml', st')
      else if existsb (tk k_pass) ml' then
             let ml'' := filter (fun t => negb (tk k_pass t)) ml' in
             let n := acts_left ml'' in
             let own t := existsb (Nat.eqb id) (t_inside t) in
             let n_own := acts_left (filter own ml'') in
             let foreign_pass := existsb (fun t => tk k_pass t && negb (Nat.eqb (t_owner t) id)) ml' in
             (match n with O => NoMatch | _ => Match end, ml'',
              mkev (next_id st') (ev_t1 st' || foreign_pass)
                   (ev_t2 st' || negb (Bool.eqb (Nat.eqb n 0) (Nat.eqb n_own 0))) (ev_t3 st'))
           else (v, ml', st')
  end.

Definition ev0 : events := mkev 1 false false false.

(* main(): the actions of a message = the action entries of the list, if the root block matched *)
Definition run_rules (rules : list rule) (env : nat -> bool) : option (list entry) :=
  match eval (compile rules) env 0 [] [] ev0 with
  | (Match, ml, _) => Some (filter is_action (map t_e ml))
  | (NoMatch, _, _) => None
  end.

(* an evaluation is clean when none of the three events occurred *)
Definition clean (rules : list rule) (env : nat -> bool) : bool :=
  let '(_, _, st) := eval (compile rules) env 0 [] [] ev0 in
  negb (ev_t1 st || ev_t2 st || ev_t3 st).
Definition event_flags (rules : list rule) (env : nat -> bool) : bool * bool * bool :=
  let '(_, _, st) := eval (compile rules) env 0 [] [] ev0 in (ev_t1 st, ev_t2 st, ev_t3 st).

(* ---- what is observable of an action list: the other actions in order, the final place --------------- *)
(* move / flag / flags entries rename the message to <maildir>/<subdir> where a missing field was
   inferred from the message's path WHEN THE ENTRY WAS APPENDED (i.e. the original place): the
   message ends where the last such entry says.  None = the original maildir / subdirectory. *)
Definition location_action (e : entry) : bool :=
  match e with MAct (XMove _) _ | MAct (XFlag _) _ | MAct (XFlags _) _ => true | _ => false end.
Definition other_action (e : entry) : bool :=
  match e with MAct (XMove _) _ | MAct (XFlag _) _ => false | MAct _ _ => true | _ => false end.

Fixpoint final_dest (l : list entry) (d : option dest) : option dest :=
  match l with
  | [] => d
  | e :: r => final_dest r (if location_action e then match e with MAct _ d' => Some d' | _ => d end else d)
  end.

Definition summary (l : list entry) : list act * option dest :=
  (flat_map (fun e => match e with MAct a _ => if other_action e then [a] else [] | _ => [] end) l,
   final_dest l None).

(* the entries a plain list of actions produces (matches_append one after the other) *)
Definition entries_of (acts : list act) : list entry :=
  map t_e (fold_left (fun ml a => append ml a 0 []) acts []).

(* ---- the documented semantics ---------------------------------------------------------------------------- *)
Fixpoint sem (c : cond) (env : nat -> bool) : bool :=
  match c with
  | CAtom a | CPlain a => env a
  | CAll => true
  | CAnd l r => sem l env && sem r env
  | COr l r => sem l env || sem r env
  | CNeg c => negb (sem c env)
  end.

Definition ends_with (k : act -> bool) (acts : list act) : bool :=
  match rev acts with a :: _ => k a | [] => false end.
Definition plain_acts (acts : list act) : list act := filter (fun a => negb (k_pass a || k_break a)) acts.

(* result of a block: the actions collected, and how it ended *)
Inductive bres := BMatched | BBroken | BFellThrough (passed : bool).

(* the rules of a block are tried in order; the first matching rule wins; pass keeps the actions and
   continues; break abandons the block; a nested block is entered only if its condition holds *)
Fixpoint spec_rules (fuel : nat) (rs : list rule) (env : nat -> bool) (acc : list act) (passed : bool)
  : list act * bres :=
  match fuel with
  | O => (acc, BFellThrough passed)
  | S f =>
      match rs with
      | [] => (acc, BFellThrough passed)
      | RActs c acts :: t =>
          if negb (sem c env) then spec_rules f t env acc passed
          else if ends_with k_pass acts then spec_rules f t env (acc ++ plain_acts acts) true
          else if existsb k_break acts then (acc ++ plain_acts acts, BBroken)
          else (acc ++ plain_acts acts, BMatched)
      | RBlock c sub :: t =>
          if negb (sem c env) then spec_rules f t env acc passed
          else match spec_rules f sub env acc false with
               | (acc', BMatched) => (acc', BMatched)
               | (acc', BBroken) => spec_rules f t env acc' passed          (* the nested block is abandoned *)
               | (acc', BFellThrough p) =>
                   if p && negb (Nat.eqb (length acc') (length acc)) then (acc', BMatched)
                   else spec_rules f t env acc' passed
               end
      end
  end.

Fixpoint rule_size (r : rule) : nat :=
  match r with
  | RActs _ _ => 1
  | RBlock _ sub => 1 + (fix sz (l : list rule) : nat := match l with [] => 0 | x :: t => rule_size x + sz t end) sub
  end.
Definition rules_size (rs : list rule) : nat := S (fold_right (fun r n => rule_size r + n) 0 rs).

(* the actions executed for a message, or None if nothing is done *)
Definition spec_run (rules : list rule) (env : nat -> bool) : option (list act) :=
  match spec_rules (rules_size rules) rules env [] false with
  | (acc, BMatched) => Some acc
  | (acc, BFellThrough true) => match acc with [] => None | _ => Some acc end
  | _ => None
  end.

