(* The generative description of a message text (RFC 5322 line structure), independent of the
   slicing code in message.c: a message IS the concatenation of its fields, an empty line and a
   body.  Well-formedness is a boolean predicate. *)
From MD Require Import Bytes Generated.
Local Open Scope N_scope.

Record field := mkfield { f_key : bytes; f_blank : bytes; f_val : bytes }.

Definition field_text (f : field) : bytes := f_key f ++ [58] ++ f_blank f ++ f_val f ++ [10].
Definition fields_text (fs : list field) : bytes := concat (map field_text fs).
Definition message_text (fs : list field) (body : bytes) : bytes := fields_text fs ++ [10] ++ body.

(* a field name: no ':', no white space, no NUL *)
Definition key_charb (c : N) : bool := negb (c =? 58) && negb (isspace c) && negb (c =? 0).
Definition wf_key (k : bytes) : bool := forallb key_charb k.

(* a (possibly folded) value: every newline inside it is followed by a blank *)
Fixpoint val_ok (s : bytes) : bool :=
  match s with
  | [] => true
  | c :: r => if c =? 10
              then match r with d :: _ => isblank d && val_ok r | [] => false end
              else val_ok r
  end.
Definition nonul (s : bytes) : bool := forallb (fun c => negb (c =? 0)) s.
Definition head_not_blank (s : bytes) : bool :=
  match s with c :: _ => negb (isblank c) | [] => true end.
Definition wf_val (v : bytes) : bool := nonul v && val_ok v && head_not_blank v.

Definition wf_field (f : field) : bool :=
  wf_key (f_key f) && forallb isblank (f_blank f) && wf_val (f_val f).

(* the body does not begin with an empty line *)
Definition wf_body (b : bytes) : bool :=
  nonul b && match b with c :: _ => negb (c =? 10) | [] => true end.

Definition wf_message (fs : list field) (body : bytes) : bool := forallb wf_field fs && wf_body body.

(* the (name, value) pairs a reader sees, in order *)
Definition kv_of_field (f : field) : bytes * bytes := (f_key f, f_val f).
