(* M8 (exec): util.c:exec()'s mapping of the wait status, what match.c / expr.c make of it, and the
   descriptor table a forked child inherits.  No proofs here. *)
From Coq Require Import List Bool NArith ZArith.
Import ListNotations.
From MD Require Import Bytes Generated.
Local Open Scope Z_scope.

Inductive wstatus := WExited (code : Z) | WSignaled (sig : positive) | WaitFailed | ForkFailed | OpenNullFailed.

(* exec(): >0 the command exited non-zero (or was killed), 0 success, <0 fatal *)
Definition exec_result (w : wstatus) : Z :=
  match w with
  | WExited c => if c =? 127 then -1 else c
  | WSignaled s => 128 + Z.pos s
  | WaitFailed | ForkFailed | OpenNullFailed => -1
  end.

(* matches_exec for an exec action: does the action list go on? what is recorded as error? *)
Definition exec_action_error (w : wstatus) : bool := negb (exec_result w =? 0).

(* expr_eval_command *)
Inductive cev := CMatch | CNoMatch | CError.
Definition command_cond (w : wstatus) : cev :=
  let r := exec_result w in
  if r =? 0 then CMatch else if r <? 0 then CError else CNoMatch.

(* ---- descriptors ------------------------------------------------------------------------------------ *)
Record fdesc := mkfd { fd_num : nat; fd_cloexec : bool }.

Inductive fdop :=
| FOpenMsg          (* openat(..., O_RDONLY | O_CLOEXEC) of a message *)
| FOpenDir          (* opendir: O_CLOEXEC *)
| FGenname          (* openat(O_WRONLY|O_CREAT|O_EXCL|O_CLOEXEC) *)
| FDup              (* fcntl(F_DUPFD_CLOEXEC) *)
| FOpenNull         (* open("/dev/null", O_RDONLY | O_CLOEXEC) *)
| FTemp             (* writefd(): mkostemp(O_CLOEXEC)  (mkstemp without the flag before the F-19 repair) *)
| FClose (n : nat).

Definition next_fd (t : list fdesc) : nat := S (fold_right (fun d m => Nat.max (fd_num d) m) 2%nat t).

Definition fd_step (t : list fdesc) (o : fdop) : list fdesc :=
  match o with
  | FClose n => filter (fun d => negb (Nat.eqb (fd_num d) n)) t
  | _ => mkfd (next_fd t) true :: t
  end.

(* what the child keeps after execvp: the descriptors without close-on-exec (0, 1, 2 are inherited
   by design; 0 is replaced by dup2) *)
Definition inherited (t : list fdesc) : list nat :=
  map fd_num (filter (fun d => negb (fd_cloexec d)) t).

(* ---- the TZ variable of the process environment across date conditions (mdsort.c:readenv, time.c:tzabbr) ----
   readenv snapshots TZ once (unset / empty / set, value copied into a buffer of Generated.tz_buf_size bytes, too long = mdsort
   does not start); every Date header whose zone is an abbreviation makes tzabbr put that abbreviation into TZ for one
   localtime() call and then restore the variable from the snapshot.  Children started by exec / command inherit whatever
   the variable is at that moment.  setenv / unsetenv are assumed to succeed (they fail only for lack of memory). *)
Inductive tz_state := TzLocal | TzUtc | TzSet.
Record tz_snap := mk_snap { ts_state : tz_state; ts_buf : bytes }.

Definition readenv_tz (tz : option bytes) : option tz_snap :=
  match tz with
  | None => Some (mk_snap TzLocal [])
  | Some s => if (N.of_nat (length s) <? tz_buf_size)%N
              then Some (mk_snap (match s with [] => TzUtc | _ => TzSet end) s)
              else None
  end.

(* the variable after one call tzabbr(str) that found it as cur *)
Definition tzabbr_env (snap : tz_snap) (cur : option bytes) (str : bytes) : option bytes :=
  match str with
  | [] => cur                                  (* empty zone text: returns before touching the environment *)
  | _ => match ts_state snap with
         | TzLocal => None                     (* unsetenv("TZ") *)
         | TzUtc | TzSet => Some (ts_buf snap) (* setenv("TZ", t_buf, 1) *)
         end
  end.

(* TZ as a child sees it after the zone abbreviations `zones` went through tzabbr, for a process started with `tz`;
   None = mdsort refused to start *)
Definition child_tz (tz : option bytes) (zones : list bytes) : option (option bytes) :=
  match readenv_tz tz with
  | Some snap => Some (fold_left (tzabbr_env snap) zones tz)
  | None => None
  end.
