"""Generators for message texts (header blocks, bodies, MIME trees) shared by C07/C08/C10/C11/C13."""
import base64, quopri

NAMES = [b'To', b'to', b'TO', b'From', b'Subject', b'subject', b'Cc', b'Date', b'X-Label', b'x-label',
         b'X-Lab', b'X-Label2', b'Received', b'received', b'Content-Type', b'Content-Transfer-Encoding',
         b'A', b'a', b'B', b'Z', b'z', b'Message-ID', b'X', b'X-', b'List-Id', b'MIME-Version', b'~x', b'_y', b'0n',
         # long names that agree in their first 31 characters / extend one another
         b'X-MS-Exchange-Organization-AuthSource', b'X-MS-Exchange-Organization-AuthAs', b'X-MS-Exchange-Organization-AuthMechanism',
         b'X-MS-Exchange-Organization-AuthSource-Ext']

WORDS = [b'hello', b'world', b'user@example.com', b'<a@b.c>', b'Re:', b'[list]', b'x', b'lorem ipsum', b'caf\xc3\xa9',
         b'\xff\xfe', b'a=b', b'=?', b'?=', b'1.5', b'\\1', b'${path}', b'"quoted"', b'semi;colon', b'tab\there']


def enc_word(rng, raw=None):
    if raw is None:
        raw = rng.choice(WORDS) + b' ' + rng.choice(WORDS)
        if rng.randrange(6) == 0:      # decoded text containing line structure / NUL
            raw = rng.choice([b'alpha\nbeta', b'x\n\ty', b'\n', b'a\tb', b'end\n', b'nul\0after', b'\tlead'])
    cs = rng.choice([b'UTF-8', b'utf-8', b'ISO-8859-1', b'us-ascii'])
    if rng.randrange(2):
        e = rng.choice([b'B', b'b'])
        txt = base64.b64encode(raw)
    else:
        e = rng.choice([b'Q', b'q'])
        txt = b''.join(bytes([c]) if (48 <= c < 58 or 65 <= c < 91 or 97 <= c < 123) else (b'_' if c == 32 and rng.randrange(2) else b'=%02X' % c)
                       for c in raw)
    return b'=?' + cs + b'?' + e + b'?' + txt + b'?='


def bad_word(rng):
    k = rng.randrange(6)
    if k == 0:
        return b'=?UTF-8?X?abc?='
    if k == 1:
        return b'=?UTF-8?B?@@@?='
    if k == 2:
        return b'=?UTF-8?Q?abc'
    if k == 3:
        return b'=?UTF-8?'
    if k == 4:
        return b'=?UTF-8?BB?abc?='
    return b'=?UTF-8?B?QUJ?='


def gen_value(rng, allow_fold=True):
    """A header value without leading blank, where every newline is followed by a blank."""
    k = rng.randrange(20)
    parts = []
    n = rng.choice([0, 1, 1, 2, 3, 5])
    for i in range(n):
        r = rng.randrange(10)
        if r < 6:
            parts.append(rng.choice(WORDS))
        elif r < 8:
            parts.append(enc_word(rng))
        elif r == 8:
            parts.append(bad_word(rng))
        else:
            parts.append(bytes(rng.randrange(0x80, 0x100) for _ in range(rng.randrange(1, 5))))
    out = bytearray()
    for i, p in enumerate(parts):
        if i:
            s = rng.randrange(10)
            if allow_fold and s < 3:
                out += rng.choice([b'\n ', b'\n\t', b'\n\t ', b'\n  ', b'\n \t', b'\n\t\n ', b'\n\t\t\n\t ', b'\n \n\t',
                                   b'\n\t\n\t\n\t'])
            elif s < 8:
                out += b' '
            elif s == 8:
                out += b'  '
            # s == 9: adjacent
        out += p
    if k == 0:
        out += b'x' * rng.choice([100, 1000, 8000])
    if k == 1 and allow_fold and out:
        out += b'\n ' + rng.choice(WORDS)       # trailing continuation
    v = bytes(out).lstrip(b' \t')
    return v.replace(b'\0', b'')


def gen_fields(rng, maxn=40):
    n = rng.choice([0, 1, 2, 3, 4, 6, 8, 12, 20, maxn])
    pool = rng.sample(NAMES, rng.randrange(1, len(NAMES)))
    out = []
    for _ in range(n):
        k, sep, v = rng.choice(pool), rng.choice([b' ', b' ', b' ', b'', b'\t', b'  ', b' \t', b' ', b' ', b'\n\t\n ', b'\n ']), gen_value(rng)
        if b'\n' in sep:
            # the value begins on a continuation line: what follows the blanks after the colon IS the value (findheader), so
            # the fold - and the blank that introduces the continuation - belong to it
            i = sep.index(b'\n')
            sep, v = sep[:i], sep[i:] + v
        out.append((k, sep, v))
    return out


def gen_body(rng, wf=True):
    k = rng.randrange(8)
    if k == 0:
        return b''
    lines = [rng.choice(WORDS + [b'', b'From x', b'Key: value', b' indented', b'--boundary']) for _ in range(rng.randrange(1, 8))]
    body = b'\n'.join(lines)
    if rng.randrange(3):
        body += b'\n'
    if wf:
        body = body.lstrip(b'\n')
    if k == 1:
        body += b'y' * rng.choice([5000, 20000])
    return body


def render_text(fields, body, fromline=None):
    out = bytearray()
    if fromline is not None:
        out += fromline + b'\n'
    for k, bl, v in fields:
        out += k + b':' + bl + v + b'\n'
    out += b'\n' + body
    return bytes(out)


def gen_wf_message(rng):
    """(fields, body, text): a message in the class C08 quantifies over (LF line ends)."""
    fields = gen_fields(rng)
    body = gen_body(rng, wf=True)
    fl = b'From sender Mon Jan  1 00:00:00 2024' if rng.randrange(6) == 0 else None
    return fields, body, render_text(fields, body, fl)


def gen_malformed(rng):
    """A message from the complementary classes (NUL, truncation, non-field line, doubled empty
    line, blank before colon, CRLF, body starting with newline)."""
    fields, body, text = gen_wf_message(rng)
    k = rng.randrange(9)
    t = bytearray(text)
    if k == 0 and t:
        t.insert(rng.randrange(len(t) + 1), 0)
    elif k == 1 and t:
        t = t[:rng.randrange(len(t))]
    elif k == 2:
        i = text.find(b'\n') + 1
        t[i:i] = b'not a header line\n'
    elif k == 3:
        i = text.find(b'\n\n')
        if i >= 0:
            t[i:i] = b'\n' * rng.randrange(1, 3)
    elif k == 4 and fields:
        t = bytearray(text.replace(b':', b' :', 1))
    elif k == 5:
        t = bytearray(text.replace(b'\n', b'\r\n'))
    elif k == 6:
        i = text.find(b'\n\n')
        if i >= 0:
            t[i + 2:i + 2] = b'\n\n'
    elif k == 7:
        t = bytearray(rng.randrange(1, 256) for _ in range(rng.randrange(0, 200)))
    else:
        for _ in range(rng.randrange(1, 6)):
            if t:
                t[rng.randrange(len(t))] = rng.choice(b'\n:\t \r\0=?')
    return bytes(t)


def names_for_queries(rng, fields):
    qs = []
    present = [k for k, _, _ in fields]
    for _ in range(rng.randrange(1, 6)):
        r = rng.randrange(6)
        if r < 3 and present:
            n = rng.choice(present)
            n = rng.choice([n, n.lower(), n.upper(), n.swapcase()])
        elif r < 5:
            n = rng.choice(NAMES)
        else:
            n = rng.choice(present) + b'x' if present else b'Nope'
        qs.append(n)
    return qs


# ---- MIME trees ------------------------------------------------------------------------------
BOUNDARIES = [b'b', b'bb', b'XX', b'=_part', b'b--', b'--b', b'a b', b'0', b'Z9']


def encode_body(rng, raw, enc):
    if enc == b'base64':
        e = base64.encodebytes(raw) if rng.randrange(3) else base64.b64encode(raw) + b'\n'
        return e
    if enc == b'quoted-printable':
        out = bytearray()
        for c in raw:
            if c == 0x3d or c > 126 or (c < 32 and c != 10) or rng.randrange(12) == 0:
                out += b'=%02X' % c
            else:
                out.append(c)
            if rng.randrange(25) == 0:
                out += b'=\n'
        return bytes(out)
    return raw


def gen_leaf(rng, depth):
    raw = b'\n'.join(rng.choice(WORDS + [b'plain text', b'<html>x</html>', b'--', b'-- b']) for _ in range(rng.randrange(1, 5))) + b'\n'
    enc = rng.choice([None, None, b'base64', b'quoted-printable', b'7bit', b'BASE64', b'base64 ', b'8bit'])
    ctype = rng.choice([b'text/plain', b'text/plain; charset=utf-8', b'text/html', b'text/html; x=y', b'application/octet-stream',
                        b'text/plainx', None])
    hs = []
    if ctype is not None:
        hs.append((rng.choice([b'Content-Type', b'content-type']), ctype))
    if enc is not None:
        hs.append((b'Content-Transfer-Encoding', enc))
    if rng.randrange(3) == 0:
        hs.append((b'X-Part', rng.choice(WORDS)))
    body = encode_body(rng, raw, (enc or b'').strip().lower() if enc in (b'base64', b'quoted-printable') else None)
    if enc == b'base64' and rng.randrange(10) == 0:
        body = b'@@@' + body          # undecodable
    rng.shuffle(hs)
    return hs, body, raw


def gen_mime(rng, depth=0, maxdepth=None, bad=True):
    """Returns the text of an entity (header lines + blank line + body)."""
    if maxdepth is None:
        maxdepth = rng.choice([0, 1, 1, 2, 2, 3, 5, 6])
    if depth >= maxdepth or rng.randrange(4) == 0 and depth > 0:
        hs, body, _ = gen_leaf(rng, depth)
        return b''.join(k + b': ' + v + b'\n' for k, v in hs) + b'\n' + body
    b = rng.choice(BOUNDARIES) + (b'%d' % depth if rng.randrange(2) else b'')
    sub = rng.choice([b'mixed', b'alternative', b'related'])
    nparts = rng.choice([0, 1, 2, 2, 3, 4, 17 if depth == 0 else 3, 60 if depth == 0 and rng.randrange(4) == 0 else 2])
    kind = rng.randrange(14) if bad else 99
    param = b'; boundary="' + b + b'"'
    if rng.randrange(4) == 0:
        # further parameters after the boundary, quoted ones included (multipart/related type=, multipart/signed micalg= protocol=)
        param += rng.choice([b'; type="text/html"', b'; micalg="sha1"; protocol="application/pgp-signature"', b'; charset=utf-8', b';x="', b' ; start="<a@b>"'])
    if kind == 0:
        param = b'; boundary=' + b                    # unquoted: not recognised
    elif kind == 1:
        param = b'; boundary="' + b                   # unterminated quote
    elif kind == 2:
        param = b'; boundary=""'
    elif kind == 3:
        param = b';  \tboundary="' + b + b'"; x=y'
    elif kind == 4:
        param = b''
    out = bytearray()
    out += rng.choice([b'Content-Type', b'content-type', b'CONTENT-TYPE']) + b': multipart/' + sub + param + b'\n'
    if rng.randrange(4) == 0:
        out += b'X-Other: y\n'
    out += b'\n'
    if rng.randrange(3) == 0:
        out += b'preamble line\n' + (b'--' + b + b'x\n' if rng.randrange(2) else b'')
    for i in range(nparts):
        out += b'--' + b + b'\n'
        out += gen_mime(rng, depth + 1, maxdepth, bad)
        if not out.endswith(b'\n'):
            out += b'\n'
        if rng.randrange(8) == 0:
            out += b'--' + b + b' \n'                 # boundary-like line (trailing blank)
    if kind == 5:
        pass                                          # missing terminator
    elif kind == 6:
        out += b'--' + b + b'--'                      # terminator without newline
    else:
        out += b'--' + b + b'--\n'
    if rng.randrange(3) == 0:
        out += b'epilogue\n'
    return bytes(out)


def gen_mime_message(rng):
    pre = b''.join(k + b': ' + v + b'\n' for k, v in [(b'From', b'a@b'), (b'Subject', rng.choice(WORDS))][:rng.randrange(3)])
    return pre + gen_mime(rng)


# ---- well-formed MIME trees with ground truth ---------------------------------------------------------------
def gen_tree(rng, depth, maxdepth, bad=False):
    """('leaf', ctype, enc, raw) | ('multi', subtype, boundary, [children], preamble, epilogue)"""
    if depth >= maxdepth or (depth > 0 and rng.randrange(3) == 0):
        raw = b'\n'.join(rng.choice([b'hello needle', b'plain text', b'<p>html needle</p>', b'caf\xc3\xa9', b'x=y', b'line', b'line', b'--bnd0--x', b'--bnd1-- ', b'--bnd0 ']) for _ in range(rng.randrange(1, 4))) + b'\n'
        ctype = rng.choice([b'text/plain', b'text/plain; charset=utf-8', b'text/html', b'application/octet-stream', None])
        enc = rng.choice([None, b'base64', b'quoted-printable', b'7bit', b'8bit'])
        if bad and rng.randrange(bad if bad is not True else 12) == 0:
            return ('leaf', ctype, b'base64', None)          # raw None: undecodable base64
        return ('leaf', ctype, enc, raw)
    b = b'bnd%d%s' % (depth, rng.choice([b'', b'x', b'_=', b'-']))
    if rng.randrange(5) == 0:
        # boundaries of the greatest length RFC 2046 allows (70), one less, and longer than that (a reader takes what it gets)
        b += rng.choice([b'p', b'-', b'Z9']) * 100
        b = b[:rng.choice([69, 70, 70, 71, 100])]
    n = rng.choice([1, 2, 2, 3, 5, 20 if depth == 0 else 2])
    kids = [gen_tree(rng, depth + 1, maxdepth, bad) for _ in range(n)]
    return ('multi', rng.choice([b'mixed', b'alternative', b'related']), b, kids,
            b'preamble\n' if rng.randrange(3) == 0 else b'', b'epilogue\n' if rng.randrange(3) == 0 else b'')


def render_tree(t, rng):
    if t[0] == 'leaf':
        _, ctype, enc, raw = t
        hs = []
        if ctype is not None:
            hs.append(b'Content-Type: ' + ctype)
        if enc is not None:
            hs.append(b'Content-Transfer-Encoding: ' + enc)
        body = encode_body(rng, raw, enc) if raw is not None else rng.choice([b'@@@AAAA\n', b'this*is*not*base64\n', b'QUJD!\n'])
        if not body.endswith(b'\n'):
            body += b'=\n'            # quoted-printable: the final newline was written as =0A; a soft break ends the line
        return b''.join(h + b'\n' for h in hs) + b'\n' + body
    _, sub, b, kids, pre, epi = t
    extra = rng.choice([b'', b'', b'; type="text/html"', b'; micalg="sha1"; protocol="application/pgp-signature"', b'; charset="utf-8"']) if rng is not None else b''
    out = b'Content-Type: multipart/' + sub + b'; boundary="' + b + b'"' + extra + b'\n\n' + pre
    for k in kids:
        out += b'--' + b + b'\n' + render_tree(k, rng)
    out += b'--' + b + b'--\n' + epi
    return out


def flatten_tree(t):
    """ground truth: the parts below the root in pre-order (a nested multipart appears itself, then its parts)"""
    out = []
    if t[0] == 'multi':
        for k in t[3]:
            out.append(k)
            out += flatten_tree(k)
    return out


def tree_depth(t):
    return 0 if t[0] == 'leaf' else 1 + max(tree_depth(k) for k in t[3])
