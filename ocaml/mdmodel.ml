
(** val negb : bool -> bool **)

let negb = function
| true -> false
| false -> true

type nat =
| O
| S of nat

(** val length : 'a1 list -> nat **)

let rec length = function
| [] -> O
| _ :: l' -> S (length l')

(** val app : 'a1 list -> 'a1 list -> 'a1 list **)

let rec app l m =
  match l with
  | [] -> m
  | a :: l1 -> a :: (app l1 m)

type comparison =
| Eq
| Lt
| Gt

module Nat =
 struct
  (** val leb : nat -> nat -> bool **)

  let rec leb n0 m =
    match n0 with
    | O -> true
    | S n' -> (match m with
               | O -> false
               | S m' -> leb n' m')

  (** val ltb : nat -> nat -> bool **)

  let ltb n0 m =
    leb (S n0) m
 end

(** val rev : 'a1 list -> 'a1 list **)

let rec rev = function
| [] -> []
| x :: l' -> app (rev l') (x :: [])

(** val forallb : ('a1 -> bool) -> 'a1 list -> bool **)

let rec forallb f = function
| [] -> true
| a :: l0 -> (&&) (f a) (forallb f l0)

(** val skipn : nat -> 'a1 list -> 'a1 list **)

let rec skipn n0 l =
  match n0 with
  | O -> l
  | S n1 -> (match l with
             | [] -> []
             | _ :: l0 -> skipn n1 l0)

type positive =
| XI of positive
| XO of positive
| XH

type n =
| N0
| Npos of positive

module Pos =
 struct
  type mask =
  | IsNul
  | IsPos of positive
  | IsNeg
 end

module Coq_Pos =
 struct
  (** val succ : positive -> positive **)

  let rec succ = function
  | XI p -> XO (succ p)
  | XO p -> XI p
  | XH -> XO XH

  (** val add : positive -> positive -> positive **)

  let rec add x y =
    match x with
    | XI p ->
      (match y with
       | XI q -> XO (add_carry p q)
       | XO q -> XI (add p q)
       | XH -> XO (succ p))
    | XO p ->
      (match y with
       | XI q -> XI (add p q)
       | XO q -> XO (add p q)
       | XH -> XI p)
    | XH -> (match y with
             | XI q -> XO (succ q)
             | XO q -> XI q
             | XH -> XO XH)

  (** val add_carry : positive -> positive -> positive **)

  and add_carry x y =
    match x with
    | XI p ->
      (match y with
       | XI q -> XI (add_carry p q)
       | XO q -> XO (add_carry p q)
       | XH -> XI (succ p))
    | XO p ->
      (match y with
       | XI q -> XO (add_carry p q)
       | XO q -> XI (add p q)
       | XH -> XO (succ p))
    | XH ->
      (match y with
       | XI q -> XI (succ q)
       | XO q -> XO (succ q)
       | XH -> XI XH)

  (** val pred_double : positive -> positive **)

  let rec pred_double = function
  | XI p -> XI (XO p)
  | XO p -> XI (pred_double p)
  | XH -> XH

  type mask = Pos.mask =
  | IsNul
  | IsPos of positive
  | IsNeg

  (** val succ_double_mask : mask -> mask **)

  let succ_double_mask = function
  | IsNul -> IsPos XH
  | IsPos p -> IsPos (XI p)
  | IsNeg -> IsNeg

  (** val double_mask : mask -> mask **)

  let double_mask = function
  | IsPos p -> IsPos (XO p)
  | x0 -> x0

  (** val double_pred_mask : positive -> mask **)

  let double_pred_mask = function
  | XI p -> IsPos (XO (XO p))
  | XO p -> IsPos (XO (pred_double p))
  | XH -> IsNul

  (** val sub_mask : positive -> positive -> mask **)

  let rec sub_mask x y =
    match x with
    | XI p ->
      (match y with
       | XI q -> double_mask (sub_mask p q)
       | XO q -> succ_double_mask (sub_mask p q)
       | XH -> IsPos (XO p))
    | XO p ->
      (match y with
       | XI q -> succ_double_mask (sub_mask_carry p q)
       | XO q -> double_mask (sub_mask p q)
       | XH -> IsPos (pred_double p))
    | XH -> (match y with
             | XH -> IsNul
             | _ -> IsNeg)

  (** val sub_mask_carry : positive -> positive -> mask **)

  and sub_mask_carry x y =
    match x with
    | XI p ->
      (match y with
       | XI q -> succ_double_mask (sub_mask_carry p q)
       | XO q -> double_mask (sub_mask p q)
       | XH -> IsPos (pred_double p))
    | XO p ->
      (match y with
       | XI q -> double_mask (sub_mask_carry p q)
       | XO q -> succ_double_mask (sub_mask_carry p q)
       | XH -> double_pred_mask p)
    | XH -> IsNeg

  (** val iter : ('a1 -> 'a1) -> 'a1 -> positive -> 'a1 **)

  let rec iter f x = function
  | XI n' -> f (iter f (iter f x n') n')
  | XO n' -> iter f (iter f x n') n'
  | XH -> f x

  (** val compare_cont : comparison -> positive -> positive -> comparison **)

  let rec compare_cont r x y =
    match x with
    | XI p ->
      (match y with
       | XI q -> compare_cont r p q
       | XO q -> compare_cont Gt p q
       | XH -> Gt)
    | XO p ->
      (match y with
       | XI q -> compare_cont Lt p q
       | XO q -> compare_cont r p q
       | XH -> Gt)
    | XH -> (match y with
             | XH -> r
             | _ -> Lt)

  (** val compare : positive -> positive -> comparison **)

  let compare =
    compare_cont Eq

  (** val eqb : positive -> positive -> bool **)

  let rec eqb p q =
    match p with
    | XI p0 -> (match q with
                | XI q0 -> eqb p0 q0
                | _ -> false)
    | XO p0 -> (match q with
                | XO q0 -> eqb p0 q0
                | _ -> false)
    | XH -> (match q with
             | XH -> true
             | _ -> false)

  (** val coq_Nsucc_double : n -> n **)

  let coq_Nsucc_double = function
  | N0 -> Npos XH
  | Npos p -> Npos (XI p)

  (** val coq_Ndouble : n -> n **)

  let coq_Ndouble = function
  | N0 -> N0
  | Npos p -> Npos (XO p)

  (** val coq_lor : positive -> positive -> positive **)

  let rec coq_lor p q =
    match p with
    | XI p0 ->
      (match q with
       | XI q0 -> XI (coq_lor p0 q0)
       | XO q0 -> XI (coq_lor p0 q0)
       | XH -> p)
    | XO p0 ->
      (match q with
       | XI q0 -> XI (coq_lor p0 q0)
       | XO q0 -> XO (coq_lor p0 q0)
       | XH -> XI p0)
    | XH -> (match q with
             | XO q0 -> XI q0
             | _ -> q)

  (** val coq_land : positive -> positive -> n **)

  let rec coq_land p q =
    match p with
    | XI p0 ->
      (match q with
       | XI q0 -> coq_Nsucc_double (coq_land p0 q0)
       | XO q0 -> coq_Ndouble (coq_land p0 q0)
       | XH -> Npos XH)
    | XO p0 ->
      (match q with
       | XI q0 -> coq_Ndouble (coq_land p0 q0)
       | XO q0 -> coq_Ndouble (coq_land p0 q0)
       | XH -> N0)
    | XH -> (match q with
             | XO _ -> N0
             | _ -> Npos XH)

  (** val shiftl : positive -> n -> positive **)

  let shiftl p = function
  | N0 -> p
  | Npos n1 -> iter (fun x -> XO x) p n1
 end

module N =
 struct
  (** val succ : n -> n **)

  let succ = function
  | N0 -> Npos XH
  | Npos p -> Npos (Coq_Pos.succ p)

  (** val add : n -> n -> n **)

  let add n0 m =
    match n0 with
    | N0 -> m
    | Npos p -> (match m with
                 | N0 -> n0
                 | Npos q -> Npos (Coq_Pos.add p q))

  (** val sub : n -> n -> n **)

  let sub n0 m =
    match n0 with
    | N0 -> N0
    | Npos n' ->
      (match m with
       | N0 -> n0
       | Npos m' ->
         (match Coq_Pos.sub_mask n' m' with
          | Coq_Pos.IsPos p -> Npos p
          | _ -> N0))

  (** val compare : n -> n -> comparison **)

  let compare n0 m =
    match n0 with
    | N0 -> (match m with
             | N0 -> Eq
             | Npos _ -> Lt)
    | Npos n' -> (match m with
                  | N0 -> Gt
                  | Npos m' -> Coq_Pos.compare n' m')

  (** val eqb : n -> n -> bool **)

  let eqb n0 m =
    match n0 with
    | N0 -> (match m with
             | N0 -> true
             | Npos _ -> false)
    | Npos p -> (match m with
                 | N0 -> false
                 | Npos q -> Coq_Pos.eqb p q)

  (** val leb : n -> n -> bool **)

  let leb x y =
    match compare x y with
    | Gt -> false
    | _ -> true

  (** val div2 : n -> n **)

  let div2 = function
  | N0 -> N0
  | Npos p0 -> (match p0 with
                | XI p -> Npos p
                | XO p -> Npos p
                | XH -> N0)

  (** val coq_lor : n -> n -> n **)

  let coq_lor n0 m =
    match n0 with
    | N0 -> m
    | Npos p -> (match m with
                 | N0 -> n0
                 | Npos q -> Npos (Coq_Pos.coq_lor p q))

  (** val coq_land : n -> n -> n **)

  let coq_land n0 m =
    match n0 with
    | N0 -> N0
    | Npos p -> (match m with
                 | N0 -> N0
                 | Npos q -> Coq_Pos.coq_land p q)

  (** val shiftl : n -> n -> n **)

  let shiftl a n0 =
    match a with
    | N0 -> N0
    | Npos a0 -> Npos (Coq_Pos.shiftl a0 n0)

  (** val shiftr : n -> n -> n **)

  let shiftr a = function
  | N0 -> a
  | Npos p -> Coq_Pos.iter div2 a p
 end

type bytes = n list

(** val cview : bytes -> bytes **)

let rec cview = function
| [] -> []
| c :: r -> if N.eqb c N0 then [] else c :: (cview r)

(** val isspace : n -> bool **)

let isspace c =
  (||) (N.eqb c (Npos (XO (XO (XO (XO (XO XH)))))))
    ((&&) (N.leb (Npos (XI (XO (XO XH)))) c)
      (N.leb c (Npos (XI (XO (XI XH))))))

(** val islower : n -> bool **)

let islower c =
  (&&) (N.leb (Npos (XI (XO (XO (XO (XO (XI XH))))))) c)
    (N.leb c (Npos (XO (XI (XO (XI (XI (XI XH))))))))

(** val toupper : n -> n **)

let toupper c =
  if islower c then N.sub c (Npos (XO (XO (XO (XO (XO XH)))))) else c

(** val prefixb : bytes -> bytes -> bool **)

let rec prefixb p s =
  match p with
  | [] -> true
  | x :: p' ->
    (match s with
     | [] -> false
     | y :: s' -> (&&) (N.eqb x y) (prefixb p' s'))

(** val split_at : n -> bytes -> bytes * bytes option **)

let rec split_at c = function
| [] -> ([], None)
| x :: r ->
  if N.eqb x c
  then ([], (Some r))
  else let (a, b) = split_at c r in ((x :: a), b)

(** val find_sub : bytes -> bytes -> (bytes * bytes) option **)

let rec find_sub p s =
  if prefixb p s
  then Some ([], (skipn (length p) s))
  else (match s with
        | [] -> None
        | x :: r ->
          (match find_sub p r with
           | Some p0 -> let (a, b) = p0 in Some ((x :: a), b)
           | None -> None))

(** val base64_alphabet : n list **)

let base64_alphabet =
  (Npos (XI (XO (XO (XO (XO (XO XH))))))) :: ((Npos (XO (XI (XO (XO (XO (XO
    XH))))))) :: ((Npos (XI (XI (XO (XO (XO (XO XH))))))) :: ((Npos (XO (XO
    (XI (XO (XO (XO XH))))))) :: ((Npos (XI (XO (XI (XO (XO (XO
    XH))))))) :: ((Npos (XO (XI (XI (XO (XO (XO XH))))))) :: ((Npos (XI (XI
    (XI (XO (XO (XO XH))))))) :: ((Npos (XO (XO (XO (XI (XO (XO
    XH))))))) :: ((Npos (XI (XO (XO (XI (XO (XO XH))))))) :: ((Npos (XO (XI
    (XO (XI (XO (XO XH))))))) :: ((Npos (XI (XI (XO (XI (XO (XO
    XH))))))) :: ((Npos (XO (XO (XI (XI (XO (XO XH))))))) :: ((Npos (XI (XO
    (XI (XI (XO (XO XH))))))) :: ((Npos (XO (XI (XI (XI (XO (XO
    XH))))))) :: ((Npos (XI (XI (XI (XI (XO (XO XH))))))) :: ((Npos (XO (XO
    (XO (XO (XI (XO XH))))))) :: ((Npos (XI (XO (XO (XO (XI (XO
    XH))))))) :: ((Npos (XO (XI (XO (XO (XI (XO XH))))))) :: ((Npos (XI (XI
    (XO (XO (XI (XO XH))))))) :: ((Npos (XO (XO (XI (XO (XI (XO
    XH))))))) :: ((Npos (XI (XO (XI (XO (XI (XO XH))))))) :: ((Npos (XO (XI
    (XI (XO (XI (XO XH))))))) :: ((Npos (XI (XI (XI (XO (XI (XO
    XH))))))) :: ((Npos (XO (XO (XO (XI (XI (XO XH))))))) :: ((Npos (XI (XO
    (XO (XI (XI (XO XH))))))) :: ((Npos (XO (XI (XO (XI (XI (XO
    XH))))))) :: ((Npos (XI (XO (XO (XO (XO (XI XH))))))) :: ((Npos (XO (XI
    (XO (XO (XO (XI XH))))))) :: ((Npos (XI (XI (XO (XO (XO (XI
    XH))))))) :: ((Npos (XO (XO (XI (XO (XO (XI XH))))))) :: ((Npos (XI (XO
    (XI (XO (XO (XI XH))))))) :: ((Npos (XO (XI (XI (XO (XO (XI
    XH))))))) :: ((Npos (XI (XI (XI (XO (XO (XI XH))))))) :: ((Npos (XO (XO
    (XO (XI (XO (XI XH))))))) :: ((Npos (XI (XO (XO (XI (XO (XI
    XH))))))) :: ((Npos (XO (XI (XO (XI (XO (XI XH))))))) :: ((Npos (XI (XI
    (XO (XI (XO (XI XH))))))) :: ((Npos (XO (XO (XI (XI (XO (XI
    XH))))))) :: ((Npos (XI (XO (XI (XI (XO (XI XH))))))) :: ((Npos (XO (XI
    (XI (XI (XO (XI XH))))))) :: ((Npos (XI (XI (XI (XI (XO (XI
    XH))))))) :: ((Npos (XO (XO (XO (XO (XI (XI XH))))))) :: ((Npos (XI (XO
    (XO (XO (XI (XI XH))))))) :: ((Npos (XO (XI (XO (XO (XI (XI
    XH))))))) :: ((Npos (XI (XI (XO (XO (XI (XI XH))))))) :: ((Npos (XO (XO
    (XI (XO (XI (XI XH))))))) :: ((Npos (XI (XO (XI (XO (XI (XI
    XH))))))) :: ((Npos (XO (XI (XI (XO (XI (XI XH))))))) :: ((Npos (XI (XI
    (XI (XO (XI (XI XH))))))) :: ((Npos (XO (XO (XO (XI (XI (XI
    XH))))))) :: ((Npos (XI (XO (XO (XI (XI (XI XH))))))) :: ((Npos (XO (XI
    (XO (XI (XI (XI XH))))))) :: ((Npos (XO (XO (XO (XO (XI
    XH)))))) :: ((Npos (XI (XO (XO (XO (XI XH)))))) :: ((Npos (XO (XI (XO (XO
    (XI XH)))))) :: ((Npos (XI (XI (XO (XO (XI XH)))))) :: ((Npos (XO (XO (XI
    (XO (XI XH)))))) :: ((Npos (XI (XO (XI (XO (XI XH)))))) :: ((Npos (XO (XI
    (XI (XO (XI XH)))))) :: ((Npos (XI (XI (XI (XO (XI XH)))))) :: ((Npos (XO
    (XO (XO (XI (XI XH)))))) :: ((Npos (XI (XO (XO (XI (XI XH)))))) :: ((Npos
    (XI (XI (XO (XI (XO XH)))))) :: ((Npos (XI (XI (XI (XI (XO
    XH)))))) :: [])))))))))))))))))))))))))))))))))))))))))))))))))))))))))))))))

(** val pad64 : n **)

let pad64 =
  Npos (XI (XO (XI (XI (XI XH)))))

(** val index_of : n -> n list -> n option **)

let rec index_of c = function
| [] -> None
| x :: r ->
  if N.eqb x c
  then Some N0
  else (match index_of c r with
        | Some i -> Some (N.succ i)
        | None -> None)

(** val b64val : n -> n option **)

let b64val c =
  index_of c base64_alphabet

type loopres =
| LErr
| LBound
| LEnd of nat * bytes * n
| LPad of bytes * nat * bytes * n

(** val pton_loop : nat -> bytes -> nat -> bytes -> n -> loopres **)

let rec pton_loop targsize s state rout cur =
  match s with
  | [] -> LEnd (state, rout, cur)
  | ch :: r ->
    if isspace ch
    then pton_loop targsize r state rout cur
    else if N.eqb ch pad64
         then LPad (r, state, rout, cur)
         else (match b64val ch with
               | Some v ->
                 if negb (Nat.ltb (length rout) targsize)
                 then LBound
                 else (match state with
                       | O ->
                         pton_loop targsize r (S O) rout
                           (N.shiftl v (Npos (XO XH)))
                       | S n0 ->
                         (match n0 with
                          | O ->
                            let b =
                              N.coq_lor cur (N.shiftr v (Npos (XO (XO XH))))
                            in
                            let nextbyte =
                              N.shiftl
                                (N.coq_land v (Npos (XI (XI (XI XH))))) (Npos
                                (XO (XO XH)))
                            in
                            if Nat.ltb (S (length rout)) targsize
                            then pton_loop targsize r (S (S O)) (b :: rout)
                                   nextbyte
                            else if negb (N.eqb nextbyte N0)
                                 then LBound
                                 else pton_loop targsize r (S (S O))
                                        (b :: rout) N0
                          | S n1 ->
                            (match n1 with
                             | O ->
                               let b =
                                 N.coq_lor cur (N.shiftr v (Npos (XO XH)))
                               in
                               let nextbyte =
                                 N.shiftl (N.coq_land v (Npos (XI XH))) (Npos
                                   (XO (XI XH)))
                               in
                               if Nat.ltb (S (length rout)) targsize
                               then pton_loop targsize r (S (S (S O)))
                                      (b :: rout) nextbyte
                               else if negb (N.eqb nextbyte N0)
                                    then LBound
                                    else pton_loop targsize r (S (S (S O)))
                                           (b :: rout) N0
                             | S _ ->
                               let b = N.coq_lor cur v in
                               pton_loop targsize r O (b :: rout) N0)))
               | None -> LErr)

type b64res =
| B64Ok of bytes
| B64Err
| B64Bound

(** val skip_spaces : bytes -> bytes **)

let rec skip_spaces s = match s with
| [] -> []
| c :: r -> if isspace c then skip_spaces r else s

(** val all_spaces : bytes -> bool **)

let all_spaces s =
  forallb isspace s

(** val pton_tail : nat -> bytes -> bytes -> n -> b64res **)

let pton_tail targsize rest rout cur =
  if negb (all_spaces rest)
  then B64Err
  else if (&&) (Nat.ltb (length rout) targsize) (negb (N.eqb cur N0))
       then B64Err
       else B64Ok (rev rout)

(** val b64_pton : nat -> bytes -> b64res **)

let b64_pton targsize s =
  match pton_loop targsize s O [] N0 with
  | LErr -> B64Err
  | LBound -> B64Bound
  | LEnd (state, rout, _) ->
    (match state with
     | O -> B64Ok (rev rout)
     | S _ -> B64Err)
  | LPad (rest, state, rout, cur) ->
    (match state with
     | O -> B64Err
     | S n0 ->
       (match n0 with
        | O -> B64Err
        | S n1 ->
          (match n1 with
           | O ->
             (match skip_spaces rest with
              | [] -> B64Err
              | ch :: r2 ->
                if N.eqb ch pad64
                then pton_tail targsize r2 rout cur
                else B64Err)
           | S _ -> pton_tail targsize rest rout cur)))

(** val base64_decode_raw : bytes -> b64res **)

let base64_decode_raw s =
  b64_pton (S (length s)) s

(** val base64_decode : bytes -> bytes option **)

let base64_decode s =
  match base64_decode_raw s with
  | B64Ok o -> Some o
  | _ -> None

(** val htoa : n -> n option **)

let htoa c =
  if (&&) (N.leb (Npos (XI (XO (XO (XO (XO (XO XH))))))) c)
       (N.leb c (Npos (XO (XI (XI (XO (XO (XO XH))))))))
  then Some
         (N.add (Npos (XO (XI (XO XH))))
           (N.sub c (Npos (XI (XO (XO (XO (XO (XO XH)))))))))
  else if (&&) (N.leb (Npos (XO (XO (XO (XO (XI XH)))))) c)
            (N.leb c (Npos (XI (XO (XO (XI (XI XH)))))))
       then Some (N.sub c (Npos (XO (XO (XO (XO (XI XH)))))))
       else None

(** val qp_decode : bool -> bytes -> bytes **)

let rec qp_decode dospace = function
| [] -> []
| c :: r ->
  if (&&) dospace (N.eqb c (Npos (XI (XI (XI (XI (XI (XO XH))))))))
  then (Npos (XO (XO (XO (XO (XO XH)))))) :: (qp_decode dospace r)
  else if negb (N.eqb c (Npos (XI (XO (XI (XI (XI XH)))))))
       then c :: (qp_decode dospace r)
       else (match r with
             | [] -> (Npos (XI (XO (XI (XI (XI XH)))))) :: []
             | d :: r' ->
               if N.eqb d (Npos (XO (XI (XO XH))))
               then qp_decode dospace r'
               else (match r' with
                     | [] ->
                       (Npos (XI (XO (XI (XI (XI
                         XH)))))) :: (qp_decode dospace r)
                     | e :: r'' ->
                       (match htoa d with
                        | Some h ->
                          (match htoa e with
                           | Some l ->
                             (N.coq_lor (N.shiftl h (Npos (XO (XO XH)))) l) :: 
                               (qp_decode dospace r'')
                           | None ->
                             (Npos (XI (XO (XI (XI (XI
                               XH)))))) :: (qp_decode dospace r))
                        | None ->
                          (Npos (XI (XO (XI (XI (XI
                            XH)))))) :: (qp_decode dospace r))))

(** val quoted_printable_decode : bytes -> bytes **)

let quoted_printable_decode s =
  qp_decode false s

(** val q_eqmark : bytes **)

let q_eqmark =
  (Npos (XI (XO (XI (XI (XI XH)))))) :: ((Npos (XI (XI (XI (XI (XI
    XH)))))) :: [])

(** val q_markeq : bytes **)

let q_markeq =
  (Npos (XI (XI (XI (XI (XI XH)))))) :: ((Npos (XI (XO (XI (XI (XI
    XH)))))) :: [])

(** val skip_ws_before_word : bytes -> bytes **)

let skip_ws_before_word es =
  match find_sub q_eqmark es with
  | Some p ->
    let (before, _) = p in
    if all_spaces before then skipn (length before) es else es
  | None -> es

(** val r2047_word : bytes -> (bytes * bytes) option **)

let r2047_word es =
  let (_, o) = split_at (Npos (XI (XI (XI (XI (XI XH)))))) es in
  (match o with
   | Some es1 ->
     (match es1 with
      | [] -> None
      | enc :: es2 ->
        (match es2 with
         | [] -> None
         | q :: es3 ->
           if negb (N.eqb q (Npos (XI (XI (XI (XI (XI XH)))))))
           then None
           else (match find_sub q_markeq es3 with
                 | Some p ->
                   let (txt, rest) = p in
                   let u = toupper enc in
                   if N.eqb u (Npos (XO (XI (XO (XO (XO (XO XH)))))))
                   then (match base64_decode txt with
                         | Some d -> Some ((cview d), rest)
                         | None -> None)
                   else if N.eqb u (Npos (XI (XO (XO (XO (XI (XO XH)))))))
                        then Some ((qp_decode true txt), rest)
                        else None
                 | None -> None)))
   | None -> None)

(** val r2047_loop : nat -> bytes -> bytes option option **)

let rec r2047_loop fuel es =
  match fuel with
  | O -> None
  | S f ->
    (match es with
     | [] -> Some (Some [])
     | c :: r ->
       if prefixb q_eqmark es
       then (match r2047_word (skipn (S (S O)) es) with
             | Some p ->
               let (dec, rest) = p in
               (match r2047_loop f (skip_ws_before_word rest) with
                | Some o0 ->
                  (match o0 with
                   | Some o -> Some (Some (app dec o))
                   | None -> Some None)
                | None -> None)
             | None -> Some None)
       else (match r2047_loop f r with
             | Some o0 ->
               (match o0 with
                | Some o -> Some (Some (c :: o))
                | None -> Some None)
             | None -> None))

(** val rfc2047_decode : bytes -> bytes **)

let rfc2047_decode s =
  match r2047_loop (S (length s)) s with
  | Some o0 -> (match o0 with
                | Some o -> o
                | None -> s)
  | None -> s
