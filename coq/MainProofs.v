From Coq Require Import List Bool ZArith Lia.
Import ListNotations.
From MD Require Import Generated MainDefs.

Lemma fold_step_error rs s : f_error (fold_left step rs s) = f_error s || existsb (fun r => match r with MErr => true | _ => false end) rs.
Proof.
  revert s; induction rs as [|r rs IH]; intros s; cbn [fold_left existsb]; [rewrite orb_false_r; reflexivity|].
  rewrite IH. destruct r; cbn; try reflexivity; destruct (f_error s); reflexivity.
Qed.

Lemma fold_step_reject rs s : f_reject (fold_left step rs s) = f_reject s || existsb (fun r => match r with MReject => true | _ => false end) rs.
Proof.
  revert s; induction rs as [|r rs IH]; intros s; cbn [fold_left existsb]; [rewrite orb_false_r; reflexivity|].
  rewrite IH. destruct r; cbn; try reflexivity; destruct (f_reject s); reflexivity.
Qed.

Definition md_error (md : option (list mres)) : bool :=
  match md with None => true | Some rs => existsb (fun r => match r with MErr => true | _ => false end) rs end.
Definition md_reject (md : option (list mres)) : bool :=
  match md with None => false | Some rs => existsb (fun r => match r with MReject => true | _ => false end) rs end.

Lemma fold_md mds : forall s,
  let s' := fold_left (fun s md => match md with None => mkflags true (f_reject s) | Some rs => fold_left step rs s end) mds s in
  f_error s' = f_error s || existsb md_error mds /\ f_reject s' = f_reject s || existsb md_reject mds.
Proof.
  induction mds as [|md mds IH]; intros s; cbv zeta; cbn [fold_left existsb].
  - rewrite !orb_false_r. split; reflexivity.
  - destruct (IH (match md with None => mkflags true (f_reject s) | Some rs => fold_left step rs s end)) as [H1 H2].
    cbv zeta in *. rewrite H1, H2. destruct md as [rs|]; cbn [md_error md_reject].
    + rewrite fold_step_error, fold_step_reject. rewrite !orb_assoc. split; reflexivity.
    + cbn [f_error f_reject]. destruct (f_error s), (f_reject s); split; reflexivity.
Qed.

(* exit status 0 iff nothing went wrong (and, on stdin, no reject matched) *)
Theorem status_zero_iff stdin conf_ok syntax mds n :
  main false stdin conf_ok syntax mds = Exit 0 n ->
  conf_ok = true /\ (syntax = true \/ (existsb md_error mds = false /\ (stdin = true -> existsb md_reject mds = false))).
Proof.
  unfold main. cbn [negb]. destruct conf_ok; cbn [negb].
  - destruct syntax; [intros _; split; [reflexivity | left; reflexivity]|].
    destruct (fold_md mds (mkflags false false)) as [H1 H2]. cbv zeta in *. cbn [f_error f_reject orb] in *.
    unfold exit_status. rewrite H1, H2. intros H. split; [reflexivity|]. right.
    destruct stdin, (existsb md_error mds), (existsb md_reject mds); inversion H; split; try reflexivity; try discriminate; intros; try reflexivity; discriminate.
  - unfold exit_status. cbn. destruct stdin; intros H; inversion H.
Qed.

Theorem any_error_nonzero stdin syntax mds :
  existsb md_error mds = true -> syntax = false ->
  exists n, main false stdin true syntax mds = Exit (if stdin then ex_tempfail else 1%Z) n.
Proof.
  intros He ->. unfold main. cbn [negb]. destruct (fold_md mds (mkflags false false)) as [H1 H2].
  cbv zeta in *. cbn [f_error f_reject orb] in *. eexists. unfold exit_status. rewrite H1, He. reflexivity.
Qed.

Theorem config_error_nonzero stdin syntax mds :
  main false stdin false syntax mds = Exit (if stdin then ex_tempfail else 1%Z) 0.
Proof. unfold main. cbn. unfold exit_status. reflexivity. Qed.

(* stdin: the status is one of 0, 1 (reject, no error), 75 (any error) *)
Theorem stdin_codes conf_ok syntax mds s n :
  main false true conf_ok syntax mds = Exit s n ->
  (s = 0%Z \/ s = ex_permfail \/ s = ex_tempfail) /\
  (s = ex_permfail -> conf_ok = true /\ existsb md_error mds = false /\ existsb md_reject mds = true) /\
  (conf_ok = true -> syntax = false -> existsb md_error mds = true -> s = ex_tempfail).
Proof.
  unfold main. cbn [negb]. destruct conf_ok; cbn [negb].
  - destruct syntax.
    + intros [= <- _]. cbn. repeat split; auto; try discriminate.
    + destruct (fold_md mds (mkflags false false)) as [H1 H2]. cbv zeta in *. cbn [f_error f_reject orb] in *.
      unfold exit_status. rewrite H1, H2. intros [= <- _].
      destruct (existsb md_error mds), (existsb md_reject mds); cbn; repeat split; auto; try discriminate; intros; try discriminate.
  - intros [= <- _]. cbn. repeat split; auto; try discriminate.
Qed.

(* isolation: the outcome list is consumed by a fold whose state never feeds back into how a message is
   processed, so every message of every maildir is examined whatever happened before *)
Theorem all_examined stdin mds s n :
  main false stdin true false mds = Exit s n ->
  n = fold_left (fun n md => match md with None => n | Some rs => n + length rs end) mds 0.
Proof. unfold main. cbn. intros [= _ <-]. reflexivity. Qed.

(* dry run / syntax check: no mutating stage is ever run *)
Theorem dryrun_never_mutates : existsb mutating (pipeline true) = false.
Proof. reflexivity. Qed.

Theorem syntax_examines_nothing stdin conf_ok mds s n :
  main false stdin conf_ok true mds = Exit s n -> n = 0.
Proof. unfold main. destruct conf_ok; cbn; intros [= _ <-]; reflexivity. Qed.

(* dry run evaluates exactly the same stages before the cut: what -d prints (SInspect) is computed
   from the same list the real run executes *)
Theorem dryrun_same_prefix : pipeline true = removelast (pipeline false).
Proof. reflexivity. Qed.
