(* C11 - body and attachment conditions operate on the decoded MIME content.   (PARTIAL)
   Proved: which part's body is used (multipart/alternative: first text/plain, else first text/html,
   else the raw body; otherwise the message itself), how it is decoded (exact CTE value; base64 = RFC
   4648 by C16; undecodable base64 = error), that MIME errors make the body an error, the depth
   limit, and the exists / for-each semantics of attachment conditions and blocks.
   Boundary scanning: for every body in RFC 2046 form (preamble, delimiter line + part text for each part, closing
   delimiter, epilogue) in which no other line is a delimiter line of this boundary, the part loop returns exactly
   the part texts in order and sees the terminator (C11_parts_of_body); and one level of flattening: if each part text
   parses to a message whose own attachments are known, the attachments of the multipart are the parts in pre-order,
   each followed by its own (C11_flatten_step) - the inductive step of the flattening theorem.
   NOT proved: the closed form over whole rendered trees (it needs the header round trip of every part composed with
   this step); it is checked by the correspondence of harness/c11.py against generated trees with ground truth. *)
From MD Require Import Bytes Generated DecodeDefs DecodeSpec HeaderDefs MimeDefs MimeProofs MimeProofs2.

Theorem C11_body_not_alternative : forall m, is_content_type m s_mp_alt = false -> get_body m = decode_body m.
Proof. exact get_body_not_alternative. Qed.
Print Assumptions C11_body_not_alternative.

Theorem C11_body_choice : forall m atts, is_content_type m s_mp_alt = true -> get_attachments m = AOk atts ->
  get_body m = match find_type s_text_plain atts with
               | Some a => decode_body a
               | None => match find_type s_text_html atts with
                         | Some a => decode_body a
                         | None => BOk (m_body m)
                         end
               end.
Proof. exact get_body_alternative. Qed.
Print Assumptions C11_body_choice.

Theorem C11_body_error_on_bad_mime : forall m,
  is_content_type m s_mp_alt = true -> get_attachments m = AErr -> get_body m = BNull.
Proof. exact get_body_alternative_error. Qed.
Print Assumptions C11_body_error_on_bad_mime.

Theorem C11_decoding : forall a,
  decode_body a =
  match get_header1 (m_headers a) s_cte with
  | Some enc =>
      if beq_bytes enc s_base64 then match spec_b64 (m_body a) with Some d => BOk (cview d) | None => BNull end
      else if beq_bytes enc s_qp then BOk (cview (qp_decode false (m_body a)))
      else BOk (m_body a)
  | None => BOk (m_body a)
  end.
Proof. exact decode_body_spec. Qed.
Print Assumptions C11_decoding.

Theorem C11_depth_error : forall m, parseattachments 0 m = AErr.
Proof. exact depth_exhausted. Qed.
Print Assumptions C11_depth_error.

Theorem C11_attachment_condition_is_exists : forall f atts,
  attachment_cond f atts = RMatch <->
  exists pre a post, atts = pre ++ a :: post /\ f a = RMatch /\ Forall (fun x => f x = RNoMatch) pre.
Proof. exact attachment_cond_spec. Qed.
Print Assumptions C11_attachment_condition_is_exists.

Theorem C11_attachment_block_error : forall f atts acc,
  (exists a, In a atts /\ f a = RError) -> attachment_block f atts acc = RError.
Proof. exact attachment_block_error. Qed.
Print Assumptions C11_attachment_block_error.

Theorem C11_parts_of_body : forall b pre kids epi, nonl b = true -> quiet b pre -> Forall (quiet b) kids ->
  let body := pre ++ parts_text b kids epi in
  parts_loop (S (S (2 * length body))) b body None = Some (kids, true).
Proof. exact parts_of_body. Qed.
Print Assumptions C11_parts_of_body.

Theorem C11_flatten_step : forall d m type b pre kids epi (subs : list (msg * list msg)),
  get_header1 (m_headers m) s_content_type = Some type -> parseboundary type = PB b -> nonl b = true ->
  m_body m = pre ++ parts_text b kids epi -> quiet b pre -> Forall (quiet b) kids ->
  Forall2 (fun k asub => parse_part k = Some (fst asub) /\ parseattachments d (fst asub) = AOk (snd asub)) kids subs ->
  parseattachments (S d) m = AOk (flat_map (fun asub => fst asub :: snd asub) subs).
Proof. exact flatten_step. Qed.
Print Assumptions C11_flatten_step.

(* non-vacuity: boundary "b", preamble "x\n", parts "A: 1\n\none\n" and "--bb\n", epilogue "e" *)
Example C11_example_parts :
  parts_loop 200 [98%N] (ascii [120;10; 45;45;98;10; 65;58;32;49;10;10;111;110;101;10; 45;45;98;10; 45;45;98;98;10; 45;45;98;45;45;10; 101]%nat) None
  = Some ([ascii [65;58;32;49;10;10;111;110;101;10]%nat; ascii [45;45;98;98;10]%nat], true).
Proof. vm_compute. reflexivity. Qed.
