(* message_set_header / message_write: what a rewrite preserves and what it sets. *)
From MD Require Import Bytes Generated DecodeDefs HeaderDefs HeaderSpec OrderProofs SearchProofs ParseProofs.
From Coq Require Import ZifyBool ZifyN ZifyNat Permutation Sorted.
Local Open Scope nat_scope.

(* ---- StronglySorted over appends ---------------------------------------------------------------- *)
Lemma ssorted_app {A} (R : A -> A -> Prop) a b :
  StronglySorted R (a ++ b) <->
  StronglySorted R a /\ StronglySorted R b /\ (forall x y, In x a -> In y b -> R x y).
Proof.
  induction a as [|h a IH]; cbn [app].
  - split; [intros H; repeat split; [constructor | exact H | intros x y []] | intros (_ & H & _); exact H].
  - split.
    + intros H. inversion H as [|? ? Hs Hf]; subst. apply IH in Hs as (Ha & Hb & Hc).
      rewrite Forall_app in Hf. destruct Hf as [Hfa Hfb]. repeat split; auto.
      * constructor; assumption.
      * intros x y [->|Hx] Hy; [rewrite Forall_forall in Hfb; auto | auto].
    + intros (Ha & Hb & Hc). inversion Ha as [|? ? Hs Hf]; subst.
      constructor.
      * apply IH. repeat split; auto. intros x y Hx Hy. apply Hc; [right|]; assumption.
      * rewrite Forall_app. split; [exact Hf|]. rewrite Forall_forall. intros y Hy. apply Hc; [left; reflexivity | exact Hy].
Qed.

Lemma filter_filter {A} (P Q : A -> bool) l : filter P (filter Q l) = filter (fun x => Q x && P x) l.
Proof.
  induction l as [|x l IH]; [reflexivity|]. cbn [filter]. destruct (Q x); cbn [filter andb]; [|exact IH].
  destruct (P x); rewrite IH; reflexivity.
Qed.

Lemma filter_ext_in' {A} (P Q : A -> bool) l : (forall x, In x l -> P x = Q x) -> filter P l = filter Q l.
Proof.
  induction l as [|x l IH]; intros H; [reflexivity|]. cbn [filter]. rewrite (H x (or_introl eq_refl)).
  rewrite IH; [reflexivity|]. intros y Hy. apply H. right. exact Hy.
Qed.

Lemma filter_none {A} (P : A -> bool) l : (forall x, In x l -> P x = false) -> filter P l = [].
Proof.
  induction l as [|x l IH]; intros H; [reflexivity|]. cbn [filter]. rewrite (H x (or_introl eq_refl)).
  apply IH. intros y Hy. apply H. right. exact Hy.
Qed.

(* ---- set_nth_val ---------------------------------------------------------------------------------- *)
Lemma set_nth_val_app l1 h l3 v :
  set_nth_val (l1 ++ h :: l3) (length l1) v = l1 ++ mkhdr (h_id h) (h_key h) v :: l3.
Proof. induction l1 as [|x l1 IH]; cbn [app length set_nth_val]; [reflexivity | rewrite IH; reflexivity]. Qed.

(* ---- one message_set_header on a key-sorted table --------------------------------------------------- *)
Lemma keq_class k k0 h : caseeq k0 k = true -> keq k0 h = keq k h.
Proof. intros H. unfold keq. apply caseeq_trans_l. exact H. Qed.

Lemma keq_disjoint k k0 h : caseeq k0 k = false -> keq k h = true -> keq k0 h = false.
Proof.
  unfold keq. intros Hn Hk. destruct (caseeq k0 (h_key h)) eqn:E; [|reflexivity].
  rewrite (caseeq_trans_l k0 (h_key h) k E) in Hn. rewrite caseeq_sym in Hn. congruence.
Qed.

Lemma set_header_sorted_spec T k v : SortedK T ->
  let T' := set_header T k v in
  SortedK T' /\
  (exists h', filter (keq k) T' = [h'] /\ h_val h' = v /\ keq k h' = true) /\
  (forall k0, caseeq k0 k = false -> filter (keq k0) T' = filter (keq k0) T) /\
  (forall P : hdr -> bool, (forall h, keq k h = true -> P h = false) ->
      Permutation (filter P T') (filter P T)).
Proof.
  intros Hs. cbv zeta.
  destruct (sorted_seg k T Hs) as (l1 & l2 & l3 & -> & HS).
  pose proof (seg_filter k l1 l2 l3 HS) as Hfil.
  unfold set_header. rewrite (searchheader_seg k l1 l2 l3 HS).
  destruct l2 as [|h0 rest].
  - (* not found: a new entry, then qsort by key *)
    cbn [app] in *.
    set (new := mkhdr (S (length (l1 ++ l3))) k v).
    assert (Hnew : keq k new = true) by (unfold keq, new; cbn; apply caseeq_refl).
    split; [apply sort_key_sorted|]. split; [|split].
    + exists new. split; [|split; [reflexivity | exact Hnew]].
      rewrite sort_key_filter, filter_app, Hfil. cbn [filter app]. rewrite Hnew. reflexivity.
    + intros k0 Hk0. rewrite sort_key_filter, filter_app. cbn [filter].
      rewrite (keq_disjoint k k0 new Hk0 Hnew). apply app_nil_r.
    + intros P HP. etransitivity; [apply Permutation_filter, sort_key_perm|].
      rewrite filter_app. cbn [filter]. rewrite (HP new Hnew). rewrite app_nil_r. reflexivity.
  - (* found: keep the first occurrence with the new value, drop the others *)
    destruct HS as (H1 & H2 & H3).
    assert (Hf : firstn (S (length l1)) (l1 ++ (h0 :: rest) ++ l3) = l1 ++ [h0]).
    { rewrite firstn_app. replace (S (length l1) - length l1) with 1 by lia.
      rewrite firstn_all2 by lia. reflexivity. }
    assert (Hk : skipn (length l1 + length (h0 :: rest)) (l1 ++ (h0 :: rest) ++ l3) = l3).
    { rewrite app_assoc. rewrite skipn_app. rewrite app_length.
      rewrite Nat.sub_diag. rewrite skipn_all2 by (rewrite app_length; lia). reflexivity. }
    rewrite Hf, Hk. rewrite <- app_assoc. cbn [app]. rewrite set_nth_val_app.
    set (h' := mkhdr (h_id h0) (h_key h0) v).
    inversion H2 as [|? ? Hh0 H2']; subst.
    assert (Hh' : keq k h' = true) by (unfold keq, caseeq, h'; cbn; unfold cmpk in Hh0; rewrite Hh0; reflexivity).
    assert (Hn1 : forall P : hdr -> bool, (forall h, keq k h = true -> P h = false) ->
                  filter P (h0 :: rest) = []).
    { intros P HP. apply filter_none. intros x Hx. apply HP.
      rewrite Forall_forall in H2. specialize (H2 x Hx). unfold keq, caseeq. unfold cmpk in H2. rewrite H2. reflexivity. }
    split; [|split; [|split]].
    + (* still sorted: h' has the key of h0 *)
      unfold SortedK in *. apply ssorted_app in Hs as (Hs1 & Hs23 & Hc1).
      change ((h0 :: rest) ++ l3) with (h0 :: (rest ++ l3)) in Hs23, Hc1.
      inversion Hs23 as [|? ? Hs3' Hf0]; subst. apply ssorted_app in Hs3' as (_ & Hs3 & _).
      rewrite Forall_app in Hf0. destruct Hf0 as [_ Hf03].
      apply ssorted_app. split; [exact Hs1|]. split.
      * constructor; [exact Hs3|]. eapply Forall_impl; [|exact Hf03]. intros y Hy. exact Hy.
      * intros x y Hx [<-|Hy].
        -- apply (Hc1 x h0 Hx). left. reflexivity.
        -- apply (Hc1 x y Hx). right. apply in_or_app. right. exact Hy.
    + exists h'. split; [|split; [reflexivity | exact Hh']].
      change (h' :: l3) with ([h'] ++ l3). rewrite !filter_app.
      assert (filter (keq k) [h'] = [h']) as -> by (cbn [filter]; rewrite Hh'; reflexivity).
      assert (filter (keq k) l1 = []) as ->.
      { apply filter_none. intros x Hx. rewrite Forall_forall in H1. specialize (H1 x Hx).
        unfold keq, caseeq. unfold cmpk in H1. rewrite H1. reflexivity. }
      assert (filter (keq k) l3 = []) as ->.
      { apply filter_none. intros x Hx. rewrite Forall_forall in H3. specialize (H3 x Hx).
        unfold keq, caseeq. unfold cmpk in H3. rewrite H3. reflexivity. }
      reflexivity.
    + intros k0 Hk0. change (h' :: l3) with ([h'] ++ l3).
      change (h0 :: rest ++ l3) with ((h0 :: rest) ++ l3). rewrite !filter_app.
      rewrite (Hn1 (keq k0)) by (intros h Hh; eapply keq_disjoint; eauto).
      assert (filter (keq k0) [h'] = []) as ->
        by (cbn [filter]; rewrite (keq_disjoint k k0 h' Hk0 Hh'); reflexivity).
      reflexivity.
    + intros P HP. change (h' :: l3) with ([h'] ++ l3).
      change (h0 :: rest ++ l3) with ((h0 :: rest) ++ l3). rewrite !filter_app. rewrite (Hn1 P HP).
      assert (filter P [h'] = []) as -> by (cbn [filter]; rewrite (HP h' Hh'); reflexivity).
      reflexivity.
Qed.

(* ---- a sequence of label / add-header settings ---------------------------------------------------- *)
Definition apply_sets (T : list hdr) (sets : list (bytes * bytes)) : list hdr :=
  fold_left (fun t kv => set_header t (fst kv) (snd kv)) sets T.

(* the value most recently set for the name class of k *)
Fixpoint lastval (sets : list (bytes * bytes)) (k : bytes) : option bytes :=
  match sets with
  | [] => None
  | (k1, v1) :: r => match lastval r k with
                     | Some v => Some v
                     | None => if caseeq k k1 then Some v1 else None
                     end
  end.

Definition untouched (K : list bytes) (h : hdr) : bool :=
  forallb (fun k => negb (caseeq k (h_key h))) K.

Lemma lastval_app sets k k1 v1 :
  lastval (sets ++ [(k1, v1)]) k = if caseeq k k1 then Some v1 else lastval sets k.
Proof.
  induction sets as [|[k2 v2] r IH]; cbn [app lastval].
  - destruct (caseeq k k1); reflexivity.
  - rewrite IH. destruct (caseeq k k1); [reflexivity|]. reflexivity.
Qed.

Definition Inv (H0 : list hdr) (done : list (bytes * bytes)) (T : list hdr) : Prop :=
  SortedK T /\
  Permutation (filter (untouched (map fst done)) T) (filter (untouched (map fst done)) H0) /\
  (forall k v, lastval done k = Some v ->
     exists h, filter (keq k) T = [h] /\ h_val h = v).

Lemma untouched_app K k h : untouched (K ++ [k]) h = untouched K h && negb (keq k h).
Proof. unfold untouched, keq. rewrite forallb_app. cbn [forallb]. rewrite andb_true_r. reflexivity. Qed.

Lemma inv_step H0 done T k v : Inv H0 done T -> Inv H0 (done ++ [(k, v)]) (set_header T k v).
Proof.
  intros (Hs & Hp & Hl).
  destruct (set_header_sorted_spec T k v Hs) as (Hs' & (h' & Hf' & Hv' & Hk') & Hother & Hperm).
  split; [exact Hs'|]. split.
  - rewrite map_app. cbn [map fst].
    set (U := untouched (map fst done ++ [k])).
    assert (HU : forall h, keq k h = true -> U h = false).
    { intros h Hh. unfold U. rewrite untouched_app, Hh. apply andb_false_r. }
    etransitivity; [apply (Hperm U HU)|].
    assert (E : forall l, filter U l = filter (fun h => negb (keq k h)) (filter (untouched (map fst done)) l)).
    { intros l. rewrite filter_filter. apply filter_ext_in'. intros x _. unfold U. apply untouched_app. }
    rewrite !E. apply Permutation_filter. exact Hp.
  - intros k0 v0. rewrite lastval_app. destruct (caseeq k0 k) eqn:Ek.
    + intros [= <-]. exists h'. split; [|exact Hv'].
      rewrite <- Hf'. apply filter_ext_in'. intros x _. apply keq_class. exact Ek.
    + intros Hlv. rewrite (Hother k0 Ek). apply Hl. exact Hlv.
Qed.

Lemma inv_sets H0 : forall sets done T, Inv H0 done T -> Inv H0 (done ++ sets) (apply_sets T sets).
Proof.
  induction sets as [|[k v] r IH]; intros done T HI.
  - rewrite app_nil_r. exact HI.
  - cbn [apply_sets fold_left fst snd]. change (done ++ (k, v) :: r) with (done ++ [(k, v)] ++ r).
    rewrite app_assoc. apply IH. apply inv_step. exact HI.
Qed.

Lemma inv_init H0 : Inv H0 [] (sort_key H0).
Proof.
  split; [apply sort_key_sorted|]. split.
  - apply Permutation_filter. apply sort_key_perm.
  - intros k v H. discriminate H.
Qed.

(* ---- ids of a freshly parsed table ------------------------------------------------------------------- *)
Lemma hdrs_of_ids n fs : Forall (fun h => n < h_id h) (hdrs_of n fs) /\ StronglySorted ilt (hdrs_of n fs).
Proof.
  revert n; induction fs as [|f r IH]; intros n; cbn [hdrs_of]; [split; constructor|].
  destruct (IH (S n)) as [Hf Hs]. split.
  - constructor; [cbn; lia|]. eapply Forall_impl; [|exact Hf]. cbn. intros; lia.
  - constructor; [exact Hs|]. eapply Forall_impl; [|exact Hf]. unfold ilt. cbn. intros; lia.
Qed.

Lemma ssorted_filter {A} (R : A -> A -> Prop) P l : StronglySorted R l -> StronglySorted R (filter P l).
Proof.
  induction 1 as [|x l Hs IH Hx]; cbn [filter]; [constructor|].
  destruct (P x); [|exact IH]. constructor; [exact IH|].
  rewrite Forall_forall in *. intros y Hy. apply filter_In in Hy as [Hy _]. auto.
Qed.

Definition kv_of_hdr (h : hdr) : bytes * bytes := (h_key h, h_val h).

Lemma hdrs_of_kv n fs : map kv_of_hdr (hdrs_of n fs) = map kv_of_field fs.
Proof. revert n; induction fs as [|f r IH]; intros n; cbn; [reflexivity | rewrite IH; reflexivity]. Qed.

Lemma filter_map_commute {A B} (g : A -> B) (P : B -> bool) l :
  filter P (map g l) = map g (filter (fun x => P (g x)) l).
Proof. induction l as [|x l IH]; cbn; [reflexivity|]. destruct (P (g x)); cbn; rewrite IH; reflexivity. Qed.

(* name predicates on (name, value) pairs *)
Definition kv_untouched (K : list bytes) (kv : bytes * bytes) : bool :=
  forallb (fun k => negb (caseeq k (fst kv))) K.
Definition kv_named (k : bytes) (kv : bytes * bytes) : bool := caseeq k (fst kv).

(* ---- the rewrite theorem -------------------------------------------------------------------------------- *)
(* fields written by message_write after parsing the text of [fs] and applying [sets] *)
Definition written_fields (fs : list field) (sets : list (bytes * bytes)) : list (bytes * bytes) :=
  map kv_of_hdr (sort_id (apply_sets (sort_key (hdrs_of 0 fs)) sets)).

Definition render_kv (kv : bytes * bytes) : bytes := fst kv ++ [58%N; 32%N] ++ snd kv ++ [10%N].

Theorem rewrite_bytes fs body sets :
  render (apply_sets (sort_key (hdrs_of 0 fs)) sets) body
  = concat (map render_kv (written_fields fs sets)) ++ [10%N] ++ body.
Proof.
  unfold render, written_fields. rewrite map_map. reflexivity.
Qed.

Theorem rewrite_preserves_others fs sets :
  filter (kv_untouched (map fst sets)) (written_fields fs sets)
  = filter (kv_untouched (map fst sets)) (map kv_of_field fs).
Proof.
  unfold written_fields. set (H0 := hdrs_of 0 fs). set (K := map fst sets).
  destruct (inv_sets H0 sets [] (sort_key H0) (inv_init H0)) as (_ & Hp & _). cbn [app] in Hp. fold K in Hp.
  rewrite filter_map_commute.
  change (fun x : hdr => kv_untouched K (kv_of_hdr x)) with (untouched K).
  rewrite sort_id_filter.
  rewrite (sort_id_of_perm _ (filter (untouched K) H0)).
  - rewrite <- (hdrs_of_kv 0 fs). fold H0. rewrite filter_map_commute. reflexivity.
  - apply ssorted_filter. apply (proj2 (hdrs_of_ids 0 fs)).
  - exact Hp.
Qed.

Theorem rewrite_sets_exactly_once fs sets k v :
  lastval sets k = Some v ->
  exists k', filter (kv_named k) (written_fields fs sets) = [(k', v)] /\ caseeq k k' = true.
Proof.
  intros Hl. unfold written_fields. set (H0 := hdrs_of 0 fs).
  destruct (inv_sets H0 sets [] (sort_key H0) (inv_init H0)) as (_ & _ & Hlast). cbn [app] in Hlast.
  destruct (Hlast k v Hl) as (h & Hf & Hv).
  rewrite filter_map_commute. change (fun x : hdr => kv_named k (kv_of_hdr x)) with (keq k).
  rewrite sort_id_filter, Hf. unfold sort_id. cbn [fold_right insert_id map]. unfold kv_of_hdr.
  exists (h_key h). rewrite Hv. split; [reflexivity|].
  assert (In h (filter (keq k) (apply_sets (sort_key H0) sets))) by (rewrite Hf; left; reflexivity).
  apply filter_In in H as [_ H]. exact H.
Qed.

(* the table is key-sorted again after message_write, so later lookups (body decoding, attachment
   parsing, a second rewrite) see every header *)
Theorem message_write_keeps_sorted m : SortedK (m_headers (snd (message_write m))).
Proof. cbn. apply sort_key_sorted. Qed.

(* ---- lookups on a parsed message (C10) ---------------------------------------------------------------- *)
Lemma hdrs_of_filter_vals name n fs :
  map h_val (filter (keq name) (hdrs_of n fs)) = map f_val (filter (fun f => caseeq name (f_key f)) fs).
Proof.
  revert n; induction fs as [|f r IH]; intros n; [reflexivity|]. cbn [hdrs_of filter].
  unfold keq at 1. cbn [h_key]. destruct (caseeq name (f_key f)); cbn [map h_val]; rewrite IH; reflexivity.
Qed.

Definition nonempty_opt {A} (l : list A) : option (list A) := match l with [] => None | _ => Some l end.

Theorem get_header_parsed fs name :
  get_header (sort_key (hdrs_of 0 fs)) name =
  nonempty_opt (map decodeheader (map f_val (filter (fun f => caseeq name (f_key f)) fs))).
Proof.
  rewrite get_header_sorted by apply sort_key_sorted. rewrite sort_key_filter.
  rewrite <- hdrs_of_filter_vals with (n := 0). rewrite map_map.
  destruct (filter (keq name) (hdrs_of 0 fs)); reflexivity.
Qed.

(* ---- the written bytes are themselves a well-formed message text ---------------------------------------- *)
Definition field_of_hdr (h : hdr) : field := mkfield (h_key h) [32%N] (h_val h).

Lemma render_is_text T body : render T body = message_text (map field_of_hdr (sort_id T)) body.
Proof.
  unfold render, message_text, fields_text. rewrite map_map. reflexivity.
Qed.

Definition wf_hdr (h : hdr) : bool := wf_key (h_key h) && wf_val (h_val h).

Lemma wf_hdr_field h : wf_hdr h = true -> wf_field (field_of_hdr h) = true.
Proof.
  unfold wf_hdr, wf_field, field_of_hdr. cbn [f_key f_blank f_val forallb]. intros H.
  apply andb_true_iff in H as [-> ->]. reflexivity.
Qed.

Lemma Forall_set_nth_val (P : hdr -> Prop) l i v :
  Forall P l -> (forall h, P h -> P (mkhdr (h_id h) (h_key h) v)) -> Forall P (set_nth_val l i v).
Proof.
  intros Hl Hp. revert i. induction Hl as [|x l Hx Hl' IH]; intros i; cbn [set_nth_val].
  - destruct i; constructor.
  - destruct i; constructor; auto.
Qed.

Lemma Forall_firstn {A} (P : A -> Prop) n l : Forall P l -> Forall P (firstn n l).
Proof.
  intros H. revert n. induction H as [|x l Hx _ IH]; intros [|n]; cbn [firstn]; constructor; auto.
Qed.
Lemma Forall_skipn {A} (P : A -> Prop) n l : Forall P l -> Forall P (skipn n l).
Proof.
  intros H. revert n. induction H as [|x l Hx Hl IH]; intros [|n]; cbn [skipn]; try constructor; auto.
Qed.

Lemma set_header_wf T k v :
  Forall (fun h => wf_hdr h = true) T -> wf_key k = true -> wf_val v = true ->
  Forall (fun h => wf_hdr h = true) (set_header T k v).
Proof.
  intros HT Hk Hv. unfold set_header. destruct (searchheader T k).
  - apply Forall_set_nth_val.
    + apply Forall_app. split; [apply Forall_firstn | apply Forall_skipn]; exact HT.
    + intros h Hh. unfold wf_hdr in *. cbn [h_key h_val]. apply andb_true_iff in Hh as [-> _]. exact Hv.
  - eapply Permutation_Forall; [symmetry; apply sort_key_perm|]. apply Forall_app. split; [exact HT|].
    constructor; [|constructor]. unfold wf_hdr. cbn [h_key h_val]. rewrite Hk, Hv. reflexivity.
  - eapply Permutation_Forall; [symmetry; apply sort_key_perm|]. apply Forall_app. split; [exact HT|].
    constructor; [|constructor]. unfold wf_hdr. cbn [h_key h_val]. rewrite Hk, Hv. reflexivity.
Qed.

Lemma apply_sets_wf : forall sets T,
  Forall (fun h => wf_hdr h = true) T ->
  Forall (fun kv => wf_key (fst kv) = true /\ wf_val (snd kv) = true) sets ->
  Forall (fun h => wf_hdr h = true) (apply_sets T sets).
Proof.
  induction sets as [|[k v] r IH]; intros T HT Hs; [exact HT|].
  inversion Hs as [|? ? [Hk Hv] Hr]; subst. cbn [apply_sets fold_left fst snd] in *.
  apply IH; [|exact Hr]. apply set_header_wf; assumption.
Qed.

Lemma hdrs_of_wf n fs : forallb wf_field fs = true -> Forall (fun h => wf_hdr h = true) (hdrs_of n fs).
Proof.
  revert n; induction fs as [|f r IH]; intros n H; cbn [hdrs_of]; [constructor|].
  cbn [forallb] in H. apply andb_true_iff in H as [Hf Hr]. constructor; [|apply IH; exact Hr].
  unfold wf_field in Hf. apply andb_true_iff in Hf as [Hf Hv]. apply andb_true_iff in Hf as [Hk _].
  unfold wf_hdr. cbn [h_key h_val]. rewrite Hk, Hv. reflexivity.
Qed.

(* Reading the rewritten file back yields exactly the written fields and the original body. *)
Theorem rewrite_reparse fs body sets :
  wf_message fs body = true ->
  Forall (fun kv => wf_key (fst kv) = true /\ wf_val (snd kv) = true) sets ->
  let T := apply_sets (sort_key (hdrs_of 0 fs)) sets in
  parse_message (render T body)
  = Some (mkmsg (sort_key (hdrs_of 0 (map field_of_hdr (sort_id T)))) body).
Proof.
  intros Hw Hs T. rewrite render_is_text. apply parse_message_text.
  unfold wf_message in *. apply andb_true_iff in Hw as [Hf Hb]. rewrite Hb, andb_true_r.
  rewrite forallb_forall. intros f Hin. apply in_map_iff in Hin as (h & <- & Hh).
  apply wf_hdr_field.
  assert (HT : Forall (fun h => wf_hdr h = true) T).
  { apply apply_sets_wf; [|exact Hs]. eapply Permutation_Forall; [symmetry; apply sort_key_perm|].
    apply hdrs_of_wf. exact Hf. }
  rewrite Forall_forall in HT. apply HT. eapply Permutation_in; [apply sort_id_perm | exact Hh].
Qed.
