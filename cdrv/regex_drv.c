#include <stdlib.h>
#include <locale.h>
/* platform regex oracle:  rx <icase 0|1> <patternhex> <subjecthex>  ->  "M so eo [so eo]..." | "N" | "E"
 * flags are those expr_set_pattern() passes: REG_EXTENDED | REG_NEWLINE (| REG_ICASE). */
#include <regex.h>
#include "hex.h"

int main(void) {
	char *line = NULL;
	/* like mdsort itself: the character type of the environment (LC_ALL / LC_CTYPE) decides how regexec reads bytes */
	if (getenv("VERIF_RX_LOCALE") != NULL) setlocale(LC_CTYPE, getenv("VERIF_RX_LOCALE"));
	size_t cap = 0;
	while (getline(&line, &cap, stdin) > 0) {
		char *tok[8];
		int n = split(line, tok, 8);
		regex_t re;
		regmatch_t m[32];
		char *pat, *sub;
		int flags = REG_EXTENDED | REG_NEWLINE, r;
		size_t i;
		if (n < 4) { puts("E"); continue; }
		if (tok[1][0] == '1') flags |= REG_ICASE;
		pat = unhex(tok[2], NULL);
		sub = unhex(tok[3], NULL);
		if (regcomp(&re, pat, flags) != 0) { puts("E"); free(pat); free(sub); continue; }
		r = regexec(&re, sub, re.re_nsub + 1 > 32 ? 32 : re.re_nsub + 1, m, 0);
		if (r == REG_NOMATCH) puts("N");
		else if (r != 0) puts("E");
		else {
			fputs("M", stdout);
			for (i = 0; i <= re.re_nsub && i < 32; i++)
				printf(" %d %d", (int)m[i].rm_so, (int)m[i].rm_eo);
			putchar('\n');
		}
		regfree(&re);
		free(pat); free(sub);
	}
	free(line);
	return 0;
}
