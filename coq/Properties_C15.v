(* C15 - date conditions compare the true age of the message.
   Model: DateDefs (Gregorian day count, the three layouts, tzoff, time_parse as repaired for F-13, the
   strict comparison).  strptime / timegm are libc: the model parses exactly the forms it prints and
   counts days itself; that these agree with libc on the printed forms is what the correspondence checks.
   Proved: the day count is the Gregorian calendar on 1970-2037 (origin + every day steps by one: a
   sweep over all 24837 days, lifted); every printed layout parses back to the same fields, the layout
   without seconds yields second 0; tzoff is exact for -2359..+2359 and rejects hours > 23 / minutes > 59;
   time_parse of a printed date with a numeric zone or GMT / UT / UTC is the true instant - the local zone
   is not an input of the function; date > N / date < N are the strict comparisons, so thresholds one second
   on either side of the true age decide as stated; the unit table and the unambiguous abbreviations.
   The formula before the repair is refuted (off by the difference of two local offsets).
   Ages that overflow are rejected at parse time: C14_age_fits. *)
From MD Require Import Bytes Generated ConfDefs DateDefs DateProofs.
Local Open Scope Z_scope.

Theorem C15_calendar_origin : days_from_civil 1970 1 1 = 0.
Proof. exact epoch_origin. Qed.
Print Assumptions C15_calendar_origin.

Theorem C15_calendar_step : forall y m d, valid_day y m d ->
  let '(y', m', d') := next_day y m d in days_from_civil y' m' d' = days_from_civil y m d + 1.
Proof. exact next_day_plus_one. Qed.
Print Assumptions C15_calendar_step.

Theorem C15_layouts_roundtrip : forall layout c r, (layout <= 2)%nat -> valid_fields c ->
  parse_layout layout (print_date layout c ++ r) = Some (parsed_as layout c, r).
Proof. exact parse_layout_print. Qed.
Print Assumptions C15_layouts_roundtrip.

Theorem C15_zone_offsets : forall neg hh mm r, 0 <= hh <= 23 -> 0 <= mm <= 59 ->
  tzoff (print_zone neg hh mm ++ r) = Some ((if neg then -1 else 1) * (hh * 3600 + mm * 60)).
Proof. exact tzoff_print. Qed.
Print Assumptions C15_zone_offsets.

Theorem C15_zone_rejects_hours : forall neg hh mm r, 24 <= hh <= 99 -> 0 <= mm <= 99 -> tzoff (print_zone neg hh mm ++ r) = None.
Proof. exact tzoff_rejects_hours. Qed.
Print Assumptions C15_zone_rejects_hours.

Theorem C15_zone_rejects_minutes : forall neg hh mm r, 0 <= hh <= 23 -> 60 <= mm <= 99 -> tzoff (print_zone neg hh mm ++ r) = None.
Proof. exact tzoff_rejects_minutes. Qed.
Print Assumptions C15_zone_rejects_minutes.

Theorem C15_true_instant : forall abbr layout c neg hh mm, (layout <= 2)%nat -> valid_fields c ->
  0 <= hh <= 23 -> 0 <= mm <= 59 ->
  time_parse abbr (print_date layout c ++ sp ++ print_zone neg hh mm) = Some (epoch_of (parsed_as layout c) - zone_seconds neg hh mm).
Proof. exact time_parse_true_instant. Qed.
Print Assumptions C15_true_instant.

Theorem C15_true_instant_utc_names : forall abbr layout c name, (layout <= 2)%nat -> valid_fields c ->
  is_utc_name name = true -> abbr name = Some 0 ->
  time_parse abbr (print_date layout c ++ sp ++ name) = Some (epoch_of (parsed_as layout c)).
Proof. exact time_parse_utc_names. Qed.
Print Assumptions C15_true_instant_utc_names.

Theorem C15_greater : forall now tim age, date_cond true now tim age = true <-> now - tim > age.
Proof. exact date_cond_gt. Qed.
Print Assumptions C15_greater.

Theorem C15_less : forall now tim age, date_cond false now tim age = true <-> now - tim < age.
Proof. exact date_cond_lt. Qed.
Print Assumptions C15_less.

Theorem C15_thresholds : forall now tim,
  date_cond true now tim (now - tim - 1) = true /\ date_cond true now tim (now - tim) = false /\
  date_cond false now tim (now - tim + 1) = true /\ date_cond false now tim (now - tim) = false.
Proof. exact thresholds. Qed.
Print Assumptions C15_thresholds.

Theorem C15_units : map snd scalars = [1; 60; 3600; 86400; 604800; 2592000; 31536000].
Proof. exact units_table. Qed.
Print Assumptions C15_units.

Theorem C15_unit_abbreviations :
  lex_scalar (ab [115]) = POk 1%N [] /\ lex_scalar (ab [109;105]) = POk 60%N [] /\ lex_scalar (ab [104]) = POk 3600%N [] /\
  lex_scalar (ab [100]) = POk 86400%N [] /\ lex_scalar (ab [119]) = POk 604800%N [] /\ lex_scalar (ab [109;111]) = POk 2592000%N [] /\
  lex_scalar (ab [121]) = POk 31536000%N [] /\ lex_scalar (ab [109]) = PErr /\ lex_scalar (ab [115;101;99;111;110;100;115;120]) = PErr.
Proof. exact unit_abbreviations. Qed.
Print Assumptions C15_unit_abbreviations.

(* F-13, the code before the fix: mktime in the local zone, the zone subtracted, the local offset now added *)
Theorem C15_old_formula_refuted :
  exists mk loc_now c,
    valid_fields c /\ (forall c', mk c' = epoch_of c' - 7200) /\ loc_now = 3600 /\
    time_parse_old mk loc_now (fun _ => None) (print_date 0 c ++ sp ++ print_zone false 0 0) <> Some (epoch_of c).
Proof. exact time_parse_old_refuted. Qed.
Print Assumptions C15_old_formula_refuted.

Example C15_example : time_parse (fun _ => None)
  (print_date 0 (mkcivil 2024 3 31 2 30 0) ++ sp ++ print_zone true 3 30) = Some (1711852200 + 12600).
Proof. vm_compute. reflexivity. Qed.
Print Assumptions C15_example.
