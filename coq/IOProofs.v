(* Single-fault, double-fault, kill and power-failure theorems for the I/O protocols.
   Each protocol is a finite interaction tree, its world is finite: the theorems are finite sweeps
   (vm_compute over every call index x outcome) lifted to all indices by [run_ext]. *)
From Coq Require Import List Bool Arith Lia.
Import ListNotations.
From MD Require Import IODefs.

(* ---- oracles that agree on the calls a program can make give the same run -------------------------- *)
Fixpoint depth (p : prog) : nat :=
  match p with
  | Ret _ => 0
  | Call _ k => S (Nat.max (depth (k Ok)) (Nat.max (depth (k Fail)) (depth (k Exdev))))
  end.

Lemma run_ext p : forall O1 O2 i w tr,
  (forall j, i <= j < i + depth p -> O1 j = O2 j) -> run p O1 i w tr = run p O2 i w tr.
Proof.
  induction p as [s|o k IH]; intros O1 O2 i w tr H; cbn [run]; [reflexivity|].
  assert (E : O1 i = O2 i) by (apply H; cbn [depth]; lia). rewrite E.
  apply IH. intros j Hj. apply H. cbn [depth].
  destruct (O2 i); lia.
Qed.

Lemma single_beyond p k r w : depth p <= k -> run p (single k r) 0 w [] = run p nofault 0 w [].
Proof.
  intros H. apply run_ext. intros j Hj. unfold single, nofault.
  destruct (Nat.eqb_spec j k); [lia | reflexivity].
Qed.

Lemma double_beyond p k1 r1 k2 r2 w : depth p <= k2 ->
  run p (double k1 r1 k2 r2) 0 w [] = run p (single k1 r1) 0 w [].
Proof.
  intros H. apply run_ext. intros j Hj. unfold double, single.
  destruct (Nat.eqb_spec j k1); [reflexivity|]. destruct (Nat.eqb_spec j k2); [lia | reflexivity].
Qed.

(* ---- the scenario space ------------------------------------------------------------------------------ *)
(* index of the renameat call in exec_move *)
Definition rename_index (stdin : bool) : nat := if stdin then 2 else 3.

(* the environment part of the oracle (not a fault): EXDEV at the rename for AMoveX *)
Definition env_oracle (a : action) (O : oracle) : oracle :=
  match a with
  | AMoveX s => fun i => if Nat.eqb i (rename_index s) then Exdev else O i
  | _ => O
  end.

Definition run_action (a : action) (ver mt : nat) (O : oracle) : result :=
  run (prog_of a ver) (env_oracle a O) 0 (w0v ver mt) [].

Definition all_actions : list action :=
  [AMove false; AMove true; AMoveX false; AMoveX true; AWrite; ADiscard].
Definition bound : nat := 16.       (* no protocol issues more calls than this *)
Definition faults : list outcome := [Fail; Exdev].

Lemma depth_bound : forallb (fun a => forallb (fun v => Nat.leb (depth (prog_of a v)) bound) [0; 1]) all_actions = true.
Proof. vm_compute. reflexivity. Qed.

(* failures mdsort deliberately tolerates (finding F-15): the fstatat for the mtime and the close of
   a descriptor it only created / wrote through stdio *)
Definition tolerated (o : op) : bool :=
  match o with Stat _ | Close _ => true | _ => false end.

(* was the k-th call of the trace a real (injected) failure at a site whose failure must be reported? *)
Definition reported_fault (a : action) (tr : list (op * outcome)) (k : nat) : bool :=
  match nth_error tr k with
  | Some (o, r) =>
      match r with
      | Ok => false
      | Exdev => negb (tolerated o) &&
                 negb (match o with Rename _ _ => true | _ => false end)   (* EXDEV at the rename is recovered from, not a failure *)
      | Fail => negb (tolerated o)
      end
  | None => false
  end.

(* where the message must be when the action succeeded *)
Definition final_ok (a : action) (ver mt : nat) (w : world) : bool :=
  match a with
  | AMove s | AMoveX s =>
      absent w Src && absent w New &&
      match file_at w Dst with
      | Some f => (match f_data f with Complete v => Nat.eqb v ver | _ => false end)
      | None => false
      end
  | AWrite =>
      absent w Src && absent w Dst &&
      match file_at w New with
      | Some f => (match f_data f with Complete 1 => true | _ => false end) && f_durable f
      | None => false
      end
  | ADiscard => absent w Src && absent w Dst && absent w New
  end.

(* C01 for one run *)
Definition c01_check (a : action) (ver mt : nat) (O : oracle) (k : nat) : bool :=
  let res := run_action a ver mt O in
  (* (a)+(b): exactly once and no stray - or removed by the discard that was asked for *)
  (match a with
   | ADiscard => exactly_once (r_world res) || (absent (r_world res) Src && absent (r_world res) Dst && absent (r_world res) New)
   | _ => exactly_once (r_world res)
   end) &&
  (* (c): a fault at a reported site gives a non-zero status *)
  (if reported_fault a (r_trace res) k then negb (Nat.eqb (r_status res) 0) else true) &&
  (* (d): status 0 implies final destination and content (and the mtime for moves from a maildir) *)
  (if Nat.eqb (r_status res) 0 then final_ok a ver mt (r_world res) else true).

Definition params : list (nat * nat) := [(0, 0); (0, 1); (1, 0); (1, 1)].

Lemma c01_sweep :
  forallb (fun a => forallb (fun vm => forallb (fun k => forallb (fun r =>
     c01_check a (fst vm) (snd vm) (single k r) k) faults) (seq 0 bound)) params) all_actions = true.
Proof. vm_compute. reflexivity. Qed.

Lemma c01_nofault_sweep :
  forallb (fun a => forallb (fun vm => c01_check a (fst vm) (snd vm) nofault 0 &&
                                       Nat.eqb (r_status (run_action a (fst vm) (snd vm) nofault)) 0) params) all_actions = true.
Proof. vm_compute. reflexivity. Qed.

(* a moved message keeps its modification time (fault-free run, source in a maildir) *)
Definition mtime_kept (a : action) (ver mt : nat) (O : oracle) : bool :=
  match a with
  | AMove false | AMoveX false =>
      match file_at (r_world (run_action a ver mt O)) Dst with
      | Some f => Nat.eqb (f_mtime f) mt
      | None => false
      end
  | _ => true
  end.

Lemma mtime_sweep : forallb (fun a => forallb (fun v => mtime_kept a v 1 nofault) [0; 1]) all_actions = true.
Proof. vm_compute. reflexivity. Qed.

(* F-15a: when the (tolerated) fstatat fails on a cross-device move, the copy keeps a fresh mtime
   and the status is still 0 *)
Lemma mtime_lost_refuted :
  let res := run_action (AMoveX false) 0 1 (single 1 Fail) in
  r_status res = 0 /\ mtime_kept (AMoveX false) 0 1 (single 1 Fail) = false.
Proof. vm_compute. split; reflexivity. Qed.

Lemma in_all_actions a : In a all_actions.
Proof. destruct a as [[]|[]| |]; cbn; auto 10. Qed.
Lemma in_faults r : r <> Ok -> In r faults.
Proof. destruct r; cbn; intros H; auto; congruence. Qed.
Lemma in_params v m : v <= 1 -> m <= 1 -> In (v, m) params.
Proof. intros Hv Hm. destruct v as [|[|v]], m as [|[|m]]; cbn; auto 10; lia. Qed.

Lemma env_oracle_ext a O1 O2 : (forall j, j < bound -> O1 j = O2 j) -> forall j, j < bound -> env_oracle a O1 j = env_oracle a O2 j.
Proof. intros H j Hj. destruct a; cbn; auto. destruct (Nat.eqb j (rename_index stdin)); auto. Qed.

Lemma run_action_ext a v m O1 O2 : v <= 1 ->
  (forall j, j < bound -> O1 j = O2 j) -> run_action a v m O1 = run_action a v m O2.
Proof.
  intros Hv H. unfold run_action. apply run_ext. intros j Hj.
  apply env_oracle_ext; [exact H|].
  pose proof depth_bound as D. rewrite forallb_forall in D. specialize (D a (in_all_actions a)).
  rewrite forallb_forall in D.
  assert (Hin : In v [0; 1]) by (destruct v as [|[|v]]; cbn; auto; lia).
  specialize (D v Hin). apply Nat.leb_le in D. lia.
Qed.

(* C01, one action, any single fault at ANY call index *)
Theorem c01_single_fault a v m k r : v <= 1 -> m <= 1 -> r <> Ok ->
  c01_check a v m (single k r) k = true.
Proof.
  intros Hv Hm Hr.
  destruct (Nat.lt_ge_cases k bound) as [Hk|Hk].
  - pose proof c01_sweep as S. rewrite forallb_forall in S. specialize (S a (in_all_actions a)).
    rewrite forallb_forall in S. specialize (S (v, m) (in_params v m Hv Hm)).
    rewrite forallb_forall in S. specialize (S k). cbn [fst snd] in S.
    rewrite forallb_forall in S. apply S; [apply in_seq; lia | apply in_faults; exact Hr].
  - (* beyond the last call: the run is the fault-free one, and no call has index k *)
    pose proof c01_nofault_sweep as S. rewrite forallb_forall in S. specialize (S a (in_all_actions a)).
    rewrite forallb_forall in S. specialize (S (v, m) (in_params v m Hv Hm)). cbn [fst snd] in S.
    apply andb_true_iff in S as [S _].
    unfold c01_check in *.
    assert (E : run_action a v m (single k r) = run_action a v m nofault).
    { apply run_action_ext; [exact Hv|]. intros j Hj. unfold single, nofault. destruct (Nat.eqb_spec j k); [lia | reflexivity]. }
    rewrite E.
    assert (Hnone : reported_fault a (r_trace (run_action a v m nofault)) k = false).
    { unfold reported_fault.
      assert (L : length (r_trace (run_action a v m nofault)) <= bound).
      { clear - Hv. destruct a as [[]|[]| |], v as [|[|v]]; try lia; vm_compute; lia. }
      rewrite (proj2 (nth_error_None _ _)) by lia. reflexivity. }
    rewrite Hnone.
    apply andb_true_iff in S as [S S3]. apply andb_true_iff in S as [S1 _].
    rewrite S1, S3. reflexivity.
Qed.

(* C01 thorough clause: with two faults nothing is lost *)
Definition noloss_check (a : action) (ver mt : nat) (O : oracle) : bool :=
  let res := run_action a ver mt O in
  match a with
  | ADiscard => true
  | _ => some_intact (r_world res)
  end.

Lemma double_sweep :
  forallb (fun a => forallb (fun vm => forallb (fun k1 => forallb (fun r1 => forallb (fun k2 => forallb (fun r2 =>
     noloss_check a (fst vm) (snd vm) (double k1 r1 k2 r2)) faults) (seq 0 bound)) faults) (seq 0 bound)) params) all_actions = true.
Proof. vm_compute. reflexivity. Qed.

Theorem c01_double_fault_noloss a v m k1 r1 k2 r2 : v <= 1 -> m <= 1 -> r1 <> Ok -> r2 <> Ok ->
  k1 < bound -> k2 < bound -> noloss_check a v m (double k1 r1 k2 r2) = true.
Proof.
  intros Hv Hm H1 H2 Hk1 Hk2.
  pose proof double_sweep as S. rewrite forallb_forall in S. specialize (S a (in_all_actions a)).
  rewrite forallb_forall in S. specialize (S (v, m) (in_params v m Hv Hm)). cbn [fst snd] in S.
  rewrite forallb_forall in S. specialize (S k1 ltac:(apply in_seq; lia)).
  rewrite forallb_forall in S. specialize (S r1 (in_faults r1 H1)).
  rewrite forallb_forall in S. specialize (S k2 ltac:(apply in_seq; lia)).
  rewrite forallb_forall in S. exact (S r2 (in_faults r2 H2)).
Qed.

(* ---- C02: crash states ---------------------------------------------------------------------------------- *)
Definition crash_check (a : action) (ver mt : nat) (O : oracle) : bool :=
  let tr := r_trace (run_action a ver mt O) in
  let w := w0v ver mt in
  forallb (fun k =>
    (* kill before call k *)
    (match a with
     | ADiscard => true                                       (* the discard itself removes the message *)
     | _ => crash_ok (kill_state tr k w)
     end) &&
    (* power failure after k calls, any metadata prefix j <= k *)
    forallb (fun j => match a with
                      | ADiscard => true
                      | _ => crash_ok (powerfail_state tr j k w)
                      end) (seq 0 (S k)))
    (seq 0 (S (length tr))).

Lemma c02_sweep :
  forallb (fun a => forallb (fun vm =>
     crash_check a (fst vm) (snd vm) nofault &&
     forallb (fun k => forallb (fun r => crash_check a (fst vm) (snd vm) (single k r)) faults) (seq 0 bound))
     params) all_actions = true.
Proof. vm_compute. reflexivity. Qed.

Lemma firstn_beyond {A} (l : list A) k : length l <= k -> firstn k l = firstn (length l) l.
Proof. intros H. rewrite firstn_all, firstn_all2 by lia. reflexivity. Qed.

(* kill at ANY instant and power failure at ANY instant with ANY persisted metadata prefix, for the
   fault-free run and for every run with one fault *)
Theorem c02_crash a v m O k j : v <= 1 -> m <= 1 -> a <> ADiscard ->
  (O = nofault \/ exists kf r, r <> Ok /\ kf < bound /\ O = single kf r) ->
  j <= k ->
  let tr := r_trace (run_action a v m O) in
  crash_ok (kill_state tr k (w0v v m)) = true /\ crash_ok (powerfail_state tr j k (w0v v m)) = true.
Proof.
  intros Hv Hm Ha HO Hjk tr.
  assert (HC : crash_check a v m O = true).
  { pose proof c02_sweep as S. rewrite forallb_forall in S. specialize (S a (in_all_actions a)).
    rewrite forallb_forall in S. specialize (S (v, m) (in_params v m Hv Hm)). cbn [fst snd] in S.
    apply andb_true_iff in S as [S0 S1].
    destruct HO as [->|(kf & r & Hr & Hkf & ->)]; [exact S0|].
    rewrite forallb_forall in S1. specialize (S1 kf ltac:(apply in_seq; lia)).
    rewrite forallb_forall in S1. exact (S1 r (in_faults r Hr)). }
  unfold crash_check in HC. fold tr in HC. rewrite forallb_forall in HC.
  (* indices beyond the trace behave like the end of the trace *)
  set (k' := Nat.min k (length tr)). set (j' := Nat.min j k').
  assert (Hk' : In k' (seq 0 (S (length tr)))) by (apply in_seq; unfold k'; lia).
  specialize (HC k' Hk'). apply andb_true_iff in HC as [HK HP].
  rewrite forallb_forall in HP. specialize (HP j' ltac:(apply in_seq; unfold j'; lia)).
  assert (Ek : firstn k tr = firstn k' tr).
  { unfold k'. destruct (Nat.le_gt_cases k (length tr)); [rewrite Nat.min_l by lia; reflexivity|].
    rewrite Nat.min_r by lia. apply firstn_beyond. lia. }
  assert (Ej : firstn j tr = firstn j' tr).
  { unfold j', k'. destruct (Nat.le_gt_cases j (length tr)).
    - rewrite (Nat.min_l j) by lia. reflexivity.
    - rewrite Nat.min_r by lia. rewrite Nat.min_r by lia. apply firstn_beyond. lia. }
  destruct a; try congruence; unfold kill_state, powerfail_state in *; rewrite Ek, Ej; auto.
Qed.
