(* M8 (exec): util.c:exec()'s mapping of the wait status, what match.c / expr.c make of it, and the
   descriptor table a forked child inherits.  No proofs here. *)
From Coq Require Import List Bool ZArith.
Import ListNotations.
Local Open Scope Z_scope.

Inductive wstatus := WExited (code : Z) | WSignaled (sig : positive) | WaitFailed | ForkFailed | OpenNullFailed.

(* exec(): >0 the command exited non-zero (or was killed), 0 success, <0 fatal *)
Definition exec_result (w : wstatus) : Z :=
  match w with
  | WExited c => if c =? 127 then -1 else c
  | WSignaled s => 128 + Z.pos s
  | WaitFailed | ForkFailed | OpenNullFailed => -1
  end.

(* matches_exec for an exec action: does the action list go on? what is recorded as error? *)
Definition exec_action_error (w : wstatus) : bool := negb (exec_result w =? 0).

(* expr_eval_command *)
Inductive cev := CMatch | CNoMatch | CError.
Definition command_cond (w : wstatus) : cev :=
  let r := exec_result w in
  if r =? 0 then CMatch else if r <? 0 then CError else CNoMatch.

(* ---- descriptors ------------------------------------------------------------------------------------ *)
Record fdesc := mkfd { fd_num : nat; fd_cloexec : bool }.

Inductive fdop :=
| FOpenMsg          (* openat(..., O_RDONLY | O_CLOEXEC) of a message *)
| FOpenDir          (* opendir: O_CLOEXEC *)
| FGenname          (* openat(O_WRONLY|O_CREAT|O_EXCL|O_CLOEXEC) *)
| FDup              (* fcntl(F_DUPFD_CLOEXEC) *)
| FOpenNull         (* open("/dev/null", O_RDONLY | O_CLOEXEC) *)
| FTemp             (* writefd(): mkostemp(O_CLOEXEC)  (mkstemp without the flag before the F-19 repair) *)
| FClose (n : nat).

Definition next_fd (t : list fdesc) : nat := S (fold_right (fun d m => Nat.max (fd_num d) m) 2%nat t).

Definition fd_step (t : list fdesc) (o : fdop) : list fdesc :=
  match o with
  | FClose n => filter (fun d => negb (Nat.eqb (fd_num d) n)) t
  | _ => mkfd (next_fd t) true :: t
  end.

(* what the child keeps after execvp: the descriptors without close-on-exec (0, 1, 2 are inherited
   by design; 0 is replaced by dup2) *)
Definition inherited (t : list fdesc) : list nat :=
  map fd_num (filter (fun d => negb (fd_cloexec d)) t).
