(* C07 (part 3): the index-level scanners compute what the list-level models (the ones the
   correspondence checks compare with the implementation) compute, on every C string. *)
From MD Require Import Bytes Generated DecodeDefs HeaderDefs MimeDefs ScanDefs ScanProofs.
Require Import Lia.
Local Open Scope N_scope.

Lemma skipn_all' {A} (l : list A) n : (length l <= n)%nat -> skipn n l = [].
Proof. intros H. apply skipn_all2. exact H. Qed.

Lemma skipn_nth_cons s i : (i < length s)%nat -> skipn i s = nth i s 0 :: skipn (S i) s.
Proof.
  revert i. induction s as [|c s IH]; intros i Hi; cbn [length] in Hi; [lia|].
  destruct i as [|i]; [reflexivity|]. cbn [skipn nth]. apply IH. lia.
Qed.

Lemma skipn_add {A} (l : list A) a b : skipn a (skipn b l) = skipn (b + a) l.
Proof.
  revert l. induction b as [|b IH]; intros l; [reflexivity|].
  destruct l as [|x l]; [rewrite !skipn_nil; reflexivity|]. cbn [skipn Nat.add]. apply IH.
Qed.

Lemma nonul_nth s i : nonulb s = true -> (i < length s)%nat -> nth i s 0 <> 0.
Proof.
  revert i. induction s as [|c s IH]; intros i Hn Hi; cbn [length] in Hi; [lia|].
  cbn [nonulb forallb] in Hn. apply andb_prop in Hn. destruct Hn as [Hc Hn].
  destruct i as [|i]; cbn [nth].
  - intros ->. discriminate Hc.
  - apply IH; [exact Hn|lia].
Qed.

Lemma nth_end s : nth (length s) s 0 = 0.
Proof. apply nth_overflow. lia. Qed.

(* ---- strncmp = prefixb ---------------------------------------------------------------------- *)
Lemma ix_prefix_ref s : nonulb s = true -> forall lit i, nonulb lit = true -> (i <= length s)%nat ->
  ix_prefix s i lit = Done (prefixb lit (skipn i s)).
Proof.
  intros Hs. induction lit as [|l lr IH]; intros i Hl Hi; cbn [ix_prefix]; [reflexivity|].
  cbn [nonulb forallb] in Hl. apply andb_prop in Hl. destruct Hl as [Hl0 Hl].
  unfold rdk. rewrite rd_ok by exact Hi.
  destruct (Nat.eq_dec i (length s)) as [->|Hne].
  - rewrite nth_end, skipn_all. cbn [prefixb].
    destruct (0 =? l) eqn:E; [apply N.eqb_eq in E; subst l; discriminate Hl0|reflexivity].
  - assert (Hlt : (i < length s)%nat) by lia.
    rewrite (skipn_nth_cons s i Hlt). cbn [prefixb]. rewrite (N.eqb_sym l).
    destruct (nth i s 0 =? l); cbn [andb]; [|reflexivity].
    pose proof (nonul_nth s i Hs Hlt) as Hnz. apply N.eqb_neq in Hnz. rewrite Hnz.
    apply IH; [exact Hl|lia].
Qed.

Lemma ix_prefix_full s lit i : nonulb s = true -> nonulb lit = true -> (i <= length s)%nat ->
  ix_prefix s i lit = Done (prefixb lit (skipn i s)) /\
  (prefixb lit (skipn i s) = true -> (i + length lit <= length s)%nat).
Proof.
  intros Hs Hl Hi. split; [apply ix_prefix_ref; assumption|].
  intros Hp. destruct (ix_prefix_safe s lit i Hi) as [p [Ep Hb]].
  rewrite (ix_prefix_ref s Hs lit i Hl Hi) in Ep. injection Ep as <-. apply Hb; assumption.
Qed.

(* ---- skipline ------------------------------------------------------------------------------------ *)
Lemma ix_skipline_ref s : nonulb s = true -> forall fuel i, (i <= length s)%nat -> (length s - i < fuel)%nat ->
  exists j, ix_skipline fuel s i = Done j /\ (i <= j <= length s)%nat /\ skipn j s = skipline (skipn i s).
Proof.
  intros Hs. induction fuel as [|f IH]; intros i Hi Hf; [lia|].
  cbn [ix_skipline]. unfold rdk. rewrite rd_ok by exact Hi.
  destruct (Nat.eq_dec i (length s)) as [->|Hne].
  - rewrite nth_end. cbn [N.eqb]. exists (length s). split; [reflexivity|]. split; [lia|].
    rewrite skipn_all. reflexivity.
  - assert (Hlt : (i < length s)%nat) by lia.
    pose proof (nonul_nth s i Hs Hlt) as Hnz. apply N.eqb_neq in Hnz. rewrite Hnz.
    rewrite (skipn_nth_cons s i Hlt). cbn [skipline].
    destruct (nth i s 0 =? 10).
    + exists (S i). split; [reflexivity|]. split; [lia|reflexivity].
    + destruct (IH (S i)) as [j [Hj [Hb He]]]; [lia|lia|]. exists j. split; [exact Hj|]. split; [lia|exact He].
Qed.

(* ---- findboundary ----------------------------------------------------------------------------------- *)
Definition lift (s : bytes) (r : option (nat * bool)) : option (bytes * bool) :=
  match r with Some (p, t) => Some (skipn p s, t) | None => None end.

Lemma s_dd_lit : s_dd = [45; 45]. Proof. reflexivity. Qed.

Theorem ix_findboundary_ref b s : nonulb s = true -> nonulb b = true ->
  forall fuel i (skip : bool) r, (i <= length s)%nat ->
  ix_findboundary fuel b s i skip = Done r ->
  findboundary fuel b (skipn i s) skip = Some (lift s r).
Proof.
  intros Hs Hb. induction fuel as [|f IH]; intros i skip r Hi H; [discriminate H|].
  cbn [ix_findboundary] in H. cbn [findboundary].
  assert (exists i1, (if skip then ix_skipline (S (length s)) s i else Done i) = Done i1 /\ (i <= i1 <= length s)%nat /\
                     skipn i1 s = (if skip then skipline (skipn i s) else skipn i s)) as [i1 [E1 [H1 Hs1]]].
  { destruct skip; [apply ix_skipline_ref; [exact Hs|lia|lia]|]. exists i. split; [reflexivity|]. split; [lia|reflexivity]. }
  rewrite E1 in H. cbn [bind] in H.
  assert (Hgoal : forall X, X = skipn i1 s ->
     match X with
     | [] => Some None
     | _ :: _ =>
        if negb (prefixb s_dd X) then findboundary f b X true
        else if negb (prefixb b (skipn 2 X)) then findboundary f b (skipn 2 X) true
        else let '(s3, term) := if prefixb s_dd (skipn (length b) (skipn 2 X))
                                then (skipn 2 (skipn (length b) (skipn 2 X)), true)
                                else (skipn (length b) (skipn 2 X), false) in
             match s3 with
             | c :: _ => if c =? 10 then Some (Some (X, term)) else findboundary f b s3 true
             | [] => findboundary f b s3 true
             end
     end = Some (lift s r)); [|destruct skip; apply Hgoal; symmetry; exact Hs1].
  intros X ->. clear Hs1 E1.
  unfold rdk at 1 in H. rewrite rd_ok in H by lia.
  destruct (Nat.eq_dec i1 (length s)) as [->|Hne].
  { rewrite nth_end in H. cbn [N.eqb] in H. injection H as <-. rewrite skipn_all. reflexivity. }
  assert (Hlt : (i1 < length s)%nat) by lia.
  pose proof (nonul_nth s i1 Hs Hlt) as Hnz. apply N.eqb_neq in Hnz. rewrite Hnz in H.
  assert (Hm : forall (x y : option (option (bytes * bool))), match skipn i1 s with [] => x | _ :: _ => y end = y).
  { intros x y. rewrite (skipn_nth_cons s i1 Hlt). reflexivity. }
  rewrite Hm. clear Hm.
  rewrite s_dd_lit.
  destruct (ix_prefix_full s [45; 45] i1 Hs eq_refl) as [E1 B1]; [lia|]. rewrite E1 in H. cbn [bind] in H. clear E1.
  destruct (prefixb [45; 45] (skipn i1 s)) eqn:P1; cbn [negb] in H |- *.
  2:{ apply IH in H; [exact H|lia]. }
  specialize (B1 eq_refl). cbn [length] in B1.
  rewrite skipn_add.
  destruct (ix_prefix_full s b (i1 + 2) Hs Hb) as [E2 B2]; [lia|]. rewrite E2 in H. cbn [bind] in H. clear E2.
  destruct (prefixb b (skipn (i1 + 2) s)) eqn:P2; cbn [negb] in H |- *.
  2:{ apply IH in H; [exact H|lia]. }
  specialize (B2 eq_refl).
  rewrite skipn_add.
  destruct (ix_prefix_full s [45; 45] (i1 + 2 + length b) Hs eq_refl) as [E3 B3]; [lia|]. rewrite E3 in H. cbn [bind] in H. clear E3.
  destruct (prefixb [45; 45] (skipn (i1 + 2 + length b) s)) eqn:P3.
  - specialize (B3 eq_refl). cbn [length] in B3.
    rewrite skipn_add. set (i4 := (i1 + 2 + length b + 2)%nat) in *.
    unfold rdk in H. rewrite rd_ok in H by lia.
    destruct (Nat.eq_dec i4 (length s)) as [E4|N4].
    + rewrite E4 in *. rewrite nth_end in H. cbn [N.eqb] in H. rewrite skipn_all.
      apply IH in H; [|lia]. rewrite skipn_all in H. exact H.
    + rewrite (skipn_nth_cons s i4) by lia.
      destruct (nth i4 s 0 =? 10).
      * injection H as <-. cbn [lift]. reflexivity.
      * apply IH in H; [|lia]. rewrite (skipn_nth_cons s i4) in H by lia. exact H.
  - clear B3. set (i4 := (i1 + 2 + length b)%nat) in *.
    unfold rdk in H. rewrite rd_ok in H by lia.
    destruct (Nat.eq_dec i4 (length s)) as [E4|N4].
    + rewrite E4 in *. rewrite nth_end in H. cbn [N.eqb] in H. rewrite skipn_all.
      apply IH in H; [|lia]. rewrite skipn_all in H. exact H.
    + rewrite (skipn_nth_cons s i4) by lia.
      destruct (nth i4 s 0 =? 10).
      * injection H as <-. cbn [lift]. reflexivity.
      * apply IH in H; [|lia]. rewrite (skipn_nth_cons s i4) in H by lia. exact H.
Qed.

(* ---- findheader ---------------------------------------------------------------------------------------- *)
Definition slice (s : bytes) (i j : nat) : bytes := firstn (j - i) (skipn i s).

Lemma slice_nil s i : slice s i i = [].
Proof. unfold slice. rewrite Nat.sub_diag. reflexivity. Qed.

Lemma slice_cons s i j : (i < j)%nat -> (i < length s)%nat -> slice s i j = nth i s 0 :: slice s (S i) j.
Proof.
  intros Hij Hi. unfold slice. rewrite (skipn_nth_cons s i Hi).
  replace (j - i)%nat with (S (j - S i)) by lia. reflexivity.
Qed.

Lemma slice_app s : forall i j k, (i <= j)%nat -> (j <= k)%nat -> (k <= length s)%nat ->
  slice s i j ++ slice s j k = slice s i k.
Proof.
  intros i j k Hij. revert k. induction Hij as [|j Hij IH]; intros k Hjk Hk.
  - rewrite slice_nil. reflexivity.
  - rewrite <- (IH k) by lia. rewrite <- (IH (S j)) by lia.
    rewrite <- app_assoc. f_equal.
    rewrite (slice_cons s j k) by lia. rewrite (slice_cons s j (S j)) by lia. rewrite slice_nil. reflexivity.
Qed.

Lemma ix_key_ref s : nonulb s = true -> forall fuel i, (i <= length s)%nat -> (length s - i < fuel)%nat ->
  match find_key (skipn i s) with
  | Some (k, rest) => exists kend, ix_key fuel s i = Done (Some kend) /\ (i <= kend < length s)%nat /\
                                   k = slice s i kend /\ rest = skipn (S kend) s
  | None => ix_key fuel s i = Done None
  end.
Proof.
  intros Hs. induction fuel as [|f IH]; intros i Hi Hf; [lia|].
  cbn [ix_key]. unfold rdk. rewrite rd_ok by exact Hi.
  destruct (Nat.eq_dec i (length s)) as [->|Hne].
  { rewrite nth_end, skipn_all. cbn. reflexivity. }
  assert (Hlt : (i < length s)%nat) by lia.
  rewrite (skipn_nth_cons s i Hlt). cbn [find_key].
  pose proof (nonul_nth s i Hs Hlt) as Hnz. apply N.eqb_neq in Hnz. rewrite Hnz. cbn [orb].
  destruct (nth i s 0 =? 58).
  - exists i. split; [reflexivity|]. split; [lia|]. rewrite slice_nil. split; reflexivity.
  - destruct (isspace (nth i s 0)); [reflexivity|].
    specialize (IH (S i) ltac:(lia) ltac:(lia)).
    destruct (find_key (skipn (S i) s)) as [[k rest]|].
    + destruct IH as [kend [Hk [Hb [Hks Hr]]]]. exists kend. split; [exact Hk|]. split; [lia|].
      split; [|exact Hr]. rewrite (slice_cons s i kend) by lia. rewrite Hks. reflexivity.
    + exact IH.
Qed.

Lemma ix_nspaces_ref s : nonulb s = true -> forall fuel i, (i <= length s)%nat -> (length s - i < fuel)%nat ->
  exists n, ix_nspaces fuel s i = Done n /\ (i + n <= length s)%nat /\ skipn (i + n) s = skip_blanks (skipn i s) /\
            (forall k, (i <= k < i + n)%nat -> isblank (nth k s 0) = true) /\ isblank (nth (i + n) s 0) = false.
Proof.
  intros Hs. induction fuel as [|f IH]; intros i Hi Hf; [lia|].
  cbn [ix_nspaces]. unfold rdk. rewrite rd_ok by exact Hi.
  destruct (Nat.eq_dec i (length s)) as [->|Hne].
  { rewrite nth_end. cbn. exists O. rewrite Nat.add_0_r, skipn_all, nth_end. cbn.
    split; [reflexivity|]. split; [lia|]. split; [reflexivity|]. split; [intros k Hk; lia|reflexivity]. }
  assert (Hlt : (i < length s)%nat) by lia.
  rewrite (skipn_nth_cons s i Hlt). cbn [skip_blanks].
  destruct (isblank (nth i s 0)) eqn:Eb.
  - destruct (IH (S i)) as [n [Hn [Hb [He [Hall Hstop]]]]]; [lia|lia|]. rewrite Hn. cbn [bind].
    exists (S n). split; [reflexivity|]. replace (i + S n)%nat with (S i + n)%nat by lia.
    split; [lia|]. split; [exact He|]. split; [|exact Hstop].
    intros k Hk. destruct (Nat.eq_dec k i) as [->|Hnk]; [exact Eb|apply Hall; lia].
  - exists O. rewrite Nat.add_0_r. split; [reflexivity|]. split; [lia|].
    split; [apply skipn_nth_cons; exact Hlt|]. split; [intros k Hk; lia|exact Eb].
Qed.

Lemma ix_strchr_first s ch : nonulb s = true -> ch <> 0 -> forall fuel i, (i <= length s)%nat -> (length s - i < fuel)%nat ->
  forall r, ix_strchr fuel s i ch = Done r ->
    match r with
    | Some j => forall k, (i <= k < j)%nat -> nth k s 0 <> ch
    | None => forall k, (i <= k)%nat -> nth k s 0 <> ch
    end.
Proof.
  intros Hs Hch. induction fuel as [|f IH]; intros i Hi Hf r H; [lia|].
  cbn [ix_strchr] in H. unfold rdk in H. rewrite rd_ok in H by exact Hi.
  destruct (nth i s 0 =? ch) eqn:Ec.
  - injection H as <-. intros k Hk. lia.
  - apply N.eqb_neq in Ec. destruct (nth i s 0 =? 0) eqn:E0.
    + injection H as <-. intros k Hk. apply N.eqb_eq in E0.
      destruct (Nat.eq_dec k i) as [->|Hne]; [exact Ec|].
      assert (length s <= i)%nat.
      { destruct (Nat.le_gt_cases (length s) i) as [Hg|Hl]; [exact Hg|]. exfalso.
        exact (nonul_nth s i Hs Hl E0). }
      rewrite nth_overflow by lia. intros Hc. apply Hch. symmetry. exact Hc.
    + apply N.eqb_neq in E0. pose proof (nth_nz_lt _ _ E0) as Hlt.
      specialize (IH (S i) ltac:(lia) ltac:(lia) r H). destruct r as [j|].
      * intros k Hk. destruct (Nat.eq_dec k i) as [->|Hne]; [exact Ec|apply IH; lia].
      * intros k Hk. destruct (Nat.eq_dec k i) as [->|Hne]; [exact Ec|apply IH; lia].
Qed.

Definition prepend (p : bytes) (r : option (bytes * bytes)) : option (bytes * bytes) :=
  match r with Some (v, rest) => Some (p ++ v, rest) | None => None end.

(* find_val walks over bytes that are not newlines one at a time *)
Lemma find_val_skip s : forall j i, (i <= j)%nat -> (j <= length s)%nat ->
  (forall k, (i <= k < j)%nat -> nth k s 0 <> 10) ->
  find_val (skipn i s) = prepend (slice s i j) (find_val (skipn j s)).
Proof.
  intros j i Hij. induction Hij as [|j Hij IH]; intros Hj Hall.
  - rewrite slice_nil. destruct (find_val (skipn i s)) as [[v r]|]; reflexivity.
  - rewrite IH; [|lia|intros k Hk; apply Hall; lia].
    rewrite (skipn_nth_cons s j) by lia. cbn [find_val].
    assert (Hn : nth j s 0 <> 10) by (apply Hall; lia). apply N.eqb_neq in Hn. rewrite Hn.
    rewrite <- (slice_app s i j (S j)) by lia.
    rewrite (slice_cons s j (S j)) by lia. rewrite slice_nil.
    destruct (find_val (skipn (S j) s)) as [[v r]|]; cbn [prepend]; [|reflexivity].
    rewrite <- app_assoc. reflexivity.
Qed.

Lemma blank_not_nl c : isblank c = true -> c <> 10.
Proof. intros H ->. vm_compute in H. discriminate H. Qed.

Lemma ix_val_ref s : nonulb s = true -> forall fuel i, (i <= length s)%nat -> (length s - i < fuel)%nat ->
  match find_val (skipn i s) with
  | Some (v, rest) => exists e, ix_val fuel s i = Done (Some e) /\ (i <= e < length s)%nat /\
                                v = slice s i e /\ rest = skipn (S e) s
  | None => ix_val fuel s i = Done None
  end.
Proof.
  intros Hs. induction fuel as [|f IH]; intros i Hi Hf; [lia|].
  cbn [ix_val].
  destruct (ix_strchr_spec s 10 ltac:(discriminate) (S (length s)) i) as [q [Hq Hqs]]; [lia|lia|].
  pose proof (ix_strchr_first s 10 Hs ltac:(discriminate) (S (length s)) i ltac:(lia) ltac:(lia) q Hq) as Hfirst.
  rewrite Hq. cbn [bind]. destruct q as [j|].
  2:{ rewrite (find_val_skip s (length s) i); [|lia|lia|intros k Hk; apply Hfirst; lia].
      rewrite skipn_all. cbn. reflexivity. }
  destruct Hqs as [Hj [Hv _]].
  rewrite (find_val_skip s j i); [|lia|lia|exact Hfirst].
  destruct (ix_nspaces_ref s Hs (S (length s)) (S j)) as [n [Hn [Hb [_ [Hall Hstop]]]]]; [lia|lia|].
  rewrite Hn. cbn [bind].
  rewrite (skipn_nth_cons s j) by lia. rewrite Hv. cbn [find_val N.eqb Pos.eqb].
  destruct n as [|n'].
  - (* no continuation line *)
    rewrite Nat.add_0_r in Hstop.
    destruct (Nat.eq_dec (S j) (length s)) as [E|Hne].
    + rewrite skipn_all2 by lia. cbn [prepend]. exists j. split; [reflexivity|]. split; [lia|].
      rewrite app_nil_r. split; [reflexivity|]. rewrite skipn_all2 by lia. reflexivity.
    + rewrite (skipn_nth_cons s (S j)) by lia. rewrite Hstop. cbn [prepend].
      exists j. split; [reflexivity|]. split; [lia|]. rewrite app_nil_r. split; [reflexivity|].
      symmetry. apply skipn_nth_cons. lia.
  - (* n' + 1 blanks follow: the value continues *)
    assert (Hbl : isblank (nth (S j) s 0) = true) by (apply Hall; lia).
    assert (HSj : (S j < length s)%nat) by lia.
    rewrite (skipn_nth_cons s (S j) HSj). rewrite Hbl. rewrite <- (skipn_nth_cons s (S j) HSj).
    rewrite (find_val_skip s (S j + S n') (S j)); [|lia|lia|intros k Hk; apply blank_not_nl; apply Hall; lia].
    replace (j + S n' + 1)%nat with (S j + S n')%nat by lia.
    specialize (IH (S j + S n')%nat ltac:(lia) ltac:(lia)).
    destruct (find_val (skipn (S j + S n') s)) as [[v rest]|]; cbn [prepend].
    + destruct IH as [e [He [Heb [Hve Hr]]]]. exists e. split; [exact He|]. split; [lia|]. split; [|exact Hr].
      rewrite Hve.
      rewrite <- (slice_app s i j e) by lia. f_equal.
      rewrite (slice_cons s j e) by lia. rewrite Hv. f_equal.
      rewrite <- (slice_app s (S j) (S j + S n') e) by lia. reflexivity.
    + exact IH.
Qed.

Theorem ix_findheader_ref s i : nonulb s = true -> (i <= length s)%nat ->
  match findheader (skipn i s) with
  | FH k v rest => exists kend vbeg vend, ix_findheader s i = Done (Some (kend, vbeg, vend)) /\
                     k = slice s i kend /\ v = slice s vbeg vend /\ rest = skipn (S vend) s
  | FHNone | FHTrunc _ => ix_findheader s i = Done None
  end.
Proof.
  intros Hs Hi. unfold findheader, ix_findheader.
  pose proof (ix_key_ref s Hs (S (length s)) i Hi ltac:(lia)) as Hk.
  destruct (find_key (skipn i s)) as [[k r]|].
  2:{ rewrite Hk. reflexivity. }
  destruct Hk as [kend [Hk [Hkb [Hks Hr]]]]. rewrite Hk. cbn [bind].
  destruct (ix_nspaces_ref s Hs (S (length s)) (S kend)) as [n [Hn [Hb [Hsk _]]]]; [lia|lia|].
  rewrite Hn. cbn [bind]. subst r. rewrite <- Hsk.
  pose proof (ix_val_ref s Hs (S (length s)) (S kend + n) ltac:(lia) ltac:(lia)) as Hv.
  destruct (find_val (skipn (S kend + n) s)) as [[v rest]|].
  - destruct Hv as [e [He [Heb [Hve Hrest]]]]. rewrite He. cbn [bind].
    exists kend, (S kend + n)%nat, e. repeat split; assumption.
  - rewrite Hv. reflexivity.
Qed.
