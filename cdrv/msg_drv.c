/* message.h driver.  One request per line:
 *   msg <filehex> <filenamehex> <op> ...
 * ops:  G<namehex>          message_get_header          -> G<n>[,<valhex>]*   (GN if NULL)
 *       S<namehex>:<valhex> message_set_header          -> S
 *       W                   message_write to a file     -> W<hex>  (WE on error)
 *       B                   message_get_body            -> B<hex>  (BN if NULL)
 *       A                   message_get_attachments     -> A<n>[,<hex of message_write(part)>]*  (AN if NULL)
 *       F                   flags string                -> F<hex>
 * Answer: the op results separated by blanks, or "PARSEFAIL" if message_parse returns NULL. */
#include "config.h"
#include <fcntl.h>
#include <sys/stat.h>
#include <unistd.h>
#include <err.h>
#include "extern.h"
#include "message.h"
#include "vector.h"
#include "hex.h"

static char dir[512];
static int dfd;

static void write_out(struct message *m, const char *tag) {
	char path[600];
	int fd;
	snprintf(path, sizeof path, "%s/out", dir);
	fd = open(path, O_RDWR | O_CREAT | O_TRUNC, 0600);
	if (fd == -1) err(1, "open out");
	if (message_write(m, fd)) { printf("%sE", tag); close(fd); return; }
	{
		off_t n = lseek(fd, 0, SEEK_END);
		char *buf = malloc((size_t)n + 1);
		lseek(fd, 0, SEEK_SET);
		if (read(fd, buf, (size_t)n) != n) err(1, "read out");
		fputs(tag, stdout);
		puthex(buf, (size_t)n);
		free(buf);
	}
	close(fd);
}

int main(void) {
	char *line = NULL;
	size_t cap = 0;
	char **keep = NULL;
	size_t nkeep = 0;
	setvbuf(stdout, NULL, _IOLBF, 0);	/* a request that kills the driver must be identifiable */
	snprintf(dir, sizeof dir, "%s/mdv-msgdrv-XXXXXX", getenv("VERIF_DRV_TMP") ? getenv("VERIF_DRV_TMP") : "/tmp");
	if (mkdtemp(dir) == NULL) err(1, "mkdtemp");
	dfd = open(dir, O_RDONLY | O_DIRECTORY);
	while (getline(&line, &cap, stdin) > 0) {
		static char *tok[4096];
		int n = split(line, tok, 4096), i;
		size_t flen;
		char *file, *name;
		struct message *msg;
		int fd;
		if (n < 3 || strcmp(tok[0], "msg") != 0) { puts("ERR"); continue; }
		file = unhex(tok[1], &flen);
		name = unhex(tok[2], NULL);
		fd = openat(dfd, name, O_WRONLY | O_CREAT | O_TRUNC, 0600);
		if (fd == -1) err(1, "create %s", name);
		if (flen > 0 && write(fd, file, flen) != (ssize_t)flen) err(1, "write");
		close(fd);
		msg = message_parse(dir, dfd, name);
		if (msg == NULL) { puts("PARSEFAIL"); unlinkat(dfd, name, 0); free(file); free(name); continue; }
		for (i = 3; i < n; i++) {
			char *op = tok[i];
			if (i > 3) putchar(' ');
			if (op[0] == 'G') {
				char *nm = unhex(op + 1, NULL);
				char *const *vals = message_get_header(msg, nm);
				if (vals == NULL) fputs("GN", stdout);
				else {
					size_t j, cnt = VECTOR_LENGTH(vals);
					printf("G%zu", cnt);
					for (j = 0; j < cnt; j++) { putchar(','); puthexstr(vals[j]); }
				}
				free(nm);
			} else if (op[0] == 'S') {
				char *colon = strchr(op, ':');
				char *nm, *val;
				*colon = '\0';
				nm = unhex(op + 1, NULL);
				val = unhex(colon + 1, NULL);
				keep = realloc(keep, (nkeep + 1) * sizeof *keep);
				keep[nkeep++] = nm;	/* the key is not copied by message_set_header */
				message_set_header(msg, nm, val);
				fputs("S", stdout);
			} else if (op[0] == 'W') {
				write_out(msg, "W");
			} else if (op[0] == 'B') {
				const char *b = message_get_body(msg);
				if (b == NULL) fputs("BN", stdout);
				else { putchar('B'); puthexstr(b); }
			} else if (op[0] == 'A') {
				struct message **att = message_get_attachments(msg);
				if (att == NULL) fputs("AN", stdout);
				else {
					size_t j, cnt = VECTOR_LENGTH(att);
					printf("A%zu", cnt);
					for (j = 0; j < cnt; j++) {
						/* body first: message_write reorders the header table */
						const char *b = message_get_body(att[j]);
						char *bc = b ? strdup(b) : NULL;
						write_out(att[j], ",");
						putchar(';');
						if (bc == NULL) putchar('N'); else puthexstr(bc);
						free(bc);
					}
					message_free_attachments(att);
				}
			} else if (op[0] == 'F') {
				char buf[128];
				if (message_flags_str(message_get_flags(msg), buf, sizeof buf) == NULL) fputs("FE", stdout);
				else { putchar('F'); puthexstr(buf); }
			} else fputs("?", stdout);
		}
		putchar('\n');
		message_free(msg);
		unlinkat(dfd, name, 0);
		free(file); free(name);
		while (nkeep > 0) free(keep[--nkeep]);
	}
	unlinkat(dfd, "out", 0);
	rmdir(dir);
	free(line);
	return 0;
}
