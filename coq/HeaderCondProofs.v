(* A header condition is true iff the pattern matches the decoded, unfolded value of at least one
   occurrence of one of the named fields (names compared case-insensitively). *)
From MD Require Import Bytes Generated DecodeDefs HeaderDefs HeaderSpec OrderProofs SearchProofs ParseProofs RewriteProofs.
From Coq Require Import Permutation Sorted.

Section Cond.
  Variable rx : bytes -> option (list (nat * nat)).

  Lemma first_match_some vals : first_match rx vals <> None <-> exists v, In v vals /\ rx v <> None.
  Proof.
    induction vals as [|v r IH]; cbn [first_match].
    - split; [intros H; congruence | intros (v & [] & _)].
    - destruct (rx v) eqn:E.
      + split; [intros _; exists v; split; [left; reflexivity | congruence] | intros _; discriminate].
      + rewrite IH. split.
        * intros (w & Hw & Hr). exists w. split; [right; exact Hw | exact Hr].
        * intros (w & [<-|Hw] & Hr); [congruence | exists w; split; assumption].
  Qed.

  Theorem eval_header_iff fs names :
    eval_header rx (sort_key (hdrs_of 0 fs)) names <> None <->
    exists n f, In n names /\ In f fs /\ caseeq n (f_key f) = true /\ rx (decodeheader (f_val f)) <> None.
  Proof.
    induction names as [|n r IH]; cbn [eval_header].
    - split; [congruence | intros (n & f & [] & _)].
    - rewrite get_header_parsed.
      set (sel := filter (fun f => caseeq n (f_key f)) fs).
      assert (Hsel : first_match rx (map decodeheader (map f_val sel)) <> None <->
                     exists f, In f fs /\ caseeq n (f_key f) = true /\ rx (decodeheader (f_val f)) <> None).
      { rewrite first_match_some. split.
        - intros (v & Hv & Hr). rewrite map_map in Hv. apply in_map_iff in Hv as (f & <- & Hf).
          apply filter_In in Hf as [Hf Hc]. exists f. auto.
        - intros (f & Hf & Hc & Hr). exists (decodeheader (f_val f)). split; [|exact Hr].
          rewrite map_map. apply in_map_iff. exists f. split; [reflexivity|]. apply filter_In. auto. }
      unfold nonempty_opt.
      destruct (map decodeheader (map f_val sel)) as [|v0 vs] eqn:Ev.
      + rewrite IH. split.
        * intros (m & f & Hm & Hr). exists m, f. split; [right; exact Hm | exact Hr].
        * intros (m & f & [<-|Hm] & Hf & Hc & Hr).
          -- exfalso. apply (proj2 Hsel); [exists f; auto | reflexivity].
          -- exists m, f. auto.
      + destruct (first_match rx (v0 :: vs)) as [[v off]|] eqn:Ef.
        * split; [|intros _; discriminate]. intros _.
          destruct (proj1 Hsel) as (f & Hf & Hc & Hr); [congruence|]. exists n, f. split; [left; reflexivity | auto].
        * rewrite IH. split.
          -- intros (m & f & Hm & Hr). exists m, f. split; [right; exact Hm | exact Hr].
          -- intros (m & f & [<-|Hm] & Hf & Hc & Hr).
             ++ exfalso. apply (proj2 Hsel); [exists f; auto | reflexivity].
             ++ exists m, f. auto.
  Qed.
End Cond.

(* unfoldheader: a folded value is treated as one logical line - the physical lines concatenated,
   each line's leading tabs removed.  Values without a newline are returned unchanged. *)
Fixpoint lines_of (s : bytes) : list bytes :=
  match s with
  | [] => [[]]
  | c :: r => if N.eqb c 10 then [] :: lines_of r
              else match lines_of r with
                   | l :: ls => (c :: l) :: ls
                   | [] => [[c]]
                   end
  end.

Fixpoint strip_tabs (s : bytes) : bytes :=
  match s with
  | c :: r => if N.eqb c 9 then strip_tabs r else s
  | [] => []
  end.

Lemma lines_of_nonempty s : lines_of s <> [].
Proof. destruct s as [|c r]; cbn [lines_of]; [discriminate|]. destruct (N.eqb c 10); [discriminate|]. destruct (lines_of r); discriminate. Qed.

Lemma unfold_lines_gen s : forall b,
  unfold_lines b s = match lines_of s with
                     | l :: ls => (if b then strip_tabs l else l) ++ concat (map strip_tabs ls)
                     | [] => []
                     end.
Proof.
  induction s as [|c r IH]; intros b.
  - destruct b; reflexivity.
  - cbn [unfold_lines lines_of].
    pose proof (lines_of_nonempty r) as Hne.
    destruct (N.eqb c 10) eqn:E10.
    + assert (N.eqb c 9 = false) as -> by (apply N.eqb_eq in E10; subst; reflexivity).
      rewrite andb_false_r. rewrite (IH true). destruct (lines_of r) as [|l ls]; [congruence|].
      destruct b; reflexivity.
    + destruct (lines_of r) as [|l ls] eqn:El; [congruence|].
      destruct b; cbn [andb].
      * destruct (N.eqb c 9) eqn:E9.
        -- rewrite (IH true). cbn [strip_tabs]. rewrite E9. reflexivity.
        -- rewrite (IH false). cbn [strip_tabs]. rewrite E9. reflexivity.
      * rewrite (IH false). reflexivity.
Qed.

Lemma unfold_lines_spec s : unfold_lines true s = concat (map strip_tabs (lines_of s)).
Proof.
  rewrite unfold_lines_gen. pose proof (lines_of_nonempty s). destruct (lines_of s); [congruence | reflexivity].
Qed.

Theorem unfoldheader_spec s :
  unfoldheader s = if existsb (fun c => N.eqb c 10) s then concat (map strip_tabs (lines_of s)) else s.
Proof. unfold unfoldheader. rewrite unfold_lines_spec. reflexivity. Qed.

Theorem unfoldheader_no_newline s : Forall (fun c => c <> 10%N) (unfoldheader s).
Proof.
  unfold unfoldheader. destruct (existsb (fun c => N.eqb c 10) s) eqn:E.
  - assert (H : forall b s, Forall (fun c => c <> 10%N) (unfold_lines b s)).
    { intros b s0; revert b; induction s0 as [|c r IH]; intros b; cbn [unfold_lines]; [constructor|].
      destruct (b && N.eqb c 9); [apply IH|]. destruct (N.eqb c 10) eqn:E10; [apply IH|].
      constructor; [apply N.eqb_neq; exact E10 | apply IH]. }
    apply H.
  - rewrite Forall_forall. intros c Hc Heq. subst c.
    assert (existsb (fun c => N.eqb c 10) s = true); [|congruence].
    apply existsb_exists. exists 10%N. split; [exact Hc | reflexivity].
Qed.
