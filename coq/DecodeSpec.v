(* Declarative specifications of the three transfer decoders, written from the RFC wording
   (RFC 4648 section 4, RFC 2045 section 6.7, RFC 2047), independently of decode.c's control flow. *)
From MD Require Import Bytes Generated.
Local Open Scope N_scope.

Definition nonspace (c : N) : bool := negb (isspace c).

Fixpoint map_opt {A B} (f : A -> option B) (l : list A) : option (list B) :=
  match l with
  | [] => Some []
  | x :: r => match f x, map_opt f r with
              | Some y, Some ys => Some (y :: ys)
              | _, _ => None
              end
  end.

(* position of a character in the base64 alphabet, by specification: nth_error inverse *)
Fixpoint alpha_index (c : N) (l : list N) (i : N) : option N :=
  match l with
  | [] => None
  | x :: r => if x =? c then Some i else alpha_index c r (N.succ i)
  end.
Definition sextet_of (c : N) : option N := alpha_index c base64_alphabet 0.

(* big-endian packing of 6-bit groups into octets; a final group of 2 (3) sextets yields 1 (2) octets *)
Fixpoint pack (v : list N) : list N :=
  match v with
  | a :: b :: c :: d :: r =>
      (a * 4 + b / 16) :: ((b mod 16) * 16 + c / 4) :: ((c mod 4) * 64 + d) :: pack r
  | [a; b; c] => [a * 4 + b / 16; (b mod 16) * 16 + c / 4]
  | [a; b] => [a * 4 + b / 16]
  | _ => []
  end.

(* the bits of the last sextet that do not belong to any octet *)
Definition unused_bits (v : list N) : N :=
  match (length v mod 4)%nat with
  | 2%nat => last v 0 mod 16
  | 3%nat => last v 0 mod 4
  | _ => 0
  end.

(* RFC 4648, white space ignored:
   - the text before the first '=' must consist of alphabet characters only;
   - no '=': the number of characters is a multiple of 4;
   - otherwise the rest (white space ignored) is exactly "==" after 4k+2 characters or "=" after
     4k+3, and the unused bits are zero. *)
Definition spec_b64 (s : bytes) : option bytes :=
  let (pre, post) := split_at pad64 s in
  match map_opt sextet_of (filter nonspace pre) with
  | None => None
  | Some v =>
      match post with
      | None => match (length v mod 4)%nat with O => Some (pack v) | _ => None end
      | Some p =>
          let p' := filter nonspace p in
          match (length v mod 4)%nat with
          | 2%nat => if beq_bytes p' [pad64] && (unused_bits v =? 0) then Some (pack v) else None
          | 3%nat => if beq_bytes p' [] && (unused_bits v =? 0) then Some (pack v) else None
          | _ => None
          end
      end
  end.

(* ---- quoted-printable: an encoding relation --------------------------------------------
   [qp_enc hdr bs s] : s is a quoted-printable rendering of the octets bs (hdr: RFC 2047 'Q'
   variant where '_' stands for a space).  Any octet may be written "=XY" (upper-case hex), an
   octet other than '=' (and other than '_' in header mode) may be written literally, and a soft
   line break "=\n" may be inserted anywhere. *)
Definition hexdigit (n : N) : N := if n <? 10 then 48 + n else 55 + n.

Inductive qp_enc (hdr : bool) : bytes -> bytes -> Prop :=
| qe_nil : qp_enc hdr [] []
| qe_lit c bs s : c <> 61 -> (hdr = true -> c <> 95) ->
                  qp_enc hdr bs s -> qp_enc hdr (c :: bs) (c :: s)
| qe_hex c bs s : c < 256 ->
                  qp_enc hdr bs s -> qp_enc hdr (c :: bs) (61 :: hexdigit (c / 16) :: hexdigit (c mod 16) :: s)
| qe_soft bs s : qp_enc hdr bs s -> qp_enc hdr bs (61 :: 10 :: s)
| qe_us bs s : hdr = true -> qp_enc hdr bs s -> qp_enc hdr (32 :: bs) (95 :: s).
