(* maildir_genname: candidate names for different counter values differ; the O_EXCL retry loop
   ends after at most |E|+1 attempts with a name that is not among the existing ones. *)
From MD Require Import Bytes Generated NamesDefs.
From Coq Require Import ZifyBool ZifyN ZifyNat DecimalN.
Local Open Scope N_scope.

Lemma uint_bytes_inj u v : uint_bytes u = uint_bytes v -> u = v.
Proof.
  revert v; induction u as [|u IH|u IH|u IH|u IH|u IH|u IH|u IH|u IH|u IH|u IH]; intros v H;
    destruct v; cbn [uint_bytes] in H; try discriminate H; try reflexivity;
    inversion H as [H1]; f_equal; apply IH; exact H1.
Qed.

Lemma dec_inj a b : dec a = dec b -> a = b.
Proof.
  unfold dec. intros H. apply uint_bytes_inj in H.
  rewrite <- (DecimalN.Unsigned.of_to a), <- (DecimalN.Unsigned.of_to b). rewrite H. reflexivity.
Qed.

(* decimal digits contain neither '.' nor '_' : needed to cut the name apart again *)
Lemma uint_bytes_digits u : Forall (fun c => 48 <= c <= 57) (uint_bytes u).
Proof. induction u; cbn [uint_bytes]; constructor; try lia; assumption. Qed.

Lemma genname_fmt_inj ts pid c1 c2 host flags :
  genname_fmt ts pid c1 host flags = genname_fmt ts pid c2 host flags -> c1 = c2.
Proof.
  unfold genname_fmt. intros H.
  apply app_inv_head in H. apply app_inv_head in H. apply app_inv_head in H. apply app_inv_head in H.
  (* dec c1 ++ "." ++ host ++ flags = dec c2 ++ "." ++ host ++ flags *)
  assert (G : forall (a b : bytes) rest, Forall (fun c => 48 <= c <= 57) a -> Forall (fun c => 48 <= c <= 57) b ->
              a ++ 46 :: rest = b ++ 46 :: rest -> a = b).
  { induction a as [|x a IH]; intros b rest Ha Hb E.
    - destruct b as [|y b]; [reflexivity|]. cbn [app] in E. inversion E; subst.
      inversion Hb as [|? ? Hy _]; subst. lia.
    - destruct b as [|y b].
      + cbn [app] in E. inversion E; subst. inversion Ha as [|? ? Hx _]; subst. lia.
      + cbn [app] in E. inversion E; subst. f_equal. inversion Ha; inversion Hb; subst. eapply IH; eauto. }
  apply dec_inj. eapply G; [apply uint_bytes_digits | apply uint_bytes_digits | exact H].
Qed.

(* ---- the loop as "first candidate that does not exist" --------------------------------------------- *)
Section Loop.
  Variables (ts pid : N) (host flags : bytes) (bufsiz : nat).
  Variable E : list bytes.
  Definition exists_ (n : bytes) : bool := existsb (beq_bytes n) E.

  (* j-th candidate after the initial counter value *)
  Definition cand (count : N) (j : nat) : bytes :=
    genname_fmt ts pid ((count + 1 + N.of_nat j) mod two32) host flags.

  Lemma cand_inj count i j : (i < j)%nat -> N.of_nat j < two32 -> cand count i <> cand count j.
  Proof.
    intros Hij Hj H. unfold cand in H. apply genname_fmt_inj in H.
    unfold two32 in *.
    assert (H1 := N.mod_lt (count + 1 + N.of_nat i) 4294967296 ltac:(lia)).
    assert (E1 := N.div_mod (count + 1 + N.of_nat i) 4294967296 ltac:(lia)).
    assert (E2 := N.div_mod (count + 1 + N.of_nat j) 4294967296 ltac:(lia)).
    rewrite H in E1. set (q1 := (count + 1 + N.of_nat i) / 4294967296) in *.
    set (q2 := (count + 1 + N.of_nat j) / 4294967296) in *.
    set (r := (count + 1 + N.of_nat j) mod 4294967296) in *.
    assert (N.of_nat j - N.of_nat i = 4294967296 * (q2 - q1)) by lia.
    destruct (N.eq_dec q2 q1) as [->|Hq]; [lia|]. assert (1 <= q2 - q1) by lia. nia.
  Qed.

  Lemma loop_step : forall fuel count tries,
    genname_loop (S fuel) exists_ ts pid count host flags bufsiz tries =
    (let name := cand count 0 in
     if negb (Nat.ltb (length name) bufsiz) then GenTooLong
     else if exists_ name then genname_loop fuel exists_ ts pid ((count + 1) mod two32) host flags bufsiz (S tries)
     else GenOk name (S tries)).
  Proof.
    intros. cbn [genname_loop]. unfold cand. replace (count + 1 + N.of_nat 0) with (count + 1) by lia. reflexivity.
  Qed.

  Lemma cand_shift count j : cand ((count + 1) mod two32) j = cand count (S j).
  Proof.
    unfold cand. f_equal. unfold two32.
    rewrite <- (N.add_mod_idemp_l ((count + 1) mod 4294967296 + 1) (N.of_nat j)) by lia.
    rewrite (N.add_mod_idemp_l (count + 1) 1) by lia.
    rewrite N.add_mod_idemp_l by lia. f_equal. lia.
  Qed.

  (* if the first k candidates all exist, the loop (with enough fuel) behaves as from candidate k *)
  Lemma loop_finds : forall k fuel count tries,
    (k < fuel)%nat ->
    (forall i, (i < k)%nat -> exists_ (cand count i) = true /\ Nat.ltb (length (cand count i)) bufsiz = true) ->
    exists_ (cand count k) = false ->
    genname_loop fuel exists_ ts pid count host flags bufsiz tries =
    if Nat.ltb (length (cand count k)) bufsiz then GenOk (cand count k) (tries + S k) else GenTooLong.
  Proof.
    induction k as [|k IH]; intros fuel count tries Hf Hall Hk.
    - destruct fuel as [|fuel]; [lia|]. rewrite loop_step. cbv zeta. rewrite Hk.
      destruct (Nat.ltb (length (cand count 0)) bufsiz); cbn [negb]; [f_equal; lia | reflexivity].
    - destruct fuel as [|fuel]; [lia|]. rewrite loop_step. cbv zeta.
      destruct (Hall O ltac:(lia)) as [He Hl]. rewrite He, Hl. cbn [negb].
      rewrite (IH fuel ((count + 1) mod two32) (S tries)).
      + rewrite cand_shift. replace (S tries + S k)%nat with (tries + S (S k))%nat by lia. reflexivity.
      + lia.
      + intros i Hi. rewrite cand_shift. apply Hall. lia.
      + rewrite cand_shift. exact Hk.
  Qed.
End Loop.

(* pigeonhole: among |E|+1 pairwise different candidates one is not in E *)
Lemma exists_In E n : exists_ E n = true <-> In n E.
Proof.
  unfold exists_. rewrite existsb_exists. split.
  - intros (x & Hx & Hb). apply beq_bytes_eq in Hb. subst. exact Hx.
  - intros H. exists n. split; [exact H | apply beq_bytes_eq; reflexivity].
Qed.

Lemma fresh_candidate (f : nat -> bytes) (E : list bytes) :
  (forall i j, (i < j <= length E)%nat -> f i <> f j) ->
  exists k, (k <= length E)%nat /\ ~ In (f k) E /\ forall i, (i < k)%nat -> In (f i) E.
Proof.
  intros Hinj.
  (* least index whose candidate is not in E, searched below a bound *)
  assert (S : forall n, (forall i, (i < n)%nat -> In (f i) E) \/
                        exists k, (k < n)%nat /\ ~ In (f k) E /\ forall i, (i < k)%nat -> In (f i) E).
  { induction n as [|n [IHn|IHn]].
    - left. intros i Hi. lia.
    - destruct (in_dec (list_eq_dec N.eq_dec) (f n) E) as [Hin|Hout].
      + left. intros i Hi. destruct (Nat.eq_dec i n) as [->|]; [exact Hin | apply IHn; lia].
      + right. exists n. repeat split; [lia | exact Hout | exact IHn].
    - right. destruct IHn as (k & Hk & H1 & H2). exists k. repeat split; [lia | exact H1 | exact H2]. }
  destruct (S (Datatypes.S (length E))) as [Hall|(k & Hk & H1 & H2)].
  - exfalso.
    set (l := map f (seq 0 (Datatypes.S (length E)))).
    assert (Hnd : NoDup l).
    { unfold l.
      assert (G : forall n s, (s + n <= Datatypes.S (length E))%nat -> NoDup (map f (seq s n))).
      { induction n as [|n IHn]; intros s Hs; cbn [seq map]; constructor.
        - intros Hin. apply in_map_iff in Hin as (j & Hj & Hjin). apply in_seq in Hjin.
          apply (Hinj s j); [lia | symmetry; exact Hj].
        - apply IHn. lia. }
      apply G. lia. }
    assert (Hincl : incl l E).
    { intros x Hx. unfold l in Hx. apply in_map_iff in Hx as (i & <- & Hi). apply in_seq in Hi. apply Hall. lia. }
    pose proof (NoDup_incl_length Hnd Hincl) as Hlen. unfold l in Hlen. rewrite map_length, seq_length in Hlen. lia.
  - exists k. repeat split; [lia | exact H1 | exact H2].
Qed.

(* The retry loop of maildir_genname, given any set E of existing names with |E| < 2^32 and
   enough fuel, stops after at most |E|+1 attempts; the name it returns is not in E (so the
   O_EXCL creation succeeded on a name nobody had), or it reports ENAMETOOLONG. *)
Theorem genname_fresh ts pid count host flags bufsiz E fuel :
  N.of_nat (length E) < two32 -> (length E < fuel)%nat ->
  match genname_loop fuel (exists_ E) ts pid count host flags bufsiz O with
  | GenOk name tries => ~ In name E /\ (tries <= S (length E))%nat
  | GenTooLong => True
  | GenFuel => False
  end.
Proof.
  intros HE Hfuel.
  destruct (fresh_candidate (cand ts pid host flags count) E) as (k & Hk & Hout & Hin).
  { intros i j Hij. apply cand_inj; [lia|]. unfold two32 in *. lia. }
  (* the first candidate that is too long or does not exist *)
  assert (Hnot : exists_ E (cand ts pid host flags count k) = false).
  { destruct (exists_ E (cand ts pid host flags count k)) eqn:Ex; [|reflexivity]. apply exists_In in Ex. contradiction. }
  (* induction on the number of fitting candidates *)
  assert (Hmain : forall m fuel' cnt tries,
            (m < fuel')%nat ->
            (forall i, (i < m)%nat -> In (cand ts pid host flags cnt i) E) ->
            ~ In (cand ts pid host flags cnt m) E ->
            match genname_loop fuel' (exists_ E) ts pid cnt host flags bufsiz tries with
            | GenOk name t => ~ In name E /\ (t <= tries + S m)%nat
            | GenTooLong => True
            | GenFuel => False
            end).
  { induction m as [|m IHm]; intros fuel' cnt tries Hf Hbefore Hm.
    - destruct fuel' as [|fuel']; [lia|]. rewrite loop_step. cbv zeta.
      destruct (Nat.ltb (length (cand ts pid host flags cnt 0)) bufsiz); cbn [negb]; [|exact I].
      destruct (exists_ E (cand ts pid host flags cnt 0)) eqn:Ex.
      + apply exists_In in Ex. contradiction.
      + split; [exact Hm | lia].
    - destruct fuel' as [|fuel']; [lia|]. rewrite loop_step. cbv zeta.
      destruct (Nat.ltb (length (cand ts pid host flags cnt 0)) bufsiz); cbn [negb]; [|exact I].
      assert (Ex : exists_ E (cand ts pid host flags cnt 0) = true) by (apply exists_In; apply Hbefore; lia).
      rewrite Ex.
      specialize (IHm fuel' ((cnt + 1) mod two32) (S tries)).
      destruct (genname_loop fuel' (exists_ E) ts pid ((cnt + 1) mod two32) host flags bufsiz (S tries)) as [name t| |].
      + destruct IHm as [H1 H2]; [lia | | |].
        * intros i Hi. rewrite cand_shift. apply Hbefore. lia.
        * rewrite cand_shift. exact Hm.
        * split; [exact H1 | lia].
      + exact I.
      + apply IHm; [lia | |].
        * intros i Hi. rewrite cand_shift. apply Hbefore. lia.
        * rewrite cand_shift. exact Hm. }
  specialize (Hmain k fuel count O ltac:(lia) Hin Hout).
  destruct (genname_loop fuel (exists_ E) ts pid count host flags bufsiz 0) as [name t| |]; auto.
  destruct Hmain as [H1 H2]. split; [exact H1 | lia].
Qed.
