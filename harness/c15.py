"""C15 - date conditions compare the true age of the message.
 (a) time_parse (time.h driver, TZ and the clock set per request the way readenv() does) on printed dates:
     instants over 1970-2037 incl. both sides of DST switches of the listed zones, the three layouts,
     zones -2359..+2359 and GMT / UT / UTC, local TZ from a list with and without DST.  The monitor
     computes the true instant with its own calendar (Python); the extracted model must agree as well.
 (b) the binary with a pinned clock: thresholds one second on either side of the true age, for > and <,
     every unit spelling, modified (file mtime); under the same TZ list."""
import calendar, os, time
import common, mdrun
from common import hexs

SHIM = os.path.join(common.VERIF, 'shim', 'libvfio.so')
ZONES = [None, '', 'UTC', 'Europe/Stockholm', 'America/New_York', 'Australia/Lord_Howe', 'Asia/Kolkata', 'America/St_Johns',
         'CET-1CEST,M3.5.0,M10.5.0/3', 'EST5EDT', 'AEST-10AEDT,M10.1.0,M4.1.0/3', 'JST-9', 'Pacific/Chatham',
         # local zones whose abbreviations are spelled like zone names a Date header may carry
         'Europe/London', 'GMT0BST,M3.5.0/1,M10.5.0/2', 'UTC-3', 'UT5', 'GMT+2']
MON = ['Jan', 'Feb', 'Mar', 'Apr', 'May', 'Jun', 'Jul', 'Aug', 'Sep', 'Oct', 'Nov', 'Dec']
DAY = ['Mon', 'Tue', 'Wed', 'Thu', 'Fri', 'Sat', 'Sun']
UNITS = {'seconds': 1, 'second': 1, 's': 1, 'minutes': 60, 'mi': 60, 'min': 60, 'hours': 3600, 'h': 3600, 'days': 86400, 'd': 86400,
         'weeks': 604800, 'w': 604800, 'months': 2592000, 'mo': 2592000, 'years': 31536000, 'y': 31536000}


def dst_instants():
    """instants next to DST switches (UTC): last Sunday of March / October 01:00 UTC (EU), second Sunday of March / first of
    November 07:00 UTC (US), first Sunday of April / October 15:00-16:00 UTC (AU), a few years each"""
    out = []
    for y in (1996, 2007, 2015, 2024, 2031):
        for (mo, hour) in ((3, 1), (10, 1), (3, 7), (11, 6), (4, 15), (10, 16), (4, 14), (9, 13)):
            for d in range(1, 32):
                try:
                    t = calendar.timegm((y, mo, d, hour, 0, 0))
                except Exception:
                    continue
                if time.gmtime(t).tm_wday == 6:
                    for delta in (-3601, -1, 0, 1, 1799, 3599, 3600, 3601, 7200):
                        out.append(t + delta)
    return out


def fmt(layout, civil):
    y, mo, d, hh, mi, ss = civil
    wd = DAY[calendar.weekday(y, mo, d)]
    if layout == 0:
        return '%s, %02d %s %04d %02d:%02d:%02d' % (wd, d, MON[mo - 1], y, hh, mi, ss)
    if layout == 1:
        return '%s, %02d %s %04d %02d:%02d' % (wd, d, MON[mo - 1], y, hh, mi)
    return '%02d %s %04d %02d:%02d:%02d' % (d, MON[mo - 1], y, hh, mi, ss)


def gen_date(rng, special):
    """-> (header value, true instant)"""
    if special and rng.randrange(2):
        t = rng.choice(special) + rng.choice([0, 0, 1, -1, 30])
    else:
        t = rng.randrange(0, 2145916800)          # 1970-01-01 .. 2037-12-31
    k = rng.randrange(10)
    if k < 6:
        neg = rng.randrange(2) == 1
        hh = rng.choice([0, 0, 1, 2, 3, 5, 9, 11, 12, 13, 14, 23]); mm = rng.choice([0, 0, 30, 45, 15, 59, 1])
        off = (hh * 3600 + mm * 60) * (-1 if neg else 1)
        zone = '%s%02d%02d' % ('-' if neg else '+', hh, mm)
    else:
        off = 0
        zone = rng.choice(['GMT', 'UT', 'UTC', '+0000', '-0000'])
    layout = rng.randrange(3)
    # the civil time in the header's own zone
    c = time.gmtime(t + off)
    civil = (c.tm_year, c.tm_mon, c.tm_mday, c.tm_hour, c.tm_min, c.tm_sec)
    if civil[0] < 1970 or civil[0] > 2037:
        return gen_date(rng, special)
    true = t if layout != 1 else t - civil[5]
    sep = rng.choice([' ', ' ', '  '])
    return (fmt(layout, civil) + sep + zone).encode(), true, layout, zone


def run(ck):
    rng = ck.rng
    q = ck.tier == 'quick'
    drv = common.build_driver('time_drv', 'plain')
    model = common.model_exe()
    special = dst_instants()
    stats = dict(api=0, nontrivial=0, binary=0, dis=0, viol=0, zones={})
    samples = []
    # ---- (a) time_parse ------------------------------------------------------------------------------------------
    n = 4000 if q else 120000
    cases = []
    for i in range(n):
        val, true, layout, zone = gen_date(rng, special)
        tz = rng.choice(ZONES)
        now = rng.choice(special) if rng.randrange(2) else rng.randrange(0, 2145916800)
        cases.append((val, true, tz, now, layout, zone))
    lines = ['tp %s %d %s' % ('-' if tz is None else ('e' if tz == '' else hexs(tz.encode())), now, hexs(val)) for val, true, tz, now, layout, zone in cases]
    impl, r = common.run_lines(drv, lines, timeout=1800)
    mod, _ = common.run_lines(model, ['tp %s' % hexs(val) for val, true, tz, now, layout, zone in cases], timeout=1800)
    for (val, true, tz, now, layout, zone), a, b in zip(cases, impl, mod):
        stats['api'] += 1
        stats['zones'][str(tz)] = stats['zones'].get(str(tz), 0) + 1
        rep = {'date': val.decode(), 'TZ': tz, 'now': now, 'true_instant': true, 'impl': a, 'model': b}
        if a != 'OK %d' % true:
            stats['viol'] += 1
            if stats['viol'] <= 4:
                d = (int(a.split()[1]) - true) if a.startswith('OK') else None
                ck.violation('Date "%s" read under TZ=%r at clock %d: time_parse gives %s, the instant denoted is %d%s' %
                             (val.decode(), tz, now, a, true, (' (off by %d s)' % d) if d is not None else ''), rep)
            continue
        stats['nontrivial'] += 1
        if b != a:
            stats['dis'] += 1
            if stats['dis'] <= 3:
                rep['obligation'] = 'correspondence DateDefs'
                ck.violation('correspondence broken (DateDefs): "%s": implementation %s, model %s' % (val.decode(), a, b), rep, found_input=False)
        if len(samples) < 3:
            samples.append(rep)
    # ---- (b) the binary with a pinned clock ------------------------------------------------------------------------
    rounds = 60 if q else 600
    # combinations that every run sees: a zone NAME in the header x a local zone away from UTC x each verbosity
    forced = [(zn, tzv, vb) for zn in ('GMT', 'UT', 'UTC') for tzv in ('Europe/Stockholm', 'America/New_York', 'Asia/Kolkata') for vb in ([], ['-v', '-v'], ['-vv'])]
    if q:
        forced = forced[rng.randrange(3)::3]
    for i in range(rounds + len(forced)):
        val, true, layout, zone = gen_date(rng, special)
        tz = rng.choice(ZONES)
        force = forced[i] if i < len(forced) else None
        if force:
            zone, tz = force[0], force[1]
        unit = rng.choice(sorted(UNITS))
        k = rng.choice([1, 2, 3, 59, 100])
        age = k * UNITS[unit]
        if age > 2 ** 32 - 1 or true + age + 1 > 2 ** 31 - 10:
            continue
        kind = 'header' if force else rng.choice(['header', 'header', 'modified', 'modified-in-attachment'])
        # the file's timestamps are those of the message file, also where the condition is evaluated on a part of the message
        inatt = kind == 'modified-in-attachment'
        if inatt:
            kind = 'modified'
        sb = mdrun.Sandbox()
        src = sb.maildir('src'); dst = sb.maildir('dst')
        # four messages whose age is age-1, age, age+1 seconds at the pinned clock, and one far away
        now = true + age
        names = {}
        for j, delta in enumerate((-1, 0, 1)):
            # message j has age (age + delta): its instant is now - age - delta = true - delta
            v2, t2, _, _ = (val, true, layout, zone)
            inst = true - delta
            if kind == 'header':
                c = time.gmtime(inst + zone_offset(zone))
                civil = (c.tm_year, c.tm_mon, c.tm_mday, c.tm_hour, c.tm_min, c.tm_sec)
                hv = (fmt(0, civil) + ' ' + zone).encode()
                text = b'To: a@b\nX-Id: %d\nDate: %s\n\nbody\n' % (j, hv)
                sb.add(src, 'new', text)
            else:
                text = b'To: a@b\nX-Id: %d\n\nbody\n' % j
                if inatt:
                    text = (b'To: a@b\nX-Id: %d\nContent-Type: multipart/mixed; boundary="b"\n\n--b\nContent-Type: text/plain\n\none\n--b\n'
                            b'Content-Type: text/calendar\n\ntwo\n--b--\n' % j)
                sb.add(src, 'new', text, mtime=inst)
        cmp_ = rng.choice(['>', '<'])
        field = '' if kind == 'header' and rng.randrange(2) else kind
        # the number is decimal however it is spelt (leading zeros included)
        kspell = rng.choice(['%d', '%d', '0%d', '00%d', '000000%d']) % k
        conf = sb.write_conf(('maildir "%s" {\n\tmatch %sdate %s %s %s %s move "%s"\n}\n' % (src, 'attachment ' if inatt else '', field, cmp_, kspell, unit, dst)).encode())
        env = {'VFIO_TIME': str(now)}
        if tz is not None:
            env['TZ'] = tz
        e = sb.env(env)
        if tz is None:
            e.pop('TZ', None)
        # verbosity changes what is printed, never what is decided
        verb = force[2] if force else rng.choice([[], [], ['-v'], ['-v', '-v'], ['-vv'], ['-v', '-v', '-v']])
        rc, out, err = run_with_env(sb, conf, e, verb)
        stats['binary'] += 1
        moved = set()
        import re
        for b in sb.snapshot(dst).values():
            m = re.search(rb'^X-Id: (\d+)$', b, re.M)
            if m:
                moved.add(int(m.group(1)))
        # ages: j=0 -> age-1, j=1 -> age, j=2 -> age+1
        exp = {2} if cmp_ == '>' else {0}
        if moved != exp or rc != 0:
            ck.violation('clock %d, TZ=%r, options %r, rule "date %s %s %d %s": messages aged N-1, N, N+1 seconds: moved %s, expected %s (exit %d) %s' %
                         (now, tz, verb, field, cmp_, k, unit, sorted(moved), sorted(exp), rc, err[-200:].decode(errors='replace')),
                         {'config': open(conf).read(), 'TZ': tz, 'now': now, 'kind': kind, 'zone': zone, 'stderr': err[-300:].decode(errors='replace')})
        sb.cleanup()
        if len(ck.violations) > 5:
            break
    ck.coverage.update({
        'evaluations': stats['api'] + stats['binary'],
        'distinct_nontrivial': stats['nontrivial'] + stats['binary'],
        'rule': 'instants uniform over 1970-2037 and within +-2 h of DST switches (EU, US, AU rules; 5 years); layouts %%a, %%d %%b %%Y %%H:%%M:%%S / without seconds / without weekday; zones '
                '+-hhmm with hh in {0,1,2,3,5,9,11,12,13,14,23} and mm in {0,1,15,30,45,59}, GMT, UT, UTC; local TZ in %r; the clock set per request. Binary: three messages aged N-1, N, N+1 '
                'seconds at the pinned clock (Date header in a random zone, or file mtime), rule [attachment] date [header|modified] > / < k unit for every unit spelling, run with no, one, two or three -v. '
                'non-trivial = a time_parse case that returned the true instant (then compared with the model) or a binary round' % ZONES,
        'samples': samples,
        'traces_validated_against_impl': stats['api'] + stats['binary'],
        'time_parse_cases': stats['api'], 'binary_rounds': stats['binary'], 'per_TZ': stats['zones'],
        'disagreements_checked': stats['dis'],
    })
    ck.assumptions += ['strptime / timegm / localtime and the zone database of the platform', 'shim/libvfio.so pins time() for the binary runs']


def zone_offset(zone):
    if zone[0] in '+-':
        v = int(zone[1:3]) * 3600 + int(zone[3:5]) * 60
        return -v if zone[0] == '-' else v
    return 0


def run_with_env(sb, conf, e, args=()):
    import subprocess
    exe = os.path.join(common.scratch_build('plain'), 'mdsort')
    e = dict(e); e['LD_PRELOAD'] = SHIM
    r = subprocess.run([exe, '-f', conf] + list(args), cwd=sb.root, env=e, capture_output=True, timeout=60)
    return r.returncode, r.stdout, r.stderr


def replay(ck, rp):
    print(rp)
    return 1
