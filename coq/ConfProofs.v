(* C14: every configuration the model parser accepts satisfies the semantic rules of mdsort.conf(5)
   (so a file with such a defect anywhere is rejected as a whole), lexical bounds, and the gate in main. *)
From MD Require Import Bytes Generated InterpDefs ConfDefs MainDefs MainProofs.
Require Import Lia.
Local Open Scope N_scope.

Section P.
Variable home : bytes.
Variable regcomp_ok : pat -> bool.

Definition pat_ok (p : pat) : bool := regcomp_ok p && negb (p_lcase p && p_ucase p).

Definition not_block (e : cexpr) : bool := match e with QBlock _ => false | _ => true end.

(* the semantic rules, on the tree *)
Fixpoint wf (e : cexpr) : bool :=
  match e with
  | QBlock None => true
  | QBlock (Some b) => wf b
  | QOr l r | QAnd l r => wf l && wf r
  | QMatch c a => wf c && wf a && negb (Nat.eqb (count_actions a) 0) &&
                  (if not_block a then validate_actions a else true)
  | QNeg x | QAttachment x => wf x
  | QBody p => pat_ok p
  | QHeader _ p => pat_ok p
  | QDate _ _ age => age <=? u32max
  | QExec s b _ => negb (b && negb s)
  | QAttBlock b => wf b && validate_attachment_block b
  | _ => true
  end.

Definition config_ok (c : config) : Prop := wf (c_expr c) = true /\ maildir_checks (c_paths c) (c_expr c) = true.

(* ---- lexer facts --------------------------------------------------------------------------------- *)
Lemma pat_flags_excl : forall s ic lc uc ic' lc' uc' r,
  pat_flags s ic lc uc = Some (ic', lc', uc', r) -> lc && uc = false -> lc' && uc' = false.
Proof.
  induction s as [|c s IH]; intros ic lc uc ic' lc' uc' r H Hx; cbn [pat_flags] in H.
  - injection H as <- <- <- <-. exact Hx.
  - destruct (c =? 105); [eapply IH; [exact H|exact Hx]|].
    destruct (c =? 108).
    + destruct uc; [discriminate H|]. eapply IH; [exact H|]. apply andb_false_r.
    + destruct (c =? 117).
      * destruct lc; [discriminate H|]. eapply IH; [exact H|]. reflexivity.
      * injection H as <- <- <- <-. exact Hx.
Qed.

Lemma lex_pattern_excl s p r : lex_pattern s = POk p r -> p_lcase p && p_ucase p = false.
Proof.
  unfold lex_pattern. destruct (skip_blank false s) as [|c t]; [intros H; discriminate H|].
  destruct ((c =? 33) || (c =? 34)); [intros H; discriminate H|].
  destruct (lex_delim c t [] 0) as [[src rest]|]; [|intros H; discriminate H].
  destruct (pat_flags rest false false false) as [[[[ic lc] uc] rest']|] eqn:E; intros H; [|discriminate H].
  injection H as <- <-. cbn [p_lcase p_ucase]. eapply pat_flags_excl; [exact E|reflexivity].
Qed.

Lemma lex_int_bound : forall s acc n r, acc <= u32max -> lex_int s acc = Some (n, r) -> n <= u32max.
Proof.
  induction s as [|c s IH]; intros acc n r Ha H; cbn [lex_int] in H.
  - injection H as <- <-. exact Ha.
  - destruct (isdigit c).
    + destruct ((u32max <? acc * 10) || (u32max <? acc * 10 + (c - 48))) eqn:E; [discriminate H|].
      apply orb_false_elim in E. destruct E as [_ E2]. apply N.ltb_ge in E2.
      eapply IH; [exact E2|exact H].
    + injection H as <- <-. exact Ha.
Qed.

Lemma lex_delim_bound delim : forall n s acc stored out rest, (length s <= n)%nat ->
  stored = N.of_nat (length acc) -> stored <= bufsiz - 1 ->
  lex_delim delim s acc stored = Some (out, rest) -> N.of_nat (length out) <= bufsiz - 1.
Proof.
  induction n as [|n IH]; intros s acc stored out rest Hn Hs Hb H.
  - destruct s; [discriminate H|cbn [length] in Hn; lia].
  - destruct s as [|c s]; [discriminate H|]. cbn [lex_delim] in H. cbn [length] in Hn.
    destruct (c =? delim).
    + injection H as <- <-. rewrite rev_length. lia.
    + destruct (stored =? bufsiz - 1) eqn:Ef; [discriminate H|]. apply N.eqb_neq in Ef.
      destruct ((c =? 92) && match s with cc :: _ => cc =? delim | [] => false end).
      * destruct s as [|cc s']; [discriminate H|]. cbn [length] in Hn.
        eapply (IH s' (cc :: acc) (stored + 1)); [lia|cbn [length]; lia|lia|exact H].
      * eapply (IH s (c :: acc) (stored + 1)); [lia|cbn [length]; lia|lia|exact H].
Qed.

(* ---- accepted implies well-formed ------------------------------------------------------------------------ *)
Ltac step H :=
  match type of H with
  | context [match ?x with _ => _ end] => let E := fresh "E" in destruct x eqn:E; try discriminate H
  | context [if ?b then _ else _] => let E := fresh "E" in destruct b eqn:E; try discriminate H
  end.

Ltac fin H := first [injection H as <- <- <- | injection H as <- <-]; cbn [wf]; unfold pat_ok.

Definition good (F : st -> bytes -> sres cexpr) : Prop := forall ms s e r ms', F ms s = SOk e r ms' -> wf e = true.
Definition goodc (F : st -> cexpr -> bytes -> sres cexpr) : Prop :=
  forall ms l s e r ms', wf l = true -> F ms l s = SOk e r ms' -> wf e = true.

Lemma cond_body_wf chain_ unary_ : goodc chain_ -> good unary_ -> good (cond_body chain_ unary_).
Proof.
  intros Hch Hu ms s e r ms' H. unfold cond_body in H.
  destruct (unary_ ms s) as [e1 r1 ms1| |] eqn:E; try discriminate H.
  eapply Hch; [eapply Hu; exact E|exact H].
Qed.

Lemma chain_body_wf chain_ unary_ : goodc chain_ -> good unary_ -> goodc (chain_body chain_ unary_).
Proof.
  intros Hch Hu ms l s e r ms' Hl H. unfold chain_body in H.
  destruct (lex s) as [[| |x|n|k|w|c] r0| |] eqn:El; try discriminate H;
    try (injection H as <- <- <-; exact Hl).
  destruct (beq_bytes k k_and).
  - destruct (unary_ ms r0) as [e1 r1 ms1| |] eqn:E; try discriminate H.
    eapply Hch; [|exact H]. cbn [wf]. rewrite Hl, (Hu _ _ _ _ _ E). reflexivity.
  - destruct (beq_bytes k k_or).
    + destruct (unary_ ms r0) as [e1 r1 ms1| |] eqn:E; try discriminate H.
      eapply Hch; [|exact H]. cbn [wf]. rewrite Hl, (Hu _ _ _ _ _ E). reflexivity.
    + injection H as <- <- <-. exact Hl.
Qed.

Lemma unary_body_wf f cond_ unary_ : good cond_ -> good unary_ -> good (unary_body home regcomp_ok f cond_ unary_).
Proof.
  intros Hc Hu ms s e r ms' H. unfold unary_body in H.
  repeat (step H);
    try (fin H;
         repeat match goal with
                | E : unary_ _ _ = SOk ?x _ _ |- _ => rewrite (Hu _ _ _ _ _ E); clear E
                | E : cond_ _ _ = SOk ?x _ _ |- _ => rewrite (Hc _ _ _ _ _ E); clear E
                | E : lex_pattern _ = POk ?p _ |- _ => rewrite (lex_pattern_excl _ _ _ E); clear E
                | E : regcomp_ok ?p = true |- _ => rewrite E; clear E
                | E : (u32max <? ?a) = false |- _ => apply N.ltb_ge in E; apply N.leb_le in E; rewrite E; clear E
                end; reflexivity).
Qed.

Lemma cond_wf : forall fuel,
  good (cond home regcomp_ok fuel) /\ goodc (chain home regcomp_ok fuel) /\ good (unary home regcomp_ok fuel).
Proof.
  induction fuel as [|f [IHc [IHch IHu]]].
  { split; [|split]; intros ms; intros; discriminate. }
  split; [|split].
  - apply (cond_body_wf _ _ IHch IHu).
  - apply (chain_body_wf _ _ IHch IHu).
  - apply (unary_body_wf f _ _ IHc IHu).
Qed.

(* ---- rules, actions, blocks ------------------------------------------------------------------------------------ *)
Definition acts_ok (a : cexpr) : Prop := wf a = true /\ count_actions a <> O /\ not_block a = true.
Definition acc_ok (acc : option cexpr) : Prop := match acc with Some a => acts_ok a | None => True end.
Definition wfo (acc : option cexpr) : Prop := match acc with Some e => wf e = true | None => True end.

Definition goodr (F : st -> option cexpr -> bytes -> sres cexpr) : Prop :=
  forall ms acc s e r ms', wfo acc -> F ms acc s = SOk e r ms' -> wf e = true /\ not_block e = false.
Definition goodb (F : st -> bytes -> sres cexpr) : Prop :=
  forall ms s e r ms', F ms s = SOk e r ms' -> wf e = true /\ not_block e = false.
Definition gooda (F : st -> option cexpr -> bytes -> sres cexpr) : Prop :=
  forall ms acc s e r ms', acc_ok acc -> F ms acc s = SOk e r ms' -> acts_ok e.

Lemma and_opt_ok acc x : acc_ok acc -> wf x = true -> count_actions x <> O -> not_block x = true ->
  acc_ok (and_opt acc x).
Proof.
  intros Ha Hw Hc Hn. destruct acc as [a|]; cbn [and_opt acc_ok].
  - destruct Ha as [Hwa [Hca Hna]]. split; [cbn [wf]; rewrite Hwa, Hw; reflexivity|].
    split; [cbn [count_actions]; lia|reflexivity].
  - split; [exact Hw|]. split; [exact Hc|exact Hn].
Qed.

Lemma or_opt_ok acc x : wfo acc -> wf x = true -> wfo (or_opt acc x).
Proof.
  intros Ha Hw. destruct acc as [a|]; cbn [or_opt wfo]; [cbn [wf]; cbn [wfo] in Ha; rewrite Ha, Hw; reflexivity|exact Hw].
Qed.

Ltac act_step Hacc IHa :=
  eapply IHa; [|eassumption]; apply and_opt_ok; [exact Hacc|reflexivity|cbn; discriminate|reflexivity].

Lemma actions_body_wf f block_ actions_ : goodb block_ -> gooda actions_ -> gooda (actions_body home f block_ actions_).
Proof.
  intros Hb Ha ms acc s e r ms' Hacc H. unfold actions_body in H.
  repeat (step H).
  all: try (injection H as <- <- <-; exact Hacc).
  all: try (act_step Hacc Ha; fail).
  - (* exec *)
    eapply Ha; [|eassumption]. apply and_opt_ok; [exact Hacc| |cbn; lia|reflexivity].
    cbn [wf]. match goal with E : _ && negb _ = false |- _ => rewrite E end. reflexivity.
  - (* attachment block *)
    eapply Ha; [|eassumption]. apply and_opt_ok; [exact Hacc| |cbn; lia|reflexivity].
    cbn [wf]. match goal with E : block_ _ _ = SOk _ _ _ |- _ => rewrite (proj1 (Hb _ _ _ _ _ E)) end.
    match goal with E : validate_attachment_block _ = true |- _ => rewrite E end. reflexivity.
Qed.

Lemma rules_body_wf f block_ rules_ actions_ : goodb block_ -> goodr rules_ -> gooda actions_ ->
  goodr (rules_body home regcomp_ok f block_ rules_ actions_).
Proof.
  intros Hb Hr Ha ms acc s e r ms' Hacc H. unfold rules_body in H.
  pose proof (cond_wf f) as [Hc _].
  repeat (step H).
  all: try (injection H as <- <- <-; split; [|reflexivity]; destruct acc; cbn [wf]; [exact Hacc|reflexivity]).
  all: try (eapply Hr; [|eassumption]; apply or_opt_ok; [exact Hacc|]; cbn [wf];
            match goal with E : cond _ _ _ _ _ = SOk _ _ _ |- _ => rewrite (Hc _ _ _ _ _ E) end).
  all: try (match goal with EV : Nat.eqb (count_actions ?b) 0 = false, EA : _ = SOk ?b _ _ |- _ =>
              destruct (Hb _ _ _ _ _ EA) as [Hw Hnb]; rewrite Hw, Hnb, EV; reflexivity end).
  all: try (match goal with EV : validate_actions ?a = true, EA : _ = SOk ?a _ _ |- _ =>
              destruct (Ha _ None _ _ _ _ I EA) as [Hw [Hcn Hnb]]; rewrite Hw, Hnb, EV;
              destruct (Nat.eqb_spec (count_actions a) 0) as [Hz|_]; [contradiction|reflexivity] end).
Qed.

Lemma block_wf : forall fuel,
  goodb (block home regcomp_ok fuel) /\ goodr (rules home regcomp_ok fuel) /\ gooda (actions home regcomp_ok fuel).
Proof.
  induction fuel as [|f [IHb [IHr IHa]]].
  { split; [|split]; intros ms; intros; discriminate. }
  split; [|split].
  - intros ms s e r ms' H. cbn [block] in H. eapply IHr; [|exact H]. exact I.
  - exact (rules_body_wf f _ _ _ IHb IHr IHa).
  - exact (actions_body_wf f _ _ IHb IHa).
Qed.

Lemma toplevel_ok : forall fuel ms cs s cs' ms', Forall config_ok cs ->
  toplevel home regcomp_ok fuel ms cs s = TOk cs' ms' -> Forall config_ok cs'.
Proof.
  induction fuel as [|f IH]; intros ms cs s cs' ms' Hcs H; [discriminate H|].
  cbn [toplevel] in H.
  repeat (step H); try (destruct x; discriminate H).
  all: try (eapply IH; [|exact H]; try exact Hcs).
  all: try (injection H as <- <-; apply Forall_rev; exact Hcs).
  all: try (constructor; [|exact Hcs]; split; cbn [c_expr c_paths]; [|assumption];
            match goal with EA : block _ _ _ _ _ = SOk ?b _ _ |- _ => exact (proj1 (proj1 (block_wf f) _ _ _ _ _ EA)) end).
Qed.

Theorem accepted_wf file cs : parse_config home regcomp_ok file = Accepted cs -> Forall config_ok cs.
Proof.
  unfold parse_config. destruct (toplevel _ _ _ _ _ _) as [cs' ms'| |] eqn:E; try (intros H; discriminate H).
  destruct (all_used ms'); intros H; [|discriminate H]. injection H as <-.
  eapply toplevel_ok; [|exact E]. constructor.
Qed.
End P.

(* ---- the gate: a rejected configuration stops main before any maildir is touched ---------------------------- *)
Definition conf_ok (o : outcome) : bool := match o with Accepted _ => true | _ => false end.

Theorem rejected_config_gate home ok file stdin syntax mds :
  parse_config home ok file = Rejected ->
  exists status, main false stdin (conf_ok (parse_config home ok file)) syntax mds = Exit status 0 /\ status <> 0%Z.
Proof.
  intros H. rewrite H. cbn [conf_ok]. rewrite config_error_nonzero.
  eexists. split; [reflexivity|]. destruct stdin; vm_compute; discriminate.
Qed.

(* ---- what well-formedness says, rule by rule (each is a class of the rejection catalogue) ------------------------ *)
Section Classes.
Variable regcomp_ok : pat -> bool.
Notation wf := (wf regcomp_ok).

Lemma wf_rule_exclusive c a : wf (QMatch c a) = true -> not_block a = true -> (1 < count_actions a)%nat ->
  count_if is_discard a = O /\ count_if is_reject a = O.
Proof.
  cbn [wf]. intros H Hn Hc. rewrite Hn in H. apply andb_prop in H. destruct H as [_ H].
  unfold validate_actions in H. destruct (Nat.ltb_spec 1 (count_actions a)); [|lia].
  apply andb_prop in H. destruct H as [H1 H2]. split; apply Nat.eqb_eq; assumption.
Qed.

Lemma wf_rule_has_action c a : wf (QMatch c a) = true -> count_actions a <> O.
Proof.
  cbn [wf]. intros H. apply andb_prop in H. destruct H as [H _]. apply andb_prop in H. destruct H as [_ H].
  destruct (Nat.eqb_spec (count_actions a) 0); [discriminate H|assumption].
Qed.

Lemma wf_attachment_block b : wf (QAttBlock b) = true -> (count_actions b <= count_if is_exec b)%nat.
Proof. cbn [wf]. intros H. apply andb_prop in H. destruct H as [_ H]. apply Nat.leb_le. exact H. Qed.

Lemma wf_pattern p : wf (QBody p) = true -> regcomp_ok p = true /\ (p_lcase p && p_ucase p = false).
Proof.
  cbn [wf]. unfold pat_ok. intros H. apply andb_prop in H. destruct H as [H1 H2]. split; [exact H1|].
  destruct (p_lcase p && p_ucase p); [discriminate H2|reflexivity].
Qed.

Lemma wf_header_pattern k p : wf (QHeader k p) = true -> regcomp_ok p = true /\ (p_lcase p && p_ucase p = false).
Proof. exact (wf_pattern p). Qed.

Lemma wf_age f g age : wf (QDate f g age) = true -> (age <= u32max)%N.
Proof. cbn [wf]. intros H. apply N.leb_le. exact H. Qed.

Lemma wf_exec_options s b l : wf (QExec s b l) = true -> b = true -> s = true.
Proof. cbn [wf]. intros H ->. destruct s; [reflexivity|discriminate H]. Qed.

Lemma checks_nonempty paths b : maildir_checks paths b = true -> count_actions b <> O.
Proof.
  unfold maildir_checks. intros H. apply andb_prop in H. destruct H as [H _].
  destruct (Nat.eqb_spec (count_actions b) 0); [discriminate H|assumption].
Qed.

Lemma checks_reject_only_stdin paths b : maildir_checks paths b = true -> count_if is_reject b <> O ->
  forall p, In p paths -> beq_bytes s_dev_stdin p = true.
Proof.
  unfold maildir_checks. intros H Hr. apply andb_prop in H. destruct H as [_ H].
  apply orb_prop in H. destruct H as [H|H].
  - apply Nat.eqb_eq in H. contradiction.
  - intros p Hp. rewrite forallb_forall in H. apply H. exact Hp.
Qed.
End Classes.
