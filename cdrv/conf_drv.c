/* config_parse driver.  One request per line:
 *   conf <filehex> <homehex>
 * Answer:  OK <dump of the configuration list>      (config_parse returned 0)
 *          E <return value> <diagnostic lines on stderr that start with "<path>:<line>: ">
 *          DIED <wait status>                         (the parser process was killed)
 * Every request is parsed in a forked child: parse.y keeps its error counter and lexer state in
 * statics that are never reset.  The dump format is shared with ocaml/driver.ml (conf command). */
#include "config.h"
#include <sys/wait.h>
#include <fcntl.h>
#include <unistd.h>
#include <err.h>
#include "extern.h"
#include "conf.h"
#include "vector.h"
#include "hex.h"

static void dump_strings(const struct string_list *l) {
	const struct string *s;
	int first = 1;
	putchar('[');
	if (l != NULL)
		TAILQ_FOREACH(s, l, entry) { if (!first) putchar(','); first = 0; puthexstr(s->val); }
	putchar(']');
}

static void dump_lu(const struct expr *e) {
	if (e->ex_re.flags & EXPR_PATTERN_LCASE) putchar('l');
	if (e->ex_re.flags & EXPR_PATTERN_UCASE) putchar('u');
}

static void dump(const struct expr *e) {
	if (e == NULL) { putchar('_'); return; }
	switch (e->ex_type) {
	case EXPR_TYPE_BLOCK: fputs("B(", stdout); if (e->ex_lhs) dump(e->ex_lhs); putchar(')'); break;
	case EXPR_TYPE_OR: fputs("O(", stdout); dump(e->ex_lhs); putchar(','); dump(e->ex_rhs); putchar(')'); break;
	case EXPR_TYPE_AND: fputs("A(", stdout); dump(e->ex_lhs); putchar(','); dump(e->ex_rhs); putchar(')'); break;
	case EXPR_TYPE_MATCH: fputs("M(", stdout); dump(e->ex_lhs); putchar(','); dump(e->ex_rhs); putchar(')'); break;
	case EXPR_TYPE_NEG: fputs("N(", stdout); dump(e->ex_lhs); putchar(')'); break;
	case EXPR_TYPE_ATTACHMENT: fputs("T(", stdout); dump(e->ex_lhs); putchar(')'); break;
	case EXPR_TYPE_BODY: fputs("b:", stdout); dump_lu(e); break;
	case EXPR_TYPE_HEADER: fputs("h:", stdout); dump_lu(e); dump_strings(e->ex_strings); break;
	case EXPR_TYPE_DATE: printf("d%d%c%lld", (int)e->ex_date.field, e->ex_date.cmp == EXPR_DATE_CMP_GT ? '>' : '<', (long long)e->ex_date.age); break;
	case EXPR_TYPE_NEW: putchar('n'); break;
	case EXPR_TYPE_OLD: putchar('o'); break;
	case EXPR_TYPE_ALL: putchar('a'); break;
	case EXPR_TYPE_STAT: putchar('s'); dump_strings(e->ex_strings); break;
	case EXPR_TYPE_COMMAND: putchar('c'); dump_strings(e->ex_strings); break;
	case EXPR_TYPE_BREAK: putchar('k'); break;
	case EXPR_TYPE_MOVE: putchar('m'); dump_strings(e->ex_strings); break;
	case EXPR_TYPE_FLAG: putchar('f'); dump_strings(e->ex_strings); break;
	case EXPR_TYPE_FLAGS: putchar('F'); dump_strings(e->ex_strings); break;
	case EXPR_TYPE_DISCARD: putchar('x'); break;
	case EXPR_TYPE_LABEL: putchar('l'); dump_strings(e->ex_strings); break;
	case EXPR_TYPE_PASS: putchar('p'); break;
	case EXPR_TYPE_REJECT: putchar('r'); break;
	case EXPR_TYPE_EXEC: printf("e%d%d", !!(e->ex_exec.flags & EXPR_EXEC_STDIN), !!(e->ex_exec.flags & EXPR_EXEC_BODY)); dump_strings(e->ex_strings); break;
	case EXPR_TYPE_ATTACHMENT_BLOCK: fputs("K(", stdout); dump(e->ex_lhs); putchar(')'); break;
	case EXPR_TYPE_ADD_HEADER: fputs("H[", stdout); puthexstr(e->ex_add_header.key); putchar(','); puthexstr(e->ex_add_header.val); putchar(']'); break;
	default: printf("?%d", (int)e->ex_type);
	}
}

int main(void) {
	char *line = NULL;
	size_t cap = 0;
	char dir[512], path[600], errpath[600];
	snprintf(dir, sizeof dir, "%s/mdv-confdrv-XXXXXX", getenv("VERIF_DRV_TMP") ? getenv("VERIF_DRV_TMP") : "/tmp");
	if (mkdtemp(dir) == NULL) err(1, "mkdtemp");
	snprintf(path, sizeof path, "%s/mdsort.conf", dir);
	snprintf(errpath, sizeof errpath, "%s/stderr", dir);
	setvbuf(stdout, NULL, _IOLBF, 0);
	while (getline(&line, &cap, stdin) > 0) {
		char *tok[8];
		int n = split(line, tok, 8);
		size_t flen;
		char *file, *home;
		pid_t pid;
		int status, fd;
		if (n < 3 || strcmp(tok[0], "conf") != 0) { puts("ERR"); continue; }
		file = unhex(tok[1], &flen);
		home = unhex(tok[2], NULL);
		fd = open(path, O_WRONLY | O_CREAT | O_TRUNC, 0600);
		if (fd == -1 || write(fd, file, flen) != (ssize_t)flen) err(1, "write conf");
		close(fd);
		fflush(stdout);
		pid = fork();
		if (pid == 0) {
			struct config_list cl;
			static struct environment env;
			int error, efd;
			size_t i;
			efd = open(errpath, O_WRONLY | O_CREAT | O_TRUNC, 0600);
			dup2(efd, 2);
			memset(&env, 0, sizeof(env));
			strncpy(env.ev_home, home, sizeof(env.ev_home) - 1);
			env.ev_confpath = path;
			alarm(20);
			config_init(&cl);
			error = config_parse(&cl, path, &env);
			if (error) {
				FILE *fh;
				char *l = NULL; size_t c = 0; int nd = 0;
				size_t plen = strlen(path);
				fflush(stderr);
				fh = fopen(errpath, "r");
				while (fh && getline(&l, &c, fh) > 0)
					if (strncmp(l, path, plen) == 0 && l[plen] == ':') nd++;
				printf("E %d %d\n", error, nd);
			} else {
				fputs("OK ", stdout);
				for (i = 0; i < VECTOR_LENGTH(cl.cl_list); i++) {
					if (i) putchar(';');
					putchar('C'); dump_strings(cl.cl_list[i].paths); putchar('{'); dump(cl.cl_list[i].expr); putchar('}');
				}
				putchar('\n');
			}
			fflush(stdout);
			config_free(&cl);
			_exit(0);
		}
		waitpid(pid, &status, 0);
		if (!WIFEXITED(status) || WEXITSTATUS(status) != 0) printf("DIED %d\n", status);
		free(file); free(home);
	}
	unlink(path); unlink(errpath); rmdir(dir);
	return 0;
}
