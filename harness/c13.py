"""C13 - commands get exactly the configured arguments and a clean process environment.
Tie: the binary with a recording helper (a small C program: argv, stdin bytes and offset, open
descriptors with targets, chosen exit status / signal).  Expected argv and stdin content come from
the extracted model: exec_argv (C12), message_write after set_header (C08), get_body / attachments
(C11).  Monitor: argv equals the configured strings after interpolation, one element per string;
stdin is /dev/null or exactly the current message / decoded body / attachment from offset 0; only
descriptors 0, 1, 2 are open in the child; exit status handling."""
import base64, os, re
import common, mdrun, msggen
from common import hexs, unhexs

ARGS = [b'plain', b'two words', b'"quoted"', b"it's", b'*', b'$HOME', b'`id`', b';ls', b'a|b', b'-n', b'', b'caf\xc3\xa9', b'\\n', b'  lead', b'x=y&z', b'a~']


def conf_str(b):
    if b == b'':
        return None            # empty strings are rejected by the lexer ("empty string")
    return mdrun.conf_quote(b)


def body_variants(rng):
    raw = b'line one\nsecond line caf\xc3\xa9\n=20 literal\n'
    k = rng.randrange(5)
    if k == 0:
        return [(b'To', b'a'), (b'Subject', b's')], raw, raw
    if k == 1:
        return [(b'To', b'a'), (b'Subject', b's'), (b'Content-Transfer-Encoding', b'base64')], base64.encodebytes(raw), raw
    if k == 2:
        enc = raw.replace(b'=', b'=3D').replace(b'\xc3\xa9', b'=C3=A9')
        return [(b'Content-Transfer-Encoding', b'quoted-printable'), (b'To', b'a')], enc, raw
    if k == 3:
        # header order To, Subject, Content-Transfer-Encoding (the F-06 witness)
        return [(b'To', b'a'), (b'Subject', b's'), (b'Content-Transfer-Encoding', b'base64'), (b'X-Z', b'z')], base64.encodebytes(raw), raw
    alt = (b'--alt\nContent-Type: text/html\n\n<p>html</p>\n--alt\nContent-Type: text/plain\nContent-Transfer-Encoding: base64\n\n'
           + base64.encodebytes(raw) + b'--alt--\n')
    return [(b'To', b'a'), (b'Content-Type', b'multipart/alternative; boundary="alt"')], alt, raw


def model_ops(text, ops):
    out = common.run_lines(common.model_exe(), ['msg %s %s %s' % (hexs(text), hexs(b'm'), ' '.join(ops))])[0][0]
    return out.split(' ')


def run_case(ck, rng, stats, samples):
    sb = mdrun.Sandbox()
    src = sb.maildir('src'); dst = sb.maildir('dst')
    helper = common.rec_helper()
    hout = os.path.join(sb.root, 'helper-out'); os.makedirs(hout)
    hdrs, body, decoded = body_variants(rng)
    text = b''.join(k + b': ' + v + b'\n' for k, v in hdrs) + b'\n' + body
    nargs = rng.randrange(1, 8)
    args = [a for a in (rng.choice(ARGS) for _ in range(nargs)) if a != b'']
    argstr = b' '.join(conf_str(a) for a in args)
    mode = rng.choice(['plain', 'stdin', 'stdin body', 'stdin', 'stdin body'])
    pre = rng.choice(['', '', 'label', 'addhdr', 'flag', 'move'])
    post = rng.choice(['', 'move', 'label'])
    exit_spec = rng.choice(['0', '0', '0', '3', '127', 'sig9'])
    where = rng.choice(['maildir', 'maildir', 'stdin'])
    stdinmode = where == 'stdin'
    if stdinmode and pre == 'flag':
        pre = 'label'            # a bare flag on the stdin spool is an error by design (cannot move to the temporary directory)
    opts = {'plain': b'', 'stdin': b'stdin ', 'stdin body': b'stdin body '}[mode]
    acts = []
    sets = []
    if pre == 'label':
        acts.append(b'label "L"'); sets.append((b'X-Label', b'L'))
    elif pre == 'addhdr':
        acts.append(b'add-header "X-Pre" "p v"'); sets.append((b'X-Pre', b'p v'))
    elif pre == 'flag':
        acts.append(b'flag new')          # the message sits in cur: flagged into new, which has been walked already (finding F-20)
    elif pre == 'move':
        acts.append(b'move "%s"' % dst.encode())
    acts.append(b'exec %s{ "%s" %s }' % (opts, helper.encode(), argstr) if args else b'exec %s"%s"' % (opts, helper.encode()))
    if post == 'move' and pre != 'move':
        acts.append(b'move "%s"' % dst.encode())
    elif post == 'label' and pre != 'label':
        acts.append(b'label "after"')
        if sets:
            # every header is set when the action list is interpolated, i.e. before the first rewrite:
            # the file written by the earlier add-header already carries this label
            sets.append((b'X-Label', b'after'))
    head = b'stdin' if stdinmode else b'maildir "%s"' % src.encode()
    conf = sb.write_conf(head + b' {\n\tmatch all ' + b' '.join(acts) + b'\n}\n')
    if not stdinmode:
        sb.add(src, 'cur' if pre == 'flag' else 'new', text)
    # a third of the runs with a move / flag before the exec: source and destination on different file systems
    # (rename fails with EXDEV: the message is copied and the descriptor re-established)
    xdev = pre in ('move', 'flag') and rng.randrange(3) != 0
    env = {'VERIF_HELPER_OUT': hout, 'VERIF_HELPER_EXIT': exit_spec}
    if xdev:
        env['VFIO_XDEV'] = '1'
    rc, out, err = sb.run(['-'] if stdinmode else [], conf=conf, stdin=text if stdinmode else None, env=env,
                          preload=(os.path.join(common.VERIF, 'shim', 'libvfio.so') if xdev else None))
    stats['runs'] += 1
    stats['xdev'] = stats.get('xdev', 0) + (1 if xdev else 0)
    calls = common.helper_calls(hout)
    rep = {'config': open(conf, 'rb').read().decode(errors='replace'), 'message': text.decode(errors='replace'), 'exit': rc,
           'helper_exit': exit_spec, 'stderr': err[-300:].decode(errors='replace')}
    desc = '%s%s exec %s(exit %s) %s, %s' % (pre or '-', ' (EXDEV)' if xdev else '', opts.decode(), exit_spec, post or '-', where)
    bad = None
    if len(calls) != 1:
        bad = 'the command ran %d times' % len(calls)
    else:
        c = calls[0]
        stats['nontrivial'] += 1
        # argv: exactly the configured strings, one element each
        if c['argv'][1:] != args:
            bad = 'argv %r instead of %r' % (c['argv'][1:], args)
        # descriptors
        extra = [(n, t) for n, t in c['fds'] if int(n) > 2]
        if not bad and extra:
            key = 'F-19-tempfile-inherited'
            if ck.is_known(key) and all('mdsort-' in t for n, t in extra):
                ck.known_finding(key, desc)
            else:
                bad = 'the child inherits descriptor(s) %r' % extra
        # stdin
        if not bad:
            if mode == 'plain':
                t0 = [t for n, t in c['fds'] if n == '0']
                if c['stdin'] != b'' or (t0 and t0[0] != '/dev/null'):
                    bad = 'stdin is %r (%d bytes) instead of /dev/null' % (t0, len(c['stdin']))
            else:
                # the current message: after label / add-header the rewritten one
                ops = ['S%s:%s' % (hexs(k), hexs(v)) for k, v in sets]
                if mode == 'stdin':
                    cur = text if not sets else unhexs(model_ops(text, ops + ['W'])[-1][1:])
                    want = cur
                else:
                    tok = model_ops(text, ops + (['W'] if sets else []) + ['B'])[-1]
                    want = None if tok == 'BN' else unhexs(tok[1:])
                ref = (text if not sets else None) if mode == 'stdin' else decoded
                if mode == 'stdin body' and c['stdin'] != decoded:
                    if c['stdin'] == body and sets and ck.is_known('F-06-body-undecoded-after-rewrite'):
                        ck.known_finding('F-06-body-undecoded-after-rewrite', desc)
                    else:
                        bad = 'stdin body is %r... instead of the decoded body %r...' % (c['stdin'][:60], decoded[:60])
                elif mode == 'stdin' and want is not None and c['stdin'] != want:
                    bad = 'stdin is %r... instead of the current message %r...' % (c['stdin'][:80], want[:80])
                elif want is not None and c['stdin'] != want and not bad:
                    ck.violation('correspondence broken: %s: stdin %r..., model %r...' % (desc, c['stdin'][:60], want[:60]),
                                 dict(rep, obligation='correspondence model stdin content'), found_input=False)
    # exit status handling
    if not bad:
        moved = len(sb.snapshot(dst))
        want_err = exit_spec != '0'
        if want_err and rc == 0:
            bad = 'exec exited %s but mdsort exits 0' % exit_spec
        if not want_err and rc != 0:
            bad = 'mdsort exits %d although the command succeeded (%r)' % (rc, err[-150:])
        if want_err and post == 'move' and pre != 'move' and moved:
            bad = 'actions after a failed exec were performed'
        if stdinmode and want_err and rc != 75:
            bad = 'stdin mode: exit %d instead of 75' % rc
    if bad:
        stats['viol'] += 1
        if stats['viol'] <= 4:
            ck.violation('%s: %s' % (desc, bad), rep)
    if len(samples) < 4:
        samples.append({'rule': b' '.join(acts).decode(errors='replace'), 'where': where, 'helper_exit': exit_spec})
    sb.cleanup()


def capture_case(ck, rng, stats):
    """arguments that are captures: present, empty and absent (optional group not taking part) groups"""
    sb = mdrun.Sandbox()
    src = sb.maildir('src')
    helper = common.rec_helper()
    hout = os.path.join(sb.root, 'helper-out'); os.makedirs(hout)
    to, g1, g2 = rng.choice([(b'user+tag@example.com', b'+tag', b'example.com'), (b'user@example.com', b'', b'example.com'),
                             (b'user+@x', None, None), (b'user@', b'', b'')])
    kind = rng.choice(['exec', 'command'])
    if kind == 'exec':
        rule = b'match header "To" /^user(\\+[a-z]+)?@(.*)$/ exec { "%s" "\\1" "\\2" "[\\1]" }' % helper.encode()
    else:
        rule = b'match header "To" /^user(\\+[a-z]+)?@(.*)$/ and command { "%s" "\\1" "\\2" "[\\1]" } flags "T"' % helper.encode()
    conf = sb.write_conf(b'maildir "%s" {\n\t%s\n}\n' % (src.encode(), rule))
    sb.add(src, 'new', b'To: ' + to + b'\n\nb\n')
    rc, out, err = sb.run([], conf=conf, env={'VERIF_HELPER_OUT': hout})
    stats['runs'] += 1
    calls = common.helper_calls(hout)
    rep = {'config': open(conf, 'rb').read().decode(errors='replace'), 'to': to.decode(), 'exit': rc, 'stderr': err[-300:].decode(errors='replace')}
    if g2 is None:
        if calls:
            ck.violation('the pattern does not match %r but the command ran' % to, rep)
    else:
        stats['nontrivial'] += 1
        want = [g1, g2, b'[' + g1 + b']']
        if len(calls) != 1 or calls[0]['argv'][1:] != want or rc != 0:
            ck.violation('%s with captures of %r: argv %r (exit %d), expected %r - one argument per configured string, empty captures included'
                         % (kind, to, [c['argv'][1:] for c in calls], rc, want), rep)
    sb.cleanup()


def multi_exec_case(ck, rng, stats):
    """several exec actions (and a command condition) in one rule, each with its own stdin option: every child gets exactly
    what ITS action asks for - /dev/null, the message from offset 0, or the decoded body - whatever ran before it"""
    sb = mdrun.Sandbox()
    src = sb.maildir('src'); dst = sb.maildir('dst')
    helper = common.rec_helper()
    hout = os.path.join(sb.root, 'helper-out'); os.makedirs(hout)
    body = b'line one\nline two =3D\n'
    text = b'To: a@b\nSubject: multi\nContent-Transfer-Encoding: quoted-printable\n\n' + body
    decoded = b'line one\nline two =\n'
    modes = [rng.choice(['plain', 'stdin', 'stdin body']) for _ in range(rng.choice([2, 3, 4]))]
    if 'plain' not in modes:
        modes[rng.randrange(1, len(modes))] = 'plain'
    opts = {'plain': b'', 'stdin': b'stdin ', 'stdin body': b'stdin body '}
    acts = []
    for i, m in enumerate(modes):
        acts.append(b'exec %s{ "%s" "call%d" }' % (opts[m], helper.encode(), i))
        if rng.randrange(4) == 0 and i + 1 < len(modes):
            acts.append(b'move "%s"' % dst.encode())
    with_cmd = rng.randrange(3) == 0
    cond = b'command { "%s" "exit=0" "cond" } and all' % helper.encode() if with_cmd else b'all'
    conf = sb.write_conf(b'maildir "%s" {\n\tmatch %s %s\n}\n' % (src.encode(), cond, b' '.join(acts)))
    sb.add(src, 'new', text)
    rc, out, err = sb.run([], conf=conf, env={'VERIF_HELPER_OUT': hout, 'VERIF_HELPER_EXIT': '0'})
    stats['runs'] += 1; stats['multi'] = stats.get('multi', 0) + 1
    calls = [c for c in common.helper_calls(hout)]
    rep = {'config': open(conf, 'rb').read().decode(errors='replace'), 'exit': rc, 'stderr': err[-300:].decode(errors='replace')}
    bad = None
    execs = [c for c in calls if c['argv'][1:2] and c['argv'][1].startswith(b'call')]
    if len(execs) != len(modes) or rc != 0:
        bad = '%d exec call(s) recorded for %d exec actions (exit %d)' % (len(execs), len(modes), rc)
    else:
        stats['nontrivial'] += 1
        for c in calls:
            t0 = [t for n, t in c['fds'] if n == '0']
            extra = [(n, t) for n, t in c['fds'] if int(n) > 2]
            who = c['argv'][1]
            m = modes[int(who[4:])] if who.startswith(b'call') else 'plain'
            if extra and not all('mdsort-' in t for n, t in extra):
                bad = '%s inherits descriptor(s) %r' % (who.decode(), extra); break
            if m == 'plain' and (c['stdin'] != b'' or (t0 and t0[0] != '/dev/null')):
                bad = '%s (no stdin option) has %r on descriptor 0 and read %d bytes instead of /dev/null' % (who.decode(), t0, len(c['stdin'])); break
            if m == 'stdin' and c['stdin'] != text:
                bad = '%s (stdin) read %r... instead of the whole message' % (who.decode(), c['stdin'][:60]); break
            if m == 'stdin body' and c['stdin'] != decoded:
                bad = '%s (stdin body) read %r... instead of the decoded body' % (who.decode(), c['stdin'][:60]); break
    if bad:
        stats['viol'] += 1
        if stats['viol'] <= 4:
            ck.violation('several exec actions in one rule (%s): %s' % (', '.join(modes), bad), rep)
    sb.cleanup()


def command_case(ck, rng, stats):
    sb = mdrun.Sandbox()
    src = sb.maildir('src'); dst = sb.maildir('dst')
    helper = common.rec_helper()
    hout = os.path.join(sb.root, 'helper-out'); os.makedirs(hout)
    args = [a for a in (rng.choice(ARGS) for _ in range(rng.randrange(1, 5))) if a != b'']
    code = rng.choice(['exit=0', 'exit=1', 'exit=7', 'exit=127', 'sig=15'])
    allargs = [code.encode()] + args
    conf = sb.write_conf(b'maildir "%s" {\n\tmatch command { "%s" %s } move "%s"\n}\n' % (src.encode(), helper.encode(), b' '.join(conf_str(a) for a in allargs), dst.encode()))
    sb.add(src, 'new', b'To: a\n\nb\n')
    rc, out, err = sb.run([], conf=conf, env={'VERIF_HELPER_OUT': hout})
    stats['runs'] += 1
    calls = common.helper_calls(hout)
    moved = len(sb.snapshot(dst))
    rep = {'config': open(conf, 'rb').read().decode(errors='replace'), 'exit': rc, 'stderr': err[-300:].decode(errors='replace')}
    bad = None
    if len(calls) != 1:
        bad = 'the command ran %d times' % len(calls)
    else:
        c = calls[0]
        stats['nontrivial'] += 1
        extra = [(n, t) for n, t in c['fds'] if int(n) > 2]
        t0 = [t for n, t in c['fds'] if n == '0']
        if c['argv'][1:] != allargs:
            bad = 'argv %r instead of %r' % (c['argv'][1:], allargs)
        elif extra:
            bad = 'the child inherits descriptor(s) %r' % extra
        elif t0 != ['/dev/null']:
            bad = 'stdin of a command condition is %r' % t0
        elif code == 'exit=0' and (not moved or rc != 0):
            bad = 'command exited 0 but the rule did not fire (exit %d)' % rc
        elif code in ('exit=1', 'exit=7', 'sig=15') and (moved or rc != 0):
            bad = '%s must mean "no match" (moved=%d, exit %d)' % (code, moved, rc)
        elif code == 'exit=127' and (moved or rc == 0):
            bad = 'exit 127 must be an error (moved=%d, exit %d)' % (moved, rc)
    if bad:
        stats['viol'] += 1
        if stats['viol'] <= 4:
            ck.violation('command condition %s: %s' % (code, bad), rep)
    sb.cleanup()


def attachment_case(ck, rng, stats):
    sb = mdrun.Sandbox()
    src = sb.maildir('src')
    helper = common.rec_helper()
    hout = os.path.join(sb.root, 'helper-out'); os.makedirs(hout)
    text = b'To: a\n' + msggen.gen_mime(rng, maxdepth=rng.choice([1, 2]), bad=False)
    conf = sb.write_conf(b'maildir "%s" {\n\tmatch all attachment {\n\t\tmatch all exec stdin { "%s" "part" }\n\t}\n}\n' % (src.encode(), helper.encode()))
    sb.add(src, 'new', text)
    rc, out, err = sb.run([], conf=conf, env={'VERIF_HELPER_OUT': hout})
    stats['runs'] += 1
    calls = common.helper_calls(hout)
    tok = model_ops(text, ['A'])[-1]
    rep = {'config': open(conf, 'rb').read().decode(errors='replace'), 'message': text.decode(errors='replace'), 'exit': rc, 'stderr': err[-300:].decode(errors='replace')}
    if tok in ('AN', 'AFUEL'):
        if rc == 0 or calls:
            ck.violation('attachment block: the model reports a MIME error but mdsort exits %d and ran %d commands' % (rc, len(calls)), rep)
        sb.cleanup(); return
    parts = [unhexs(x.split(';')[0]) for x in tok.split(',')[1:]]
    stats['nontrivial'] += 1
    got = [c['stdin'] for c in calls]
    if got != parts:
        ck.violation('attachment block: the commands received %r, the parts are %r' % ([g[:50] for g in got], [p[:50] for p in parts]), rep)
    for c in calls:
        extra = [(n, t) for n, t in c['fds'] if int(n) > 2]
        if extra:
            key = 'F-19-tempfile-inherited'
            if ck.is_known(key) and all('mdsort-' in t for n, t in extra):
                ck.known_finding(key, 'attachment exec')
            else:
                ck.violation('attachment exec: the child inherits descriptor(s) %r' % extra, rep)
            break
    sb.cleanup()


def selective_attachment_case(ck, rng, stats):
    """an attachment block whose rule selects SOME parts: the command runs once for every selected part, in order, with that
    part on stdin, whatever the parts before and after it are; a failing command stops the remaining actions"""
    sb = mdrun.Sandbox()
    src = sb.maildir('src'); dst = sb.maildir('dst')
    helper = common.rec_helper()
    hout = os.path.join(sb.root, 'helper-out'); os.makedirs(hout)
    kinds = [rng.choice([b'text/calendar', b'text/plain', b'application/pdf', b'text/calendar; method=REQUEST']) for _ in range(rng.randrange(2, 6))]
    if not any(b'calendar' in k for k in kinds):
        kinds[rng.randrange(len(kinds))] = b'text/calendar'
    if all(b'calendar' in k for k in kinds):
        kinds.insert(rng.randrange(1, len(kinds) + 1), b'text/plain')
    bodies = [b'part %d body\n' % i for i in range(len(kinds))]
    text = b'To: a\nContent-Type: multipart/mixed; boundary="sel"\n\n' + \
           b''.join(b'--sel\nContent-Type: %s\n\n%s' % (k, b) for k, b in zip(kinds, bodies)) + b'--sel--\n'
    fail = rng.randrange(4) == 0
    mode = rng.choice([b'stdin', b'stdin body'])
    conf = sb.write_conf(b'maildir "%s" {\n\tmatch all attachment {\n\t\tmatch header "Content-Type" /calendar/ exec %s { "%s" "sel" }\n\t} move "%s"\n}\n'
                         % (src.encode(), mode, helper.encode(), dst.encode()))
    sb.add(src, 'new', text)
    rc, out, err = sb.run([], conf=conf, env={'VERIF_HELPER_OUT': hout, 'VERIF_HELPER_EXIT': '3' if fail else '0'})
    stats['runs'] += 1; stats['selective'] = stats.get('selective', 0) + 1
    calls = common.helper_calls(hout)
    want = [(b'Content-Type: %s\n\n%s' % (k, b)) if mode == b'stdin' else b for k, b in zip(kinds, bodies) if b'calendar' in k]
    got = [c['stdin'] for c in calls]
    moved = len(sb.snapshot(dst))
    rep = {'config': open(conf, 'rb').read().decode(errors='replace'), 'message': text.decode(errors='replace'), 'exit': rc, 'stderr': err[-300:].decode(errors='replace')}
    bad = None
    if fail:
        if got != want[:1]:
            bad = 'the command fails on the first selected part: it must run exactly once, on that part; it received %r' % [g[:40] for g in got]
        elif rc == 0 or moved:
            bad = 'the command failed but mdsort exits %d and %s the message' % (rc, 'moved' if moved else 'left')
    else:
        if got != want:
            bad = 'parts %r: the commands received %r, the selected parts are %r' % ([k.decode() for k in kinds], [g[:40] for g in got], [w[:40] for w in want])
        elif rc != 0 or moved != 1:
            bad = 'all commands succeeded but mdsort exits %d, moved=%d' % (rc, moved)
    if bad:
        stats['viol'] += 1
        if stats['viol'] <= 4:
            ck.violation('attachment block selecting some parts (exec %s): %s' % (mode.decode(), bad), rep)
    else:
        stats['nontrivial'] += 1
    sb.cleanup()


def command_per_attachment_case(ck, rng, stats):
    """a command condition evaluated once per attachment runs the program once per attachment, whatever the arguments"""
    sb = mdrun.Sandbox()
    src = sb.maildir('src'); dst = sb.maildir('dst')
    helper = common.rec_helper()
    hout = os.path.join(sb.root, 'helper-out'); os.makedirs(hout)
    n = rng.choice([2, 3, 4])
    text = b'To: a\nContent-Type: multipart/mixed; boundary="cp"\n\n' + b''.join(b'--cp\nContent-Type: text/plain\n\npart %d\n' % i for i in range(n)) + b'--cp--\n'
    nmsg = rng.choice([1, 2])
    for _ in range(nmsg):
        sb.add(src, 'new', text)
    form = rng.randrange(4)
    if form == 0:       # no part satisfies the command: every part is asked
        rule = b'match attachment command { "%s" "exit=1" "same" } move "%s"' % (helper.encode(), dst.encode()); per_msg = n; moved = 0
    elif form == 1:     # negated: holds iff no part satisfies it
        rule = b'match ! attachment command { "%s" "exit=1" "same" } move "%s"' % (helper.encode(), dst.encode()); per_msg = n; moved = nmsg
    elif form == 2:     # the first part satisfies it: asked once
        rule = b'match attachment command { "%s" "exit=0" "same" } move "%s"' % (helper.encode(), dst.encode()); per_msg = 1; moved = nmsg
    else:               # inside an attachment block: the condition is evaluated for every part, then the action runs for every part
        rule = b'match all attachment {\n\t\tmatch command { "%s" "exit=0" "same" } exec { "%s" "ran" }\n\t}' % (helper.encode(), helper.encode()); per_msg = 2 * n; moved = 0
    conf = sb.write_conf(b'maildir "%s" {\n\t%s\n}\n' % (src.encode(), rule))
    rc, out, err = sb.run([], conf=conf, env={'VERIF_HELPER_OUT': hout, 'VERIF_HELPER_EXIT': '0'})
    stats['runs'] += 1; stats['per_attachment'] = stats.get('per_attachment', 0) + 1
    calls = common.helper_calls(hout)
    nm = len(sb.snapshot(dst))
    if len(calls) != per_msg * nmsg or nm != moved or rc != 0:
        stats['viol'] += 1
        ck.violation('%d message(s) of %d parts, rule %r: the programs ran %d time(s) (expected %d), %d message(s) moved (expected %d), exit %d'
                     % (nmsg, n, rule[:90], len(calls), per_msg * nmsg, nm, moved, rc),
                     {'config': open(conf, 'rb').read().decode(errors='replace'), 'message': text.decode(), 'exit': rc, 'stderr': err[-300:].decode(errors='replace')})
    else:
        stats['nontrivial'] += 1
    sb.cleanup()


def path_macro_case(ck, rng, stats):
    """${path} in the arguments of an exec action is the path of the message at hand - for every message of the run, in every maildir of the block"""
    sb = mdrun.Sandbox()
    src = sb.maildir('src'); src2 = sb.maildir('src2')
    helper = common.rec_helper()
    hout = os.path.join(sb.root, 'helper-out'); os.makedirs(hout)
    paths = []
    for md, sub, n in [(src, 'new', 2), (src, 'cur', 1), (src2, 'new', rng.choice([1, 2]))]:
        for i in range(n):
            name = sb.add(md, sub, b'To: a\n\nP %s %s %d\n' % (os.path.basename(md).encode(), sub.encode(), i))
            paths.append(os.path.join(md, sub, name).encode())
    args = rng.choice([[b'${path}'], [b'file=${path};*', b'const'], [b'a b', b'${path}', b'${path}.bak']])
    conf = sb.write_conf(b'maildir { "%s" "%s" } {\n\tmatch all exec { "%s" %s }\n}\n' % (src.encode(), src2.encode(), helper.encode(), b' '.join(b'"%s"' % a for a in args)))
    rc, out, err = sb.run([], conf=conf, env={'VERIF_HELPER_OUT': hout, 'VERIF_HELPER_EXIT': '0'})
    stats['runs'] += 1; stats['path_macro'] = stats.get('path_macro', 0) + 1
    calls = common.helper_calls(hout)
    want = sorted([a.replace(b'${path}', p) for a in args] for p in paths)
    got = sorted(c['argv'][1:] for c in calls)
    if got != want or rc != 0:
        stats['viol'] += 1
        ck.violation('%d messages in two maildirs, exec arguments %r: every command gets the path of its own message; received %r (exit %d)'
                     % (len(paths), args, [[x[-40:] for x in g] for g in got][:4], rc),
                     {'config': open(conf, 'rb').read().decode(errors='replace'), 'exit': rc, 'stderr': err[-300:].decode(errors='replace')})
    else:
        stats['nontrivial'] += 1
    sb.cleanup()


def fork_failure_case(ck, rng, stats):
    """one fork (or waitpid) fails once: an error for that message; the commands of the following messages run as if nothing had happened -
    exactly once each, stdin /dev/null (or the message, if asked for), no extra descriptor"""
    import iorun
    kind = rng.choice(['exec', 'label-exec', 'command', 'exec-stdin'])
    which = rng.choice(['fork', 'fork', 'waitpid'])
    helper = common.rec_helper()
    def build():
        sb = mdrun.Sandbox()
        src = sb.maildir('src'); dst = sb.maildir('dst')
        hout = os.path.join(sb.root, 'helper-out'); os.makedirs(hout)
        for i in range(3):
            sb.add(src, 'new', b'To: a\nX-Id: f%d\n\nbody %d\n' % (i, i))
        rule = {'exec': b'match all exec { "%s" "x" }', 'label-exec': b'match all label "l" exec { "%s" "x" }',
                'command': b'match command { "%s" "x" } move "DST"', 'exec-stdin': b'match all exec stdin { "%s" "x" }'}[kind] % helper.encode()
        conf = sb.write_conf(b'maildir "%s" {\n\t%s\n}\n' % (src.encode(), rule.replace(b'DST', dst.encode())))
        return sb, conf, hout
    sb, conf, hout = build()
    log = os.path.join(sb.root, 'trace.log')
    rc0, out0, err0 = sb.run([], conf=conf, env={'VERIF_HELPER_OUT': hout, 'VERIF_HELPER_EXIT': '0', 'VFIO_LOG': log, 'VFIO_ROOT': sb.root}, preload=iorun.SHIM)
    calls0 = iorun.parse_trace(open(log, errors='replace').read().splitlines()) if os.path.exists(log) else []
    ks = [c['k'] for c in calls0 if c['call'] == which]
    sb.cleanup()
    if not ks:
        return
    sb, conf, hout = build()
    rc, out, err = sb.run([], conf=conf, env={'VERIF_HELPER_OUT': hout, 'VERIF_HELPER_EXIT': '0', 'VFIO_ROOT': sb.root,
                                                 'VFIO_PLAN': '%d:errno=%s' % (ks[0], 'EAGAIN' if which == 'fork' else 'ECHILD')}, preload=iorun.SHIM)
    stats['runs'] += 1; stats['fork_failure'] = stats.get('fork_failure', 0) + 1
    calls = common.helper_calls(hout)
    want_calls = 2 if which == 'fork' else 3
    bad = None
    if rc == 0:
        bad = 'the failure of %s was not reported (exit 0)' % which
    elif len(calls) != want_calls:
        bad = 'the command ran %d time(s) for 3 messages of which the first met a failing %s (expected %d)' % (len(calls), which, want_calls)
    else:
        for c in calls[(0 if which == 'fork' else 1):]:
            t0 = [t for n, t in c['fds'] if n == '0']
            extra = [(n, t) for n, t in c['fds'] if int(n) > 2]
            if extra:
                bad = 'a later child inherits descriptor(s) %r' % extra; break
            if kind == 'exec-stdin':
                if b'To: a' not in c['stdin']:
                    bad = 'a later child did not get its message on stdin'; break
            elif c['stdin'] != b'' or (t0 and t0[0] != '/dev/null'):
                bad = 'stdin of a later child is %r (%d bytes) instead of /dev/null' % (t0, len(c['stdin'])); break
    if bad:
        stats['viol'] += 1
        ck.violation('rule kind %s, %s fails once for the first of three messages: %s (exit %d)' % (kind, which, bad, rc),
                     {'config': open(conf, 'rb').read().decode(errors='replace'), 'exit': rc, 'stderr': err[-300:].decode(errors='replace')})
    else:
        stats['nontrivial'] += 1
    sb.cleanup()


def environment_case(ck, rng, stats):
    """The process environment of the children is the one mdsort was started with - whatever mdsort did to its own in between
    (date conditions on a zone abbreviation set TZ for a moment) - and so is the working directory."""
    sb = mdrun.Sandbox()
    src = sb.maildir('src')
    helper = common.rec_helper()
    hout = os.path.join(sb.root, 'helper-out'); os.makedirs(hout)
    tz = rng.choice([None, '', '', 'UTC', 'Europe/Stockholm', 'EST5EDT', ':UTC', 'X' * 254, 'X' * 255, 'X' * 256, 'X' * 300])
    extra = {'VERIF_HELPER_OUT': hout, 'VERIF_HELPER_EXIT': '0', 'X_EMPTY': '', 'MDSORT_X': 'a b=c'}
    n = rng.randrange(1, 5)
    dates = [rng.choice([b'Sat, 02 Mar 2019 10:00:00 GMT', b'Sat, 02 Mar 2019 10:00:00 EST', b'Sat, 02 Mar 2019 10:00:00 +0100 (CET)',
                         b'Sat, 02 Mar 2019 10:00:00 UT', b'Sat, 02 Mar 2019 10:00:00 +0000', b'2 Mar 2019 10:00:00 CET', None]) for _ in range(n)]
    for d in dates:
        sb.add(src, 'new', (b'Date: %s\n' % d if d else b'') + b'To: a\n\nbody\n')
    how = rng.choice(['exec', 'command', 'both'])
    cond = rng.choice([b'( date > 1 hours or all )', b'( date header > 1 hours or all )', b'all'])
    if how == 'exec':
        rule = b'match %s exec { "%s" "e" }' % (cond, helper.encode())
    elif how == 'command':
        rule = b'match %s and command { "%s" "c" } flags "T"' % (cond, helper.encode())
    else:
        rule = b'match %s and command { "%s" "c" } exec stdin { "%s" "e" }' % (cond, helper.encode(), helper.encode())
    conf = sb.write_conf(b'maildir "%s" {\n\t%s\n}\n' % (src.encode(), rule))
    env = sb.env(extra)
    if tz is None:
        env.pop('TZ', None)
    else:
        env['TZ'] = tz
    exe = os.path.join(common.scratch_build('plain'), 'mdsort')
    import subprocess
    r = subprocess.run([exe, '-f', conf], cwd=sb.root, env=env, capture_output=True, timeout=60)
    stats['runs'] += 1; stats['environment'] = stats.get('environment', 0) + 1
    calls = common.helper_calls(hout)
    want = sorted(('%s=%s' % kv).encode() for kv in env.items())
    rep = {'config': open(conf, 'rb').read().decode(errors='replace'), 'messages': [d.decode() if d else None for d in dates], 'exit': r.returncode,
           'environment': env, 'stderr': r.stderr[-300:].decode(errors='replace')}
    bad = None
    # the model's account of TZ (ExecDefs.child_tz): the zone texts that are not numeric go through tzabbr
    zones = [d.split()[-1] for d in dates if d and cond != b'all' and not d.split()[-1].startswith((b'+', b'-', b'('))]
    mres = common.run_lines(common.model_exe(), ['childtz %s %s' % ('U' if tz is None else 'S' + common.hexs(tz.encode()) if tz else 'S',
                                                                    ','.join(common.hexs(z) for z in zones) or '-')])[0][0]
    if mres == 'REFUSED':
        # TZ does not fit the snapshot buffer: mdsort must not start (no command runs)
        if calls or r.returncode == 0:
            bad = 'TZ of %d characters does not fit the buffer (model: mdsort refuses to start) but exit %d and %d command(s) ran' % (len(tz), r.returncode, len(calls))
        calls = []
    elif len(calls) != n * (2 if how == 'both' else 1):
        bad = 'the command ran %d times for %d messages' % (len(calls), n)
    for i, c in enumerate(calls):
        if bad:
            break
        got_tz = [e[3:] for e in (c['environ'] or []) if e.startswith(b'TZ=')]
        m_tz = None if mres == 'U' else common.unhexs(mres[1:]) if len(mres) > 1 else b''
        if c['environ'] is not None and (got_tz[0] if got_tz else None) != m_tz and sorted(c['environ']) == want:
            ck.violation('correspondence broken: TZ of a child: model %r, implementation %r' % (m_tz, got_tz), dict(rep, obligation='correspondence ExecDefs.child_tz'), found_input=False)
        if c['environ'] is None:
            bad = 'the helper could not record its environment'
        elif sorted(c['environ']) != want:
            got = set(c['environ']); w = set(want)
            bad = 'call %d: the environment of the child differs from the one mdsort was started with: missing %r, unexpected %r' % (i, sorted(w - got), sorted(got - w))
        elif os.path.realpath(c['cwd']) != os.path.realpath(sb.root.encode() if isinstance(c['cwd'], bytes) else sb.root):
            bad = 'call %d: working directory %r instead of %r' % (i, c['cwd'], sb.root)
    if bad:
        stats['viol'] += 1
        if stats['viol'] <= 4:
            ck.violation('environment of commands (TZ %r, %s, %s): %s' % (tz, how, cond.decode(), bad), rep)
    else:
        stats['nontrivial'] += 1
    sb.cleanup()


def run(ck):
    stats = dict(runs=0, nontrivial=0, viol=0)
    samples = []
    n = 120 if ck.tier == 'quick' else 3000
    for i in range(n):
        run_case(ck, ck.rng, stats, samples)
        if i % 3 == 0:
            command_case(ck, ck.rng, stats)
            capture_case(ck, ck.rng, stats)
        if i % 4 == 0:
            attachment_case(ck, ck.rng, stats)
        if i % 3 == 1:
            multi_exec_case(ck, ck.rng, stats)
        if i % 3 == 2:
            selective_attachment_case(ck, ck.rng, stats)
            environment_case(ck, ck.rng, stats)
            command_per_attachment_case(ck, ck.rng, stats)
            path_macro_case(ck, ck.rng, stats)
            fork_failure_case(ck, ck.rng, stats)
        if len(ck.violations) > 6:
            break
    ck.coverage.update({
        'evaluations': stats['runs'],
        'distinct_nontrivial': stats['nontrivial'],
        'rule': 'exec actions with 1-7 arguments from a 16-element family (spaces, quotes, glob and shell metacharacters, 8-bit), options none / stdin / stdin body, '
                'placed after nothing / label / add-header / flag / move and before nothing / move / label, helper exit 0 / 3 / 127 / SIGKILL, in maildir and stdin '
                '(a third of the moves / flags before the exec across file systems); rules with 2-4 exec actions of mixed stdin options (and a command condition): every child gets what its own action asks for; attachment blocks whose rule selects some of 2-6 parts (exec stdin / stdin body, a quarter with a failing command followed by a move); '
                'mode, over plain, base64, quoted-printable and multipart/alternative bodies; command conditions with exit 0/1/7/127/SIGTERM; attachment blocks over '
                'generated MIME trees; command conditions evaluated per attachment (plain, negated, inside a block) with identical arguments: one run per part; ${path} arguments over 4-5 messages in two maildirs; one failing fork / waitpid for the first of three messages, the later commands unaffected; runs over 1-4 messages with date conditions on zone abbreviations started with TZ unset / empty / set: environment and working directory of every child equal those mdsort itself was started with. non-trivial = the command ran exactly once (or the parts were compared); counted per run',
        'samples': samples,
        'traces_validated_against_impl': stats['runs'],
    })
    ck.assumptions += ['the recording helper is a C program started directly by execvp (no shell in between)']


def replay(ck, rp):
    print(rp.get('config')); print(rp.get('message'))
    return 1
