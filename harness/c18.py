"""C18 - over-long paths are rejected, never truncated.
Tie: (a) pathjoin / pathslice through the extern.h driver (plain and ASan builds, exact-size
buffers) vs the extracted model, exhaustively over component shapes, ranges and buffer sizes;
(b) the mdsort binary with path-carrying inputs at every length in a window around PATH_MAX /
NAME_MAX, decoy maildirs at the truncations.  Monitor: independent reference (below) for the
primitives; for the binary: "error and nothing touched, or delivered under exactly the intended
path - never anything under a truncation"."""
import itertools, os, shutil
import common, mdrun
from common import hexs, unhexs

PATH_MAX = 4096
NAME_MAX = 255


# ---- reference for the primitives ---------------------------------------------------------------
def ref_pathjoin(siz, d, f):
    s = d + b'/' + f
    return s if len(s) < siz else None


def ref_chunks(p):
    out = []
    cur = b''
    for i, c in enumerate(p):
        if c == 0x2f:
            if i > 0 or False:
                out.append(cur)
            elif i == 0:
                pass
            cur = b'/'
        else:
            cur += bytes([c])
    out.append(cur)
    if p[:1] == b'/':
        return out if p else out
    return out


def ref_pathslice(p, siz, beg, end):
    chunks = []
    cur = None
    for i, c in enumerate(p):
        if c == 0x2f:
            if cur is not None:
                chunks.append(cur)
            elif i > 0:
                chunks.append(b'')
            cur = b'/'
        else:
            cur = (cur if cur is not None else b'') + bytes([c])
            if i == 0:
                pass
    if cur is not None:
        chunks.append(cur)
    elif not p:
        chunks.append(b'')
    nc = len(chunks)
    isrange = (end - beg) != 0
    if end < 0:
        end = nc + end - (1 if isrange else 0)
    if beg < 0:
        beg = nc + beg - (1 if isrange else 0)
    if beg < 0 or beg > end or end < 0 or end >= nc:
        return None
    out = b''
    for ch in chunks[beg:end + 1]:
        out += ch if isrange else (ch[1:] if ch[:1] == b'/' else ch)
    return out if len(out) < siz else None


def fmt(r):
    return 'N' if r is None else 'S' + hexs(r)


def primitive_cases(tier):
    comps = [b'', b'a', b'bc', b'new', b'md.x']
    paths = set()
    maxn = 4 if tier == 'quick' else 5
    for n in range(0, maxn + 1):
        for t in itertools.product(comps, repeat=n):
            core = b'/'.join(t)
            for pre in (b'', b'/'):
                for post in (b'', b'/'):
                    paths.add(pre + core + post)
    paths = sorted(paths)
    cases = []
    rng_ = range(-4, 5) if tier == 'quick' else range(-6, 7)
    for p in paths:
        for b in rng_:
            for e in rng_:
                r = ref_pathslice(p, 10 ** 6, b, e)
                sizes = {0, 1, 2, 64}
                if r is not None:
                    sizes |= {len(r), len(r) + 1, max(len(r) - 1, 0)}
                for s in sorted(sizes):
                    cases.append(('pathslice %d %d %d %s' % (s, b, e, hexs(p)), fmt(ref_pathslice(p, s, b, e))))
    for d in (b'', b'a', b'/x/y', b'd' * 30):
        for f in (b'', b'f', b'new', b'n' * 20):
            n = len(d) + 1 + len(f)
            for s in (0, 1, n - 1, n, n + 1, n + 2, 4096):
                if s >= 0:
                    cases.append(('pathjoin %d %s %s' % (s, hexs(d), hexs(f)), fmt(ref_pathjoin(s, d, f))))
    return cases


# ---- binary scenarios ----------------------------------------------------------------------------------
def deep_dir(base, total_len):
    """A directory path of exactly total_len characters below base (created), or None."""
    need = total_len - len(base)
    if need < 2:
        return None
    parts = []
    while need > 0:
        take = min(need - 1, 200)             # "/" + take characters
        if need - 1 - take == 1:              # do not leave a lone "/" at the end
            take -= 1
        if take <= 0:
            return None
        parts.append('d' * take)
        need -= take + 1
    p = base
    for comp in parts:
        p = p + '/' + comp
    assert len(p) == total_len, (len(p), total_len)
    return p


def makedirs_long(path):
    """mkdir -p for paths whose absolute form may approach PATH_MAX (done by relative steps)."""
    cwd = os.getcwd()
    try:
        os.chdir('/')
        for comp in path.strip('/').split('/'):
            if not os.path.isdir(comp):
                os.mkdir(comp)
            os.chdir(comp)
    finally:
        os.chdir(cwd)


def files_under(path):
    """Regular files under the maildir at `path` (robust to long paths)."""
    cwd = os.getcwd()
    out = []
    try:
        os.chdir('/')
        for comp in path.strip('/').split('/'):
            os.chdir(comp)
        for sub in ('new', 'cur'):
            if os.path.isdir(sub):
                out += [sub + '/' + n for n in os.listdir(sub)]
    except OSError:
        return None
    finally:
        os.chdir(cwd)
    return out


def rmtree_long(path):
    shutil.rmtree(path, ignore_errors=True)
    if os.path.exists(path):
        common.sh(['rm', '-rf', path])


def scenario_maildir_path(ck, stats, L):
    """maildir "<path of length L>" { match all move "<dst>" }"""
    sb = mdrun.Sandbox()
    dst = sb.maildir('dst')
    src = deep_dir(sb.root, L)
    if src is None:
        sb.cleanup(); return
    fits = L + len('/new') < PATH_MAX
    try:
        makedirs_long(src + '/new') if L + 4 < PATH_MAX + 200 and len(src + '/new') < PATH_MAX else makedirs_long(src)
        for s in ('cur',):
            if len(src + '/' + s) < PATH_MAX:
                makedirs_long(src + '/' + s)
    except OSError:
        pass
    placed = False
    if len(src + '/new/m1') < PATH_MAX:
        try:
            cwd = os.getcwd(); os.chdir('/')
            for comp in (src + '/new').strip('/').split('/'):
                os.chdir(comp)
            open('m1', 'wb').write(b'To: a\n\nb\n'); placed = True
        except OSError:
            placed = False
        finally:
            os.chdir(cwd)
    # decoys: every proper prefix of the path that ends at a component boundary gets new/ and cur/ with nothing in it
    conf = sb.write_conf(b'maildir "%s" {\n match all move "%s"\n}\n' % (src.encode(), dst.encode()))
    rc, out, err = sb.run([], conf=conf)
    stats['binary'] += 1
    moved = sb.snapshot(dst)
    left = files_under(src) if placed else []
    ok = True
    why = ''
    if rc == 0:
        if placed and not (len(moved) == 1 and not left):
            ok, why = False, 'exit 0 but the message was not moved (moved=%d left=%r)' % (len(moved), left)
    else:
        if moved:
            ok, why = False, 'non-zero exit but a message was delivered'
        if placed and left != ['new/m1']:
            ok, why = False, 'non-zero exit and the source message is no longer in place: %r' % (left,)
    if not ok:
        ck.violation('maildir path of length %d: %s (exit %d, stderr %r)' % (L, why, rc, err[-200:]),
                     {'scenario': 'maildir_path', 'length': L, 'exit': rc})
    rmtree_long(sb.root)


def scenario_message_path(ck, stats, k, rule):
    """<root>/new/<name> is k characters too long for PATH_MAX while <root>/new fits; a decoy with an
    old mtime sits exactly at the truncated path; the rule consults the message path."""
    sb = mdrun.Sandbox()
    dst = sb.maildir('dst')
    name = 'msgdecoy0123456789'
    L = PATH_MAX - 1 + k - len('/new/') - len(name)           # len(root/new/name) = PATH_MAX - 1 + k
    root = deep_dir(sb.root, L)
    if root is None:
        sb.cleanup(); return
    makedirs_long(root + '/new'); makedirs_long(root + '/cur')
    cwd = os.getcwd()
    try:
        os.chdir('/')
        for comp in (root + '/new').strip('/').split('/'):
            os.chdir(comp)
        open(name, 'wb').write(b'To: a\n\nb\n')
        decoy = name[:len(name) - k]
        os.mkdir(decoy)
        os.utime(decoy, (1000000000, 1000000000))
    finally:
        os.chdir(cwd)
    conf = sb.write_conf(b'maildir "%s" {\n match %s move "%s"\n}\n' % (root.encode(), rule, dst.encode()))
    rc, out, err = sb.run([], conf=conf)
    stats['binary'] += 1
    moved = sb.snapshot(dst)
    if moved:
        ck.violation('message path %d characters too long, rule "%s": the message was moved although the condition can only hold for the '
                     'decoy at the truncated path (exit %d)' % (k, rule.decode(), rc), {'scenario': 'message_path', 'k': k, 'rule': rule.decode()})
    elif rc == 0:
        ck.violation('message path %d characters too long: exit 0 without any error' % k, {'scenario': 'message_path', 'k': k, 'rule': rule.decode()})
    rmtree_long(sb.root)


def scenario_interpolated_dest(ck, stats, L, tail=''):
    """move "<base>/\\1<tail>" where the capture makes "<base>/<capture>" L characters long (tail: literal text after the reference, e.g.
    "/newsletters" - its first characters must not complete a shortened path into <base>/<capture>/new); decoys at the truncations"""
    sb = mdrun.Sandbox()
    src = sb.maildir('src')
    base = sb.root + '/o'
    os.makedirs(base)
    cap_len = L - len(base) - 1
    if cap_len < 1:
        sb.cleanup(); return
    # the capture is a relative path of nested directories so that every component is <= 200
    comps = []
    need = cap_len
    while need > 0:
        take = min(need, 200)
        if need - take == 1:
            take -= 1
        comps.append('c' * take)
        need -= take
        if need > 0:
            need -= 1
    cap = '/'.join(comps)
    if len(cap) != cap_len:
        sb.cleanup(); return
    dest = base + '/' + cap
    assert len(dest) == L
    prefix = dest                    # "<base>/<capture>": with a tail, a maildir here is a decoy
    dest = dest + tail
    # intended destination (if it can exist) and the decoy: the longest prefix that fits PATH_MAX-1 for "<dest>/new"
    made = []
    for p in {dest, dest[:PATH_MAX - 1], dest[:PATH_MAX - 1 - 4], dest[:PATH_MAX - 2], prefix}:
        p = p.rstrip('/')
        if len(p + '/new') < PATH_MAX and not p.endswith('/'):
            try:
                makedirs_long(p + '/new'); makedirs_long(p + '/cur'); made.append(p)
            except OSError:
                pass
    sb.add(src, 'new', b'Subject: ' + cap.encode() + b'\n\nb\n')
    conf = sb.write_conf(b'maildir "%s" {\n match header "Subject" /(.*)/ move "%s/\\1%s"\n}\n' % (src.encode(), base.encode(), tail.encode()))
    rc, out, err = sb.run([], conf=conf)
    stats['binary'] += 1
    left = sb.snapshot(src)
    where = {p: files_under(p) for p in made}
    delivered = [p for p, fl in where.items() if fl]
    if rc == 0:
        if delivered != [dest] or left:
            ck.violation('destination of length %d after interpolation: exit 0 but delivered under %r (intended %r...)'
                         % (L, [len(p) for p in delivered], dest[-30:]), {'scenario': 'interpolated_dest', 'length': L})
    else:
        # an error is reported: the message is either untouched, or it sits completely under the
        # INTENDED path (mdsort moves first and then fails to record the new, too long, message path);
        # never under a truncation
        untouched = (not delivered and len(left) == 1)
        intended = (delivered == [dest] and not left)
        if not (untouched or intended):
            ck.violation('destination of length %d after interpolation: exit %d but files under %r, source has %d'
                         % (L, rc, [len(p) for p in delivered], len(left)), {'scenario': 'interpolated_dest', 'length': L, 'stderr': err[-300:].decode(errors='replace')})
    rmtree_long(sb.root)


def scenario_interpolated_isdirectory(ck, stats, L):
    """match ... and isdirectory "<base>/\\1" move "<dst>": the looked-up path is L characters long after interpolation;
    directories exist at the intended path (when it can) and at its truncations"""
    sb = mdrun.Sandbox()
    src = sb.maildir('src'); dst = sb.maildir('dst')
    base = sb.root + '/o'
    os.makedirs(base)
    cap_len = L - len(base) - 1
    if cap_len < 1:
        sb.cleanup(); return
    comps = []
    need = cap_len
    while need > 0:
        take = min(need, 200)
        if need - take == 1:
            take -= 1
        comps.append('c' * take)
        need -= take
        if need > 0:
            need -= 1
    cap = '/'.join(comps)
    if len(cap) != cap_len:
        sb.cleanup(); return
    dest = base + '/' + cap
    made = []
    for p in {dest, dest[:PATH_MAX - 1], dest[:PATH_MAX - 2], dest[:PATH_MAX - 5]}:
        p = p.rstrip('/')
        try:
            makedirs_long(p); made.append(p)
        except OSError:
            pass
    sb.add(src, 'new', b'Subject: ' + cap.encode() + b'\n\nb\n')
    conf = sb.write_conf(b'maildir "%s" {\n match header "Subject" /(.*)/ and isdirectory "%s/\\1" move "%s"\n}\n' % (src.encode(), base.encode(), dst.encode()))
    rc, out, err = sb.run([], conf=conf)
    stats['binary'] += 1
    left = sb.snapshot(src)
    moved = sb.snapshot(dst)
    fits = L < PATH_MAX
    why = None
    if fits:
        if dest in made and (rc != 0 or len(moved) != 1 or left):
            why = 'the directory exists under the intended path (%d characters) but exit %d, %d moved' % (L, rc, len(moved))
    else:
        if rc == 0 or moved or len(left) != 1:
            why = 'the interpolated path has %d characters (does not fit): exit %d, %d message(s) moved - a directory was looked up under a shortened path' % (L, rc, len(moved))
    if why:
        ck.violation('isdirectory after interpolation: ' + why, {'scenario': 'interpolated_isdirectory', 'length': L, 'stderr': err[-300:].decode(errors='replace')})
    rmtree_long(sb.root)


def scenario_hostname(ck, stats, hl, collide=0):
    """generated file name with a host name of length hl (pinned through the interposer); collide = number of candidate
    names that already exist, so that the counter in the name grows (6 -> 10 -> 100: one more character each time)"""
    sb = mdrun.Sandbox()
    src = sb.maildir('src'); dst = sb.maildir('dst')
    sb.add(src, 'new', b'To: a\n\nb\n')
    pre = []
    for j in range(collide):
        n = '1700000000.4242_%d.' % (6 + j) + 'h' * hl + ':2,'
        if len(n) <= NAME_MAX:
            with open(os.path.join(dst, 'new', n), 'wb') as f:
                f.write(b'pre-existing\n')
            pre.append(n)
    conf = sb.write_conf(b'maildir "%s" {\n match all move "%s"\n}\n' % (src.encode(), dst.encode()))
    host = 'h' * hl
    rc, out, err = sb.run([], conf=conf, env={'VFIO_HOST': host, 'VFIO_TIME': '1700000000', 'VFIO_PID': '4242', 'VFIO_RANDOM': '5'},
                          preload=os.path.join(common.VERIF, 'shim', 'libvfio.so'))
    stats['binary'] += 1
    moved = {k: v for k, v in sb.snapshot(dst).items() if k[1] not in pre}; left = sb.snapshot(src)
    gone = [n for n in pre if ('new', n) not in sb.snapshot(dst)]
    if gone:
        ck.violation('host name of length %d, %d colliding names: pre-existing file(s) removed or replaced: %r' % (hl, collide, [len(n) for n in gone]),
                     {'scenario': 'hostname', 'length': hl, 'collide': collide})
    expect = '1700000000.4242_%d.' % (6 + len(pre)) + host + ':2,'
    if len(expect) > NAME_MAX and rc == 0:
        ck.violation('host name of length %d, %d colliding names: the next name needs %d characters (NAME_MAX %d) but mdsort exits 0; destination now holds %r'
                     % (hl, collide, len(expect), NAME_MAX, [len(n) for (_, n) in moved]), {'scenario': 'hostname', 'length': hl, 'collide': collide})
    elif rc == 0:
        names = [n for (_, n) in moved]
        if names != [expect] or left:
            ck.violation('host name of length %d: exit 0 but destination holds %r (intended name has %d characters)' % (hl, [len(n) for n in names], len(expect)),
                         {'scenario': 'hostname', 'length': hl})
    else:
        if moved or len(left) != 1:
            ck.violation('host name of length %d: exit %d but destination holds %d file(s), source %d' % (hl, rc, len(moved), len(left)),
                         {'scenario': 'hostname', 'length': hl})
    sb.cleanup()


def scenario_tilde(ck, stats, E):
    """configuration strings beginning with ~ whose expansion is E characters long: maildir path, move destination
    (both judged at configuration time with -n) and an isdirectory path with directories at the truncations"""
    sb = mdrun.Sandbox()
    src = sb.maildir('src'); dst = sb.maildir('dst')
    home = sb.root + '/h'
    os.makedirs(home)
    rest_len = E - len(home) - 1
    comps = []
    need = rest_len
    while need > 0:
        take = min(need, 200)
        if need - take == 1:
            take -= 1
        comps.append('t' * take)
        need -= take
        if need > 0:
            need -= 1
    rest = '/'.join(comps)
    if len(rest) != rest_len:
        sb.cleanup(); return
    full = home + '/' + rest
    fits = E < PATH_MAX
    for kind, conf in (('maildir path', b'maildir "~/%s" {\n match all move "%s"\n}\n' % (rest.encode(), dst.encode())),
                       ('move destination', b'maildir "%s" {\n match all move "~/%s"\n}\n' % (src.encode(), rest.encode())),
                       ('isdirectory path', b'maildir "%s" {\n match isdirectory "~/%s" move "%s"\n}\n' % (src.encode(), rest.encode(), dst.encode()))):
        cp = sb.write_conf(conf)
        rc, out, err = sb.run(['-n'], conf=cp, env={'HOME': home})
        stats['binary'] += 1
        if fits and rc != 0:
            ck.violation('a %s that expands to %d characters (fits) is rejected at configuration time: %r' % (kind, E, err[-150:]),
                         {'scenario': 'tilde', 'length': E, 'kind': kind})
        if not fits and rc == 0:
            ck.violation('a %s that expands to %d characters (does not fit PATH_MAX) is accepted at configuration time' % (kind, E),
                         {'scenario': 'tilde', 'length': E, 'kind': kind})
    # the isdirectory path at run time, with directories at the truncations
    for p in {full, full[:PATH_MAX - 1], full[:PATH_MAX - 2]}:
        try:
            makedirs_long(p.rstrip('/'))
        except OSError:
            pass
    sb.add(src, 'new', b'To: a\n\nb\n')
    cp = sb.write_conf(b'maildir "%s" {\n match isdirectory "~/%s" move "%s"\n}\n' % (src.encode(), rest.encode(), dst.encode()))
    rc, out, err = sb.run([], conf=cp, env={'HOME': home})
    stats['binary'] += 1
    moved = sb.snapshot(dst)
    if not fits and (rc == 0 or moved):
        ck.violation('isdirectory "~/..." expanding to %d characters: exit %d, %d message(s) moved - looked up under a shortened path' % (E, rc, len(moved)),
                     {'scenario': 'tilde', 'length': E, 'kind': 'isdirectory run'})
    if fits and (rc != 0 or len(moved) != 1):
        ck.violation('isdirectory "~/..." expanding to %d characters (fits, the directory exists): exit %d, %d moved' % (E, rc, len(moved)),
                     {'scenario': 'tilde', 'length': E, 'kind': 'isdirectory run'})
    rmtree_long(sb.root)


def scenario_env(ck, stats, var, L):
    """HOME / TMPDIR of length L: "~/x" destination resp. stdin spool directory"""
    sb = mdrun.Sandbox()
    src = sb.maildir('src')
    sb.add(src, 'new', b'To: a\n\nb\n')
    long_dir = deep_dir(sb.root, L)
    if long_dir is None:
        sb.cleanup(); return
    try:
        if len(long_dir) < PATH_MAX:
            makedirs_long(long_dir)
    except OSError:
        pass
    if var == 'HOME':
        conf = sb.write_conf(b'maildir "%s" {\n match all move "~/mail"\n}\n' % src.encode())
        for p in (long_dir + '/mail',):
            if len(p + '/new') < PATH_MAX:
                try:
                    makedirs_long(p + '/new'); makedirs_long(p + '/cur')
                except OSError:
                    pass
        rc, out, err = sb.run([], conf=conf, env={'HOME': long_dir})
        left = sb.snapshot(src)
        fl = files_under(long_dir + '/mail') if len(long_dir + '/mail/new') < PATH_MAX else []
        stats['binary'] += 1
        if rc == 0 and not (fl and not left):
            ck.violation('HOME of length %d: exit 0 but the message is not under ~/mail' % L, {'scenario': 'HOME', 'length': L})
        if rc != 0 and (fl or len(left) != 1):
            ck.violation('HOME of length %d: exit %d but message moved (%r)' % (L, rc, fl), {'scenario': 'HOME', 'length': L})
    else:
        dst = sb.maildir('dst')
        conf = sb.write_conf(b'stdin {\n match all move "%s"\n}\n' % dst.encode())
        # an empty directory exactly where "<TMPDIR>/mdsort-XXXXXXXX" is cut off at PATH_MAX - 1 characters (F-24: it used to be removed)
        full = long_dir + '/mdsort-XXXXXXXX'
        decoy = full[:PATH_MAX - 1][len(long_dir) + 1:] if len(long_dir) < PATH_MAX - 2 <= len(full) - 1 else None
        if decoy and len(long_dir) < PATH_MAX:
            cwd = os.getcwd()
            try:
                os.chdir('/')
                for comp in long_dir.strip('/').split('/'):
                    os.chdir(comp)
                os.mkdir(decoy)
            except OSError:
                decoy = None
            finally:
                os.chdir(cwd)
        for extra in (['-d'], []):
            rc, out, err = sb.run(extra + ['-'], conf=conf, env={'TMPDIR': long_dir}, stdin=b'To: a\n\nb\n')
            if decoy:
                cwd = os.getcwd()
                try:
                    os.chdir('/')
                    for comp in long_dir.strip('/').split('/'):
                        os.chdir(comp)
                    alive = os.path.isdir(decoy)
                finally:
                    os.chdir(cwd)
                if not alive:
                    ck.violation('TMPDIR of length %d%s: the empty directory at the truncation of "<TMPDIR>/mdsort-XXXXXXXX" (%r) was removed (exit %d)'
                                 % (L, ' with -d' if extra else '', decoy, rc), {'scenario': 'TMPDIR', 'length': L})
                    break
        stats['binary'] += 1
        moved = sb.snapshot(dst)
        if rc == 0 and len(moved) != 1:
            ck.violation('TMPDIR of length %d: exit 0 but nothing delivered' % L, {'scenario': 'TMPDIR', 'length': L})
        if rc != 0 and moved:
            ck.violation('TMPDIR of length %d: exit %d but a message was delivered' % (L, rc), {'scenario': 'TMPDIR', 'length': L})
        if rc not in (0, 75, 1) :
            pass
    rmtree_long(sb.root)


_rewrite_name = {}


def scenario_rewrite_path(ck, stats, k, action):
    """A message in a deep maildir whose own path fits, rewritten (label / add-header) under a generated name that is k characters
    too long for PATH_MAX, then piped to a command: a decoy file sits exactly at the truncation of the new path.  The command must
    never be fed from the decoy, and the run must not end without an error."""
    pins = {'VFIO_HOST': 'pinned', 'VFIO_TIME': '1700000000', 'VFIO_PID': '4242', 'VFIO_RANDOM': '5'}
    shim = os.path.join(common.VERIF, 'shim', 'libvfio.so')
    helper = common.rec_helper()
    rule = {b'label': b'label "x"', b'add-header': b'add-header "X-New" "v"'}[action]
    if action not in _rewrite_name:
        # the name the rewrite generates under these pins, learnt from a run in a short maildir
        sb0 = mdrun.Sandbox()
        s0 = sb0.maildir('src')
        sb0.add(s0, 'new', b'To: a\nX-Id: real\n\nb\n', name='m')
        c0 = sb0.write_conf(b'maildir "%s" {\n match header "X-Id" /real/ %s\n}\n' % (s0.encode(), rule))
        sb0.run([], conf=c0, env=pins, preload=shim)
        names = [n for (_, n) in sb0.snapshot(s0)]
        sb0.cleanup()
        if len(names) != 1 or names[0] == 'm':
            return
        _rewrite_name[action] = names[0]
    gen = _rewrite_name[action]
    sb = mdrun.Sandbox()
    hout = os.path.join(sb.root, 'helper-out'); os.makedirs(hout)
    L = PATH_MAX - 1 + k - len('/new/') - len(gen)           # len(root/new/gen) = PATH_MAX - 1 + k
    root = deep_dir(sb.root, L)
    if root is None:
        sb.cleanup(); return
    makedirs_long(root + '/new'); makedirs_long(root + '/cur')
    real = b'To: a\nX-Id: real\n\nthe real message\n'
    decoy_text = b'To: a\nX-Id: decoy\n\nDECOY AT THE TRUNCATED PATH\n'
    cwd = os.getcwd()
    try:
        os.chdir('/')
        for comp in (root + '/new').strip('/').split('/'):
            os.chdir(comp)
        open('m', 'wb').write(real)
        open(gen[:len(gen) - k], 'wb').write(decoy_text)
    finally:
        os.chdir(cwd)
    conf = sb.write_conf(b'maildir "%s" {\n match header "X-Id" /real/ %s exec stdin { "%s" "r" }\n}\n' % (root.encode(), rule, helper.encode()))
    mres = common.run_lines(common.model_exe(), ['flow delivered %s %s %s' % (hexs(root.encode()), hexs(b'new'), hexs(gen.encode()))])[0][0]
    mres0 = common.run_lines(common.model_exe(), ['flow message %s %s %s' % (hexs(root.encode()), hexs(b'new'), hexs(b'm'))])[0][0]
    if mres != 'N' or mres0 == 'N':
        ck.violation('correspondence broken: NamesDefs flows in a maildir of length %d: message path %s, rewritten path %s' % (len(root), mres0[:20], mres[:20]),
                     {'scenario': 'rewrite_path', 'k': k, 'action': action.decode(), 'obligation': 'correspondence NamesDefs.compute (message / delivered path)'}, found_input=False)
    env = dict(pins); env.update({'VERIF_HELPER_OUT': hout, 'VERIF_HELPER_EXIT': '0'})
    rc, out, err = sb.run([], conf=conf, env=env, preload=shim)
    stats['binary'] += 1
    calls = common.helper_calls(hout)
    rep = {'scenario': 'rewrite_path', 'k': k, 'action': action.decode(), 'exit': rc, 'stderr': err[-300:].decode(errors='replace')}
    fed = [c['stdin'] for c in calls]
    if any(b'the real message' not in f for f in fed):
        ck.violation('%s in a maildir where the rewritten message path is %d characters too long: the command was fed %r - the file at the '
                     'truncated path - instead of the message (exit %d)' % (action.decode(), k, fed[0][:60], rc), rep)
    elif rc == 0:
        ck.violation('%s in a maildir where the rewritten message path is %d characters too long: exit 0 without any error' % (action.decode(), k), rep)
    rmtree_long(sb.root)


def write_long(path, data):
    """create a file whose absolute path may not fit in PATH_MAX (by relative steps)"""
    d, n = os.path.split(path)
    cwd = os.getcwd()
    try:
        os.chdir('/')
        for comp in d.strip('/').split('/'):
            os.chdir(comp)
        with open(n, 'wb') as f:
            f.write(data)
    finally:
        os.chdir(cwd)


def scenario_move_flag(ck, stats, L, form):
    """a destination of L characters - around NAME_MAX, far from PATH_MAX - used by a move that is merged with a flag action of the same rule:
    the buffers the merge copies between have different sizes; a decoy maildir sits where the destination would be cut at NAME_MAX"""
    sb = mdrun.Sandbox()
    src = sb.maildir('src')
    sb.add(src, 'cur' if form.endswith('flag new') else 'new', b'To: a\n\nmerge\n')
    dst = deep_dir(sb.root, L)
    if dst is None:
        sb.cleanup(); return
    decoys = []
    for cut in (NAME_MAX, NAME_MAX + 1):
        dec = dst[:cut].rstrip('/')
        if len(dst) > cut and dec != dst and len(dec) > len(sb.root) + 1 and not dst.startswith(dec + '/'):
            decoys.append(dec)
    for d in [dst] + decoys:
        for sub in ('new', 'cur', 'tmp'):
            makedirs_long(d + '/' + sub)
    conf = sb.write_conf(('maildir "%s" {\n match all %s\n}\n' % (src, form % dst)).encode())
    rc, out, err = sb.run([], conf=conf)
    stats['binary'] += 1
    got = files_under(dst) or []
    inde = [d for d in decoys if files_under(d)]
    left = sb.snapshot(src)
    rep = {'scenario': 'move_flag', 'length': L, 'form': form, 'exit': rc, 'stderr': err[-300:].decode(errors='replace')}
    if inde:
        ck.violation('destination of %d characters, rule "%s": the message was delivered to the maildir at the first %d characters of the destination (exit %d)'
                     % (L, form % '<dst>', len(inde[0]), rc), rep)
    elif rc == 0 and (len(got) != 1 or left):
        ck.violation('destination of %d characters, rule "%s": exit 0 but the destination holds %d file(s), the source %d' % (L, form % '<dst>', len(got), len(left)), rep)
    elif rc != 0 and (got or len(left) != 1):
        ck.violation('destination of %d characters, rule "%s": exit %d but the destination holds %d file(s), the source %d' % (L, form % '<dst>', rc, len(got), len(left)), rep)
    rmtree_long(sb.root)


def scenario_defaultconf(ck, stats, H):
    """no -f: the configuration is "$HOME/.mdsort.conf"; with HOME of H characters that name fits or is refused - decoy configurations
    wait at every shortened spelling of it"""
    sb = mdrun.Sandbox()
    src = sb.maildir('src'); good = sb.maildir('good'); bad = sb.maildir('bad')
    sb.add(src, 'new', b'To: a\n\ndefault configuration\n')
    home = deep_dir(sb.root, H)
    if home is None:
        sb.cleanup(); return
    makedirs_long(home)
    real = 'maildir "%s" {\n match all move "%s"\n}\n' % (src, good)
    decoy = 'maildir "%s" {\n match all move "%s"\n}\n' % (src, bad)
    try:
        write_long(home + '/.mdsort.conf', real.encode())
        for n in ('.mdsort.con', '.mdsort.co', '.mdsort.c', '.mdsort.', '.mdsort'):
            write_long(home + '/' + n, decoy.encode())
    except OSError:
        rmtree_long(sb.root); return
    rc, out, err = sb.run([], conf=None, env={'HOME': home})
    stats['binary'] += 1
    fits = H + len('/.mdsort.conf') < PATH_MAX
    ng, nb, left = len(sb.snapshot(good)), len(sb.snapshot(bad)), len(sb.snapshot(src))
    rep = {'scenario': 'defaultconf', 'length': H, 'exit': rc, 'stderr': err[-300:].decode(errors='replace')}
    if nb:
        ck.violation('HOME of %d characters, no -f: mdsort followed the rules of a file at a shortened spelling of "$HOME/.mdsort.conf" (exit %d)' % (H, rc), rep)
    elif fits and (rc != 0 or ng != 1):
        ck.violation('HOME of %d characters, no -f: "$HOME/.mdsort.conf" fits (%d characters) but exit %d, delivered %d' % (H, H + 13, rc, ng), rep)
    elif not fits and (rc == 0 or ng or left != 1):
        ck.violation('HOME of %d characters, no -f: "$HOME/.mdsort.conf" does not fit, yet exit %d, delivered %d, left %d' % (H, rc, ng, left), rep)
    rmtree_long(sb.root)


def scenario_move_literal_multi(ck, stats, L, tail):
    """three messages moved by one rule to a destination literal of L characters that ends in /new or /cur: "<dst>/new" does not fit, and
    the first PATH_MAX-1 characters of it are the new/ (cur/) of an existing maildir - none of the three may end up there"""
    sb = mdrun.Sandbox()
    src = sb.maildir('src')
    for i in range(3):
        sb.add(src, 'new', b'To: a\n\nmulti %d\n' % i)
    P = deep_dir(sb.root, L - len(tail) - 1)
    if P is None:
        sb.cleanup(); return
    for sub in ('new', 'cur', 'tmp'):
        makedirs_long(P + '/' + sub)
    dst = P + '/' + tail
    conf = sb.write_conf(('maildir "%s" {\n match all move "%s"\n}\n' % (src, dst)).encode())
    rc, out, err = sb.run([], conf=conf)
    stats['binary'] += 1
    fits = len(dst) + len('/new') < PATH_MAX
    got = files_under(P) or []
    left = len(sb.snapshot(src))
    rep = {'scenario': 'move_literal_multi', 'length': L, 'tail': tail, 'exit': rc, 'stderr': err[-300:].decode(errors='replace')}
    if not fits and (got or left != 3 or rc == 0):
        ck.violation('three messages, destination literal of %d characters ending in /%s: "<dst>/new" does not fit, yet %d message(s) were delivered into the maildir '
                     'whose %s/ is the truncation, %d left in the source (exit %d)' % (L, tail, len(got), tail, left, rc), rep)
    rmtree_long(sb.root)


def scenario_tmpdir_exec(ck, stats, L):
    """TMPDIR of length L and three messages piped to a command with exec stdin body: the temporary file "<TMPDIR>/mdsort-XXXXXXXX"
    either fits for every message or for none - the command never runs on a file created under a shortened name."""
    sb = mdrun.Sandbox()
    src = sb.maildir('src')
    helper = common.rec_helper()
    hout = os.path.join(sb.root, 'helper-out'); os.makedirs(hout)
    bodies = [b'body of message %d\n' % i for i in range(3)]
    for i, b in enumerate(bodies):
        sb.add(src, 'new', b'To: a\nX-Id: %d\n\n' % i + b)
    long_dir = deep_dir(sb.root, L)
    if long_dir is None:
        sb.cleanup(); return
    try:
        if len(long_dir) < PATH_MAX:
            makedirs_long(long_dir)
    except OSError:
        pass
    conf = sb.write_conf(b'maildir "%s" {\n match all exec stdin body { "%s" "t" }\n}\n' % (src.encode(), helper.encode()))
    rc, out, err = sb.run([], conf=conf, env={'TMPDIR': long_dir, 'VERIF_HELPER_OUT': hout, 'VERIF_HELPER_EXIT': '0'})
    stats['binary'] += 1
    calls = common.helper_calls(hout)
    fits = L + len('/mdsort-XXXXXXXX') < PATH_MAX
    mres = common.run_lines(common.model_exe(), ['flow tmp %s' % hexs(long_dir.encode())])[0][0]
    if (mres != 'N') != fits or (fits and unhexs(mres[1:]) != long_dir.encode() + b'/mdsort-XXXXXXXX'):
        ck.violation('correspondence broken: NamesDefs.e_tmp_template for a TMPDIR of length %d: model %s' % (L, mres[:40]),
                     {'scenario': 'TMPDIR-exec', 'length': L, 'obligation': 'correspondence NamesDefs.compute (temporary-file template)'}, found_input=False)
    rep = {'scenario': 'TMPDIR-exec', 'length': L, 'exit': rc, 'calls': len(calls), 'stderr': err[-300:].decode(errors='replace')}
    if fits:
        if rc != 0 or sorted(c['stdin'] for c in calls) != sorted(bodies):
            ck.violation('TMPDIR of length %d, exec stdin body on 3 messages: the temporary file name fits, but exit %d and the command received %r'
                         % (L, rc, [c['stdin'] for c in calls]), rep)
    else:
        if calls or rc == 0:
            ck.violation('TMPDIR of length %d, exec stdin body on 3 messages: "<TMPDIR>/mdsort-XXXXXXXX" does not fit in PATH_MAX, yet the command ran %d time(s) '
                         '(exit %d): a temporary file was created under a shortened name' % (L, len(calls), rc), rep)
    rmtree_long(sb.root)


def run(ck):
    model = common.model_exe()
    stats = dict(evals=0, nontrivial=set(), dis=0, viol=0, binary=0)
    cases = primitive_cases(ck.tier)
    lines = [c for c, _ in cases]
    for kind in ('plain', 'asan'):
        drv = common.build_driver('util_drv', kind)
        env = {'ASAN_OPTIONS': 'detect_leaks=0'} if kind == 'asan' else None
        sub = lines if kind == 'plain' else lines[::7]
        impl, r = common.run_lines(drv, sub, timeout=1800, env=env)
        if r.returncode != 0 or len(impl) != len(sub):
            ck.violation('extern.h driver (%s build) died / sanitizer report at request %r: %s'
                         % (kind, sub[len(impl)] if len(impl) < len(sub) else '?', r.stderr.decode(errors='replace')[:500]),
                         {'request': sub[len(impl)] if len(impl) < len(sub) else None, 'build': kind})
            continue
        if kind != 'plain':
            continue
        mod, _ = common.run_lines(model, lines, timeout=1800)
        for (req, ref), a, b in zip(cases, impl, mod):
            stats['evals'] += 1
            if ref != 'N':
                stats['nontrivial'].add(req)
            if a != ref:
                stats['viol'] += 1
                if stats['viol'] <= 5:
                    ck.violation('%s: implementation %s, intended %s' % (req, a, ref), {'request': req, 'impl': a, 'reference': ref, 'model': b})
            elif a != b:
                stats['dis'] += 1
                if stats['dis'] <= 5:
                    ck.violation('correspondence broken: %s: implementation %s, model %s' % (req, a, b),
                                 {'request': req, 'impl': a, 'model': b, 'obligation': 'correspondence NamesDefs.pathslice/pathjoin'}, found_input=False)
    # ---- binary windows ----------------------------------------------------------------------------
    w = 8
    step = 1 if ck.tier == 'thorough' else 2
    for L in range(PATH_MAX - w - 4, PATH_MAX + 3, step):
        scenario_maildir_path(ck, stats, L)
    for L in range(PATH_MAX - w - 4, PATH_MAX + w + 1, step):
        scenario_interpolated_dest(ck, stats, L)

        scenario_interpolated_isdirectory(ck, stats, L)
    for L in range(PATH_MAX - 8, PATH_MAX - 2):
        scenario_interpolated_dest(ck, stats, L, ['/newsletters', '/current', '/new-arrivals/2024', '/curated'][L % 4])
    for k in (1, 2, 3, 5, 8):
        scenario_message_path(ck, stats, k, b'date modified > 1 hours')
    fixed = len('1700000000.4242_6.') + len(':2,')
    for hl in list(range(NAME_MAX - fixed - 4, NAME_MAX - fixed + 5, 1)) + [250, 254, 255, 256, 257, 300]:
        scenario_hostname(ck, stats, hl)
    # the counter gains a digit on the way: first candidate just fits, the next free one may not
    for hl in range(NAME_MAX - fixed - 2, NAME_MAX - fixed + 1):
        for collide in (4, 94):
            scenario_hostname(ck, stats, hl, collide)
    for E in range(PATH_MAX - 3, PATH_MAX + 3):
        scenario_tilde(ck, stats, E)
    for L in range(PATH_MAX - w, PATH_MAX + 2, step * 2):
        scenario_env(ck, stats, 'HOME', L)
        scenario_env(ck, stats, 'TMPDIR', L)
    for L in range(PATH_MAX - 16 - 5, PATH_MAX - 16 + 5):
        scenario_tmpdir_exec(ck, stats, L)
    # the merge of move and flag: destinations around NAME_MAX (the sub-directory buffer is that small, the maildir buffer is not)
    forms = ['move "%s" flag new', 'move "%s" flag !new', 'flag new move "%s"', 'move "%s"']
    for L in range(NAME_MAX - 4, NAME_MAX + 9, 1 if ck.tier == 'thorough' else 2):
        for fi, form in enumerate(forms):
            if ck.tier == 'thorough' or (L + fi) % 2 == 0 or fi < 2:
                scenario_move_flag(ck, stats, L, form)
    for H in range(PATH_MAX - 13 - 3, PATH_MAX - 13 + 4):
        scenario_defaultconf(ck, stats, H)
    for L in range(PATH_MAX - 4, PATH_MAX + 1):
        scenario_move_literal_multi(ck, stats, L, 'new' if L % 2 else 'cur')
        if ck.tier == 'thorough':
            scenario_move_literal_multi(ck, stats, L, 'cur' if L % 2 else 'new')
    for k in (1, 2, 3, 5, 8, 12):
        scenario_rewrite_path(ck, stats, k, b'label' if k % 2 else b'add-header')
        if ck.tier == 'thorough':
            scenario_rewrite_path(ck, stats, k, b'add-header' if k % 2 else b'label')
    ck.coverage.update({
        'evaluations': stats['evals'] + stats['binary'],
        'distinct_nontrivial': len(stats['nontrivial']),
        'rule': 'pathslice: every path of <= %d components from {"", a, bc, new, md.x} (absolute/relative, trailing slash, empty components) x beg,end in a symmetric '
                'range x buffer sizes {0,1,2,64,len-1,len,len+1}; pathjoin: lengths around the buffer size; binary: maildir path, interpolated destination (also with literal text after the reference: /newsletters, /current ...), interpolated isdirectory path (directories at the intended path and at its truncations), ~-expanded maildir / destination / isdirectory strings of every length PATH_MAX-3 .. PATH_MAX+2 (judged with -n and at run time), host name, '
                'destinations of NAME_MAX-4 .. NAME_MAX+8 characters under move merged with flag (decoy maildirs at the NAME_MAX cut), three messages under one move whose literal destination of PATH_MAX-4 .. PATH_MAX characters ends in /new or /cur, HOME lengths that put "$HOME/.mdsort.conf" at PATH_MAX-3 .. PATH_MAX+3 without -f (decoy configurations at the shortened names), the path of a message rewritten by label / add-header and then piped to a command, 1-12 characters too long with a decoy file at its truncation, TMPDIR as the place of the exec stdin body temporary file over three messages (every length PATH_MAX-21 .. PATH_MAX-12), HOME and TMPDIR at every (quick: every other) length in a window around PATH_MAX / NAME_MAX with decoy maildirs at truncations. '
                'non-trivial = the reference returns a string; distinct = distinct requests' % (4 if ck.tier == 'quick' else 5),
        'exhaustive': True,
        'samples': [c for c, _ in cases[1000:1004]],
        'traces_validated_against_impl': stats['evals'],
        'disagreements_checked': stats['dis'],
        'binary_runs': stats['binary'],
    })
    ck.assumptions += ['PATH_MAX=4096, NAME_MAX=255 (this platform; Generated.v records them)',
                       'message file names longer than NAME_MAX cannot exist on the file system and are not generated']


def replay(ck, rp):
    if 'request' in rp and rp['request']:
        drv = common.build_driver('util_drv', 'plain')
        out, _ = common.run_lines(drv, [rp['request']])
        print('implementation %s, intended %s' % (out[0] if out else '?', rp.get('reference')))
        return 0 if out and out[0] == rp.get('reference') else 1
    # a binary scenario: run it again with the recorded parameter
    stats = dict(binary=0, dis=0, prim=0)
    import collections
    stats = collections.defaultdict(int)
    sc = rp.get('scenario')
    if sc == 'maildir_path':
        scenario_maildir_path(ck, stats, rp['length'])
    elif sc == 'interpolated_dest':
        scenario_interpolated_dest(ck, stats, rp['length'])
    elif sc == 'interpolated_isdirectory':
        scenario_interpolated_isdirectory(ck, stats, rp['length'])
    elif sc == 'message_path':
        scenario_message_path(ck, stats, rp['k'], rp['rule'].encode())
    elif sc == 'hostname':
        scenario_hostname(ck, stats, rp['length'], rp.get('collide', 0))
    elif sc == 'move_literal_multi':
        scenario_move_literal_multi(ck, stats, rp['length'], rp['tail'])
    elif sc == 'move_flag':
        scenario_move_flag(ck, stats, rp['length'], rp['form'])
    elif sc == 'defaultconf':
        scenario_defaultconf(ck, stats, rp['length'])
    elif sc == 'rewrite_path':
        scenario_rewrite_path(ck, stats, rp['k'], rp['action'].encode())
    elif sc == 'TMPDIR-exec':
        scenario_tmpdir_exec(ck, stats, rp['length'])
    elif sc in ('HOME', 'TMPDIR'):
        scenario_env(ck, stats, sc, rp['length'])
    elif sc == 'tilde':
        scenario_tilde(ck, stats, rp['length'])
    else:
        return 1
    for v in ck.violations:
        print(v if isinstance(v, str) else v)
    return 1 if ck.violations else 0
