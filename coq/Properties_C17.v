(* C17 - concurrent runs on the same maildirs neither lose nor duplicate messages.       (PARTIAL)
   Model: ConcDefs.  Every party runs one of the I/O protocols of IODefs unchanged (move, move across
   devices, rewrite = label / add-header, discard; flag is a move) or is a mail client renaming / deleting
   the message; calls are atomic and arbitrarily interleaved; outcomes come from the shared directory state.
   Proved, for ANY NUMBER of such parties and EVERY schedule (C17_any_number_of_parties; not only the single and
   double preemptions of the property's quantifier): once all have finished, the message exists exactly once, intact -
   or not at all if a party whose job is to delete it reports success -, no empty or partial file remains,
   a party that reports success owns the surviving copy, and no party ever modifies a name another party
   created.  The proof for any number of parties is compositional (ConcNDefs / ConcNProofs): seen through its own
   three names every party moves inside a finite table of states (its own calls, plus "somebody else removed the
   message" at any moment) that the kernel checks to be closed; an invariant of the whole system says that the
   message's name disappears exactly once, through exactly one party's successful rename / unlink, and that every
   party's view stays inside its table.  The earlier theorems for two and three parties (exhaustive exploration of
   the product, reach_in_table) are kept: they do not depend on the compositional argument.
   NOT covered by the model: a second mdsort that WALKS the directory while the first one's uncommitted
   copy is visible there selects that copy as a message (placeholders and copies are created in new/ and cur/,
   not in tmp/): known finding F-16, exhibited by harness/c17.py on the binary; true simultaneity inside the
   kernel is represented by call-granularity interleaving. *)
From Coq Require Import List.
Import ListNotations.
From MD Require Import IODefs ConcDefs ConcProofs ConcNDefs ConcNProofs.

Theorem C17_two_parties : forall a b sched, In a all_kinds -> In b all_kinds ->
  let s := grun [a; b] (init_state 2) sched in
  finished [a; b] s = true -> final_ok [a; b] s = true /\ winners_report [a; b] s = true.
Proof. exact two_parties_every_schedule. Qed.
Print Assumptions C17_two_parties.

Theorem C17_three_parties : forall a b c sched, In a all_kinds -> In b all_kinds -> In c all_kinds ->
  let s := grun [a; b; c] (init_state 3) sched in
  finished [a; b; c] s = true -> final_ok [a; b; c] s = true /\ winners_report [a; b; c] s = true.
Proof. exact three_parties_every_schedule. Qed.
Print Assumptions C17_three_parties.

(* any number of parties, every schedule *)
Theorem C17_any_number_of_parties : forall kinds sched, (forall k, In k kinds -> In k all_kinds) ->
  let s := grun kinds (init_state (length kinds)) sched in
  finished kinds s = true -> final_ok kinds s = true /\ winners_report kinds s = true.
Proof. exact any_number_of_parties. Qed.
Print Assumptions C17_any_number_of_parties.

(* the hypothesis "finished" is never vacuous: every schedule of any number of parties can be extended (by running the
   parties one after the other, 16 calls each) to one in which all have finished *)
Theorem C17_every_schedule_completes : forall kinds sched, (forall k, In k kinds -> In k all_kinds) ->
  finished kinds (grun kinds (init_state (length kinds)) (sched ++ completion (length kinds))) = true.
Proof. exact every_schedule_completes. Qed.
Print Assumptions C17_every_schedule_completes.

(* non-vacuity: six parties, one of each kind; the move, the rewrite and the cross-device move start, the move is the
   first to remove the old name, then all are interleaved round-robin and run to completion: the message is at the
   move's destination, the other mdsort runs report an error and have removed their copies *)
Example C17_example_six :
  let kinds := all_kinds in
  let s := grun kinds (init_state 6) ([0; 2; 0; 2; 0; 2; 1; 1; 1; 0] ++ concat (repeat (seq 0 6) 3) ++ completion 6) in
  finished kinds s = true /\
  g_world s = [None; Some (Complete 0); None; None; None; None; None; None; None; None; None; None; None] /\
  map (fun kh => status_of (fst kh) (snd kh)) (combine kinds (g_hist s)) = [Some 0; Some 1; Some 1; Some 1; Some 0; Some 0].
Proof. vm_compute. repeat split; reflexivity. Qed.

Theorem C17_scenarios : forall k, In k all_kinds <->
  k = KAct (AMove false) \/ k = KAct (AMoveX false) \/ k = KAct AWrite \/ k = KAct ADiscard \/ k = KExtRename \/ k = KExtDelete.
Proof. exact in_all_kinds. Qed.
Print Assumptions C17_scenarios.

Theorem C17_exploration_is_complete : forall kinds t, closed kinds t = true ->
  forall sched s, tmem t s = true -> tmem t (grun kinds s sched) = true.
Proof. exact reach_in_table. Qed.
Print Assumptions C17_exploration_is_complete.

Theorem C17_never_touches_others_files : forall w p q o r m, p <> q -> m <> Src ->
  gget (geffect w p o r) (slot q m) = gget w (slot q m).
Proof. exact others_names_untouched. Qed.
Print Assumptions C17_never_touches_others_files.

(* every reachable state of every pair can be driven to a finished state: the hypothesis "finished" is not vacuous *)
Theorem C17_schedules_complete :
  forallb (fun kinds => forallb (fun s => finished kinds (grun kinds s (completion (length kinds)))) (states_of (reach_table kinds))) pairs = true.
Proof. exact completion_finishes_pairs. Qed.
Print Assumptions C17_schedules_complete.

(* a race: the mail client renames the message after mdsort (label) wrote its copy and before it unlinks the old
   name: mdsort removes its copy again and reports an error; the message is where the client put it *)
Example C17_example :
  let s := grun [KAct AWrite; KExtRename] (init_state 2) [0; 0; 0; 0; 0; 0; 0; 0; 1; 0; 0; 0; 0] in
  finished [KAct AWrite; KExtRename] s = true /\
  g_world s = [None; None; None; Some (Complete 0); None] /\
  map (fun kh => status_of (fst kh) (snd kh)) (combine [KAct AWrite; KExtRename] (g_hist s)) = [Some 1; Some 0].
Proof. vm_compute. repeat split; reflexivity. Qed.
Print Assumptions C17_example.
