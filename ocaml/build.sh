#!/bin/sh
# Extract the model and build the mdmodel binary.  Run from anywhere.
set -e
cd "$(dirname "$0")"
timeout 900 coqc -Q ../coq MD ../coq/Extract.v >/dev/null
rm -f mdmodel.mli
ocamlfind ocamlopt -w -a -O3 mdmodel.ml driver.ml -o mdmodel 2>/dev/null || \
ocamlfind ocamlopt -w -a mdmodel.ml driver.ml -o mdmodel
