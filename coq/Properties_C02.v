(* C02 - a crash at any instant never leaves a message without an intact copy.
   Statements only; proofs are in IOProofs.v. *)
From Coq Require Import List Bool Arith.
Import ListNotations.
From MD Require Import IODefs IOProofs.

(* For every non-discarding action, the fault-free run and every run with one fault, EVERY instant k
   (process killed before call k) and EVERY power-failure state (directory operations persisted as
   any prefix j <= k, file data only as far as fsynced): some name still holds a complete, intact
   copy of the message.  Other names may hold an empty placeholder, a complete duplicate or a
   partial copy. *)
Theorem C02_crash : forall a v m O k j, v <= 1 -> m <= 1 -> a <> ADiscard ->
  (O = nofault \/ exists kf r, r <> Ok /\ kf < bound /\ O = single kf r) ->
  j <= k ->
  let tr := r_trace (run_action a v m O) in
  crash_ok (kill_state tr k (w0v v m)) = true /\ crash_ok (powerfail_state tr j k (w0v v m)) = true.
Proof. exact c02_crash. Qed.
Print Assumptions C02_crash.

(* the copy is durable before the original disappears: without the fsync the property is false *)
Example C02_ex_fsync_needed :
  crash_violation [(Opendir, Ok); (Stat Src, Ok); (Creat Dst, Ok); (Rename Src Dst, Exdev); (Dup, Ok); (Fdopen, Ok);
                   (Write Dst 0, Ok); (Flush Dst 0, Ok); (Fclose Dst, Ok); (Unlink Src, Ok); (Close Dst, Ok)] 0 = Some (10, 10).
Proof. vm_compute. reflexivity. Qed.

Example C02_ex_real_trace_ok :
  crash_violation (r_trace (run_action (AMoveX false) 0 1 nofault)) 0 = None.
Proof. vm_compute. reflexivity. Qed.
