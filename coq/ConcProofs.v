(* C17: every schedule of two or three parties on one committed message ends with the message exactly
   once (or removed by a party whose job that was), no empty or partial file, and truthful statuses.
   The proof is an exhaustive exploration of the reachable states, checked by the kernel: the table
   computed by ConcDefs.explore is closed under every party's step (so it contains every state any
   schedule can reach - lemma reach_in_table) and every finished state in it is final_ok. *)
From Coq Require Import List Bool Arith NArith PArith FMapPositive Lia.
Import ListNotations.
From MD Require Import IODefs ConcDefs.

(* ---- decidable equalities are sound --------------------------------------------------------------------- *)
Lemma list_eqb_eq {A} (f : A -> A -> bool) : (forall x y, f x y = true -> x = y) ->
  forall a b, list_eqb f a b = true -> a = b.
Proof.
  intros Hf. induction a as [|x r IH]; intros [|y t] H; cbn [list_eqb] in H; try discriminate H; [reflexivity|].
  apply andb_prop in H. destruct H as [H1 H2]. rewrite (Hf _ _ H1), (IH _ H2). reflexivity.
Qed.

Lemma data_eqb_eq a b : data_eqb a b = true -> a = b.
Proof.
  destruct a as [[| |x]|], b as [[| |y]|]; cbn; intros H; try discriminate H; try reflexivity.
  apply Nat.eqb_eq in H. subst. reflexivity.
Qed.

Lemma outcome_eqb_eq a b : outcome_eqb a b = true -> a = b.
Proof. destruct a, b; cbn; intros H; try discriminate H; reflexivity. Qed.

Lemma gstate_eqb_eq a b : gstate_eqb a b = true -> a = b.
Proof.
  unfold gstate_eqb. intros H. apply andb_prop in H. destruct H as [H1 H2].
  apply (list_eqb_eq _ data_eqb_eq) in H1. apply (list_eqb_eq _ (list_eqb_eq _ outcome_eqb_eq)) in H2.
  destruct a, b. cbn in *. subst. reflexivity.
Qed.

(* ---- a closed table contains everything reachable ----------------------------------------------------------- *)
Lemma tmem_in t s : tmem t s = true -> In s (states_of t).
Proof.
  unfold tmem, states_of. destruct (PositiveMap.find (key s) t) as [s'|] eqn:E; [|intros H; discriminate H].
  intros H. apply gstate_eqb_eq in H. subst s'.
  apply PositiveMap.elements_correct in E. apply in_map_iff. exists (key s, s). split; [reflexivity|exact E].
Qed.

Lemma step_in_succs kinds s p s' : gstep kinds s p = Some s' -> In s' (succs kinds s).
Proof.
  intros H. unfold succs. apply in_flat_map. exists p. split.
  - apply in_seq. split; [lia|]. cbn [Nat.add].
    unfold gstep in H. destruct (nth_error kinds p) eqn:E; [|discriminate H].
    apply nth_error_Some. rewrite E. discriminate.
  - rewrite H. left. reflexivity.
Qed.

Lemma closed_step kinds t s p s' : closed kinds t = true -> tmem t s = true -> gstep kinds s p = Some s' -> tmem t s' = true.
Proof.
  intros Hc Hs Hp. unfold closed in Hc. apply andb_prop in Hc. destruct Hc as [_ Hc].
  rewrite forallb_forall in Hc. specialize (Hc s (tmem_in t s Hs)).
  rewrite forallb_forall in Hc. apply Hc. eapply step_in_succs. exact Hp.
Qed.

Lemma reach_in_table kinds t : closed kinds t = true -> forall sched s, tmem t s = true -> tmem t (grun kinds s sched) = true.
Proof.
  intros Hc. induction sched as [|p r IH]; intros s Hs; cbn [grun]; [exact Hs|].
  destruct (gstep kinds s p) as [s'|] eqn:E; [|apply IH; exact Hs].
  apply IH. eapply closed_step; eassumption.
Qed.

Theorem checked_kinds_sound kinds : check_kinds kinds = true -> forall sched,
  let s := grun kinds (init_state (length kinds)) sched in
  finished kinds s = true -> final_ok kinds s = true /\ winners_report kinds s = true.
Proof.
  intros H sched s Hf. unfold check_kinds in H. cbv zeta in H. apply andb_prop in H. destruct H as [Hc Ha].
  assert (Hm : tmem (reach_table kinds) s = true).
  { apply reach_in_table; [exact Hc|]. unfold closed in Hc. apply andb_prop in Hc. destruct Hc as [Hi _]. exact Hi. }
  unfold all_final_ok in Ha. rewrite forallb_forall in Ha. specialize (Ha s (tmem_in _ _ Hm)).
  rewrite Hf in Ha. apply andb_prop in Ha. exact Ha.
Qed.

(* ---- all pairs and all triples of scenarios --------------------------------------------------------------------- *)
Lemma pairs_checked : forallb check_kinds pairs = true.
Proof. vm_compute. reflexivity. Qed.

Lemma triples_checked : forallb check_kinds triples = true.
Proof. vm_compute. reflexivity. Qed.

Lemma in_all_kinds k : In k all_kinds <->
  k = KAct (AMove false) \/ k = KAct (AMoveX false) \/ k = KAct AWrite \/ k = KAct ADiscard \/ k = KExtRename \/ k = KExtDelete.
Proof. unfold all_kinds. cbn [In]. intuition auto. Qed.

Lemma pair_in a b : In a all_kinds -> In b all_kinds -> In [a; b] pairs.
Proof.
  intros Ha Hb. unfold pairs. apply in_flat_map. exists a. split; [exact Ha|]. apply (in_map (fun b0 => [a; b0])). exact Hb.
Qed.

Lemma triple_in a b c : In a all_kinds -> In b all_kinds -> In c all_kinds -> In [a; b; c] triples.
Proof.
  intros Ha Hb Hc. unfold triples. apply in_flat_map. exists a. split; [exact Ha|].
  apply in_map_iff. exists [b; c]. split; [reflexivity|]. apply pair_in; assumption.
Qed.

Theorem two_parties_every_schedule a b sched : In a all_kinds -> In b all_kinds ->
  let s := grun [a; b] (init_state 2) sched in
  finished [a; b] s = true -> final_ok [a; b] s = true /\ winners_report [a; b] s = true.
Proof.
  intros Ha Hb. apply (checked_kinds_sound [a; b]).
  pose proof pairs_checked as H. rewrite forallb_forall in H. apply H. apply pair_in; assumption.
Qed.

Theorem three_parties_every_schedule a b c sched : In a all_kinds -> In b all_kinds -> In c all_kinds ->
  let s := grun [a; b; c] (init_state 3) sched in
  finished [a; b; c] s = true -> final_ok [a; b; c] s = true /\ winners_report [a; b; c] s = true.
Proof.
  intros Ha Hb Hc. apply (checked_kinds_sound [a; b; c]).
  pose proof triples_checked as H. rewrite forallb_forall in H. apply H. apply triple_in; assumption.
Qed.

(* every schedule can be completed: running the parties one after the other long enough finishes them all, so the
   hypothesis "finished" above is met by extending any schedule (programs have at most 14 calls) *)
Definition completion (n : nat) : list nat := flat_map (fun p => repeat p 16) (seq 0 n).

Lemma completion_finishes_pairs :
  forallb (fun kinds => forallb (fun s => finished kinds (grun kinds s (completion (length kinds)))) (states_of (reach_table kinds))) pairs = true.
Proof. vm_compute. reflexivity. Qed.

(* ---- a party never touches a name another party created ------------------------------------------------------------ *)
Lemma gget_gset_other : forall w i j v, i <> j -> gget (gset w i v) j = gget w j.
Proof.
  unfold gget. induction w as [|x r IH]; intros i j v Hij; [destruct i; reflexivity|].
  destruct i as [|i], j as [|j]; cbn [gset nth]; try reflexivity; [contradiction|]. apply IH. lia.
Qed.

Lemma slot_other p q n m : p <> q -> m <> Src -> slot p n <> slot q m.
Proof. intros Hpq Hm. destruct n, m; cbn [slot]; try contradiction; lia. Qed.

Theorem others_names_untouched w p q o r m : p <> q -> m <> Src ->
  gget (geffect w p o r) (slot q m) = gget w (slot q m).
Proof.
  intros Hpq Hm. unfold geffect.
  destruct o; destruct r; try reflexivity;
    repeat match goal with
           | |- context [match gget ?w ?i with _ => _ end] => destruct (gget w i)
           | |- context [if bound ?w ?i then _ else _] => destruct (bound w i)
           end; try reflexivity;
    rewrite ?gget_gset_other; try reflexivity; try (apply slot_other; assumption).
Qed.
