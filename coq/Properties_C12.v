(* C12 - interpolation is exact and single-pass: message content is data, never template.
   Statements only; proofs are in InterpProofs.v. *)
From MD Require Import Bytes Generated InterpDefs InterpProofs.

(* interpolate never runs out of fuel: it terminates on every template *)
Theorem C12_total : forall ctx s, interpolate (S (length s)) ctx s <> None.
Proof. exact interp_total. Qed.
Print Assumptions C12_total.

(* single pass: the template is cut into tokens by a function that sees neither the message nor the
   macro values ([tokens s]); the result is the concatenation of the substituted tokens.  Substituted
   text (captures, ${path}, macro values) is therefore never scanned. *)
Theorem C12_single_pass : forall ctx s,
  interp ctx s = match tokens s with Some toks => subst_all ctx toks | None => None end.
Proof. exact interp_single_pass. Qed.
Print Assumptions C12_single_pass.

(* \N and \M.N denote the N-th group of the M-th pattern entry recorded after the nearest preceding rule
   sentinel (the same rule); older entries are invisible *)
Theorem C12_backref_same_rule : forall older newer mi si,
  match_backref (older ++ LSentinel :: newer) mi si =
  match after_last_sentinel newer with
  | Some seg => match nth_pat seg mi with Some caps => nthN caps si | None => None end
  | None => match nth_pat newer mi with Some caps => nthN caps si | None => None end
  end.
Proof. exact backref_same_rule. Qed.
Print Assumptions C12_backref_same_rule.

(* a reference to a missing pattern or group is an error for the whole string *)
Theorem C12_missing_reference_is_error : forall ctx s toks mi si,
  tokens s = Some toks -> In (TRef mi si) toks -> match_backref (ic_before ctx) mi si = None -> interp ctx s = None.
Proof. exact interp_missing_ref. Qed.
Print Assumptions C12_missing_reference_is_error.

(* non-vacuity: text captured from the message that looks like template syntax is inserted literally *)
Example C12_ex_literal :
  interp (mkictx [LSentinel; LPat [ascii [92;49]%nat; ascii [36;123;112;97;116;104;125]%nat]] [(ascii [112;97;116;104]%nat, ascii [47;109]%nat)])
         (ascii [92;48;45;92;49;45;36;123;112;97;116;104;125]%nat)
  = Some (ascii [92;49;45;36;123;112;97;116;104;125;45;47;109]%nat).
Proof. vm_compute. reflexivity. Qed.

(* the label value: existing X-Label values are kept verbatim, only the configured labels are
   interpolated (this is the behaviour after the F-07 repair) *)
Example C12_ex_label :
  label_value (mkictx [LSentinel; LPat [ascii [122]%nat]] []) [ascii [92;57]%nat] [ascii [110;92;48]%nat]
  = Some (ascii [92;57;32;110;122]%nat).
Proof. vm_compute. reflexivity. Qed.
