"""C10 - header conditions see headers the way a mail reader does.
Tie: (a) message_get_header through the message.h driver vs the extracted model for every queried
name; (b) the mdsort binary with single-rule "header {names} /pattern/flags" configurations vs the
model's decoded values fed to the platform's own regexec.  Monitor: independent reference (unfold
+ RFC 2047 reference decoder of c16.py + case-insensitive name comparison)."""
import os
import common, msggen, mdrun, c16
from common import hexs, unhexs


def ref_unfold(v):
    if b'\n' not in v:
        return v
    return b''.join(l.lstrip(b'\t') for l in v.split(b'\n'))


def ref_values(fields, name):
    vals = [c16.cview(c16.ref_2047(ref_unfold(v))) for k, _, v in fields if k.lower() == name.lower()]
    return vals or None


def fmt(vals):
    return 'GN' if vals is None else 'G%d' % len(vals) + ''.join(',' + hexs(v) for v in vals)


PATTERNS = [b'hello', b'^hello', b'world$', b'[0-9]+\\.[0-9]', b'(lorem) (ipsum)', b'user@example\\.com', b'caf', b'^$', b'.',
            b'a=b|x', b'Re:', b'<[a-z]@[a-z]\\.[a-z]>', b'LOREM', b'q.oted', b'^[^ ]+$', b'tab\there', b'\\$\\{path\\}', b' $', b'^ ',
            b'hello world', b'ipsumRe', b'1\\.5 Re', b'x{3,}', b'(a|b)=(a|b)']


def delimiter_stage(ck, stats):
    """patterns written with other delimiters and with escaped delimiters: a backslash in front of the delimiter stands for the delimiter
    character itself (inside bracket expressions too), everything else reaches regcomp as written"""
    values = [b'usr\\local', b'usr/local', b'bar', b'foo|bar', b'abc', b'a.c', b'x@y', b'x\\@y', b'a/b', b'ab']
    written = [(b'/', b'^[a-z\\/]+$'), (b'|', b'^(foo\\|bar)$'), (b'.', b'^a\\.c$'), (b'@', b'^x\\@y$'), (b'/', b'^a\\/b$'), (b'@', b'^[a-z/]+$'),
               (b'|', b'^[a-z\\|]+$'), (b'@', b'a.c|x.y')]
    for delim, w in written:
        regex = w.replace(b'\\' + delim, delim)
        sb = mdrun.Sandbox()
        src = sb.maildir('src'); dst = sb.maildir('dst')
        for i, v in enumerate(values):
            sb.add(src, 'new', b'To: a\nX-P: %s\nX-Id: %d\n\nbody\n' % (v, i))
        conf = sb.write_conf(b'maildir "%s" {\n\tmatch header "X-P" %s%s%s move "%s"\n}\n' % (src.encode(), delim, w, delim, dst.encode()))
        rc, out, err = sb.run([], conf=conf)
        res = common.regex_eval([(False, regex, v) for v in values])
        want = set(i for i, r in enumerate(res) if r not in (None, 'E'))
        import re as _re
        got = set(int(_re.search(rb'^X-Id: (\d+)$', b, _re.M).group(1)) for b in sb.snapshot(dst).values())
        stats['evals'] += len(values); stats['binary'] += len(values); stats['matched'] += len(got)
        if rc != 0 or got != want:
            stats['viol'] += 1
            ck.violation('pattern written %s%s%s (the regular expression %r): moved the messages with values %r, the expression matches %r (exit %d, %r)'
                         % (delim.decode(), w.decode(), delim.decode(), regex, [values[i] for i in sorted(got)], [values[i] for i in sorted(want)], rc, err[-150:]),
                         {'stream': 'delimiters', 'config': open(conf, 'rb').read().decode(errors='replace'), 'exit': rc})
        sb.cleanup()


def after_other_conditions(ck, stats):
    """a header condition sees every occurrence of its field also when a body, attachment or date condition has looked at the message
    before it (those conditions read Content-Type, Content-Transfer-Encoding and Date themselves)"""
    msg = (b'To: a\nContent-Type: text/plain; charset=first\nDate: Mon, 01 Jan 2001 10:00:00 +0000\nContent-Transfer-Encoding: 7bit\n'
           b'Content-Type: text/plain; charset=second\ncontent-transfer-encoding: 8bit\nDate: Tue, 01 Jan 2002 10:00:00 +0000\n\nhello body\n')
    multi = (b'To: a\nContent-Type: multipart/mixed; boundary="b"\nContent-Type: multipart/second\n\n--b\nContent-Type: text/plain\n\npart\n--b--\n')
    cases = [
        (msg, 'body /zzz-never/ or header "Content-Type" /second/'),
        (msg, 'body /hello/ and header "Content-Transfer-Encoding" /8bit/'),
        (msg, '( date > 1 seconds or all ) and header "Date" /2002/'),
        (msg, 'date header > 1 seconds and header { "X-None" "Date" } /Tue/'),
        (multi, 'attachment body /zzz-never/ or header "Content-Type" /second/'),
        (multi, '( attachment header "Content-Type" /plain/ ) and header "content-type" /SECOND/i'),
        (msg, 'header "Content-Type" /second/'),              # control: the header condition alone
    ]
    for two_rules in (False, True):
        for text, cond in cases:
            sb = mdrun.Sandbox()
            src = sb.maildir('src'); dst = sb.maildir('dst'); other = sb.maildir('other')
            sb.add(src, 'new', text)
            if two_rules and (' or header' in cond or ' and header' in cond):
                first, second = cond.rsplit(' or header' if ' or header' in cond else ' and header', 1)
                # the other condition in an earlier rule that does not fire (negated when it holds), the header condition in the next one
                neg = '' if ' or header' in cond else '! '
                rules = '\tmatch %s( %s ) move "%s"\n\tmatch header%s move "%s"\n' % (neg, first.strip('( )') if first.count('(') != first.count(')') else first, other, second, dst)
            else:
                rules = '\tmatch %s move "%s"\n' % (cond, dst)
            conf = sb.write_conf(('maildir "%s" {\n%s}\n' % (src, rules)).encode())
            rc, out, err = sb.run([], conf=conf)
            stats['evals'] += 1; stats['binary'] += 1
            if rc != 0 or len(sb.snapshot(dst)) != 1:
                stats['viol'] += 1
                ck.violation('rules %r on a message with repeated Content-Type / Content-Transfer-Encoding / Date fields: the header condition holds for a later '
                             'occurrence, but the message was not moved (exit %d, %r)' % (rules, rc, err[-200:]),
                             {'stream': 'after-other-conditions', 'message_hex': hexs(text), 'config': open(conf).read(), 'exit': rc})
            else:
                stats['matched'] += 1
            sb.cleanup()


def run(ck):
    model = common.model_exe()
    drv = common.build_driver('msg_drv', 'plain')
    rng = ck.rng
    n_api = 2500 if ck.tier == 'quick' else 60000
    stats = dict(evals=0, nontrivial=set(), dis=0, viol=0, binary=0, matched=0)
    samples = []
    # ---- stream 1: get_header on every name class ------------------------------------------------
    cases = []
    for i in range(n_api):
        fields, body, text = msggen.gen_wf_message(rng)
        if len(text) > 20000:
            continue
        qs = msggen.names_for_queries(rng, fields) + [rng.choice(msggen.NAMES)]
        cases.append((fields, text, qs))
    lines = ['msg %s %s %s' % (hexs(t), hexs(b'm'), ' '.join('G' + hexs(q) for q in qs)) for f, t, qs in cases]
    impl, r1 = common.run_lines(drv, lines, timeout=1800)
    mod, _ = common.run_lines(model, lines, timeout=1800)
    if len(impl) != len(lines):
        ck.violation('message.h driver died (exit %s)' % r1.returncode, {'request': lines[len(impl)][:3000] if len(impl) < len(lines) else None})
    for (fields, text, qs), a, b in zip(cases, impl, mod):
        ta, tb = a.split(), b.split()
        for q, x, y in zip(qs, ta, tb):
            stats['evals'] += 1
            ref = fmt(ref_values(fields, q))
            if ref != 'GN':
                stats['nontrivial'].add((text, q))
            if x != ref:
                stats['viol'] += 1
                if stats['viol'] <= 5:
                    ck.violation('message_get_header(%r) on %r...: implementation %s, a mail reader sees %s' % (q, text[:100], x[:200], ref[:200]),
                                 {'stream': 'api', 'message_hex': hexs(text), 'name_hex': hexs(q), 'impl': x, 'reference': ref, 'model': y})
            elif x != y:
                stats['dis'] += 1
                if stats['dis'] <= 5:
                    ck.violation('correspondence broken: get_header(%r): implementation %s, model %s (implementation agrees with the reference)' % (q, x[:200], y[:200]),
                                 {'stream': 'api', 'message_hex': hexs(text), 'name_hex': hexs(q), 'impl': x, 'model': y,
                                  'obligation': 'correspondence HeaderDefs.get_header'}, found_input=False)
        if len(samples) < 3 and fields:
            samples.append({'message': repr(text[:200]), 'queries': [repr(q) for q in qs]})
    # ---- stream 2: the binary with header rules, regexec as the platform computes it ---------------
    after_other_conditions(ck, stats)
    delimiter_stage(ck, stats)
    nbin = 10 if ck.tier == 'quick' else 150
    for round_ in range(nbin):
        sb = mdrun.Sandbox()
        src = sb.maildir('src')
        dst = sb.maildir('dst')
        msgs = {}
        for i in range(30):
            fields, body, text = msggen.gen_wf_message(rng)
            if len(text) > 20000:
                continue
            msgs[sb.add(src, 'new', text)] = (fields, text)
        allnames = [k for f, _ in msgs.values() for k, _, _ in f] or [b'To']
        names = [rng.choice(allnames + msggen.NAMES) for _ in range(rng.choice([1, 1, 2, 3]))]
        names = [rng.choice([n, n.lower(), n.upper()]) for n in names]
        names = [n if not n.startswith(b'~') else b'T' + n for n in names]     # a leading ~ is tilde-expanded in configuration strings
        if round_ % 2 == 1:
            # the names of a list are looked up independently of each other: related names side by side (an extension or a
            # prefix of a name listed before it, the same name again in another case) neither hide nor stand in for one another
            n = rng.choice(names)
            names = rng.choice([[n + b'-Ext', n], [n + b'x', n.lower(), n[:-1]], [n.upper(), n, n + b'-Ext'], [n + n, n]]) + \
                (names if rng.randrange(2) else [])
        pat = rng.choice(PATTERNS)
        if rng.randrange(2) == 0 and b'\\' not in pat and b'[' not in pat:
            pat = pat.upper() if rng.randrange(2) else pat.title()      # the i flag then decides
        icase = rng.randrange(2) == 0
        delim = b'/' if b'/' not in pat else b'@'
        hdr = mdrun.conf_quote(names[0]) if len(names) == 1 else b'{ ' + b' '.join(mdrun.conf_quote(n) for n in names) + b' }'
        # conditions do not influence each other: the same pattern text with the OPPOSITE i flag in an earlier rule / an earlier
        # condition of the same rule, on a field no message has, changes nothing
        decoy = b'header "X-Never-Present" %s%s%s%s' % (delim, pat, delim, b'' if icase else b'i')
        variant = round_ % 3
        if variant == 1:
            other = sb.maildir('other')
            pre = b' match %s move "%s"\n' % (decoy, other.encode())
            cond_pre = b''
        elif variant == 2:
            pre = b''
            cond_pre = decoy + b' or '
        else:
            pre = b''; cond_pre = b''
        conf = b'maildir "%s" {\n%s match %sheader %s %s%s%s%s move "%s"\n}\n' % (src.encode(), pre, cond_pre, hdr, delim, pat, delim, b'i' if icase else b'', dst.encode())
        cp = sb.write_conf(conf)
        rc, out, err = sb.run([], conf=cp)
        moved = set(text for text in sb.snapshot(dst).values())
        # model prediction: decoded values per name, then the platform regexec
        reqs = ['msg %s %s %s' % (hexs(t), hexs(b'm'), ' '.join('G' + hexs(n) for n in names)) for f, t in msgs.values()]
        got, _ = common.run_lines(model, reqs)
        queries, owner = [], []
        refq, refowner = [], []
        for idx, ((fields, text), g) in enumerate(zip(msgs.values(), got)):
            for tok in g.split():
                if tok != 'GN':
                    for v in tok.split(',')[1:]:
                        queries.append((icase, pat, unhexs(v))); owner.append(idx)
            for n in names:
                for v in (ref_values(fields, n) or []):
                    refq.append((icase, pat, v)); refowner.append(idx)
        res = common.regex_eval(queries) if queries else []
        rres = common.regex_eval(refq) if refq else []
        pred = set(o for o, r in zip(owner, res) if r not in (None, 'E'))
        rpred = set(o for o, r in zip(refowner, rres) if r not in (None, 'E'))
        for idx, (fields, text) in enumerate(msgs.values()):
            stats['evals'] += 1
            stats['binary'] += 1
            did = text in moved
            stats['matched'] += did
            if did != (idx in rpred):
                stats['viol'] += 1
                ck.violation('header %r /%s/%s: mdsort %s message %r... but the pattern %s a decoded value of the named fields'
                             % (names, pat.decode(), 'i' if icase else '', 'moved' if did else 'did not move', text[:100],
                                'matches' if idx in rpred else 'matches no'),
                             {'stream': 'binary', 'message_hex': hexs(text), 'config': conf.decode(errors='replace'), 'exit': rc, 'stderr': err[-300:].decode(errors='replace')})
                break
            if did != (idx in pred):
                stats['dis'] += 1
                ck.violation('correspondence broken: model predicts %s for header %r /%s/ on %r...' % (idx in pred, names, pat.decode(), text[:100]),
                             {'stream': 'binary', 'message_hex': hexs(text), 'config': conf.decode(errors='replace'),
                              'obligation': 'correspondence eval_header (binary)'}, found_input=False)
                break
        sb.cleanup()
    ck.coverage.update({
        'evaluations': stats['evals'],
        'distinct_nontrivial': len(stats['nontrivial']),
        'rule': 'get_header for 2-6 names (present in other case, absent, prefix-extended) on msggen well-formed messages; binary: a rule '
                '"header {1-6 names, among them extensions / prefixes / repetitions of one another} /ERE/[i] move" from a 24-pattern family over 30 messages per round, match decided by the platform regexec '
                'on the decoded values; in two rounds of three an earlier rule / an earlier or-ed condition carries the same pattern text with the opposite i flag on a field no message has; non-trivial = the queried name has at least one occurrence; distinct = distinct (message, name)',
        'samples': samples,
        'traces_validated_against_impl': stats['evals'],
        'disagreements_checked': stats['dis'],
        'binary_message_decisions': stats['binary'], 'binary_matches': stats['matched'],
    })
    ck.assumptions += ['regcomp/regexec of the platform (same library on both sides)', 'glibc qsort stable',
                       'reference unfolding = lines concatenated, leading tabs of continuation lines removed (mdsort.conf(5))']


def replay(ck, rp):
    drv = common.build_driver('msg_drv', 'plain')
    text = unhexs(rp['message_hex'])
    name = unhexs(rp.get('name_hex', hexs(b'To')))
    out, _ = common.run_lines(drv, ['msg %s %s G%s' % (hexs(text), hexs(b'm'), hexs(name))])
    r = __import__('c08').py_fields(text)
    ref = fmt(ref_values([(k, b'', v) for k, v in r[0]], name)) if r else '?'
    print('implementation %s reference %s' % (out[0] if out else '?', ref))
    return 0 if out and out[0] == ref else 1
