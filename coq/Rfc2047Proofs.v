(* C16, RFC 2047: the decoder on every header value that is a sequence of plain text and well-formed encoded
   words: the decoded words and the text in order, the white space between two adjacent encoded words dropped. *)
From MD Require Import Bytes Generated DecodeDefs DecodeSpec DecodeProofs.
Require Import Lia.
Local Open Scope N_scope.

Inductive item := IText (t : bytes) | IWord (cs : bytes) (enc : N) (payload : bytes).

Definition render_word (cs : bytes) (enc : N) (p : bytes) : bytes := q_eqmark ++ cs ++ [63; enc; 63] ++ p ++ q_markeq.

Fixpoint render (l : list item) : bytes :=
  match l with
  | [] => []
  | IText t :: r => t ++ render r
  | IWord cs e p :: r => render_word cs e p ++ render r
  end.

Definition word_dec (enc : N) (p : bytes) : option bytes :=
  if toupper enc =? 66 then match base64_decode p with Some d => Some (cview d) | None => None end
  else if toupper enc =? 81 then Some (qp_decode true p) else None.

(* no adjacent pair (a, b) *)
Fixpoint nopat (a b : N) (t : bytes) : bool :=
  match t with
  | x :: ((y :: _) as r) => negb ((x =? a) && (y =? b)) && nopat a b r
  | _ => true
  end.

Definition is_word (i : item) : bool := match i with IWord _ _ _ => true | _ => false end.

(* well-formed: texts contain no "=?", are not adjacent to each other; words have a charset without '?', a payload
   without "?=", and are decodable *)
Fixpoint wf (l : list item) : bool :=
  match l with
  | [] => true
  | IText t :: r => nopat 61 63 t && (match r with IText _ :: _ => false | _ => true end) && wf r
  | IWord cs e p :: r =>
      forallb (fun c => negb (c =? 63)) cs && nopat 63 61 p &&
      (match word_dec e p with Some _ => true | None => false end) && wf r
  end.

Fixpoint decode (l : list item) : bytes :=
  match l with
  | [] => []
  | IText t :: r => t ++ decode r
  | IWord cs e p :: r =>
      match word_dec e p with
      | Some d =>
          d ++ match r with
               | IText t :: ((IWord _ _ _ :: _) as r') => if all_spaces t then decode r' else decode r
               | _ => decode r
               end
      | None => []
      end
  end.

Lemma skipn_app_exact' {A} (a b : list A) : skipn (length a) (a ++ b) = b.
Proof. induction a as [|x a IH]; [reflexivity|exact IH]. Qed.

(* ---- strstr of a two-byte pattern ---------------------------------------------------------------------------------- *)
Lemma find_sub_first a b t x : a <> b -> nopat a b t = true ->
  find_sub [a; b] (t ++ a :: b :: x) = Some (t, x).
Proof.
  intros Hab. induction t as [|c t IH]; intros Hn.
  - cbn [app find_sub prefixb]. rewrite !N.eqb_refl. reflexivity.
  - cbn [app find_sub].
    assert (Hp : prefixb [a; b] (c :: t ++ a :: b :: x) = false).
    { cbn [prefixb]. destruct t as [|d t'].
      - cbn [app]. destruct (a =? c) eqn:E1; [|reflexivity]. cbn [andb].
        destruct (b =? a) eqn:E2; [apply N.eqb_eq in E2; congruence|reflexivity].
      - cbn [app]. cbn [nopat] in Hn. apply andb_prop in Hn. destruct Hn as [Hn _].
        rewrite (N.eqb_sym a c), (N.eqb_sym b d). destruct (c =? a), (d =? b); try reflexivity. discriminate Hn. }
    rewrite Hp.
    assert (Hn' : nopat a b t = true).
    { destruct t as [|d t']; [reflexivity|]. cbn [nopat] in Hn. apply andb_prop in Hn. destruct Hn as [_ Hn]. exact Hn. }
    rewrite (IH Hn'). reflexivity.
Qed.

Lemma find_sub_none a b t : nopat a b t = true -> find_sub [a; b] t = None.
Proof.
  induction t as [|c t IH]; intros Hn; [reflexivity|].
  cbn [find_sub].
  assert (Hp : prefixb [a; b] (c :: t) = false).
  { cbn [prefixb]. destruct t as [|d t']; [rewrite andb_false_r; reflexivity|].
    cbn [nopat] in Hn. apply andb_prop in Hn. destruct Hn as [Hn _].
    rewrite (N.eqb_sym a c), (N.eqb_sym b d). destruct (c =? a), (d =? b); try reflexivity. discriminate Hn. }
  rewrite Hp.
  assert (Hn' : nopat a b t = true).
  { destruct t as [|d t']; [reflexivity|]. cbn [nopat] in Hn. apply andb_prop in Hn. destruct Hn as [_ Hn]. exact Hn. }
  rewrite (IH Hn'). reflexivity.
Qed.

(* ---- one encoded word ------------------------------------------------------------------------------------------------ *)
Lemma split_at_first c t x : forallb (fun d => negb (d =? c)) t = true -> split_at c (t ++ c :: x) = (t, Some x).
Proof.
  induction t as [|d t IH]; intros H; cbn [app split_at]; [rewrite N.eqb_refl; reflexivity|].
  cbn [forallb] in H. apply andb_prop in H. destruct H as [Hd Ht]. destruct (d =? c); [discriminate Hd|].
  rewrite (IH Ht). reflexivity.
Qed.

Lemma r2047_word_render cs e p d rest :
  forallb (fun c => negb (c =? 63)) cs = true -> nopat 63 61 p = true -> word_dec e p = Some d ->
  r2047_word (cs ++ [63; e; 63] ++ p ++ q_markeq ++ rest) = Some (d, rest).
Proof.
  intros Hcs Hp Hd. unfold r2047_word.
  change (cs ++ [63; e; 63] ++ p ++ q_markeq ++ rest) with (cs ++ 63 :: (e :: 63 :: p ++ q_markeq ++ rest)).
  rewrite (split_at_first 63 cs _ Hcs). cbn [N.eqb Pos.eqb negb].
  unfold q_markeq. change (p ++ [63; 61] ++ rest) with (p ++ 63 :: 61 :: rest).
  rewrite (find_sub_first 63 61 p rest ltac:(discriminate) Hp).
  unfold word_dec in Hd. destruct (toupper e =? 66).
  - destruct (base64_decode p); [injection Hd as <-; reflexivity|discriminate Hd].
  - destruct (toupper e =? 81); [injection Hd as <-; reflexivity|discriminate Hd].
Qed.

(* ---- plain text in front of something that does not begin with '?' -------------------------------------------------- *)
Lemma r2047_text t : nopat 61 63 t = true -> forall rest f, (match rest with 63 :: _ => False | _ => True end) ->
  r2047_loop (length t + f) (t ++ rest) =
  match r2047_loop f rest with Some (Some o) => Some (Some (t ++ o)) | x => x end.
Proof.
  induction t as [|c t IH]; intros Hn rest f Hr.
  - cbn [length app Nat.add]. destruct (r2047_loop f rest) as [[o|]|]; reflexivity.
  - cbn [length app Nat.add r2047_loop].
    assert (Hp : prefixb q_eqmark (c :: t ++ rest) = false).
    { unfold q_eqmark. cbn [prefixb]. destruct t as [|d t'].
      - cbn [app]. destruct rest as [|r0 rest']; [rewrite andb_false_r; reflexivity|].
        destruct (61 =? c); [|reflexivity]. cbn [andb]. destruct (63 =? r0) eqn:E; [|reflexivity].
        apply N.eqb_eq in E. subst r0. contradiction.
      - cbn [app]. cbn [nopat] in Hn. apply andb_prop in Hn. destruct Hn as [Hn _].
        rewrite (N.eqb_sym 61 c), (N.eqb_sym 63 d). destruct (c =? 61), (d =? 63); try reflexivity. discriminate Hn. }
    rewrite Hp.
    assert (Hn' : nopat 61 63 t = true).
    { destruct t as [|d t']; [reflexivity|]. cbn [nopat] in Hn. apply andb_prop in Hn. destruct Hn as [_ Hn]. exact Hn. }
    rewrite (IH Hn' rest f Hr). destruct (r2047_loop f rest) as [[o|]|]; reflexivity.
Qed.

Lemma render_head_not_q l : wf l = true -> match l with IText _ :: _ => True | _ => match render l with 63 :: _ => False | _ => True end end.
Proof. destruct l as [|[t|cs e p] r]; intros _; cbn; exact I. Qed.

(* ---- the white space rule ---------------------------------------------------------------------------------------------- *)
Lemma skip_ws_render r : wf r = true ->
  skip_ws_before_word (render r) =
  match r with
  | IText t :: ((IWord _ _ _ :: _) as r') => if all_spaces t then render r' else render r
  | _ => render r
  end.
Proof.
  intros Hw. unfold skip_ws_before_word. destruct r as [|[t|cs e p] r'].
  - reflexivity.
  - cbn [wf] in Hw. apply andb_prop in Hw. destruct Hw as [Hw Hr']. apply andb_prop in Hw. destruct Hw as [Ht Halt].
    destruct r' as [|[t2|cs e p] r''].
    + cbn [render]. rewrite app_nil_r. unfold q_eqmark. rewrite (find_sub_none 61 63 t Ht). reflexivity.
    + discriminate Halt.
    + cbn [render]. unfold render_word. unfold q_eqmark at 1 2. rewrite <- !app_assoc. cbn [app].
      unfold q_eqmark. rewrite (find_sub_first 61 63 t _ ltac:(discriminate) Ht).
      destruct (all_spaces t); [|reflexivity].
      change (t ++ 61 :: 63 :: ?x) with (t ++ (61 :: 63 :: x)). rewrite skipn_app_exact'. reflexivity.
  - cbn [render]. unfold render_word, q_eqmark. cbn [app find_sub prefixb N.eqb Pos.eqb andb length skipn all_spaces forallb].
    reflexivity.
Qed.

(* ---- the theorem ------------------------------------------------------------------------------------------------------- *)
Lemma wf_tail i r : wf (i :: r) = true -> wf r = true.
Proof. destruct i; cbn [wf]; intros H; apply andb_prop in H; destruct H as [_ H]; exact H. Qed.

Lemma r2047_items : forall n l fuel, (length l <= n)%nat -> wf l = true -> (length (render l) < fuel)%nat ->
  r2047_loop fuel (render l) = Some (Some (decode l)).
Proof.
  induction n as [|n IH]; intros l fuel Hn Hw Hf.
  - destruct l; [|cbn in Hn; lia]. destruct fuel; [lia|]. reflexivity.
  - destruct l as [|[t|cs e p] r].
    + destruct fuel; [cbn in Hf; lia|]. reflexivity.
    + (* text *)
      pose proof (wf_tail _ _ Hw) as Hr. cbn [wf] in Hw. apply andb_prop in Hw. destruct Hw as [Hw _].
      apply andb_prop in Hw. destruct Hw as [Ht Halt].
      cbn [render decode]. cbn [render] in Hf. rewrite app_length in Hf.
      replace fuel with (length t + (fuel - length t))%nat by lia.
      rewrite (r2047_text t Ht (render r) (fuel - length t)).
      * rewrite (IH r (fuel - length t)%nat); [reflexivity|cbn [length] in Hn; lia|exact Hr|lia].
      * destruct r as [|[t2|cs e p] r']; [exact I|discriminate Halt|exact I].
    + (* encoded word *)
      pose proof (wf_tail _ _ Hw) as Hr. cbn [wf] in Hw. apply andb_prop in Hw. destruct Hw as [Hw _].
      apply andb_prop in Hw. destruct Hw as [Hw Hdec]. apply andb_prop in Hw. destruct Hw as [Hcs Hp].
      destruct (word_dec e p) as [d|] eqn:Ed; [|discriminate Hdec].
      destruct fuel as [|f]; [lia|].
      cbn [render decode]. rewrite Ed.
      unfold render_word at 1. unfold q_eqmark at 1. rewrite <- !app_assoc.
      change ([61; 63] ++ ?x) with (61 :: 63 :: x).
      cbn [r2047_loop prefixb q_eqmark N.eqb Pos.eqb andb skipn].
      change (cs ++ [63; e; 63] ++ p ++ q_markeq ++ render r) with (cs ++ [63; e; 63] ++ p ++ q_markeq ++ render r).
      rewrite (r2047_word_render cs e p d (render r) Hcs Hp Ed).
      rewrite (skip_ws_render r Hr).
      cbn [render] in Hf. unfold render_word in Hf. rewrite !app_length in Hf. cbn [length q_eqmark q_markeq] in Hf.
      destruct r as [|[t|cs2 e2 p2] r'].
      * rewrite (IH [] f); [rewrite app_nil_r; reflexivity|cbn; lia|reflexivity|cbn in *; lia].
      * destruct r' as [|[t3|cs3 e3 p3] r''].
        -- rewrite (IH [IText t] f); [reflexivity|cbn [length] in *; lia|exact Hr|clear -Hf; cbn [render length] in *; rewrite ?app_length in *; cbn [length] in *; lia].
        -- rewrite (IH (IText t :: IText t3 :: r'') f); [reflexivity|cbn [length] in *; lia|exact Hr|clear -Hf; cbn [render] in *; rewrite ?app_length in *; lia].
        -- destruct (all_spaces t).
           ++ rewrite (IH (IWord cs3 e3 p3 :: r'') f); [reflexivity|cbn [length] in *; lia|exact (wf_tail _ _ Hr)|
                clear -Hf; cbn [render] in *; rewrite ?app_length in *; lia].
           ++ rewrite (IH (IText t :: IWord cs3 e3 p3 :: r'') f); [reflexivity|cbn [length] in *; lia|exact Hr|
                clear -Hf; cbn [render] in *; rewrite ?app_length in *; lia].
      * rewrite (IH (IWord cs2 e2 p2 :: r') f); [reflexivity|cbn [length] in *; lia|exact Hr|clear -Hf; cbn [render] in *; rewrite ?app_length in *; lia].
Qed.

Theorem rfc2047_items l : wf l = true -> rfc2047_decode (render l) = decode l.
Proof.
  intros Hw. unfold rfc2047_decode. rewrite (r2047_items (length l) l (S (length (render l))) ltac:(lia) Hw ltac:(lia)). reflexivity.
Qed.

(* the documented shape: "=?UTF-8?B?aGk=?= =?UTF-8?Q?=C3=A9?= x" *)
Example rfc2047_example :
  let l := [IWord (ascii [85;84;70;45;56]%nat) 66 (ascii [97;71;107;61]%nat); IText [32];
            IWord (ascii [85;84;70;45;56]%nat) 81 (ascii [61;67;51;61;65;57]%nat); IText (ascii [32;120]%nat)] in
  wf l = true /\ rfc2047_decode (render l) = ascii [104;105;195;169;32;120]%nat.
Proof. vm_compute. split; reflexivity. Qed.
