#!/usr/bin/env python3
"""Writes MANIFEST.json from the table below (kept here so that the manifest stays valid)."""
import json, os
HERE = os.path.dirname(os.path.dirname(os.path.abspath(__file__)))

CLAIMED = {
 'C14': dict(
   text='Coq theorems about the model parser (lexer of parse.y byte for byte, recursive-descent recogniser of the grammar, semantic checks, macro table, tilde '
        'expansion, regcomp as oracle): (1) whatever else the file contains, an accepted configuration satisfies in every rule of every block the semantic rules (discard / reject '
        'alone, every rule has an action, attachment blocks only exec, no empty block, reject only under stdin, exec body only with stdin, patterns compile and never carry l '
        'and u, ages fit 32 bits) - so one defective rule rejects the whole file; integers never exceed 2^32-1 and strings / patterns never exceed the lexeme buffer; a rejected '
        'configuration makes main exit non-zero with no message examined. (2) The converse, C14_generated_accepted: every configuration generated from the documented grammar - an '
        'abstract syntax tree of maildir / stdin sections, rules nested to any depth, conditions over and / or / ! / parentheses / attachment / body / header / date / new / old / all / '
        'isdirectory / command, all twelve actions incl. exec options and attachment blocks - that satisfies the semantic rules (decidable secs_ok), written out with ANY separator of '
        'white space and comments before every token, is accepted with the fuel config_parse gives itself and yields the tree the grammar denotes. '
        'Tied by config_parse (sanitizer build, forked per file) vs the extracted model on grammar-generated '
        'configurations (must be accepted, trees equal), 45 classes of invalidating edits at random / every applicable position (must be rejected with a file:line: diagnostic), '
        'byte-level mutations (accept/reject and tree must agree; no crash or hang), and the binary on rejected files with a populated maildir (non-zero exit, diagnostic, nothing '
        'changed, no command run). Defects F-11 (macro composed from two values) and F-23 (a NUL byte ended parsing silently) repaired by fix: commits. The gate is run for four configurations of every defect class in maildir mode, reading from stdin and with -d from stdin; defect classes include 8 KiB macro names and ${path} in a default-context string directly after an action string spelt the same.',
   note='Partial: nothing is proved about the yacc automaton (error recovery after the first diagnostic, termination on arbitrary bytes) - covered by the differential runs only; the '
        'acceptance theorem leaves out macros, tilde expansion and escaped delimiters (strings without "$" / leading "~" / quote / backslash). The model stops at the first '
        'diagnostic; the number and text of later diagnostics are not modelled.',
   technique='Coq proof (induction over the fuelled mutual recogniser via factored bodies; acceptance by size-bounded induction over the syntax tree with lexer lemmas per token and a fuel bound against the rendered length) + differential runs with a defect catalogue',
   ref='DESIGN 6 C14'),
 'C15': dict(
   text='Coq theorems: the day count of the model is the Gregorian calendar on 1970-2037 (origin, and every one of the 24837 days steps by one: finite sweep lifted); each of the '
        'three Date layouts parses back to the fields printed (second 0 for the layout without seconds) and timeparse picks the printed layout; tzoff is exact on -2359..+2359 and '
        'rejects hours > 23 / minutes > 59; time_parse of a printed date with a numeric zone or GMT/UT/UTC is the true instant - the local zone is not an input; date > N and '
        'date < N are strict comparisons of (now - instant) with N x unit, so thresholds 1 s either side decide as stated; the unit table and the unambiguous abbreviations; ages '
        'that overflow are rejected (C14). The formula before the repair is refuted (F-13). Tied by time_parse through a driver that sets TZ and the clock per request (13 zone '
        'settings with and without DST, instants uniform over 1970-2037 and around DST switches, all layouts and zones) judged by an independent calendar, compared with the '
        'extracted model; and by the binary with a pinned clock on messages aged N-1, N, N+1 seconds for every unit spelling, header and file-mtime fields. '
        'Defect F-13 repaired by a fix: commit (timegm). Also: local zones whose abbreviations look like header zones, date modified in attachment context, zone name x local zone x verbosity forced in every run.',
   note='strptime / timegm / the zone database are libc: the model parses only the printed forms and counts days itself; lenient strptime inputs are not modelled. '
        'created / access use st_ctime / st_atime, which the harness cannot set: only modified is exercised on the binary.',
   technique='Coq proof (finite calendar sweep lifted, printer/parser round trip, linear arithmetic) + differential runs with pinned clock and zone settings',
   ref='DESIGN 6 C15'),
 'C16': dict(
   text='Coq theorems about the hand-written model of decode.c: base64_decode = RFC 4648 spec for every byte string, '
        'target bound branches unreachable, QP inverts every QP rendering and never fails, RFC 2047 total / raw on malformed, '
        'and on every value that is a sequence of plain text and well-formed decodable encoded words the result is the text and the decoded words in order with the white space '
        'between two adjacent encoded words dropped (C16_2047_items). Model tied to the code by a differential run of the '
        'extracted model against decode.c (exhaustive <=4/<=6 over the 14-symbol alphabet + structured random, plain and ASan/UBSan builds). Also: exhaustive Q / B encoded-word payloads, encoded words of every length 0-300, 3-70 KiB inputs followed by small ones in one process (reference decoder only).',
   note='Trusted: Coq kernel, gen_tables.py (Base64 alphabet, Pad64), ExtrOcamlBasic extraction, decode.h driver, C-locale ctype. '
        'Control flow of decode.c is modelled by hand and tied only by correspondence.',
   technique='Coq proof (induction over the input, finite sweeps lifted by forallb_forall) + extracted-model differential correspondence',
   ref='DESIGN 6 C16'),
 'C06': dict(
   text='Coq theorems: the dry-run printer and the executor are functions of the same interpolated match list; the "message -> destination" lines are exactly the executed '
        'actions in order, a message without action prints nothing, every recorded non-empty match of every matcher in front of an action is printed (two lines each); for a '
        'match inside one line the quoted line is the line containing it (leading blanks removed, never beyond the match), ^ stands in the display column where the match '
        'begins and $ in its last column, for every character decoder that decodes the characters of the line independently of what follows (instantiated for the C and '
        'UTF-8 decoders on ASCII / 8-bit / multibyte classes). Tied by -d runs on generated populations with ground truth (decoded header values, decoded bodies): an '
        'independent monitor (platform regexec, own width function) judges truth and completeness of every explanation, the extracted model is compared line by line, '
        'and a real run on the same tree must do exactly what the -d lines announce (places, labels, added headers, discards, commands; unlisted messages untouched). '
        'Defect F-08 (marker far right when the match begins inside the stripped leading blanks) repaired by a fix: commit. Also: multipart/alternative bodies, zone abbreviations before file-date explanations, flags after move, rules shifted down by continued strings (line numbers), bytes that are no complete UTF-8 sequence in front of a match with the oracle regexec under the run\'s locale, a stdin-mode stage comparing -d with the delivery.',
   note='Matches one column wide print ^$ (markers cannot share a column); matches spanning a newline cannot be shown by a one-line quote and are skipped (counted in evidence). '
        'wcwidth is modelled by classes, checked against the platform only through the generated characters.',
   technique='Coq proof (character-segmentation lemma for strnwidth, line-start invariant, induction over the match list) + differential -d / real runs with a ground-truth monitor',
   ref='DESIGN 6 C06'),
 'C07': dict(
   text='Coq theorems (partial), each for every byte string: (1) totality - header parsing, boundary scanning, the part loop, recursive flattening with the depth limit, '
        'body selection, RFC 2047 decoding and the interpolation scanner never exhaust the fuel they are started with; (2) bounds - index-level models of findheader, '
        'unfoldheader, skipline/findboundary, parseboundary, skipseparator (built from per-byte strncmp/strchr/strspn/strlen reads with an explicit out-of-bounds result) never '
        'read past the terminator nor write past the allocation, searchheader never indexes outside the table, the base64 output fits its buffer; (3) the index-level '
        'findheader and findboundary refine the list-level models the other checks tie to the code; (4) in the handle model of the attachment table (every growth '
        'invalidates pointers) the re-derivation of msg makes every dereference valid, and without it one is stale (F-09, fixed by 6186a8d). Tied by running the '
        'implementation: message.h call sequences and the mdsort binary (8 configurations: every matcher, rewriting actions, attachment block + exec, -d, stdin mode), both '
        'built with AddressSanitizer + UBSan, on generated and mutated hostile messages up to 64 KiB with a time limit; a sanitizer report, signal or hang is a violation. Also: a fixed corpus of odd header values and of letters whose other-case form has another UTF-8 length (l / u flags in C.UTF-8), configurations whose interpolation fails while the run goes on, a valgrind memcheck stage on truncated messages.',
   note='Memory safety of the compiled binary is NOT proved: libc internals, the allocator, pointer provenance and signed overflow are outside the model; the sanitizer runs are '
        'tests over sampled inputs. unfoldheader / parseboundary / skipseparator refinement is tested (scan command of the extracted model), not proved.',
   technique='Coq proof (fuel adequacy by measure, index-level bounds by induction, refinement to the list-level models) + sanitizer-instrumented differential runs (test)',
   ref='DESIGN 6 C07'),
 'C08': dict(
   text='Coq theorems about the hand-written model of message.c header handling: for every well-formed message text (any fields, duplicates, '
        'case, folding, 8-bit, length) parse recovers exactly fields+body; after any sequence of set_header calls the written bytes are the '
        'untouched original fields in order (names, values incl. folding), each set name exactly once with the last value, and the original body; '
        'the written file re-reads as exactly that. Complementary classes (NUL, unterminated last header, leading empty body lines, CRLF separator) '
        'are refuted by witness lemmas and pinned as known findings F-10a-d. Model tied by differential runs (message.h driver + mdsort binary) '
        'and an independent RFC 5322 line reader as monitor. Also: copies across file systems, two label actions over several X-Label fields, header names that agree in 31 characters, 25 messages of differing layouts per run.',
   note='Trusted: Coq kernel, extraction, message.h driver, python monitor, glibc qsort being a stable merge sort (modelled as stable insertion sort; '
        'the binary-search theorem itself holds for any key-sorted permutation). Control flow of message.c modelled by hand.',
   technique='Coq proof (invariant over the sequence of set_header operations, sorted-permutation uniqueness, binary-search correctness) + differential correspondence',
   ref='DESIGN 6 C08'),
 'C10': dict(
   text='Coq theorems: a header condition on a parsed well-formed message is true iff the pattern (any regexec function) matches the unfolded, '
        'RFC 2047-decoded value of some occurrence of some named field (names case-insensitive); binary search + run extension returns exactly '
        'the run of equal names on any key-sorted table and never indexes out of bounds; unfolding yields one line. Tied by differential runs of '
        'message_get_header and of the binary with header rules whose regex outcome is computed by the platform regexec. Also: decoy conditions with the opposite i flag, continuation lines that carry only a tab, lists naming a field and an extension / prefix of it, header conditions after body / attachment / date conditions on repeated Content-Type / Content-Transfer-Encoding / Date fields.',
   note='Trusted: as C08/C16 plus platform regcomp/regexec used as oracle on both sides; RFC 2047 full factorisation not proved (see C16).',
   technique='Coq proof (sorted-array binary search, stability of the sort, iff over names/fields) + differential correspondence with platform regexec',
   ref='DESIGN 6 C10'),
 'C09': dict(
   text='Coq theorems about the model of the flag sets (two 26-bit words), message_flags_parse/str, msgflags and maildir_genname: written flags = letters '
        'after the last ":2," sorted and de-duplicated; invalid suffix = error; S set/cleared exactly on new->cur / cur->new with every other flag kept; '
        '"flags" adds exactly its letters; candidate names for different counter values differ (decimal rendering injective, counter wrap mod 2^32 included) and the '
        'O_EXCL retry loop returns within |E|+1 attempts a name not in any set E of existing names. Tied by runs of the binary under the interposer with '
        'clock/pid/host/random pinned (one message per run, 0-5 pre-existing candidate names, empty and non-empty), exact name compared with the model. Also: rename failing with EXDEV, 128-300 colliding names, three messages under an invalid flags string, a destination whose new/ vanishes during the run, source maildirs named like back-references, generated names at NAME_MAX, flag / flags over maildirs nested in one another.',
   note='Trusted: as above plus shim/libvfio.so (pinning, tracing). The mtime and never-replace clauses at system-call level are also covered by C01/C02. '
        'maildir/subdir inference through pathslice: primitive proved under C18, the composed C09_destination statement is covered by correspondence only. '
        'Genuine defect F-05 (flags parsed from the whole path) repaired by fix: commit d135c7f.',
   technique='Coq proof (bit-level lemmas via testbit, pigeonhole on distinct candidates, injectivity of decimal rendering) + pinned-environment differential runs',
   ref='DESIGN 6 C09'),
 'C17': dict(
   text='Coq theorems: parties run the I/O protocols of IODefs unchanged (move, cross-device move, rewrite = label / add-header, discard; flag is a move) or are a mail '
        'client renaming / deleting the message; calls are atomic, arbitrarily interleaved, outcomes come from the shared directory state. For ANY NUMBER of such parties and '
        'EVERY schedule (C17_any_number_of_parties): once all have finished the message exists exactly once, intact - or not at all if a deleting party reports success -, no empty or '
        'partial file remains, a party reporting success owns the surviving copy, and no party modifies a name another party created; every schedule can be extended to a finished '
        'one (C17_every_schedule_completes). The proof is compositional: each party seen through its own three names moves inside a finite table closed under its own step and '
        '"somebody else removed the message" (checked by the kernel), and a global invariant says the shared name disappears exactly once, by exactly one party. The exhaustive '
        'product explorations for pairs and triples are kept. Tied by running mdsort under the interposer with a second party (another mdsort: '
        'move / cross-device move / flag / label / discard, or mv / rm) run to completion before every call k of the first, for all 42 scenario pairs: the final tree is judged '
        'by the property itself and, when the second party met the original message, the outcome must be one the model can reach. Also: name collisions with a script and with a second mdsort seeing the same second / pid / host / counter, two-action parties, a look-alike bystander file name, a two-block run whose first block crosses file systems into the maildir the second flags in.',
   note='Partial because of known finding F-16: a second mdsort that WALKS the maildir while the first one\'s uncommitted rewritten copy is '
        'visible there (copies are created in new/ or cur/, not tmp/) selects it as a message - the message is duplicated; outside the single-message model, exhibited on the '
        'binary and listed in known-findings.txt. Quick tier: one preemption point per binary run; thorough tier adds sampled three-party schedules with two preemption points. Thread-level simultaneity inside the kernel is not exercised.',
   technique='Coq proof (compositional invariant over any number of parties; per-party reachable-state tables checked by reflection and lifted by a closure lemma) + schedule-controlled differential runs under the interposer',
   ref='DESIGN 6 C17'),
 'C18': dict(
   text='Coq theorems: pathjoin, bounded copy, pathslice (single-pass copy loop with its bufsiz accounting) and the generated name return either an error or '
        'exactly the intended string (pathslice = the selected components of the path cut before every "/"), never a prefix. Tied by exhaustive differential '
        'runs of pathslice/pathjoin (all component shapes, ranges, buffer sizes; plain + ASan with exact-size buffers) and by binary runs with maildir path, '
        'interpolated destination, message path, host name, HOME, TMPDIR at every length in a window around PATH_MAX/NAME_MAX with decoys at truncations. Also: interpolated isdirectory paths, ~ expansion at every length around PATH_MAX, counter growth at NAME_MAX, TMPDIR as the place of the body temp file and of the spool (decoy directory at the truncation: F-24), rewritten message path too long, move merged with flag around NAME_MAX, the default configuration path, three messages under one over-long literal destination.',
   note='Compositions of the primitives are modelled as path expressions (NamesDefs.pexp): for EVERY nesting of bounded copy and pathjoin the result is exactly the '
        'intended string and exists iff every buffer on the way fits (C18_composed_exact / _defined / _never_truncates), with the message path, the delivered path and the '
        'temporary-file template as instances whose verdict the window runs compare with the binary. That each call site of the code is such a nesting (and not a '
        'hand-rolled copy) is tied by the binary window runs only; pathslice-derived maildir / subdir inference is proved as a primitive, not inside a nesting. '
        'Trusted: driver, shim host-name pinning.',
   technique='Coq proof (loop invariant relating the copy loop to the component decomposition) + exhaustive differential correspondence + boundary-window runs',
   ref='DESIGN 6 C18'),
 'C01': dict(
   text='Coq theorems about interaction-tree models of maildir_move (rename and EXDEV copy paths, maildir or stdin source), maildir_write (label / add-header), '
        'message_write and discard over an abstract file system (names -> inodes -> empty/partial/complete + durable): for a single failing outcome at ANY call '
        'index the message exists exactly once intact with no stray left, a failure at a reported site gives a non-zero status, status 0 implies final place and '
        'content; two faults never lose the message; lifted to a whole run: the messages are handled one after the other with running call numbers and whichever call of '
        'whichever message fails, every message satisfies these clauses (C01_whole_run). Proved by vm_compute sweeps over the finite scenario space lifted to all indices (run_ext). The clause '
        '"every failure is reported" is restricted to reported sites; tolerated sites are refuted by witness and pinned as F-15. Tied by enumerating every call '
        'index x failure of interposed runs of the binary, normalising the action phase to the model vocabulary (model must issue the same calls) and judging the final tree. The corpus also holds rules kept by pass whose following rule does I/O in its condition (stat, fork/waitpid), exec scenarios, two rewrites, a first message on another file system followed by plain renames, and every scenario with a command once with SIGCHLD inherited as ignored.',
   note='Trusted: shim/libvfio.so (fault semantics: failing call has no effect; close/fclose release; failing stdio writes leave partial data), trace normaliser, '
        'the abstraction of all fprintf calls of message_write into one Write op and of EEXIST retries into one Creat. Several messages are lifted by theorem (sequential jobs over disjoint names); several actions on one message by the per-action versions only. Defects F-01, F-04 repaired by fix: commits.',
   technique='Coq proof (finite sweeps over interaction trees lifted by an oracle-extensionality lemma) + exhaustive single-fault enumeration against the binary',
   ref='DESIGN 6 C01'),
 'C02': dict(
   text='Coq theorem over the same models: for the fault-free run and every single-fault run, at EVERY kill point and in EVERY power-failure state (any persisted '
        'prefix of directory operations, file data only as fsynced) some name holds a complete copy. Tied by SIGKILL before every call of interposed runs (tree judged) '
        'and by pushing the implementation\'s own normalised traces through the model\'s crash semantics (IODefs.crash_violation). Scenarios with commands are judged on surviving trees only.',
   note='Storage model as in the property text; directory fsync outside it. Trusted as C01.',
   technique='Coq proof (finite sweeps of crash states lifted to all indices) + kill-point enumeration + crash analysis of implementation traces',
   ref='DESIGN 6 C02'),
 'C04': dict(
   text='Coq theorems about the model of main(): exit 0 iff configuration ok and no message/maildir error (and no reject on stdin); any error or configuration error '
        'gives non-zero (75 on stdin); stdin status in {0,1,75} with 1 iff reject and no error; every message of every maildir is examined whatever happened before; '
        'per-action status soundness from C01. The stdin clause "0 only if stored or discarded" is refuted (no rule matches: F-12, known finding). Tied by populations '
        'with individually defective messages (8 defect kinds + attachment blocks + unusable maildirs), stdin outcome cases and every single fault of stdin deliveries. Also: unusable maildirs (missing / a file / new or cur missing), non-executable commands, failing interpolation inside command / isdirectory conditions, defective messages after healthy ones of the same kind (Date without zone after zone abbreviations), several location actions in stdin mode (F-25 listed).',
   note='The model of main() is a thin fold over observed per-message outcomes; what makes a message an error is tied by the population runs, not proved. '
        'F-18 (errc in maildir_set_path aborts the run) is not exercised by this check.',
   technique='Coq proof (fold invariants) + differential population runs + fault enumeration in stdin mode',
   ref='DESIGN 6 C04'),
 'C05': dict(
   text='The Coq part is structural: in the model of main() the dry-run pipeline is the real pipeline without its last (only mutating) stage, and -n examines no '
        'message. The deciding evidence is the tie: interposer traces and full sandbox snapshots (names, sizes, hashes, mtimes incl. TMPDIR) of -d and -n runs over '
        'generated rule trees and special configurations (failing destinations, invalid back-references, command conditions, exec stdin/body, attachment blocks), in '
        'maildir and stdin mode, also with an unwritable stdout and on a file system that reports no file types: no mutating call, no exec-action fork, nothing changed. Also: -n / -d / -v combined in any spelling, broken stdin, TZ of 255-300 characters and HOME / TMPDIR of PATH_MAX characters, configurations that meet a maildir twice.',
   note='This property is a statement about which calls are issued; the theorem is only as strong as the model of main() (by construction), so the claim rests mostly '
        'on the trace tie. Trusted: shim, snapshotting.',
   technique='Coq proof (structural) + interposed trace and snapshot comparison over generated configurations',
   ref='DESIGN 6 C05'),
 'C03': dict(
   text='Proved in Coq about the faithful model of expr.c/match.c (flat match list with sentinels, pattern entries, pending actions, pass/break markers, '
        'matches_merge, negation removing what was appended below it): every condition evaluates to its boolean formula whatever is short-circuited or pending; '
        'C03_general: for rule trees of ANY nesting and any conditions whose action lists carry pass / break as their last action, on every evaluation in which neither of '
        'the two pass events occurs (T1: a pass of another block pending at the end of a nested block; T2: the pending-action count used there differs from the block\'s '
        'own - the known findings F-03) the actions other than move / flag performed are exactly those of the documented semantics spec_run (rules in order, first match '
        'wins, a nested block entered only if its condition holds, pass keeps the actions and continues, break abandons the block); for nested plain rules run_rules = spec_run '
        'including the location entries. '
        'Known findings with witness lemmas: T1/T2 (pinned), F-21 location merge; F-02 (a failed negation cleared the whole list) repaired by a fix: commit. Tied by comparing the action list mdsort -d prints, in order, and the '
        'final tree of a real run with the extracted evaluator on all 8 truth assignments per generated tree, and with the documented semantics. Further stages: non-message files with and without d_type, formulas over isdirectory / command with back-references, blocks naming several (nested) maildirs, a command that changes what a later message\'s condition tests, same file names in different directories under file-date conditions, macro names that are prefixes of one another with -D.',
   note='Not proved: action lists with pass / break before their last action, and the final location when several move / flag actions are pending (refuted, F-21); both are '
        'covered by the correspondence only. The parser shape (left-nested OR chain, MATCH sentinel, AND chain of actions, and/or equal precedence left-associative, ! tighter) is modelled by hand '
        '(compile) and tied only by correspondence. EXPR_ERROR propagation, attachment conditions/blocks and plain matchers are outside this check (C11/C13/C04).',
   technique='Coq proof (induction over rule trees with a delta invariant on the flat match list, freshness of block identifiers, equivalence of two formulations of the documented semantics) + differential -d / real-run correspondence + spec monitor',
   ref='DESIGN 6 C03'),
 'C11': dict(
   text='Coq theorems: the body a condition or exec stdin body sees is decode_body of the message, or for multipart/alternative of the first text/plain '
        'part, else the first text/html part, else the raw body; decode_body decodes by the exact Content-Transfer-Encoding value (base64 = RFC 4648 decoding by C16, '
        'undecodable = error; quoted-printable; otherwise as is); a MIME error makes the body an error; '
        'C11_attachments_of_tree: for EVERY well-formed rendered MIME tree of any shape (fields and bodies as in the header round trip of C08, each multipart\'s Content-Type '
        'yielding its boundary, no line of a preamble or part being a delimiter line of the enclosing boundary) the attachments are exactly the sub-messages in pre-order, each '
        'with its own parsed headers and body, if the nesting fits the depth limit, and an error otherwise; the '
        'attachment condition is exists-with-first-error-or-match-wins over the part list, the attachment block is for-each and an error in any part is an error. '
        'Tied by (a) message_get_body / message_get_attachments vs the extracted model on generated MIME texts incl. malformed structure, (b) generated well-formed '
        'trees with ground truth: number and pre-order of parts, every part\'s decoded body, the depth limit, the text/plain preference, (c) the binary with body / '
        'attachment body / attachment header rules, attachment blocks and exec stdin body, judged by platform regexec over the decoded content and by a recording helper. Also: quoted parameters after the boundary, boundaries of 69-100 characters, exec stdin body after a rewrite of the same rule, a header with a malformed encoded word decoded before bodies and parts.',
   note='Outside well-formed trees (missing terminator, colliding boundaries, header defects of F-10) nothing is proved; those inputs are covered by the correspondence and the '
        'ground-truth monitor. Charset conversion does not exist in mdsort and is not part of the property.',
   technique='Coq proof (induction over MIME trees composing the header round trip with the boundary-scanning theorem; case analysis over body selection and decoding) + differential runs against generated MIME trees with ground truth',
   ref='DESIGN 6 C11'),
 'C12': dict(
   text='Coq theorems about the model of match.c interpolate / isbackref (incl. strtoul blanks, signs, INT_MAX) / ismacro / match_backref: interpolation terminates on '
        'every template; it equals "tokenize the template with a function that sees neither message nor macro values, substitute each token once, concatenate" - so '
        'substituted text is never scanned; back-references reach only the pattern entries after the nearest preceding rule sentinel; a missing pattern or group is an '
        'error for the whole string. Tied by binary runs (recording helper for exec/command argv, label / add-header values) whose captures come from the platform '
        'regexec on the model\'s decoded values, and an independent python reading of the template syntax as monitor. F-07 (label re-scanned) repaired by a fix: commit. Also: non-pattern and interpolated isdirectory / command conditions between the patterns, captures side by side with l / u, 12-group patterns with two-digit references, captures used after their header was rewritten (MALLOC_PERTURB_), sequences of messages in which an earlier template fails part-way.',
   note='Parse-time macro expansion (expandmacros) is modelled and tied by the same runs but has no theorem yet; F-11 (NULL macro list for command/isdirectory) is '
        'not exercised. "error leaves the message untouched" is observed through the runs (exit status, no action), not proved.',
   technique='Coq proof (fuel adequacy by scanner progress lemmas, factorisation through a context-free tokenizer) + differential runs with platform regexec',
   ref='DESIGN 6 C12'),
 'C13': dict(
   text='Coq theorems: only exit status 0 lets the action list continue (127, signals, fork/wait failures are errors); a command condition maps 0 / other / 127 to '
        'match / no match / error; in the descriptor-table model every open, dup and temporary file carries close-on-exec so no sequence of operations leaves a '
        'descriptor to inherit; the argument vector has one element per configured string (interpolation itself: C12); after message_write the header table is '
        'key-sorted so body / attachment lookups after a rewrite are sound; the one environment variable mdsort itself writes (TZ, around every zone abbreviation of a Date '
        'header) is, after any sequence of such headers, what mdsort was started with - unset, empty and set being different states (C13_environment_restored). Tied by a recording C helper started by mdsort: argv, stdin bytes, open descriptors '
        'with targets, exit status / signal, over exec options x positions among other actions x body encodings x maildir/stdin mode, command conditions, '
        'capture arguments (present/empty/absent groups) and attachment blocks whose expected stdin comes from the extracted model; the helper also records environ and cwd, '
        'compared with what mdsort was started with (TZ unset / empty / set / too long for the snapshot buffer) and with the model. '
        'Defects F-19 (temp file inherited), F-06 (undecoded body after rewrite), F-09 (use-after-free on nested multiparts) repaired by fix: commits. Also: several exec actions per rule, attachment blocks selecting some parts, command conditions per attachment with identical arguments, ${path} over several messages and maildirs.',
   note='The descriptor model states the discipline (every open sets the flag); that each call site follows it is tied by the helper observing the child\'s descriptors. '
        'fork/dup2/execvp themselves are not modelled.',
   technique='Coq proof (case analysis on wait statuses, invariant over descriptor operations) + recording-helper differential runs',
   ref='DESIGN 6 C13'),
}

ALL = ['C%02d' % i for i in range(1, 19)]

def main():
    checks = []
    for pid in ALL:
        if pid not in CLAIMED:
            continue
        c = CLAIMED[pid]
        checks.append({
            'property_id': pid,
            'quick_cmd': './check %s --tier quick' % pid,
            'thorough_cmd': './check %s --tier thorough' % pid,
            'evidence_file': 'evidence/%s.json' % pid,
            'replay_cmd_template': './check %s --replay {path}' % pid,
            'engine': 'coq-model+correspondence',
            'level_claimed': {'category': 'proof', 'text': c['text'], 'design_ref': c['ref']},
            'level_note': c['note'],
            'technique': c['technique'],
        })
    na = [{'property_id': p, 'reason': 'not claimed yet: the model/theorems/correspondence for this property are not built at this commit (see DESIGN.md section 11)'}
          for p in ALL if p not in CLAIMED]
    m = {
        'version': 1,
        'setup_cmd': './setup.sh',
        'hooks': {'guard': 'MDSORT_VERIF', 'enable': 'none needed: checks observe through public headers, LD_PRELOAD and the binary; no hook commits',
                  'baseline_off_cmd': 'cd /repo && ./configure >/dev/null && make -j8 >/dev/null && make test',
                  'source_commits': [], 'add_only': True},
        'engines': [{'name': 'coq-model+correspondence', 'path': 'check', 'serves_properties': sorted(CLAIMED),
                     'kind_free_text': 'Coq 8.16 theorems about hand-written Gallina models (coq/), tables regenerated from source (harness/gen_tables.py), '
                                       'extracted OCaml model (ocaml/) compared with the implementation built from /repo working tree (cdrv/, shim/)'}],
        'checks': checks,
        'not_applicable': na,
        'notes': 'Entry point ./check <id> --tier quick|thorough; VERIF_SEED honoured. known-findings.txt lists pinned defects.',
    }
    with open(os.path.join(HERE, 'MANIFEST.json'), 'w') as f:
        json.dump(m, f, indent=1)

if __name__ == '__main__':
    main()
