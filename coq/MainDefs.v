(* M8 (main): how mdsort.c:main() turns per-message outcomes into the exit status, and where the
   dry-run / syntax-check options cut the per-message pipeline.  No proofs here. *)
From Coq Require Import List Bool ZArith.
Import ListNotations.
From MD Require Import Generated.

(* what happened to one message in the walk *)
Inductive mres :=
| MNoMatch          (* expr_eval = EXPR_NOMATCH: nothing is done *)
| MDone             (* matched, every action succeeded *)
| MReject           (* matched a reject rule (stdin only) *)
| MErr.             (* message_parse / expr_eval / interpolation / an action failed *)

Record flags := mkflags { f_error : bool; f_reject : bool }.

Definition step (s : flags) (r : mres) : flags :=
  match r with
  | MErr => mkflags true (f_reject s)
  | MReject => mkflags (f_error s) true
  | _ => s
  end.

(* the tail of main() *)
Definition exit_status (stdin : bool) (s : flags) : Z :=
  if stdin then (if f_error s then ex_tempfail else if f_reject s then ex_permfail else 0%Z)
  else (if f_error s then 1%Z else 0%Z).

Inductive run_result :=
| Usage                                   (* exit 1 from usage() *)
| Exit (status : Z) (examined : nat).     (* number of messages examined *)

(* conf_ok: config_parse returned 0.  syntax: -n.  opened: per maildir, None = maildir_open failed,
   Some rs = the outcomes of its messages in walk order (a walk error ends that maildir with an error). *)
Definition main (usage_error : bool) (stdin : bool) (conf_ok syntax : bool)
           (maildirs : list (option (list mres))) : run_result :=
  if usage_error then Usage else
  if negb conf_ok then Exit (exit_status stdin (mkflags true false)) 0 else
  if syntax then Exit (exit_status stdin (mkflags false false)) 0 else
  let s := fold_left (fun s md => match md with
                                  | None => mkflags true (f_reject s)
                                  | Some rs => fold_left step rs s
                                  end) maildirs (mkflags false false) in
  Exit (exit_status stdin s)
       (fold_left (fun n md => match md with None => n | Some rs => n + length rs end) maildirs 0).

(* ---- the per-message pipeline and the options -------------------------------------------------------- *)
Inductive stage := SParse | SEval | SInterpolate | SInspect | SExec.

(* stages run for a matching message *)
Definition pipeline (dryrun : bool) : list stage :=
  if dryrun then [SParse; SEval; SInterpolate; SInspect]
  else [SParse; SEval; SInterpolate; SInspect; SExec].

(* only SExec issues calls that change a maildir or start an exec *action*; command *conditions* are
   evaluated in SEval in both modes *)
Definition mutating (s : stage) : bool := match s with SExec => true | _ => false end.
