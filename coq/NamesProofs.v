(* Proofs about flags, generated names, pathjoin and pathslice. *)
From MD Require Import Bytes Generated NamesDefs.
From Coq Require Import ZifyBool ZifyN ZifyNat.
Local Open Scope N_scope.

(* ================================================================================================ *)
(* pathjoin / bounded copies: the intended string or an error, never a truncation                    *)
Theorem pathjoin_exact bufsiz dir file s :
  pathjoin bufsiz dir file = Some s -> s = dir ++ [47] ++ file /\ (length s < bufsiz)%nat.
Proof.
  unfold pathjoin. destruct (Nat.ltb_spec (length (dir ++ [47] ++ file)) bufsiz); intros H0; inversion H0; subst.
  split; [reflexivity | assumption].
Qed.

Theorem pathjoin_error bufsiz dir file :
  pathjoin bufsiz dir file = None <-> (bufsiz <= length dir + 1 + length file)%nat.
Proof.
  unfold pathjoin. rewrite !app_length. cbn [length].
  destruct (Nat.ltb_spec (length dir + (1 + length file)) bufsiz); split; intros; try discriminate; try lia; reflexivity.
Qed.

Theorem bounded_copy_exact bufsiz s r : bounded_copy bufsiz s = Some r -> r = s /\ (length s < bufsiz)%nat.
Proof.
  unfold bounded_copy. destruct (Nat.ltb_spec (length s) bufsiz); intros H0; inversion H0; subst. auto.
Qed.

(* compositions: the computed path is the intended one, and there is a result exactly when every buffer on the way is
   large enough for its intended content - no nesting of the primitives can turn a truncation into a result *)
Theorem compute_exact e s : compute e = Some s -> s = intended e.
Proof.
  revert s. induction e as [t|n e IH|n d IHd f IHf]; intros s H; cbn [compute intended] in *.
  - inversion H. reflexivity.
  - destruct (compute e) as [r|]; [|discriminate]. apply bounded_copy_exact in H. destruct H as [-> _]. apply IH. reflexivity.
  - destruct (compute d) as [a|]; [|discriminate]. destruct (compute f) as [b|]; [|discriminate].
    apply pathjoin_exact in H. destruct H as [-> _]. rewrite (IHd a eq_refl), (IHf b eq_refl). reflexivity.
Qed.

Theorem compute_defined e : compute e <> None <-> all_fit e = true.
Proof.
  induction e as [t|n e IH|n d IHd f IHf]; cbn [compute all_fit].
  - split; [reflexivity | discriminate].
  - destruct (compute e) as [r|] eqn:E.
    + pose proof (compute_exact e r E) as ->. assert (Hf : all_fit e = true) by (apply IH; discriminate). rewrite Hf. cbn [andb].
      unfold bounded_copy. destruct (Nat.ltb (length (intended e)) n); split; intros H; try reflexivity; try discriminate. exfalso. apply H. reflexivity.
    + split; [intros H; exfalso; apply H; reflexivity|]. intros H. apply andb_prop in H. destruct H as [H _]. apply IH in H. exfalso. apply H. reflexivity.
  - destruct (compute d) as [a|] eqn:Ed.
    + pose proof (compute_exact d a Ed) as ->. assert (Hd : all_fit d = true) by (apply IHd; discriminate). rewrite Hd. cbn [andb].
      destruct (compute f) as [b|] eqn:Ef.
      * pose proof (compute_exact f b Ef) as ->. assert (Hf : all_fit f = true) by (apply IHf; discriminate). rewrite Hf. cbn [andb intended].
        unfold pathjoin. destruct (Nat.ltb (length (intended d ++ [47] ++ intended f)) n); split; intros H; try reflexivity; try discriminate. exfalso. apply H. reflexivity.
      * split; [intros H; exfalso; apply H; reflexivity|]. intros H. apply andb_prop in H. destruct H as [H _]. apply IHf in H. exfalso. apply H. reflexivity.
    + split; [intros H; exfalso; apply H; reflexivity|]. intros H. apply andb_prop in H. destruct H as [H _]. apply andb_prop in H. destruct H as [H _].
      apply IHd in H. exfalso. apply H. reflexivity.
Qed.

(* in particular a computed path is never a PROPER PREFIX of the intended one (what a silent truncation would produce) *)
Corollary compute_never_truncates e s : compute e = Some s -> forall rest, intended e = s ++ rest -> rest = [].
Proof.
  intros H rest Hr. apply compute_exact in H. subst s. rewrite <- (app_nil_r (intended e)) in Hr at 1. apply app_inv_head in Hr. symmetry. exact Hr.
Qed.

Lemma message_path_exact root sub name s :
  compute (e_message_path root sub name) = Some s -> s = root ++ [47] ++ sub ++ [47] ++ name /\ (length s < PM)%nat.
Proof.
  intros H. pose proof (compute_exact _ _ H) as E. cbn [e_message_path e_maildir_dir intended] in E. rewrite <- !app_assoc in E. split; [exact E|].
  cbn [e_message_path compute] in H. destruct (compute (e_maildir_dir root sub)) as [a|]; [|discriminate]. apply pathjoin_exact in H. apply H.
Qed.

Lemma delivered_path_exact dest sub newname s :
  compute (e_delivered_path dest sub newname) = Some s -> s = dest ++ [47] ++ sub ++ [47] ++ newname /\ (length s < PM)%nat.
Proof.
  intros H. pose proof (compute_exact _ _ H) as E. cbn [e_delivered_path intended] in E. rewrite <- !app_assoc in E. split; [exact E|].
  cbn [e_delivered_path compute] in H.
  destruct (match match bounded_copy PM dest with Some s0 => bounded_copy PM s0 | None => None end with Some a => pathjoin PM a sub | None => None end) as [a|]; [|discriminate].
  apply pathjoin_exact in H. apply H.
Qed.

Lemma tmp_template_exact tmpdir s :
  compute (e_tmp_template tmpdir) = Some s -> s = tmpdir ++ [47] ++ tmpl /\ (length tmpdir + 16 < PM)%nat.
Proof.
  intros H. pose proof (compute_exact _ _ H) as E. cbn [e_tmp_template intended] in E. split; [exact E|].
  cbn [e_tmp_template compute] in H. destruct (bounded_copy PM tmpdir) as [a|] eqn:B; [|discriminate]. apply bounded_copy_exact in B. destruct B as [-> _].
  apply pathjoin_exact in H. destruct H as [-> H]. rewrite !app_length in H. cbn [length tmpl] in H. lia.
Qed.

(* ================================================================================================ *)
(* pathslice                                                                                         *)
Section Slice.
  Variables (b e : nat) (isrange : bool) (nc : nat).

  Definition inr (i : nat) : bool := Nat.leb b i && Nat.leb i e.

  (* what the loop emits from a position that is not the first character *)
  Fixpoint emit (i : nat) (d : bool) (s : bytes) : bytes :=
    match s with
    | [] => []
    | c :: r =>
        if c =? 47 then (if inr (S i) && isrange then [47] else []) ++ emit (S i) (inr (S i)) r
        else (if d then [c] else []) ++ emit i d r
    end.

  Definition finish (r : option (bytes * nat)) : option bytes :=
    match r with
    | Some (acc, S _) => Some (rev acc)
    | _ => None
    end.

  Lemma ps_loop_emit : forall s i d room acc,
    (i + count_slash s < nc)%nat ->
    finish (ps_loop b e isrange nc false i d room s acc) =
    if Nat.ltb (length (emit i d s)) room then Some (rev acc ++ emit i d s) else None.
  Proof.
    induction s as [|c r IH]; intros i d room acc Hn.
    - cbn [ps_loop emit finish length]. destruct room; [reflexivity|]. cbn. rewrite List.app_nil_r. reflexivity.
    - cbn [ps_loop emit orb]. cbn [count_slash] in Hn. destruct (c =? 47) eqn:Ec.
      + assert (Hlt : Nat.ltb (S i) nc = true) by (apply Nat.ltb_lt; lia). rewrite Hlt. cbn [negb].
        fold (inr (S i)). destruct (inr (S i)) eqn:Ed; cbn [andb].
        * destruct room as [|room'].
          { cbn [finish]. destruct (Nat.ltb _ 0) eqn:E0; [apply Nat.ltb_lt in E0; lia | reflexivity]. }
          destruct isrange.
          -- rewrite IH by lia. cbn [app length rev]. rewrite <- app_assoc. cbn [app].
             destruct (Nat.ltb_spec (length (emit (S i) true r)) room');
               destruct (Nat.ltb_spec (S (length (emit (S i) true r))) (S room')); try lia; reflexivity.
          -- rewrite IH by lia. cbn [app]. reflexivity.
        * rewrite IH by lia. cbn [app]. reflexivity.
      + destruct d.
        * destruct room as [|room'].
          { cbn [finish]. destruct (Nat.ltb _ 0) eqn:E0; [apply Nat.ltb_lt in E0; lia | reflexivity]. }
          rewrite IH by lia. cbn [app length rev]. rewrite <- app_assoc. cbn [app].
          destruct (Nat.ltb_spec (length (emit i true r)) room');
            destruct (Nat.ltb_spec (S (length (emit i true r))) (S room')); try lia; reflexivity.
        * rewrite IH by lia. cbn [app]. reflexivity.
  Qed.

  (* the emitted text in terms of the chunks of the remaining string *)
  Lemma split_before_nonempty s : split_before s <> [].
  Proof.
    destruct s as [|c r]; cbn [split_before]; [discriminate|].
    destruct (split_before r); [discriminate|]. destruct (c =? 47); discriminate.
  Qed.

  Definition rc := render_chunk isrange.

  Lemma emit_chunks : forall s i d,
    match split_before s with
    | l :: ls => emit i d s = (if d then l else []) ++ select rc b e (S i) ls
    | [] => False
    end.
  Proof.
    induction s as [|c r IH]; intros i d.
    - cbn. destruct d; reflexivity.
    - cbn [split_before emit]. pose proof (split_before_nonempty r) as Hne.
      destruct (c =? 47) eqn:Ec.
      + specialize (IH (S i) (inr (S i))). destruct (split_before r) as [|l ls]; [congruence|].
        cbn [select]. fold (inr (S i)). rewrite IH. unfold rc, render_chunk. rewrite Ec.
        apply N.eqb_eq in Ec. subst c.
        destruct d, (inr (S i)), isrange; cbn [andb app]; try rewrite <- app_assoc; reflexivity.
      + specialize (IH i d). destruct (split_before r) as [|l ls]; [congruence|].
        rewrite IH. destruct d; reflexivity.
  Qed.

  Lemma count_slash_split s : length (split_before s) = S (count_slash s).
  Proof.
    induction s as [|c r IH]; [reflexivity|]. cbn [split_before count_slash].
    pose proof (split_before_nonempty r). destruct (split_before r) as [|l ls]; [congruence|].
    destruct (c =? 47); cbn [length] in *; lia.
  Qed.
End Slice.

(* For valid component indices, pathslice returns exactly the selected components, or NULL when
   (and only when) they do not fit the buffer including the terminator. *)
Theorem ps_result path bufsiz b e isrange :
  finish (ps_loop b e isrange (ncomps path) true O false bufsiz path []) =
  if Nat.ltb (length (slice_spec path b e isrange)) bufsiz then Some (slice_spec path b e isrange) else None.
Proof.
  unfold slice_spec, chunks, ncomps.
  destruct path as [|c r].
  - cbn. destruct (Nat.leb b 0), isrange, bufsiz; reflexivity.
  - cbn [ps_loop orb is_abs]. destruct (c =? 47) eqn:Ec.
    + (* absolute: the first '/' starts component 0 *)
      cbn [count_slash]. rewrite Ec. cbn [Nat.add].
      assert (Nat.ltb 0 (S (count_slash r)) = true) as -> by (apply Nat.ltb_lt; lia). cbn [negb].
      pose proof (emit_chunks b e isrange r O (inr b e O)) as HE.
      cbn [split_before]. rewrite Ec.
      pose proof (split_before_nonempty r) as Hne. destruct (split_before r) as [|l ls]; [congruence|].
      cbn [tl select]. change (Nat.leb b 0 && Nat.leb 0 e) with (inr b e O).
      apply N.eqb_eq in Ec. subst c. unfold rc in HE.
      assert (Hrt : render_chunk true (47 :: l) = 47 :: l) by reflexivity.
      assert (Hrf : render_chunk false (47 :: l) = l) by reflexivity.
      destruct (inr b e O) eqn:Ed.
      * destruct bufsiz as [|room'].
        { cbn [finish]. destruct (Nat.ltb _ 0) eqn:E0; [apply Nat.ltb_lt in E0; lia | reflexivity]. }
        destruct isrange.
        -- rewrite ps_loop_emit by lia. rewrite HE, Hrt. cbn [app length rev].
           match goal with |- context [Nat.ltb (length ?x) room'] =>
             destruct (Nat.ltb_spec (length x) room'); destruct (Nat.ltb_spec (S (length x)) (S room')); try lia; reflexivity end.
        -- rewrite ps_loop_emit by lia. rewrite HE, Hrf. cbn [app rev]. reflexivity.
      * rewrite ps_loop_emit by lia. rewrite HE. cbn [app rev]. reflexivity.
    + (* relative: the first character belongs to component 0 and is copied as is *)
      cbn [count_slash]. rewrite Ec.
      assert (Nat.ltb 0 (1 + count_slash r) = true) as -> by (apply Nat.ltb_lt; lia). cbn [negb].
      pose proof (emit_chunks b e isrange r O (inr b e O)) as HE.
      cbn [split_before]. rewrite Ec.
      pose proof (split_before_nonempty r) as Hne. destruct (split_before r) as [|l ls]; [congruence|].
      cbn [select]. change (Nat.leb b 0 && Nat.leb 0 e) with (inr b e O). unfold rc in HE.
      assert (Hr : render_chunk isrange (c :: l) = c :: l).
      { unfold render_chunk. rewrite Ec. destruct isrange; reflexivity. }
      destruct (inr b e O) eqn:Ed.
      * destruct bufsiz as [|room'].
        { cbn [finish]. destruct (Nat.ltb _ 0) eqn:E0; [apply Nat.ltb_lt in E0; lia | reflexivity]. }
        rewrite ps_loop_emit by lia. rewrite HE, Hr. cbn [app length rev].
        match goal with |- context [Nat.ltb (length ?x) room'] =>
          destruct (Nat.ltb_spec (length x) room'); destruct (Nat.ltb_spec (S (length x)) (S room')); try lia; reflexivity end.
      * rewrite ps_loop_emit by lia. rewrite HE. cbn [app rev]. reflexivity.
Qed.

Theorem pathslice_exact path bufsiz beg end_ s :
  pathslice path bufsiz beg end_ = Some s ->
  exists b e isrange, s = slice_spec path b e isrange /\ (length s < bufsiz)%nat /\ (b <= e < ncomps path)%nat.
Proof.
  unfold pathslice. cbv zeta.
  set (nc := ncomps path). set (isrange := negb (Z.eqb (end_ - beg) 0)).
  set (B := if Z.ltb beg 0 then (Z.of_nat nc + beg - (if isrange then 1 else 0))%Z else beg).
  set (E := if Z.ltb end_ 0 then (Z.of_nat nc + end_ - (if isrange then 1 else 0))%Z else end_).
  destruct (Z.ltb B 0 || Z.ltb E B || Z.ltb E 0 || Z.leb (Z.of_nat nc) E)%bool eqn:Ev;
    [intros H; discriminate H|].
  intros H. exists (Z.to_nat B), (Z.to_nat E), isrange.
  pose proof (ps_result path bufsiz (Z.to_nat B) (Z.to_nat E) isrange) as R. fold nc in R.
  destruct (ps_loop (Z.to_nat B) (Z.to_nat E) isrange nc true 0 false bufsiz path []) as [[acc room]|];
    [|discriminate H].
  destruct room as [|room]; [discriminate H|]. cbn [finish] in R. inversion H; subst s.
  destruct (Nat.ltb_spec (length (slice_spec path (Z.to_nat B) (Z.to_nat E) isrange)) bufsiz);
    [|discriminate R].
  inversion R as [R']. split; [reflexivity|]. split; [rewrite R'; assumption|]. lia.
Qed.
