(* C06: the marker columns of expr_inspect, and that the dry run prints exactly the actions a real
   run executes, with every recorded non-empty match of the matchers in front of an action. *)
From MD Require Import Bytes Generated InspectDefs.
Require Import Lia.
Local Open Scope N_scope.

Section P.
Variable mbw : bytes -> nat * nat.

(* a well-formed character for the decoder: decoding does not depend on what follows *)
Definition is_char (c : bytes) (w : nat) : Prop := c <> [] /\ forall r, mbw (c ++ r) = (length c, w).
Definition chars_ok (cs : list (bytes * nat)) : Prop := Forall (fun cw => is_char (fst cw) (snd cw)) cs.
Definition text (cs : list (bytes * nat)) : bytes := concat (map fst cs).
Definition twidth (cs : list (bytes * nat)) : nat := fold_right (fun cw a => (snd cw + a)%nat) O cs.

Lemma text_cons c w cs : text ((c, w) :: cs) = c ++ text cs.
Proof. reflexivity. Qed.

Lemma chars_length cs : chars_ok cs -> (length cs <= length (text cs))%nat.
Proof.
  induction 1 as [|[c w] cs [Hne _] _ IH]; [cbn; lia|].
  rewrite text_cons, app_length. cbn [length fst] in *. destruct c; [contradiction|cbn [length]; lia].
Qed.

Lemma skipn_app_exact {A} (a b : list A) : skipn (length a) (a ++ b) = b.
Proof. induction a as [|x a IH]; [reflexivity|exact IH]. Qed.

Lemma firstn_app_exact {A} (a b : list A) : firstn (length a) (a ++ b) = a.
Proof. induction a as [|x a IH]; [reflexivity|]. cbn [length app firstn]. f_equal. exact IH. Qed.

Lemma strnwidth_chars : forall cs fuel rest, chars_ok cs -> (length cs < fuel)%nat ->
  strnwidth mbw fuel (text cs ++ rest) (length (text cs)) = twidth cs.
Proof.
  induction cs as [|[c w] cs IH]; intros fuel rest Hok Hf.
  - destruct fuel; [lia|]. reflexivity.
  - destruct fuel as [|f]; [cbn [length] in Hf; lia|].
    inversion Hok as [|x l [Hne Hm] Hok']; subst. cbn [fst snd] in *.
    rewrite text_cons. cbn [strnwidth].
    rewrite app_length.
    destruct c as [|c0 c']; [contradiction|].
    cbn [length Nat.add]. rewrite <- app_assoc. cbn [app].
    change (c0 :: c' ++ text cs ++ rest) with ((c0 :: c') ++ text cs ++ rest).
    rewrite Hm. cbn [length Nat.eqb].
    change (c0 :: c' ++ text cs ++ rest) with ((c0 :: c') ++ (text cs ++ rest)).
    replace (S (length c')) with (length (c0 :: c')) by reflexivity.
    rewrite skipn_app_exact. cbn [length].
    replace (S (length c' + length (text cs)) - S (length c'))%nat with (length (text cs)) by lia.
    cbn [twidth fold_right snd]. f_equal. apply IH; [exact Hok'|cbn [length] in Hf; lia].
Qed.

(* ---- the beginning of the line ------------------------------------------------------------------------------ *)
Definition nonl (s : bytes) : bool := forallb (fun c => negb (c =? 10)) s.

Lemma lstart_stop s i beg cur : (beg < i)%nat -> lstart s i beg cur = cur.
Proof. intros H. destruct s as [|c r]; [reflexivity|]. cbn [lstart]. destruct (Nat.ltb_spec beg i); [reflexivity|lia]. Qed.

Lemma lstart_app_nonl : forall a r i beg cur, nonl a = true -> (i + length a <= S beg)%nat ->
  lstart (a ++ r) i beg cur = lstart r (i + length a) beg cur.
Proof.
  induction a as [|c a IH]; intros r i beg cur Hn Hl.
  - rewrite Nat.add_0_r. reflexivity.
  - cbn [nonl forallb] in Hn. apply andb_prop in Hn. destruct Hn as [Hc Hn].
    cbn [app lstart length] in *. destruct (Nat.ltb_spec beg i); [lia|].
    destruct (c =? 10); [discriminate Hc|].
    rewrite IH; [|exact Hn|lia]. f_equal. lia.
Qed.

Lemma lstart_upto_nl : forall p r i beg cur, (i + length p < S beg)%nat ->
  lstart (p ++ 10 :: r) i beg cur = lstart r (i + length p + 1) beg (i + length p + 1).
Proof.
  induction p as [|c p IH]; intros r i beg cur Hl; cbn [app lstart length] in *.
  - destruct (Nat.ltb_spec beg i); [lia|]. cbn [N.eqb Pos.eqb]. rewrite Nat.add_0_r. replace (i + 1)%nat with (S i) by lia. reflexivity.
  - destruct (Nat.ltb_spec beg i); [lia|].
    rewrite IH by lia. f_equal; lia.
Qed.

Lemma count_blanks_app lead x : forallb isblank lead = true ->
  count_blanks (lead ++ x) = (length lead + count_blanks x)%nat.
Proof.
  unfold count_blanks. induction lead as [|c l IH]; intros H; [reflexivity|].
  cbn [forallb] in H. apply andb_prop in H. destruct H as [Hc Hl].
  cbn [app skip_blanks length]. rewrite Hc. specialize (IH Hl).
  assert (length (skip_blanks (l ++ x)) <= length (l ++ x))%nat.
  { clear. induction (l ++ x) as [|c s IHs]; cbn [skip_blanks length]; [lia|]. destruct (isblank c); cbn [length]; lia. }
  assert (length (skip_blanks x) <= length x)%nat.
  { clear. induction x as [|c s IHs]; cbn [skip_blanks length]; [lia|]. destruct (isblank c); cbn [length]; lia. }
  rewrite app_length in *. lia.
Qed.

Lemma split_at_nonl a t : nonl a = true -> (t = [] \/ exists t', t = 10 :: t') -> fst (split_at 10 (a ++ t)) = a.
Proof.
  intros Hn Ht. induction a as [|c a IH].
  - destruct Ht as [->|[t' ->]]; reflexivity.
  - cbn [nonl forallb] in Hn. apply andb_prop in Hn. destruct Hn as [Hc Hn].
    cbn [app split_at]. destruct (c =? 10); [discriminate Hc|].
    specialize (IH Hn). destruct (split_at 10 (a ++ t)) as [x y]. cbn [fst] in *. rewrite IH. reflexivity.
Qed.

Lemma nonl_app a b : nonl (a ++ b) = nonl a && nonl b.
Proof. unfold nonl. apply forallb_app. Qed.

(* ---- the main statement about one match -------------------------------------------------------------------------- *)
Theorem inspect_match_spec pre lead pcs mcs post tail pindent :
  (pre = [] \/ exists p', pre = p' ++ [10]) ->
  forallb isblank lead = true ->
  chars_ok pcs -> chars_ok mcs -> mcs <> [] ->
  (match text pcs with [] => True | c :: _ => isblank c = false end) ->
  nonl (lead ++ text pcs ++ text mcs ++ post) = true ->
  (tail = [] \/ exists t', tail = 10 :: t') ->
  let val := pre ++ lead ++ text pcs ++ text mcs ++ post ++ tail in
  let b := (length pre + length lead + length (text pcs))%nat in
  let e := (b + length (text mcs))%nat in
  inspect_match mbw pindent val b e =
  mkshown (text pcs ++ text mcs ++ post) (pindent + twidth pcs) (twidth mcs - 2).
Proof.
  intros Hpre Hlead Hp Hm Hmne Hhead Hnl Htail val b e.
  (* the first byte of the match exists *)
  assert (Hm1 : exists m0 mr, text mcs = m0 :: mr).
  { destruct mcs as [|[c w] cs]; [contradiction|]. inversion Hm as [|x l [Hne _] _]; subst. cbn [fst] in Hne.
    rewrite text_cons. destruct c as [|c0 c']; [contradiction|]. eexists _, _. reflexivity. }
  destruct Hm1 as [m0 [mr Em]].
  rewrite !nonl_app in Hnl. apply andb_prop in Hnl. destruct Hnl as [Hnl1 Hnl]. apply andb_prop in Hnl. destruct Hnl as [Hnl2 Hnl].
  apply andb_prop in Hnl. destruct Hnl as [Hnl3 Hnl4].
  assert (Hl0 : lstart val 0 b 0 = length pre).
  { unfold val.
    assert (Hseg : forall cur0 i0, i0 = length pre ->
               lstart (lead ++ text pcs ++ text mcs ++ post ++ tail) i0 b cur0 = cur0).
    { intros cur0 i0 ->. rewrite Em.
      replace (lead ++ text pcs ++ (m0 :: mr) ++ post ++ tail) with ((lead ++ text pcs ++ [m0]) ++ mr ++ post ++ tail)
        by (rewrite <- !app_assoc; reflexivity).
      rewrite lstart_app_nonl.
      - apply lstart_stop. rewrite !app_length. cbn [length]. unfold b. lia.
      - rewrite !nonl_app, Hnl1, Hnl2. rewrite Em in Hnl3. cbn [nonl forallb] in Hnl3 |- *.
        apply andb_prop in Hnl3. destruct Hnl3 as [H0 _]. rewrite H0. reflexivity.
      - rewrite !app_length. cbn [length]. unfold b. lia. }
    destruct Hpre as [->|[p' ->]].
    - cbn [app length]. apply Hseg. reflexivity.
    - rewrite <- app_assoc. cbn [app]. rewrite lstart_upto_nl.
      + rewrite app_length. cbn [length Nat.add]. apply Hseg. rewrite app_length. cbn [length]. lia.
      + unfold b. rewrite app_length. cbn [length]. lia. }
  assert (Hskip0 : skipn (length pre) val = lead ++ text pcs ++ text mcs ++ post ++ tail).
  { unfold val. apply skipn_app_exact. }
  assert (Hl1 : Nat.min (length pre + count_blanks (skipn (length pre) val)) b = (length pre + length lead)%nat).
  { rewrite Hskip0, count_blanks_app by exact Hlead.
    destruct (text pcs) as [|c0 cr] eqn:Ep.
    - unfold b. try rewrite Ep. cbn [length app]. lia.
    - assert (count_blanks ((c0 :: cr) ++ text mcs ++ post ++ tail) = O) as ->.
      { unfold count_blanks. cbn [app skip_blanks]. rewrite Hhead. lia. }
      unfold b. lia. }
  assert (Hskip1 : skipn (length pre + length lead) val = text pcs ++ text mcs ++ post ++ tail).
  { unfold val. rewrite app_assoc. rewrite <- app_length. apply skipn_app_exact. }
  assert (Hskipb : skipn b val = text mcs ++ post ++ tail).
  { unfold val, b. rewrite !app_assoc. rewrite <- !app_length. rewrite <- !app_assoc.
    replace (pre ++ lead ++ text pcs ++ text mcs ++ post ++ tail) with ((pre ++ lead ++ text pcs) ++ text mcs ++ post ++ tail)
      by (rewrite <- !app_assoc; reflexivity).
    apply skipn_app_exact. }
  unfold inspect_match. rewrite Hl0, Hl1, Hskip1, Hskipb.
  replace (e - b)%nat with (length (text mcs)) by (unfold e; lia).
  replace (b - (length pre + length lead))%nat with (length (text pcs)) by (unfold b; lia).
  rewrite (strnwidth_chars mcs _ (post ++ tail) Hm) by (pose proof (chars_length mcs Hm); lia).
  rewrite (strnwidth_chars pcs _ (text mcs ++ post ++ tail) Hp) by (pose proof (chars_length pcs Hp); lia).
  f_equal.
  unfold slice_of, line_end. rewrite Hskip1.
  replace (text pcs ++ text mcs ++ post ++ tail) with ((text pcs ++ text mcs ++ post) ++ tail) by (rewrite <- !app_assoc; reflexivity).
  rewrite split_at_nonl; [|rewrite !nonl_app, Hnl2, Hnl3, Hnl4; reflexivity|exact Htail].
  replace (length pre + length lead + length (text pcs ++ text mcs ++ post) - (length pre + length lead))%nat
    with (length (text pcs ++ text mcs ++ post)) by lia.
  apply firstn_app_exact.
Qed.

(* the marker line: ^ stands in the column where the match begins, $ in the last column of the match *)
Lemma spaces_length n : length (spaces n) = n.
Proof. apply repeat_length. Qed.

Theorem marker_columns sh :
  nth_error (marker_line sh) (sh_indent sh) = Some 94 /\
  nth_error (marker_line sh) (sh_indent sh + 1 + sh_gap sh) = Some 36 /\
  length (marker_line sh) = (sh_indent sh + sh_gap sh + 2)%nat /\
  (forall i, (i < length (marker_line sh))%nat -> i <> sh_indent sh -> i <> (sh_indent sh + 1 + sh_gap sh)%nat ->
             nth_error (marker_line sh) i = Some 32).
Proof.
  unfold marker_line. set (a := sh_indent sh). set (g := sh_gap sh).
  assert (Hla : length (spaces a) = a) by apply spaces_length.
  assert (Hlg : length (spaces g) = g) by apply spaces_length.
  split; [|split; [|split]].
  - rewrite nth_error_app2 by lia. rewrite Hla, Nat.sub_diag. reflexivity.
  - rewrite nth_error_app2 by lia. rewrite Hla. replace (a + 1 + g - a)%nat with (S g) by lia.
    cbn [nth_error]. rewrite nth_error_app2 by lia. rewrite Hlg, Nat.sub_diag. reflexivity.
  - rewrite app_length. cbn [length]. rewrite app_length. cbn [length]. lia.
  - intros i Hi H1 H2. rewrite app_length in Hi. cbn [length] in Hi. rewrite app_length in Hi. cbn [length] in Hi.
    rewrite Hla, Hlg in Hi.
    destruct (Nat.lt_ge_cases i a) as [Hlt|Hge].
    + rewrite nth_error_app1 by lia. unfold spaces. rewrite nth_error_repeat by lia. reflexivity.
    + rewrite nth_error_app2 by lia. rewrite Hla.
      destruct (i - a)%nat as [|k] eqn:Ek; [lia|]. cbn [nth_error].
      rewrite nth_error_app1 by lia. unfold spaces. rewrite nth_error_repeat by lia. reflexivity.
Qed.

(* ---- every non-empty match is shown; the action lines are the executed actions ----------------------------------- *)
Definition nonempty (m : nat * nat) : bool := negb (Nat.eqb (fst m) (snd m)).

Lemma inspect_loop_length prefix key val : forall ms pindent printkey,
  length (inspect_loop mbw prefix key val pindent printkey ms) = (2 * length (filter nonempty ms))%nat.
Proof.
  induction ms as [|[b e] r IH]; intros pindent printkey; [reflexivity|].
  cbn [inspect_loop filter]. unfold nonempty at 1. cbn [fst snd]. destruct (Nat.eqb b e); cbn [negb]; [apply IH|].
  cbn [length]. rewrite IH. lia.
Qed.

Definition is_action (d : dentry) : bool := match d with DAction _ => true | _ => false end.
Definition explain (d : dentry) : list bytes :=
  match d with DMatcher p k v ms => inspect_entry mbw p k v ms | _ => [] end.

Fixpoint dry_blocks (path : bytes) (l pending : list dentry) : list (bytes * list bytes) :=
  match l with
  | [] => []
  | DAction what :: r => (path ++ arrow ++ what, flat_map explain (rev pending)) :: dry_blocks path r []
  | d :: r => dry_blocks path r (d :: pending)
  end.

Lemma dry_lines_blocks path : forall l pending,
  dry_lines mbw path l pending = flat_map (fun b => fst b :: snd b) (dry_blocks path l pending).
Proof.
  induction l as [|d r IH]; intros pending; [reflexivity|].
  destruct d as [p k v ms|w|]; cbn [dry_lines dry_blocks flat_map fst snd]; try apply IH.
  cbn [app]. f_equal. f_equal. apply IH.
Qed.

Theorem dry_actions_are_executed path : forall l pending,
  map fst (dry_blocks path l pending) = map (fun w => path ++ arrow ++ w) (executed l).
Proof.
  induction l as [|d r IH]; intros pending; [reflexivity|].
  destruct d as [p k v ms|w|]; cbn [dry_blocks executed map fst]; try apply IH.
  f_equal. apply IH.
Qed.

Theorem nothing_listed_nothing_done path l pending : executed l = [] -> dry_lines mbw path l pending = [].
Proof.
  intros H. rewrite dry_lines_blocks.
  pose proof (dry_actions_are_executed path l pending) as Hm. rewrite H in Hm. cbn [map] in Hm.
  destruct (dry_blocks path l pending); [reflexivity|discriminate Hm].
Qed.

Lemma no_action_pending path : forall l2 w l3 pending, forallb (fun d => negb (is_action d)) l2 = true ->
  dry_lines mbw path (l2 ++ DAction w :: l3) pending =
  (path ++ arrow ++ w) :: flat_map explain (rev (rev l2 ++ pending)) ++ dry_lines mbw path l3 [].
Proof.
  induction l2 as [|d r IH]; intros w l3 pending H.
  - reflexivity.
  - cbn [forallb] in H. apply andb_prop in H. destruct H as [Hd Hr].
    destruct d as [p k v ms| |]; [|discriminate Hd|]; cbn [app dry_lines]; rewrite IH by exact Hr;
      cbn [rev]; rewrite <- app_assoc; reflexivity.
Qed.

Theorem matches_before_action_shown path : forall l1 p k v ms l2 w l3 pending,
  forallb (fun d => negb (is_action d)) l2 = true ->
  incl (inspect_entry mbw p k v ms) (dry_lines mbw path (l1 ++ DMatcher p k v ms :: l2 ++ DAction w :: l3) pending).
Proof.
  induction l1 as [|d r IH]; intros p k v ms l2 w l3 pending H.
  - cbn [app dry_lines]. rewrite no_action_pending by exact H.
    intros x Hx. right. apply in_or_app. left.
    apply in_flat_map. exists (DMatcher p k v ms). split; [|exact Hx].
    rewrite <- in_rev. apply in_or_app. right. left. reflexivity.
  - destruct d as [p' k' v' ms'|w'|]; cbn [app dry_lines].
    + apply IH. exact H.
    + intros x Hx. right. apply in_or_app. right. apply (IH p k v ms l2 w l3 [] H). exact Hx.
    + apply IH. exact H.
Qed.
End P.

(* ---- the concrete decoders meet the character contract on the classes the check generates -------------------------- *)
Lemma ascii_char_c c : (32 <=? c) && (c <=? 126) = true -> is_char mbw_c [c] 1.
Proof.
  intros H. split; [discriminate|]. intros r. cbn [app mbw_c length].
  destruct (c =? 0) eqn:E0.
  - apply N.eqb_eq in E0. subst c. discriminate H.
  - rewrite H. reflexivity.
Qed.

Lemma high_byte_char_c c : 128 <=? c = true -> is_char mbw_c [c] 1.
Proof.
  intros H. split; [discriminate|]. intros r. cbn [app mbw_c length].
  destruct (c =? 0) eqn:E0.
  - apply N.eqb_eq in E0. subst c. discriminate H.
  - destruct ((32 <=? c) && (c <=? 126)); [reflexivity|]. rewrite H. reflexivity.
Qed.

Lemma ascii_char_utf8 c : (32 <=? c) && (c <=? 126) = true -> is_char mbw_utf8 [c] 1.
Proof.
  intros H. split; [discriminate|]. intros r. cbn [app mbw_utf8 length].
  apply andb_prop in H. destruct H as [H1 H2]. apply N.leb_le in H1, H2.
  destruct (c =? 0) eqn:E0; [apply N.eqb_eq in E0; lia|].
  destruct (c <? 128) eqn:E1; [|apply N.ltb_ge in E1; lia].
  unfold cp_width, in_range.
  destruct (c <? 32) eqn:E2; [apply N.ltb_lt in E2; lia|].
  assert ((127 <=? c) = false) as -> by (apply N.leb_gt; lia). cbn [andb orb].
  assert ((768 <=? c) = false) as -> by (apply N.leb_gt; lia).
  assert ((8203 <=? c) = false) as -> by (apply N.leb_gt; lia).
  assert ((c =? 65279) = false) as -> by (apply N.eqb_neq; lia). cbn [andb orb].
  assert ((4352 <=? c) = false) as -> by (apply N.leb_gt; lia).
  assert ((11904 <=? c) = false) as -> by (apply N.leb_gt; lia).
  assert ((44032 <=? c) = false) as -> by (apply N.leb_gt; lia).
  assert ((63744 <=? c) = false) as -> by (apply N.leb_gt; lia).
  assert ((65072 <=? c) = false) as -> by (apply N.leb_gt; lia).
  assert ((65280 <=? c) = false) as -> by (apply N.leb_gt; lia).
  assert ((65504 <=? c) = false) as -> by (apply N.leb_gt; lia).
  assert ((127744 <=? c) = false) as -> by (apply N.leb_gt; lia).
  assert ((131072 <=? c) = false) as -> by (apply N.leb_gt; lia).
  reflexivity.
Qed.

(* U+00E9 (two bytes, one column), U+6F22 (three bytes, two columns), U+1F600 (four bytes, two columns) *)
Lemma e_acute_char_utf8 : is_char mbw_utf8 [195; 169] 1.
Proof. split; [discriminate|]. intros r. vm_compute. reflexivity. Qed.
Lemma han_char_utf8 : is_char mbw_utf8 [230; 188; 162] 2.
Proof. split; [discriminate|]. intros r. vm_compute. reflexivity. Qed.
Lemma emoji_char_utf8 : is_char mbw_utf8 [240; 159; 152; 128] 2.
Proof. split; [discriminate|]. intros r. vm_compute. reflexivity. Qed.
