"""C07 - hostile message content cannot corrupt memory, crash or hang mdsort (partial).
The theorems give totality and bounds of the modelled scanners; this harness ties them to the code:
(a) the index-level scanners agree with the list-level models on generated C strings (model-internal
    consistency: the executable form of the refinement theorems, and a test of the ones not proved);
(b) message.h API sequences on hostile inputs through the AddressSanitizer + UBSan build of the driver:
    the model says every call terminates with a defined answer; a sanitizer report, a signal or a hang
    is a disagreement and, being a memory error / crash / hang, a violation of the property itself;
(c) the AddressSanitizer + UBSan build of mdsort itself under a battery of configurations (every
    matcher and rewriting action, -d, stdin mode) on hostile populations with a time limit per run.
(b) and (c) are tests, not proofs."""
import os, re, subprocess, time
import common, mdrun, msggen
from common import hexs, unhexs

SAN_RE = re.compile(rb'(ERROR: AddressSanitizer|ERROR: LeakSanitizer|runtime error:|SUMMARY: (Address|UndefinedBehavior)Sanitizer|AddressSanitizer:DEADLYSIGNAL)')
SAN_ENV = {'ASAN_OPTIONS': 'detect_leaks=0:abort_on_error=0:exitcode=99:allocator_may_return_null=1',
           'UBSAN_OPTIONS': 'print_stacktrace=1:halt_on_error=1:exitcode=98'}
TIME_LIMIT = 20


def mutate(rng, data):
    t = bytearray(data)
    for _ in range(rng.choice([1, 1, 2, 3, 6])):
        k = rng.randrange(9)
        if k == 0 and t:
            t[rng.randrange(len(t))] = rng.choice([0, 13, 10, 9, 32, 45, 58, 61, 63, 34, 59, 128, 255, rng.randrange(256)])
        elif k == 1:
            i = rng.randrange(len(t) + 1)
            t[i:i] = bytes([rng.choice([0, 13, 10, 10, 9, 32, 45, 58, 61, 63, 34, 200])]) * rng.choice([1, 1, 2, 5])
        elif k == 2 and t:
            i = rng.randrange(len(t)); j = min(len(t), i + rng.choice([1, 2, 10, 100]))
            del t[i:j]
        elif k == 3 and t:
            i = rng.randrange(len(t)); j = min(len(t), i + rng.choice([5, 50, 500]))
            t[i:i] = t[i:j] * rng.choice([1, 2, 8])
        elif k == 4 and t:
            del t[rng.randrange(len(t)):]
        elif k == 5:
            t = bytearray(bytes(t).replace(b'\n', b'\r\n', rng.choice([1, 3, 10 ** 6])))
        elif k == 6:
            # a boundary-like line with junk after the delimiter
            m = re.search(rb'boundary="([^"\n]+)"', bytes(t))
            if m:
                line = b'--' + m.group(1) + rng.choice([b' ', b'x', b'\r', b'--x', b'-', b'1', b'\t'])  + b'\n'
                i = bytes(t).find(b'\n', rng.randrange(len(t))) + 1
                t[i:i] = line
        elif k == 7:
            t[0:0] = rng.choice([b'From x\n', b'From ', b'\n', b'\n\n', b' ', b':\n', b'A' * 300 + b': v\n'])
        else:
            i = bytes(t).find(b'\n\n')
            if i > 0:
                t[i:i] = b'\nX-Label: dup' * rng.choice([1, 2, 5]) + b'\nX-Zed: spam'
    return bytes(t[:65536])


def big_seeds(rng):
    """hundreds of parts, nesting beyond the limit, long folded headers"""
    out = []
    parts = b''.join(b'--B\nContent-Type: text/plain\n\npart %d\n' % i for i in range(rng.choice([17, 64, 300])))
    out.append(b'To: a@b\nContent-Type: multipart/mixed; boundary="B"\n\n' + parts + b'--B--\n')
    deep = b'leaf\n'
    levels = rng.choice([4, 5, 6, 9])
    wide = rng.randrange(levels)              # one level with 17 parts (forces the attachment table to grow), the others 1-2
    for d in range(levels):
        b = b'N%d' % d
        n = 17 if d == wide else rng.choice([1, 2])
        if len(deep) * n > 60000:
            n = 1
        inner = b''.join(b'--' + b + b'\n' + deep for _ in range(n))
        deep = b'Content-Type: multipart/mixed; boundary="' + b + b'"\n\n' + inner + b'--' + b + b'--\n'
    out.append(b'To: a@b\n' + deep)
    out.append(b'Subject: ' + b'\n\t'.join(rng.choice(msggen.WORDS) for _ in range(400)) + b'\nTo: a@b\n\nbody\n')
    out.append(b''.join(b'X-Label: v%d\n' % i for i in range(40)) + b'X-Zed: spam\nTo: a@b\n\nbody\n')
    out.append(b'Subject: =?UTF-8?B?' + b'QUJD' * 500 + b'?= =?utf-8?q?=41=4' + b'\nTo: a@b\n\n' + b'=4' * 1000 + b'=\n')
    return out


def hostile(rng):
    k = rng.randrange(10)
    if k < 3:
        base = msggen.gen_mime_message(rng)
    elif k < 5:
        base = msggen.gen_malformed(rng)
    elif k < 7:
        t = msggen.gen_tree(rng, 0, rng.choice([0, 1, 2, 3, 5, 6]), bad=6)
        base = b'To: a@b\nSubject: needle\n' + msggen.render_tree(t, rng)
    elif k < 8:
        base = rng.choice(big_seeds(rng))
    else:
        base = msggen.gen_wf_message(rng)[2]
    if rng.randrange(4):
        base = mutate(rng, base)
    return base[:65536]


def api_ops(rng, text):
    names = [b'To', b'Subject', b'X-Label', b'X-Zed', b'Content-Type', b'From', b'Date'] + [n for n in msggen.NAMES[:4]]
    ops = []
    for _ in range(rng.randrange(1, 7)):
        k = rng.randrange(7)
        if k < 2:
            ops.append('G' + hexs(rng.choice(names)))
        elif k == 2:
            ops.append('S%s:%s' % (hexs(rng.choice(names)), hexs(rng.choice([b'v', b'junk', b'', b'a b c']))))
        elif k == 3:
            ops.append('W')
        elif k == 4:
            ops.append('B')
        else:
            ops.append('A')
    # body before write (see C08/C13 on F-06: fixed, but keep the streams comparable)
    return ops


def run_api(ck, rng, n, stats):
    drv = common.build_driver('msg_drv', 'asan')
    model = common.model_exe()
    cases = []
    for i in range(n):
        text = hostile(rng)
        if len(text) > 30000:
            text = text[:30000]
        cases.append((text, api_ops(rng, text)))
    lines = ['msg %s %s %s' % (hexs(t), hexs(b'm'), ' '.join(o)) for t, o in cases]
    env = dict(os.environ); env.update(SAN_ENV); env['VERIF_DRV_TMP'] = common.mktemp('mdv-drvtmp-')
    impl = []
    start = 0
    restarts = 0
    CH = 150
    while start < len(lines) and restarts < 3:
        try:
            out, r = common.run_lines(drv, lines[start:start + CH], timeout=TIME_LIMIT + 15, env=env)
            rc, errtxt = r.returncode, r.stderr
        except subprocess.TimeoutExpired as ex:
            out = (ex.stdout or b'').decode(errors='replace').split('\n')
            if out and out[-1] == '':
                out.pop()
            rc, errtxt = -999, b'time limit'
        impl += out
        complete = len(out) >= len(lines[start:start + CH])
        start = len(impl)
        if not complete and start < len(lines):
            # the request at index `start` killed or hung the driver
            text, ops = cases[start]
            what = 'hang (time limit)' if rc == -999 else ('sanitizer report' if SAN_RE.search(errtxt) else 'death, exit status %s' % rc)
            stats['viol'] += 1
            m = SAN_RE.search(errtxt)
            ck.violation('message.h calls %s on a %d-byte message: %s: %s' % (' '.join(o[0] for o in ops), len(text), what,
                                                                             errtxt[m.start():m.start() + 300].decode(errors='replace') if m else ''),
                         {'kind': 'api', 'message_hex': hexs(text), 'ops': ops, 'stderr': errtxt[-1500:].decode(errors='replace')})
            impl.append('DIED')
            start += 1
            restarts += 1
    mod, _ = common.run_lines(model, lines, timeout=3600)
    for (text, ops), a, b in zip(cases, impl, mod):
        stats['api'] += 1
        if 'FUEL' in b or 'OOB' in b:
            ck.violation('the model itself runs out of fuel on a %d-byte message (a totality theorem is violated)' % len(text),
                         {'kind': 'api', 'message_hex': hexs(text), 'ops': ops, 'model': b[:500], 'obligation': 'TotalProofs'}, found_input=False)
    return


CONFIGS = [
    ('headers',   b'match header { "From" "To" "Subject" "X-Label" } /a(.)c|needle/i label "\\1" move "%(dst)s"'),
    ('body',      b'match body /needle|b(.)d/ move "%(dst)s"'),
    ('attach',    b'match attachment body /x/ or attachment header "Content-Type" /text/ flag new'),
    ('rewrite',   b'match all add-header "X-Zed" "ham" label "junk"'),
    ('rewrite2',  b'match header "X-Zed" /spam/ label "junk"\n\tmatch header "Subject" /./ add-header "Subject" "s" move "%(dst)s"'),
    ('date',      b'match date > 1 second or date header "Date" < 100 years move "%(dst)s"'),
    ('block',     b'match all attachment {\n\t\tmatch header "Content-Type" /text/ exec stdin body "true"\n\t}'),
    ('dry',       b'match header "Subject" /n(e+)dle|caf|\xc3\xa9/ or body /(plain) text|\xc3\xa9/ move "%(dst)s"'),
    # an interpolation that fails for every message it is tried on (and one that fails for some): the run goes on with the next message
    ('badref',    b'match header "Subject" /n(e+)dle/ label "x\\2" move "%(dst)s"\n\tmatch header "To" /(a)|./ exec { "true" "\\1" } label "to-\\0"'),
    # case-converted captures interpolated into headers (run in a UTF-8 locale: letters whose other-case form has another length)
    ('case',      b'match header { "Subject" "To" } /(.+)/l label "\\1"\n\tmatch body /(.+)/u add-header "X-Up" "\\1" label "\\0"'),
]


# hand-written hostile header values that every round sees (random generation reaches them only now and then): each under the field
# names the configurations look at, in a complete message of its own
ODD_VALUES = [b'=?UTF-8?B??=', b'=?UTF-8?Q??= =?UTF-8?B??= x', b'x =?UTF-8?b??= =?UTF-8?B?QUJD?=', b'=?x?B?=?= =?x?b?QQ?=', b'=?' + b'c' * 3000 + b'?B?QUJD?=',
              b'=?x?Q?a?= ' * 400, b'=?x?B?=?x?B?QUJD?=?=', b'?= =? =?x?Q?=?=', b'=?x?B?' + b'QUJD' * 30 + b'?=', b'=?x?B?QQ=?=', b'=?x?Q?=?=', b'=?x?Q?=4?=',
              b'=?x?q?_=5F=3F=?= =?', b'=?x?B?QUJD?==?x?B?QUJD?=', b'', b'\n \n\t\n x', b'\t', b'=?x?B?QUJD', b'=?x?B?' + b'\xff' * 9 + b'?=', b'a' * 9000]


# letters whose lower- or upper-case form has a different UTF-8 length (U+023A, U+023E, U+0250, U+0251, U+0131, U+017F, U+212A, U+1E9E),
# at lengths around allocation size classes
CASE_LETTERS = '\u023a\u023e\u0250\u0251\u0131\u017f\u212a\u1e9e\u00df'


def odd_messages():
    out = []
    # three multipart levels: the second lacks its terminating delimiter and its last complete part is a multipart of 40 parts (the table of
    # parts grows while the level above is still being read)
    l2 = b'Content-Type: multipart/mixed; boundary="L2"\n\n' + b'--L2\nContent-Type: text/plain\n\np\n' * 300 + b'--L2--\n'
    for tail in (b'', b'trailing text\n', b'--L1\nContent-Type: text/plain\n\nlast'):
        l1 = b'Content-Type: multipart/mixed; boundary="L1"\n\n--L1\nContent-Type: text/plain\n\nfirst\n--L1\n' + l2 + tail
        out.append(b'To: a@b\nSubject: needle\nContent-Type: multipart/mixed; boundary="T"\n\n--T\n' + l1 + b'--T--\n')
        l1b = b'Content-Type: multipart/mixed; boundary="L1"\n\n--L1\n' + l2 + (tail if tail.endswith(b'\n') or not tail else tail + b'\n')
        out.append(b'To: a@b\nSubject: needle\nContent-Type: multipart/mixed; boundary="T"\n\n--T\n' + l1b + b'--T--\n')
    for n in (1, 3, 7, 8, 12, 15, 16, 24, 31):
        v = ''.join(CASE_LETTERS[(i + n) % len(CASE_LETTERS)] for i in range(n)).encode()
        out.append(b'Subject: %s\nX-Id: case%d\n\n%s\n' % (v, n, v[::1]))
        out.append(b'To: x%s\nSubject: =?UTF-8?Q?%s?=\n\nabc %s needle\n' % (v, b''.join(b'=%02X' % c for c in v), v))
    for i, v in enumerate(ODD_VALUES):
        name = [b'Subject', b'To', b'X-Label', b'From', b'X-Zed', b'Date', b'Content-Type'][i % 7]
        out.append(b'%s: %s\nX-Id: odd%d\nSubject: needle\n\nbody needle abcd\n' % (name, v, i))
    return out


def run_binary(ck, rng, rounds, stats):
    for round_ in range(rounds):
        name, rule = CONFIGS[round_ % len(CONFIGS)]
        sb = mdrun.Sandbox()
        src = sb.maildir('src'); dst = sb.maildir('dst')
        msgs = []
        for i in range(20):
            text = hostile(rng)
            nm = sb.add(src, rng.choice(['new', 'cur']), text)
            msgs.append((nm, text))
        # the first pass over the configurations is in maildir mode and sees the fixed corpus; stdin mode afterwards
        stdin_mode = (round_ % 5 == 4) and round_ >= len(CONFIGS)
        if round_ < len(CONFIGS):
            for text in odd_messages():
                msgs.append((sb.add(src, 'new', text), text))
        args = ['-d'] if name == 'dry' else []
        env = dict(SAN_ENV)
        if name == 'dry':
            env['LC_ALL'] = rng.choice(['C', 'C.UTF-8'])
        if name == 'case':
            env['LC_ALL'] = 'C.UTF-8' if round_ < len(CONFIGS) else rng.choice(['C', 'C.UTF-8'])
        if stdin_mode:
            conf = sb.write_conf(b'stdin {\n\t%s\n}\n' % (rule % {b'dst': dst.encode()}))
            bad = None
            for nm, text in msgs[:8]:
                rc, out, err = sb.run(args + ['-'], conf=conf, stdin=text, env=env, kind='asan', timeout=TIME_LIMIT)
                stats['runs'] += 1
                if judge(ck, name + '/stdin', rc, err, conf, [(nm, text)], stats):
                    break
        else:
            conf = sb.write_conf(b'maildir "%s" {\n\t%s\n}\n' % (src.encode(), rule % {b'dst': dst.encode()}))
            rc, out, err = sb.run(args, conf=conf, env=env, kind='asan', timeout=TIME_LIMIT * 3)
            stats['runs'] += 1
            if bad_run(rc, err):
                # find the message
                found = False
                for nm, text in msgs:
                    sb2 = mdrun.Sandbox()
                    s2 = sb2.maildir('src'); d2 = sb2.maildir('dst')
                    sb2.add(s2, 'new', text)
                    c2 = sb2.write_conf(b'maildir "%s" {\n\t%s\n}\n' % (s2.encode(), rule % {b'dst': d2.encode()}))
                    rc2, out2, err2 = sb2.run(args, conf=c2, env=env, kind='asan', timeout=TIME_LIMIT)
                    if judge(ck, name, rc2, err2, c2, [(nm, text)], stats):
                        found = True
                        sb2.cleanup()
                        break
                    sb2.cleanup()
                if not found:
                    judge(ck, name, rc, err, conf, msgs, stats)
        sb.cleanup()
        if len(ck.violations) > 3:
            break


VALGRIND = ['valgrind', '-q', '--error-exitcode=97', '--leak-check=no', '--track-origins=no', '--num-callers=12']


def truncated(rng):
    """messages that end where a parser expects more: inside a header name, after the colon, inside a (folded) value, inside an
    encoded word, inside a boundary line, inside a quoted-printable escape, without the final newline"""
    hs = [b'From: a@b', b'Subject: Re: your invoice', b'X-Label: one\n two', b'Subject: =?UTF-8?Q?caf=C3=A9?= =?utf-8?B?QUJD?=',
          rng.choice([b'Subject: =?UTF-8?B??=', b'Subject: =?UTF-8?Q??= =?UTF-8?B??= x', b'To: =?x?B?=?= =?x?b?QQ?=', b'Subject: =?' + b'c' * 3000 + b'?B?QUJD?=',
                      b'Subject: ' + b'=?x?Q?a?= ' * 400, b'Subject: =?x?B?=?x?B?QUJD?=?=', b'Subject: ?= =? =?x?Q?=?=']),
          b'Content-Type: multipart/mixed; boundary="B"', b'Content-Transfer-Encoding: quoted-printable', b'To: c@d']
    rng.shuffle(hs)
    text = b'\n'.join(hs[:rng.randrange(1, len(hs) + 1)])
    k = rng.randrange(6)
    if k == 0:
        return text                                   # ends inside the last header value
    if k == 1:
        return text + b'\nX-Cut'                      # ends inside a header name
    if k == 2:
        return text + b'\nX-Cut:'                     # ends after the colon
    if k == 3:
        return text + b'\n\n--B\nContent-Type: text/plain\n\npart=4'      # ends inside a part / an escape
    if k == 4:
        return text + b'\n\n--B\nContent-Type: text/pl'                    # ends inside a part header
    cut = rng.randrange(1, len(text) + 1)
    return text[:cut]


def run_memcheck(ck, rng, rounds, stats):
    """the plain build under valgrind memcheck: reads of uninitialised or unaddressable memory that stay inside an
    allocation (slack of the read buffer, recycled buffers) are invisible to AddressSanitizer"""
    for round_ in range(rounds):
        name, rule = CONFIGS[round_ % len(CONFIGS)]
        if name == 'block':
            continue
        sb = mdrun.Sandbox()
        src = sb.maildir('src'); dst = sb.maildir('dst')
        msgs = []
        # a large well-formed message first: its text stays in the recycled read buffer
        msgs.append((sb.add(src, 'cur', b'From: z@z\nX-Spam-Flag: YES\nSubject: needle\n\n' + b'needle abcd plain text\n' * 40, name='0.first'), b''))
        for i in range(14):
            text = truncated(rng) if i % 2 == 0 else hostile(rng)[:3000]
            msgs.append((sb.add(src, rng.choice(['new', 'cur']), text), text))
        if name == 'attach':
            # the three-level multiparts of the fixed corpus (an inner level of 40 parts below an unterminated one): with the allocator
            # of the plain build the table of parts moves while the level above is still being read
            for text in odd_messages()[:6]:
                msgs.append((sb.add(src, 'new', text), text))
        args = ['-d'] if name == 'dry' else []
        conf = sb.write_conf(b'maildir "%s" {\n\t%s\n}\n' % (src.encode(), rule % {b'dst': dst.encode()}))
        rc, out, err = sb.run(args, conf=conf, env={'LC_ALL': 'C', 'MALLOC_PERTURB_': '190'}, kind='plain', timeout=TIME_LIMIT * 12, wrapper=VALGRIND)
        stats['memcheck'] += 1
        if rc == 97 or rc < 0 or rc == -999 or b'== Invalid' in err or b'uninitialised' in err:
            stats['viol'] += 1
            m = re.search(rb'==\d+== (Invalid|Conditional jump|Use of uninit|Syscall param)[^\n]*(\n==\d+==[^\n]*){0,8}', err)
            ck.violation('configuration %s: valgrind memcheck reports %s' % (name, (m.group(0)[:600].decode(errors='replace') if m else 'exit status %d' % rc)),
                         {'kind': 'memcheck', 'config': open(conf, 'rb').read().decode(errors='replace'), 'messages_hex': [hexs(t) for n, t in msgs[1:]],
                          'exit': rc, 'stderr': err[-2500:].decode(errors='replace')})
        sb.cleanup()
        if len(ck.violations) > 3:
            break


def bad_run(rc, err):
    return rc == -999 or rc < 0 or rc in (98, 99) or rc > 100 or SAN_RE.search(err or b'') is not None


def judge(ck, name, rc, err, conf, msgs, stats):
    if not bad_run(rc, err):
        return False
    err = err or b''
    m = SAN_RE.search(err)
    what = 'does not terminate within %d s' % TIME_LIMIT if rc == -999 else \
           ('dies by signal %d' % -rc if rc < 0 else ('sanitizer report: ' + err[m.start():m.start() + 300].decode(errors='replace') if m else 'exit status %d' % rc))
    stats['viol'] += 1
    ck.violation('configuration %s: mdsort %s (%d message(s), first %d bytes)' % (name, what, len(msgs), len(msgs[0][1])),
                 {'kind': 'binary', 'config': open(conf, 'rb').read().decode(errors='replace'), 'messages_hex': [hexs(t) for n, t in msgs[:3]],
                  'exit': rc, 'stderr': err[-1500:].decode(errors='replace')})
    return True


def run_scan(ck, rng, n, stats):
    model = common.model_exe()
    reqs = []
    for i in range(n):
        k = rng.randrange(6)
        if k == 0:
            s = hostile(rng)[:rng.choice([50, 300, 3000])]
        elif k == 1:
            s = rng.choice([b'multipart/', b'multipart/mixed', b'multipart/x;', b'text/plain; ']) + rng.choice([b'', b' ', b' \t ', b';']) + \
                rng.choice([b'boundary="', b'boundary=', b'boundary="b"', b'boundary="" ', b'boundary="a b;c', b'x; boundary="q"'])
        elif k == 2:
            s = b''.join(rng.choice([b'--', b'b', b'bb', b'\n', b'x', b'--b--', b'--b', b' ', b'-']) for _ in range(rng.randrange(0, 14)))
        elif k == 3:
            s = b''.join(rng.choice([b'K', b':', b' ', b'\t', b'\n', b'v', b'\n ', b'\n\t', b'\n\n', b'From ']) for _ in range(rng.randrange(0, 12)))
        elif k == 4:
            s = bytes(rng.choice([0, 9, 10, 32, 45, 58, 98, 34, 59, 70]) for _ in range(rng.randrange(0, 30)))
        else:
            s = b'\t' * rng.randrange(3) + b'\n'.join(rng.choice([b'a', b'\tb', b'', b'\t\t', b' c']) for _ in range(rng.randrange(0, 6)))
        b = rng.choice([b'b', b'bb', b'--', b'b-', b'N0'])
        reqs.append((s, b))
    out, _ = common.run_lines(model, ['scan %s %s' % (hexs(s), hexs(b)) for s, b in reqs], timeout=1800)
    for (s, b), o in zip(reqs, out):
        stats['scan'] += 1
        if o != 'OK':
            ck.violation('index-level and list-level scanner models differ (or a read is out of bounds) on %r boundary %r: %s' % (s[:80], b, o[:200]),
                         {'kind': 'scan', 'string_hex': hexs(s), 'boundary_hex': hexs(b), 'obligation': 'ScanRefine / ScanProofs'}, found_input=False)
            if stats['scan_bad'] > 3:
                break
            stats['scan_bad'] += 1


def run(ck):
    rng = ck.rng
    stats = dict(api=0, runs=0, scan=0, scan_bad=0, viol=0, memcheck=0)
    q = ck.tier == 'quick'
    run_scan(ck, rng, 3000 if q else 60000, stats)
    run_api(ck, rng, 1200 if q else 30000, stats)
    run_binary(ck, rng, 20 if q else 400, stats)
    run_memcheck(ck, rng, 4 if q else 48, stats)
    ck.coverage.update({
        'evaluations': stats['api'] + stats['runs'] + stats['scan'],
        'distinct_nontrivial': stats['api'] + stats['runs'],
        'rule': 'hostile messages: generated MIME texts (msggen.gen_mime_message, gen_tree with undecodable parts), malformed header texts (gen_malformed), seeds with 17-300 parts, '
                'nesting 4-9 levels, 400-line folded headers, 40 duplicate headers, kilobyte encoded words; 3 of 4 then mutated (byte replace/insert of NUL, CR, LF, 8-bit and '
                'delimiter bytes, range delete / duplicate, truncation, CRLF conversion, boundary lines with trailing junk, mbox/blank prefixes, duplicated X-Label + later header), '
                'capped at 64 KiB. API stream: 1-6 of get_header / set_header / write / body / attachments per message on the ASan+UBSan driver. Binary: %d configurations '
                '(header, body, attachment, add-header + label, date, attachment block + exec, -d in C and C.UTF-8) round-robin, every fifth round in stdin mode, 20 messages (plus, in the first round of each configuration, a fixed corpus of 20 hand-written odd header values: empty, nested, unterminated, over-long and 8-bit encoded words, values of blanks and folds only) '
                'per run, %d s limit. Memcheck: the plain build under valgrind on maildirs of 15 messages (a large well-formed one first, then truncated messages - ending inside a header name, value, encoded word, part header, escape - and hostile ones), MALLOC_PERTURB_ set. non-trivial = every API case and binary run (each executes the sanitized implementation)' % (len(CONFIGS), TIME_LIMIT),
        'traces_validated_against_impl': stats['api'] + stats['runs'],
        'api_cases': stats['api'], 'binary_runs': stats['runs'], 'scanner_model_cases': stats['scan'], 'memcheck_runs': stats['memcheck'],
        'sanitizers': 'clang -fsanitize=address,undefined -fno-sanitize-recover=all (leak detection off)',
    })
    ck.assumptions += ['AddressSanitizer/UBSan detect the memory errors they are documented to detect; errors inside libc are seen only at interposed entry points',
                       'the sanitized runs are tests: they sample inputs, they do not cover all byte strings']
    ck.notes.append('partial: totality and bounds are proved of the models; memory safety of the binary is tested under sanitizers, not proved')


def replay(ck, rp):
    if rp.get('kind') == 'api':
        drv = common.build_driver('msg_drv', 'asan')
        env = dict(os.environ); env.update(SAN_ENV)
        out, r = common.run_lines(drv, ['msg %s %s %s' % (rp['message_hex'], hexs(b'm'), ' '.join(rp['ops']))], env=env)
        print(out, r.returncode, r.stderr[-2000:].decode(errors='replace'))
        return 1 if r.returncode != 0 else 0
    if rp.get('kind') in ('memcheck', 'binary') and rp.get('messages_hex'):
        sb = mdrun.Sandbox()
        src = sb.maildir('src'); dst = sb.maildir('dst')
        if rp['kind'] == 'memcheck':
            sb.add(src, 'cur', b'From: z@z\nX-Spam-Flag: YES\nSubject: needle\n\n' + b'needle abcd plain text\n' * 40, name='0.first')
        for i, h in enumerate(rp['messages_hex']):
            sb.add(src, 'new', unhexs(h), name='%d.m' % (i + 1))
        body = rp['config'].split('{', 1)[1]
        stdin_mode = rp['config'].lstrip().startswith('stdin')
        conf = sb.write_conf((('stdin {' if stdin_mode else 'maildir "%s" {' % src) + re.sub(r'"/tmp/mdv-sb-[^/"]*/dst', '"' + dst, body)).encode())
        if rp['kind'] == 'memcheck':
            rc, out, err = sb.run([], conf=conf, env={'LC_ALL': 'C', 'MALLOC_PERTURB_': '190'}, kind='plain', timeout=TIME_LIMIT * 12, wrapper=VALGRIND)
            bad = rc == 97 or rc < 0 or b'== Invalid' in err or b'uninitialised' in err
        else:
            rc, out, err = sb.run(['-'] if stdin_mode else [], conf=conf, env=dict(SAN_ENV), kind='asan', timeout=TIME_LIMIT * 3,
                                  stdin=(unhexs(rp['messages_hex'][0]) if stdin_mode else None))
            bad = bad_run(rc, err)
        print('exit', rc); print(err[-2000:].decode(errors='replace'))
        sb.cleanup()
        return 1 if bad else 0
    print(rp.get('config')); print(rp.get('stderr'))
    return 1
