(* C15: the calendar of the model is the Gregorian calendar on 1970-2037 (day-by-day sweep), the three
   layouts parse back to what was printed, tzoff is exact on -2359..+2359, time_parse yields the true
   instant whatever the local zone is, and the age comparison is the strict comparison of the statement. *)
From MD Require Import Bytes Generated ConfDefs DateDefs.
Require Import Lia.
Local Open Scope Z_scope.
Ltac Zify.zify_post_hook ::= Z.div_mod_to_equations.

(* ---- the calendar: a finite sweep over every day of 1970-2037, lifted --------------------------------- *)
Definition zrange (lo : Z) (n : nat) : list Z := map (fun i => lo + Z.of_nat i) (seq 0 n).

Lemma in_zrange lo n x : In x (zrange lo n) <-> lo <= x < lo + Z.of_nat n.
Proof.
  unfold zrange. rewrite in_map_iff. split.
  - intros [i [<- Hi]]. apply in_seq in Hi. lia.
  - intros H. exists (Z.to_nat (x - lo)). split; [lia|]. apply in_seq. lia.
Qed.

Definition all_days : list (Z * Z * Z) :=
  flat_map (fun y => flat_map (fun m => map (fun d => (y, m, d)) (zrange 1 (Z.to_nat (days_in_month y m)))) (zrange 1 12)) (zrange 1970 68).

Definition valid_day (y m d : Z) : Prop := 1970 <= y <= 2037 /\ 1 <= m <= 12 /\ 1 <= d <= days_in_month y m.

Lemma dim_pos y m : 28 <= days_in_month y m <= 31.
Proof. unfold days_in_month. destruct (m =? 2); [destruct (is_leap y); lia|]. destruct (_ || _); lia. Qed.

Lemma valid_in_all y m d : valid_day y m d -> In (y, m, d) all_days.
Proof.
  intros [Hy [Hm Hd]]. unfold all_days. apply in_flat_map. exists y. split; [apply in_zrange; lia|].
  apply in_flat_map. exists m. split; [apply in_zrange; lia|].
  apply in_map_iff. exists d. split; [reflexivity|]. apply in_zrange. pose proof (dim_pos y m). lia.
Qed.

Definition step_ok (t : Z * Z * Z) : bool :=
  let '(y, m, d) := t in
  let '(y', m', d') := next_day y m d in
  days_from_civil y' m' d' =? days_from_civil y m d + 1.

Lemma sweep_days : forallb step_ok all_days = true.
Proof. vm_compute. reflexivity. Qed.

Theorem next_day_plus_one y m d : valid_day y m d ->
  let '(y', m', d') := next_day y m d in days_from_civil y' m' d' = days_from_civil y m d + 1.
Proof.
  intros H. pose proof sweep_days as Hs. rewrite forallb_forall in Hs.
  specialize (Hs _ (valid_in_all _ _ _ H)). unfold step_ok in Hs.
  destruct (next_day y m d) as [[y' m'] d']. apply Z.eqb_eq. exact Hs.
Qed.

Theorem epoch_origin : days_from_civil 1970 1 1 = 0.
Proof. reflexivity. Qed.

(* ---- printing and parsing --------------------------------------------------------------------------------- *)
Lemma dval_dig n : 0 <= n -> dval (dig n) = Some (n mod 10).
Proof.
  intros Hn. unfold dval, dig, isdigit.
  assert (H : 0 <= n mod 10 < 10) by lia.
  set (k := n mod 10) in *. clearbody k.
  destruct ((48 <=? Z.to_N (48 + k))%N && (Z.to_N (48 + k) <=? 57)%N) eqn:E.
  - f_equal. lia.
  - apply andb_false_iff in E. destruct E as [E|E]; [apply N.leb_gt in E|apply N.leb_gt in E]; lia.
Qed.

Lemma take2_two n r : 0 <= n <= 99 -> take2 (two n ++ r) = Some (n, r).
Proof.
  intros Hn. unfold two. cbn [app take2].
  rewrite (dval_dig (n / 10)) by lia. rewrite (dval_dig n) by lia.
  f_equal. f_equal. lia.
Qed.

Lemma two_mod n : 0 <= n -> two n = two (n mod 100).
Proof.
  intros Hn. unfold two, dig. f_equal; [|f_equal]; f_equal; f_equal; lia.
Qed.

Lemma take4_four n r : 0 <= n <= 9999 -> take4 (four n ++ r) = Some (n, r).
Proof.
  intros Hn. unfold take4.
  assert (Hs : four n ++ r = two (n / 100) ++ two n ++ r).
  { unfold four, two. cbn [app]. replace (n / 100 / 10) with (n / 1000) by lia. reflexivity. }
  rewrite Hs. rewrite take2_two by lia.
  rewrite (two_mod n) by lia. rewrite take2_two by lia.
  f_equal. f_equal. lia.
Qed.

Lemma month_index m : 1 <= m <= 12 -> index_name month_names (month_name m) 1 = Some m /\ length (month_name m) = 3%nat.
Proof.
  intros H. assert (Hc : In m (zrange 1 12)) by (apply in_zrange; lia).
  revert Hc. generalize m. apply Forall_forall. vm_compute. repeat constructor.
Qed.

Lemma day_index c : index_name day_names (day_name c) 0 <> None /\ length (day_name c) = 3%nat.
Proof.
  unfold day_name. assert (H : 0 <= weekday c < 7) by (unfold weekday; apply Z.mod_pos_bound; lia).
  assert (Hc : In (weekday c) (zrange 0 7)) by (apply in_zrange; lia).
  revert Hc. generalize (weekday c). apply Forall_forall. vm_compute. repeat constructor; discriminate.
Qed.

Lemma firstn3_app (a r : bytes) : length a = 3%nat -> firstn 3 (a ++ r) = a /\ skipn 3 (a ++ r) = r.
Proof.
  intros H. destruct a as [|x [|y [|z [|w t]]]]; try discriminate H. split; reflexivity.
Qed.

Lemma expect_app lit r : expect lit (lit ++ r) = Some r.
Proof.
  unfold expect.
  assert (Hp : prefixb lit (lit ++ r) = true).
  { induction lit as [|c l IH]; [reflexivity|]. cbn [app prefixb]. rewrite N.eqb_refl. exact IH. }
  rewrite Hp. f_equal. induction lit as [|c l IH]; [reflexivity|]. cbn [length skipn app]. apply IH.
  clear -Hp. cbn [app prefixb] in Hp. rewrite N.eqb_refl in Hp. exact Hp.
Qed.

Definition valid_fields (c : civil) : Prop :=
  0 <= c_year c <= 9999 /\ 1 <= c_mon c <= 12 /\ 0 <= c_day c <= 99 /\ 0 <= c_hour c <= 99 /\ 0 <= c_min c <= 99 /\ 0 <= c_sec c <= 99.

Definition drop_sec (c : civil) : civil := mkcivil (c_year c) (c_mon c) (c_day c) (c_hour c) (c_min c) 0.

Lemma parse_dmy_hm_print with_sec c r : valid_fields c ->
  parse_dmy_hm with_sec (two (c_day c) ++ sp ++ month_name (c_mon c) ++ sp ++ four (c_year c) ++ sp ++
                         two (c_hour c) ++ colon ++ two (c_min c) ++ (if with_sec then colon ++ two (c_sec c) else []) ++ r)
  = Some (if with_sec then c else drop_sec c, r).
Proof.
  intros [Hy [Hm [Hd [Hh [Hmi Hs]]]]]. unfold parse_dmy_hm.
  rewrite take2_two by exact Hd. cbn [bind_o]. rewrite expect_app. cbn [bind_o].
  destruct (month_index (c_mon c) Hm) as [Hix Hlen].
  destruct (firstn3_app (month_name (c_mon c)) (sp ++ four (c_year c) ++ sp ++ two (c_hour c) ++ colon ++ two (c_min c) ++
                         (if with_sec then colon ++ two (c_sec c) else []) ++ r) Hlen) as [Hf Hsk].
  rewrite Hf, Hix. cbn [bind_o]. rewrite Hsk, expect_app. cbn [bind_o].
  rewrite take4_four by exact Hy. cbn [bind_o]. rewrite expect_app. cbn [bind_o].
  rewrite take2_two by exact Hh. cbn [bind_o]. rewrite expect_app. cbn [bind_o].
  rewrite take2_two by exact Hmi. cbn [bind_o].
  destruct with_sec.
  - rewrite <- app_assoc. rewrite expect_app. cbn [bind_o]. rewrite take2_two by exact Hs. cbn [bind_o].
    destruct c; reflexivity.
  - reflexivity.
Qed.

Lemma print_date_shape layout c :
  print_date layout c =
  (match layout with O | S O => day_name c ++ [44%N; 32%N] | _ => [] end) ++
  two (c_day c) ++ sp ++ month_name (c_mon c) ++ sp ++ four (c_year c) ++ sp ++
  two (c_hour c) ++ colon ++ two (c_min c) ++ (if match layout with S O => false | _ => true end then colon ++ two (c_sec c) else []).
Proof.
  destruct layout as [|[|l]]; unfold print_date; rewrite <- ?app_assoc; cbn [app]; rewrite ?app_nil_r; reflexivity.
Qed.

Definition parsed_as (layout : nat) (c : civil) : civil := match layout with S O => drop_sec c | _ => c end.

Theorem parse_layout_print layout c r : (layout <= 2)%nat -> valid_fields c ->
  parse_layout layout (print_date layout c ++ r) = Some (parsed_as layout c, r).
Proof.
  intros Hl Hv. rewrite print_date_shape. unfold parse_layout.
  destruct (day_index c) as [Hdi Hdl].
  destruct layout as [|[|[|l]]]; [| | |lia].
  - rewrite <- !app_assoc.
    match goal with |- context [firstn 3 (day_name c ++ ?x)] => destruct (firstn3_app (day_name c) x Hdl) as [Hf Hsk] end. rewrite Hf, Hsk.
    destruct (index_name day_names (day_name c) 0); [|contradiction]. cbn [bind_o].
    change ([44%N; 32%N] ++ ?x) with ([44%N; 32%N] ++ x). rewrite expect_app. cbn [bind_o Nat.eqb].
    exact (parse_dmy_hm_print true c r Hv).
  - rewrite <- !app_assoc.
    match goal with |- context [firstn 3 (day_name c ++ ?x)] => destruct (firstn3_app (day_name c) x Hdl) as [Hf Hsk] end. rewrite Hf, Hsk.
    destruct (index_name day_names (day_name c) 0); [|contradiction]. cbn [bind_o].
    rewrite expect_app. cbn [bind_o Nat.eqb].
    exact (parse_dmy_hm_print false c r Hv).
  - cbn [app]. rewrite <- !app_assoc. exact (parse_dmy_hm_print true c r Hv).
Qed.

(* ---- tzoff ------------------------------------------------------------------------------------------------------ *)
Theorem tzoff_print neg hh mm r : 0 <= hh <= 23 -> 0 <= mm <= 59 ->
  tzoff (print_zone neg hh mm ++ r) = Some ((if neg then -1 else 1) * (hh * 3600 + mm * 60)).
Proof.
  intros Hh Hm. unfold print_zone, tzoff. cbn [app].
  assert (Hs : (if ((if neg then 45%N else 43%N) =? 43)%N then Some 1
                else if ((if neg then 45%N else 43%N) =? 45)%N then Some (-1) else None) = Some (if neg then -1 else 1))
    by (destruct neg; reflexivity).
  rewrite Hs. cbn [bind_o]. rewrite <- app_assoc. rewrite take2_two by lia. cbn [bind_o].
  destruct (Z.ltb_spec 23 hh); [lia|]. rewrite take2_two by lia. cbn [bind_o].
  destruct (Z.ltb_spec 59 mm); [lia|]. reflexivity.
Qed.

Theorem tzoff_rejects_hours neg hh mm r : 24 <= hh <= 99 -> 0 <= mm <= 99 -> tzoff (print_zone neg hh mm ++ r) = None.
Proof.
  intros Hh Hm. unfold print_zone, tzoff. cbn [app].
  destruct neg; cbn [N.eqb Pos.eqb bind_o]; rewrite <- app_assoc; rewrite take2_two by lia; cbn [bind_o];
    (destruct (Z.ltb_spec 23 hh); [reflexivity|lia]).
Qed.

Theorem tzoff_rejects_minutes neg hh mm r : 0 <= hh <= 23 -> 60 <= mm <= 99 -> tzoff (print_zone neg hh mm ++ r) = None.
Proof.
  intros Hh Hm. unfold print_zone, tzoff. cbn [app].
  destruct neg; cbn [N.eqb Pos.eqb bind_o]; rewrite <- app_assoc; rewrite take2_two by lia; cbn [bind_o];
    (destruct (Z.ltb_spec 23 hh); [lia|]); rewrite take2_two by lia; cbn [bind_o];
    (destruct (Z.ltb_spec 59 mm); [reflexivity|lia]).
Qed.

(* ---- the age comparison ------------------------------------------------------------------------------------------ *)
Theorem date_cond_gt now tim age : date_cond true now tim age = true <-> now - tim > age.
Proof. unfold date_cond. rewrite Z.ltb_lt. lia. Qed.

Theorem date_cond_lt now tim age : date_cond false now tim age = true <-> now - tim < age.
Proof. unfold date_cond. rewrite Z.ltb_lt. lia. Qed.

Corollary thresholds now tim :
  date_cond true now tim (now - tim - 1) = true /\ date_cond true now tim (now - tim) = false /\
  date_cond false now tim (now - tim + 1) = true /\ date_cond false now tim (now - tim) = false.
Proof. unfold date_cond. repeat split; try (apply Z.ltb_lt; lia); apply Z.ltb_ge; lia. Qed.

(* ---- units --------------------------------------------------------------------------------------------------------- *)
Theorem units_table : map snd scalars = [1; 60; 3600; 86400; 604800; 2592000; 31536000].
Proof. reflexivity. Qed.

Definition ab (s : list Z) : bytes := map Z.to_N s.

Theorem unit_abbreviations :
  lex_scalar (ab [115]) = POk 1%N [] /\                    (* s *)
  lex_scalar (ab [109;105]) = POk 60%N [] /\               (* mi *)
  lex_scalar (ab [104]) = POk 3600%N [] /\                 (* h *)
  lex_scalar (ab [100]) = POk 86400%N [] /\                (* d *)
  lex_scalar (ab [119]) = POk 604800%N [] /\               (* w *)
  lex_scalar (ab [109;111]) = POk 2592000%N [] /\          (* mo *)
  lex_scalar (ab [121]) = POk 31536000%N [] /\             (* y *)
  lex_scalar (ab [109]) = PErr /\                          (* m: minutes or months *)
  lex_scalar (ab [115;101;99;111;110;100;115;120]) = PErr. (* secondsx *)
Proof. vm_compute. repeat split; reflexivity. Qed.

(* ---- timeparse picks the layout that was printed; time_parse is the true instant ------------------------------------- *)
Lemma digit_not_dayname c r i : isdigit c = true -> index_name day_names (c :: r) i = None.
Proof.
  intros Hd. unfold isdigit in Hd. apply andb_prop in Hd. destruct Hd as [H1 H2]. apply N.leb_le in H1, H2.
  unfold day_names. cbn [index_name beq_bytes].
  repeat match goal with |- context [(?k =? c)%N] => destruct (N.eqb_spec k c); [lia|]; cbn [andb] end.
  reflexivity.
Qed.

Lemma dig_isdigit n : 0 <= n -> isdigit (dig n) = true.
Proof.
  intros Hn. unfold dig, isdigit. assert (0 <= n mod 10 < 10) by lia.
  apply andb_true_intro. split; apply N.leb_le; lia.
Qed.

Lemma layout2_not_weekday layout c r : (layout <= 1)%nat -> 0 <= c_day c -> parse_layout layout (print_date 2 c ++ r) = None.
Proof.
  intros Hl Hd. unfold parse_layout. destruct layout as [|[|l]]; [| |lia];
    unfold print_date, two; cbn [app firstn]; rewrite digit_not_dayname by (apply dig_isdigit; lia); reflexivity.
Qed.

Lemma layout1_not_layout0 c z : valid_fields c -> parse_layout 0 (print_date 1 c ++ 32%N :: z) = None.
Proof.
  intros [Hy [Hm [Hd [Hh [Hmi Hs]]]]]. rewrite print_date_shape. unfold parse_layout.
  destruct (day_index c) as [Hdi Hdl]. rewrite <- !app_assoc.
  match goal with |- context [firstn 3 (day_name c ++ ?x)] => destruct (firstn3_app (day_name c) x Hdl) as [Hf Hsk] end.
  rewrite Hf, Hsk. destruct (index_name day_names (day_name c) 0); [|contradiction]. cbn [bind_o].
  rewrite expect_app. cbn [bind_o Nat.eqb]. unfold parse_dmy_hm.
  rewrite take2_two by exact Hd. cbn [bind_o]. rewrite expect_app. cbn [bind_o].
  destruct (month_index (c_mon c) Hm) as [Hix Hlen].
  match goal with |- context [firstn 3 (month_name (c_mon c) ++ ?x)] => destruct (firstn3_app (month_name (c_mon c)) x Hlen) as [Hf2 Hsk2] end.
  rewrite Hf2, Hix. cbn [bind_o]. rewrite Hsk2, expect_app. cbn [bind_o].
  rewrite take4_four by exact Hy. cbn [bind_o]. rewrite expect_app. cbn [bind_o].
  rewrite take2_two by exact Hh. cbn [bind_o]. rewrite expect_app. cbn [bind_o].
  rewrite take2_two by exact Hmi. cbn [bind_o app]. reflexivity.
Qed.

Theorem timeparse_print layout c z : (layout <= 2)%nat -> valid_fields c ->
  timeparse (print_date layout c ++ 32%N :: z) = Some (parsed_as layout c, 32%N :: z).
Proof.
  intros Hl Hv. unfold timeparse. destruct layout as [|[|[|l]]]; [| | |lia].
  - rewrite (parse_layout_print 0 c _ Hl Hv). reflexivity.
  - rewrite (layout1_not_layout0 c z Hv). rewrite (parse_layout_print 1 c _ Hl Hv). reflexivity.
  - destruct Hv as [Hy [Hm [Hd Hrest]]].
    rewrite (layout2_not_weekday 0 c _ ltac:(lia) ltac:(lia)), (layout2_not_weekday 1 c _ ltac:(lia) ltac:(lia)).
    apply (parse_layout_print 2 c _ Hl). repeat split; try lia; apply Hrest.
Qed.

Definition zone_seconds (neg : bool) (hh mm : Z) : Z := (if neg then -1 else 1) * (hh * 3600 + mm * 60).

(* the statement of the property: the instant denoted by the header, whatever the local zone *)
Theorem time_parse_true_instant abbr layout c neg hh mm : (layout <= 2)%nat -> valid_fields c ->
  0 <= hh <= 23 -> 0 <= mm <= 59 ->
  time_parse abbr (print_date layout c ++ sp ++ print_zone neg hh mm) = Some (epoch_of (parsed_as layout c) - zone_seconds neg hh mm).
Proof.
  intros Hl Hv Hh Hm. unfold time_parse. cbn [sp app]. rewrite (timeparse_print layout c _ Hl Hv). cbn [bind_o].
  assert (Hsk : skip_sp (32%N :: print_zone neg hh mm) = print_zone neg hh mm).
  { unfold skip_sp, print_zone. cbn [skip_blanks]. destruct neg; reflexivity. }
  rewrite Hsk. unfold tzparse.
  rewrite <- (app_nil_r (print_zone neg hh mm)). rewrite (tzoff_print neg hh mm [] Hh Hm). reflexivity.
Qed.

Theorem time_parse_utc_names abbr layout c name : (layout <= 2)%nat -> valid_fields c ->
  is_utc_name name = true -> abbr name = Some 0 ->
  time_parse abbr (print_date layout c ++ sp ++ name) = Some (epoch_of (parsed_as layout c)).
Proof.
  intros Hl Hv Hn Ha. unfold time_parse. cbn [sp app]. rewrite (timeparse_print layout c _ Hl Hv). cbn [bind_o].
  unfold is_utc_name in Hn.
  assert (Hname : name = [71;77;84]%N \/ name = [85;84]%N \/ name = [85;84;67]%N).
  { apply orb_prop in Hn. destruct Hn as [Hn|Hn]; [apply orb_prop in Hn; destruct Hn as [Hn|Hn]|];
      apply beq_bytes_eq in Hn; auto. }
  destruct Hname as [H1|[H1|H1]]; subst name; unfold skip_sp, tzparse; cbn; rewrite Ha; cbn [bind_o]; f_equal; lia.
Qed.

(* the formula before the repair (F-13): off by the difference of the local offsets now and at the message's time *)
Theorem time_parse_old_error_term mk loc_now abbr layout c neg hh mm : (layout <= 2)%nat -> valid_fields c ->
  0 <= hh <= 23 -> 0 <= mm <= 59 ->
  time_parse_old mk loc_now abbr (print_date layout c ++ sp ++ print_zone neg hh mm)
  = Some (mk (parsed_as layout c) - zone_seconds neg hh mm + loc_now).
Proof.
  intros Hl Hv Hh Hm. unfold time_parse_old. cbn [sp app]. rewrite (timeparse_print layout c _ Hl Hv). cbn [bind_o].
  assert (Hsk : skip_sp (32%N :: print_zone neg hh mm) = print_zone neg hh mm).
  { unfold skip_sp, print_zone. cbn [skip_blanks]. destruct neg; reflexivity. }
  rewrite Hsk. unfold tzparse.
  rewrite <- (app_nil_r (print_zone neg hh mm)). rewrite (tzoff_print neg hh mm [] Hh Hm). reflexivity.
Qed.

(* a zone with daylight saving: the message was written at offset +7200, now the offset is +3600 *)
Theorem time_parse_old_refuted :
  exists mk loc_now c,
    valid_fields c /\ (forall c', mk c' = epoch_of c' - 7200) /\ loc_now = 3600 /\
    time_parse_old mk loc_now (fun _ => None) (print_date 0 c ++ sp ++ print_zone false 0 0)
    <> Some (epoch_of c).
Proof.
  exists (fun c' => epoch_of c' - 7200), 3600, (mkcivil 2024 7 1 12 0 0).
  split; [unfold valid_fields; cbn; lia|]. split; [reflexivity|]. split; [reflexivity|].
  rewrite time_parse_old_error_term; [|lia|unfold valid_fields; cbn; lia|lia|lia].
  cbn. discriminate.
Qed.
