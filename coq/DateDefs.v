(* M9: dates.  The civil calendar (days_from_civil, the proleptic Gregorian rule), the three Date
   layouts of time.c as printers and a strict parser for what they print (strptime itself is libc: the
   parser below accepts exactly the printed forms, which is the part of strptime the property relies on),
   tzoff byte for byte, time_parse (as repaired for F-13: timegm, no local-offset term; the old formula is
   kept as time_parse_old for the refutation), the age comparison of expr_eval_date.  No proofs here. *)
From MD Require Import Bytes Generated.
Local Open Scope Z_scope.

(* ---- calendar --------------------------------------------------------------------------------- *)
Definition is_leap (y : Z) : bool := ((y mod 4 =? 0) && negb (y mod 100 =? 0)) || (y mod 400 =? 0).

Definition days_in_month (y m : Z) : Z :=
  if m =? 2 then (if is_leap y then 29 else 28)
  else if (m =? 4) || (m =? 6) || (m =? 9) || (m =? 11) then 30 else 31.

(* days since 1970-01-01 (the algorithm of timegm implementations: era / year-of-era / day-of-year) *)
Definition days_from_civil (y m d : Z) : Z :=
  let y' := if m <=? 2 then y - 1 else y in
  let era := y' / 400 in
  let yoe := y' - era * 400 in
  let mp := (m + 9) mod 12 in
  let doy := (153 * mp + 2) / 5 + d - 1 in
  let doe := yoe * 365 + yoe / 4 - yoe / 100 + doy in
  era * 146097 + doe - 719468.

Record civil := mkcivil { c_year : Z; c_mon : Z; c_day : Z; c_hour : Z; c_min : Z; c_sec : Z }.

Definition epoch_of (c : civil) : Z :=
  days_from_civil (c_year c) (c_mon c) (c_day c) * 86400 + c_hour c * 3600 + c_min c * 60 + c_sec c.

Definition valid_civil (c : civil) : bool :=
  (1970 <=? c_year c) && (c_year c <=? 2037) && (1 <=? c_mon c) && (c_mon c <=? 12) &&
  (1 <=? c_day c) && (c_day c <=? days_in_month (c_year c) (c_mon c)) &&
  (0 <=? c_hour c) && (c_hour c <=? 23) && (0 <=? c_min c) && (c_min c <=? 59) && (0 <=? c_sec c) && (c_sec c <=? 59).

(* the day after (y, m, d) *)
Definition next_day (y m d : Z) : Z * Z * Z :=
  if d <? days_in_month y m then (y, m, d + 1)
  else if m <? 12 then (y, m + 1, 1) else (y + 1, 1, 1).

(* ---- printing -------------------------------------------------------------------------------------- *)
Definition dig (n : Z) : N := Z.to_N (48 + n mod 10).
Definition two (n : Z) : bytes := [dig (n / 10); dig n].
Definition four (n : Z) : bytes := [dig (n / 1000); dig (n / 100); dig (n / 10); dig n].

Definition month_names : list bytes :=
  [ [74;97;110]; [70;101;98]; [77;97;114]; [65;112;114]; [77;97;121]; [74;117;110];
    [74;117;108]; [65;117;103]; [83;101;112]; [79;99;116]; [78;111;118]; [68;101;99] ]%N.
Definition day_names : list bytes :=
  [ [83;117;110]; [77;111;110]; [84;117;101]; [87;101;100]; [84;104;117]; [70;114;105]; [83;97;116] ]%N.

Definition month_name (m : Z) : bytes := nth (Z.to_nat (m - 1)) month_names [].
Definition weekday (c : civil) : Z := (days_from_civil (c_year c) (c_mon c) (c_day c) + 4) mod 7.   (* 1970-01-01: Thursday *)
Definition day_name (c : civil) : bytes := nth (Z.to_nat (weekday c)) day_names [].

Definition sp : bytes := [32%N].
Definition colon : bytes := [58%N].

(* layout 0: "%a, %d %b %Y %H:%M:%S"   1: "%a, %d %b %Y %H:%M"   2: "%d %b %Y %H:%M:%S" *)
Definition print_date (layout : nat) (c : civil) : bytes :=
  let dmy := two (c_day c) ++ sp ++ month_name (c_mon c) ++ sp ++ four (c_year c) ++ sp in
  let hm := two (c_hour c) ++ colon ++ two (c_min c) in
  match layout with
  | O => day_name c ++ [44%N; 32%N] ++ dmy ++ hm ++ colon ++ two (c_sec c)
  | S O => day_name c ++ [44%N; 32%N] ++ dmy ++ hm
  | _ => dmy ++ hm ++ colon ++ two (c_sec c)
  end.

Definition print_zone (neg : bool) (hh mm : Z) : bytes := (if neg then 45%N else 43%N) :: two hh ++ two mm.

(* ---- parsing the printed forms ------------------------------------------------------------------------ *)
Definition dval (c : N) : option Z := if isdigit c then Some (Z.of_N c - 48) else None.

Definition take2 (s : bytes) : option (Z * bytes) :=
  match s with
  | a :: b :: r => match dval a, dval b with Some x, Some y => Some (x * 10 + y, r) | _, _ => None end
  | _ => None
  end.

Definition take4 (s : bytes) : option (Z * bytes) :=
  match take2 s with
  | Some (hi, r) => match take2 r with Some (lo, r') => Some (hi * 100 + lo, r') | None => None end
  | None => None
  end.

Fixpoint index_name (names : list bytes) (w : bytes) (i : Z) : option Z :=
  match names with
  | [] => None
  | n :: r => if beq_bytes n w then Some i else index_name r w (i + 1)
  end.

Definition expect (lit : bytes) (s : bytes) : option bytes :=
  if prefixb lit s then Some (skipn (length lit) s) else None.

Definition bind_o {A B} (o : option A) (k : A -> option B) : option B := match o with Some a => k a | None => None end.

(* day month-name year hour:minute[:second] *)
Definition parse_dmy_hm (with_sec : bool) (s : bytes) : option (civil * bytes) :=
  bind_o (take2 s) (fun '(d, r) =>
  bind_o (expect sp r) (fun r =>
  bind_o (index_name month_names (firstn 3 r) 1) (fun m =>
  bind_o (expect sp (skipn 3 r)) (fun r =>
  bind_o (take4 r) (fun '(y, r) =>
  bind_o (expect sp r) (fun r =>
  bind_o (take2 r) (fun '(hh, r) =>
  bind_o (expect colon r) (fun r =>
  bind_o (take2 r) (fun '(mi, r) =>
  if with_sec then
    bind_o (expect colon r) (fun r =>
    bind_o (take2 r) (fun '(ss, r) => Some (mkcivil y m d hh mi ss, r)))
  else Some (mkcivil y m d hh mi 0, r)))))))))).

Definition parse_layout (layout : nat) (s : bytes) : option (civil * bytes) :=
  match layout with
  | O | S O =>
      bind_o (index_name day_names (firstn 3 s) 0) (fun _ =>
      bind_o (expect [44%N; 32%N] (skipn 3 s)) (fun r => parse_dmy_hm (Nat.eqb layout 0) r))
  | _ => parse_dmy_hm true s
  end.

(* timeparse: the first layout that applies *)
Definition timeparse (s : bytes) : option (civil * bytes) :=
  match parse_layout 0 s with
  | Some x => Some x
  | None => match parse_layout 1 s with
            | Some x => Some x
            | None => parse_layout 2 s
            end
  end.

(* ---- tzoff ------------------------------------------------------------------------------------------------ *)
Definition tzoff (s : bytes) : option Z :=
  match s with
  | sg :: r =>
      let sign := if (sg =? 43)%N then Some 1 else if (sg =? 45)%N then Some (-1) else None in
      bind_o sign (fun sign =>
      bind_o (take2 r) (fun '(hh, r1) =>
      if 23 <? hh then None else
      bind_o (take2 r1) (fun '(mm, _) =>
      if 59 <? mm then None else Some (sign * (hh * 3600 + mm * 60)))))
  | [] => None
  end.

Definition is_utc_name (s : bytes) : bool :=
  beq_bytes s [71;77;84]%N || beq_bytes s [85;84]%N || beq_bytes s [85;84;67]%N.

(* tzparse: a numeric offset, else a zone name whose offset "now" the platform supplies (0 for GMT / UT / UTC) *)
Definition tzparse (abbr_offset : bytes -> option Z) (s : bytes) : option Z :=
  match tzoff s with
  | Some z => Some z
  | None => match s with [] => None | _ => abbr_offset s end
  end.

Definition skip_sp (s : bytes) : bytes := skip_blanks s.

(* time_parse after the repair: the broken-down time is read as UTC (timegm) and the zone is subtracted *)
Definition time_parse (abbr_offset : bytes -> option Z) (s : bytes) : option Z :=
  bind_o (timeparse s) (fun '(c, rest) =>
  bind_o (tzparse abbr_offset (skip_sp rest)) (fun tz => Some (epoch_of c - tz))).

(* the formula before the repair: mktime in the local zone (loc t = UTC offset of the local zone at the instant
   t; mk = the instant whose local civil time is c), the zone subtracted and the local offset *now* added *)
Definition time_parse_old (mk : civil -> Z) (loc_now : Z) (abbr_offset : bytes -> option Z) (s : bytes) : option Z :=
  bind_o (timeparse s) (fun '(c, rest) =>
  bind_o (tzparse abbr_offset (skip_sp rest)) (fun tz => Some (mk c - tz + loc_now))).

(* ---- expr_eval_date ------------------------------------------------------------------------------------------ *)
Definition date_cond (gt : bool) (now tim age : Z) : bool :=
  let delta := now - tim in
  if gt then age <? delta else delta <? age.
