(* Line-protocol driver around the extracted model.  One request per line:
     <cmd> <hexarg> ...        ("-" is the empty string)
   One response line per request. *)
open Mdmodel

let rec pos_of_int n = if n = 1 then XH else if n land 1 = 0 then XO (pos_of_int (n lsr 1)) else XI (pos_of_int (n lsr 1))
let n_of_int n = if n = 0 then N0 else Npos (pos_of_int n)
let rec int_of_pos = function XH -> 1 | XO p -> 2 * int_of_pos p | XI p -> 2 * int_of_pos p + 1
let int_of_n = function N0 -> 0 | Npos p -> int_of_pos p
let rec nat_of_int n = if n <= 0 then O else S (nat_of_int (n - 1))
let rec int_of_nat = function O -> 0 | S n -> 1 + int_of_nat n

let unhex s =
  if s = "-" then [] else begin
    let n = String.length s / 2 in
    let rec go i acc = if i < 0 then acc else go (i - 1) (n_of_int (int_of_string ("0x" ^ String.sub s (2 * i) 2)) :: acc) in
    go (n - 1) [] end
let hex l =
  if l = [] then "-" else begin
    let b = Buffer.create 64 in
    List.iter (fun x -> Buffer.add_string b (Printf.sprintf "%02x" ((int_of_n x) land 255))) l;
    Buffer.contents b end

let handle cmd args =
  match cmd, args with
  | "b64", [s] -> (match base64_decode (unhex s) with
                   | Some o -> "S " ^ hex (cview o) | None -> "N")
  | "b64raw", [s] -> (match base64_decode_raw (unhex s) with
                   | B64Ok o -> "S " ^ hex o | B64Err -> "N" | B64Bound -> "BOUND")
  | "qp", [s] -> "S " ^ hex (cview (quoted_printable_decode (unhex s)))
  | "r2047", [s] -> "S " ^ hex (cview (rfc2047_decode (unhex s)))
  | "msg", file :: _name :: ops ->
      (match parse_message (unhex file) with
       | None -> "FUEL"
       | Some m0 ->
           let m = ref m0 in
           let out = List.map (fun op ->
             let arg = String.sub op 1 (String.length op - 1) in
             match op.[0] with
             | 'G' -> (match get_header (!m).m_headers (unhex arg) with
                       | None -> "GN"
                       | Some vs -> "G" ^ string_of_int (List.length vs) ^ String.concat "" (List.map (fun v -> "," ^ hex v) vs))
             | 'S' -> (match String.split_on_char ':' arg with
                       | [k; v] -> m := { !m with m_headers = set_header (!m).m_headers (unhex k) (unhex v) }; "S"
                       | _ -> "?")
             | 'W' -> let (b, m') = message_write !m in m := m'; "W" ^ hex b
             | 'B' -> (match get_body !m with BOk b -> "B" ^ hex b | BNull -> "BN" | BFuel -> "BFUEL")
             | 'A' -> (match get_attachments !m with
                       | AErr -> "AN" | AFuel -> "AFUEL"
                       | AOk l -> "A" ^ string_of_int (List.length l) ^ String.concat "" (List.map (fun a ->
                             let (b, _) = message_write a in
                             "," ^ hex b ^ ";" ^ (match get_body a with BOk b -> hex b | BNull -> "N" | BFuel -> "FUEL")) l))
             | _ -> "?") ops in
           String.concat " " out)
  | _ -> "ERR unknown command " ^ cmd

let () =
  try
    while true do
      let line = input_line stdin in
      match String.split_on_char ' ' (String.trim line) with
      | [] | [""] -> print_string "\n"
      | cmd :: args -> print_string (handle cmd args); print_char '\n'
    done
  with End_of_file -> ()
