(* C10 - header conditions see headers the way a mail reader does.
   Statements only; proofs are in SearchProofs.v, RewriteProofs.v, HeaderCondProofs.v, DecodeProofs.v. *)
From MD Require Import Bytes Generated DecodeDefs DecodeSpec DecodeProofs HeaderDefs HeaderSpec OrderProofs SearchProofs
  ParseProofs RewriteProofs HeaderCondProofs.

(* The condition "header { names } /pattern/" on a parsed well-formed message is true iff the
   pattern (rx = the platform's regexec with the compiled pattern; any function) matches the
   decoded, unfolded value of at least one occurrence of one of the named fields, names compared
   case-insensitively.  Holds for any number and order of fields, duplicates, mixed case. *)
Theorem C10_header_cond : forall (rx : bytes -> option (list (nat * nat))) fs names,
  eval_header rx (sort_key (hdrs_of 0 fs)) names <> None <->
  exists n f, In n names /\ In f fs /\ caseeq n (f_key f) = true /\ rx (decodeheader (f_val f)) <> None.
Proof. exact eval_header_iff. Qed.
Print Assumptions C10_header_cond.

(* message_get_header returns the values of exactly the occurrences of the name, in file order *)
Theorem C10_get_header : forall fs name,
  get_header (sort_key (hdrs_of 0 fs)) name =
  nonempty_opt (map decodeheader (map f_val (filter (fun f => caseeq name (f_key f)) fs))).
Proof. exact get_header_parsed. Qed.
Print Assumptions C10_get_header.

(* the binary search + run extension on ANY key-sorted table (qsort contract: any sorted
   permutation) finds exactly the run of equal names and never indexes outside the table *)
Theorem C10_searchheader_run : forall key l1 l2 l3, Seg key l1 l2 l3 ->
  searchheader (l1 ++ l2 ++ l3) key =
  match l2 with [] => SNotFound | _ => SFound (length l1) (length l2) end.
Proof. exact searchheader_seg. Qed.
Print Assumptions C10_searchheader_run.

Theorem C10_searchheader_in_bounds : forall tbl name, SortedK tbl -> searchheader tbl name <> SOOB.
Proof. exact searchheader_in_bounds. Qed.
Print Assumptions C10_searchheader_in_bounds.

(* a folded value is one logical line: physical lines concatenated, leading tabs of each removed;
   the result contains no newline *)
Theorem C10_unfold : forall s,
  unfoldheader s = if existsb (fun c => N.eqb c 10) s then concat (map strip_tabs (lines_of s)) else s.
Proof. exact unfoldheader_spec. Qed.
Print Assumptions C10_unfold.

Theorem C10_unfold_one_line : forall s, Forall (fun c => c <> 10%N) (unfoldheader s).
Proof. exact unfoldheader_no_newline. Qed.
Print Assumptions C10_unfold_one_line.

(* encoded words are decoded before matching, a malformed one leaves the raw value (from C16) *)
Theorem C10_raw_on_malformed : forall s,
  r2047_loop (S (length s)) s = Some None -> rfc2047_decode s = s.
Proof. exact rfc2047_raw_on_malformed. Qed.
Print Assumptions C10_raw_on_malformed.

Example C10_ex_unfold :
  unfoldheader (ascii [97; 10; 32; 98; 10; 9; 99; 10; 9; 32; 100]%nat) = ascii [97; 32; 98; 99; 32; 100]%nat.
Proof. vm_compute. reflexivity. Qed.
