(* C07 - hostile message content cannot corrupt memory, crash or hang mdsort.   (PARTIAL)
   What is proved here, for EVERY byte string:
   (1) termination: every consumer of message bytes in the model is total - the fuel the models are
       started with is never exhausted (header parsing, boundary scanning, the part loop, the
       recursive flattening, body selection, RFC 2047 and the interpolation scanner);
   (2) bounds: the index-level renderings of the NUL-terminated scanners of message.c (findheader,
       unfoldheader, skipline / findboundary, parseboundary, skipseparator, and the strncmp / strchr /
       strspn / strlen reads they are made of) never read beyond the terminator and never write
       beyond the allocation; the binary search never indexes outside the header table; the base64
       output fits the buffer allocated for it;
   (3) refinement: the index-level findheader and findboundary compute exactly what the list-level
       models compute (those are the models the correspondence checks compare with the code);
   (4) handles: with the statement that re-derives msg from its index after every growth of the
       attachment table, no stale pointer into the table is ever dereferenced; without it one is
       (the defect F-09 repaired in /repo by 6186a8d).
   NOT proved, and not provable here: memory safety of the compiled binary (libc internals, the
   allocator, pointer provenance, signed overflow).  For that the check runs the implementation
   under AddressSanitizer + UBSan with a time limit on generated hostile inputs: a test. *)
From MD Require Import Bytes Generated DecodeDefs DecodeSpec DecodeProofs HeaderDefs HeaderSpec MimeDefs OrderProofs SearchProofs
  InterpDefs InterpProofs ScanDefs ScanProofs ScanRefine TotalProofs.

(* ---- (1) termination -------------------------------------------------------------------------- *)
Theorem C07_parse_total : forall file, parse_message file <> None.
Proof. exact parse_message_total. Qed.
Print Assumptions C07_parse_total.

Theorem C07_attachments_total : forall m, get_attachments m <> AFuel.
Proof. exact get_attachments_total. Qed.
Print Assumptions C07_attachments_total.

Theorem C07_body_total : forall m, get_body m <> BFuel.
Proof. exact get_body_total. Qed.
Print Assumptions C07_body_total.

Theorem C07_rfc2047_total : forall s, r2047_loop (S (length s)) s <> None.
Proof. exact rfc2047_total. Qed.
Print Assumptions C07_rfc2047_total.

Theorem C07_interpolation_total : forall ctx s, interpolate (S (length s)) ctx s <> None.
Proof. exact interp_total. Qed.
Print Assumptions C07_interpolation_total.

(* ---- (2) bounds --------------------------------------------------------------------------------- *)
Theorem C07_findheader_in_bounds : forall s i, (i <= length s)%nat ->
  exists r, ix_findheader s i = Done r /\
    match r with
    | Some (kend, vbeg, vend) => (i <= kend /\ kend < vbeg /\ vbeg <= vend /\ vend < length s)%nat
    | None => True
    end.
Proof. exact ix_findheader_safe. Qed.
Print Assumptions C07_findheader_in_bounds.

Theorem C07_findboundary_in_bounds : forall b s, nonulb b = true -> forall fuel i (skip : bool), (i <= length s)%nat ->
  (length s - i + (if skip then O else 1%nat) < fuel)%nat ->
  exists r, ix_findboundary fuel b s i skip = Done r /\
            match r with Some (p, _) => (i <= p < length s)%nat | None => True end.
Proof. exact ix_findboundary_safe. Qed.
Print Assumptions C07_findboundary_in_bounds.

Theorem C07_unfoldheader_in_bounds : forall s, exists l, ix_unfoldheader s = Done l.
Proof. exact ix_unfoldheader_safe. Qed.
Print Assumptions C07_unfoldheader_in_bounds.

Theorem C07_parseboundary_in_bounds : forall s,
  exists r, ix_parseboundary s = Done r /\
    match r with IPB b l => (b + l <= length s /\ 0 < l)%nat | _ => True end.
Proof. exact ix_parseboundary_safe. Qed.
Print Assumptions C07_parseboundary_in_bounds.

Theorem C07_skipseparator_in_bounds : forall s, exists j, ix_skipseparator s = Done j /\ (j <= length s)%nat.
Proof. exact ix_skipseparator_safe. Qed.
Print Assumptions C07_skipseparator_in_bounds.

Theorem C07_searchheader_in_bounds : forall tbl name, SortedK tbl -> searchheader tbl name <> SOOB.
Proof. exact searchheader_in_bounds. Qed.
Print Assumptions C07_searchheader_in_bounds.

Theorem C07_base64_fits : forall s o, base64_decode s = Some o -> (length o <= length s)%nat.
Proof. exact base64_decode_fits. Qed.
Print Assumptions C07_base64_fits.

Theorem C07_base64_target_never_exceeded : forall s, base64_decode_raw s <> B64Bound.
Proof. exact base64_decode_no_bound. Qed.
Print Assumptions C07_base64_target_never_exceeded.

(* ---- (3) refinement to the models tied to the code ------------------------------------------------ *)
Theorem C07_findheader_refines : forall s i, nonulb s = true -> (i <= length s)%nat ->
  match findheader (skipn i s) with
  | FH k v rest => exists kend vbeg vend, ix_findheader s i = Done (Some (kend, vbeg, vend)) /\
                     k = slice s i kend /\ v = slice s vbeg vend /\ rest = skipn (S vend) s
  | FHNone | FHTrunc _ => ix_findheader s i = Done None
  end.
Proof. exact ix_findheader_ref. Qed.
Print Assumptions C07_findheader_refines.

Theorem C07_findboundary_refines : forall b s, nonulb s = true -> nonulb b = true ->
  forall fuel i (skip : bool) r, (i <= length s)%nat ->
  ix_findboundary fuel b s i skip = Done r ->
  findboundary fuel b (skipn i s) skip = Some (lift s r).
Proof. exact ix_findboundary_ref. Qed.
Print Assumptions C07_findboundary_refines.

(* ---- (4) handles into the attachment table ---------------------------------------------------------- *)
Theorem C07_handles_valid : forall t msg st, valid st msg = true -> pa_walk true t msg st <> None.
Proof. exact pa_walk_valid. Qed.
Print Assumptions C07_handles_valid.

(* the code before 6186a8d (no re-derivation): a multipart inside a multipart inside the message *)
Theorem C07_handles_without_rederive_refuted :
  exists t, pa_walk false t None (mktbl 0 0) = None.
Proof. exists (PNode [PNode [PNode []]]). exact pa_walk_stale_witness. Qed.
Print Assumptions C07_handles_without_rederive_refuted.

(* non-vacuity: a concrete header line, a concrete multipart body *)
Example C07_example_findheader :
  ix_findheader (ascii [84;111;58;32;97;10;32;98;10;88;58;49;10]%nat) 0 = Done (Some (2, 4, 8)%nat).
Proof. vm_compute. reflexivity. Qed.
Print Assumptions C07_example_findheader.

Example C07_example_findboundary :
  ix_findboundary 20 (ascii [98]%nat) (ascii [120;10;45;45;98;45;45;10]%nat) 0 false = Done (Some (2%nat, true)).
Proof. vm_compute. reflexivity. Qed.
Print Assumptions C07_example_findboundary.
