"""C06 - dry run predicts the real run and its explanations are true.
Generated messages carry ground truth (decoded header values, decoded body).  For each configuration:
 (1) `mdsort -d` on the population; its stdout is compared line by line with the extracted model
     (InspectDefs.inspect_entry over the match list computed from the ground truth with the platform
     regexec) - the correspondence;
 (2) an independent monitor judges the property itself on the actual output: every explanation refers
     to a configuration line with a pattern/date condition, quotes a line of a decoded value of that
     message and puts ^ / $ under the first / last column of a real match of that pattern; every
     non-empty match of the rule that fired is shown;
 (3) a real run on an identical copy: the messages acted on, their final places, labels, added headers,
     discards and commands are those the -d lines announce; unlisted messages are untouched."""
import os, re, base64, shutil, time
import common, mdrun, msggen
from common import hexs, unhexs

WORDS_ASCII = [b'hello', b'world', b'say', b'plain text', b'needle', b'foo', b'o', b'hello hello', b'x=y', b'a+b', b'[list]']
WORDS_MB = [b'caf\xc3\xa9', b'\xe6\xbc\xa2\xe5\xad\x97', b'\xf0\x9f\x98\x80 ok', b'na\xc3\xafve hello',
            # bytes that are no complete UTF-8 sequence, directly in front of text the patterns match (Latin-1 text, a cut-off sequence):
            # one column each, and no influence on the lines shown after them
            b'caf\xc3hello', b'R\xe9union hello', b'\xe6\xbchello world', b'Gr\xc3\xbc\xc3\x9fe hello world']
PATTERNS = [(b'hello', False), (b'h(el)lo', False), (b'(w)(or)ld', False), (b' hello', False), (b'HELLO', True), (b'o+', False),
            (b'^say', False), (b'(plain) (text)', False), (b'needle|foo', False), (b'z*', False), (b'caf(\xc3\xa9)', False),
            (b'\xe6\xbc\xa2(\xe5\xad\x97)', False), (b'(\xf0\x9f\x98\x80) ok', False), (b'(x)=(y)?', False), (b'(q)?hello', False),
            (b'  +hello', False), (b'ok$', False),
            # more than nine groups: every one of them that matched something is explained
            (b'(h)(e)(l)(l)(o) (w)(o)(r)(l)(d)', False), (b'(h)(e)(l)(l)(o)( ?)(w)?(o)?(r)?(l)?(d)?', False),
            # matches that may span a line break ([[:space:]] matches a newline even with REG_NEWLINE): the group can sit
            # on a later line than the start of the match
            (b'([a-z]+)[[:space:]]+([a-z]+)', False), (b'o[[:space:]]+([a-z])', False), (b'[[:space:]]+(hello|world|say|foo)', False),
            (b'(text|hello)[[:space:]]+[^[:space:]]+[[:space:]]+([^[:space:]]+)', False)]


def width(b, loc):
    """display columns of a byte string as the two locales define them for the generated characters"""
    if loc == 'C':
        return sum(0 if (c < 32 or c == 127) else 1 for c in b)
    w = 0
    for ch in b.decode('utf-8', errors='surrogateescape'):
        o = ord(ch)
        if 0xdc80 <= o <= 0xdcff:
            w += 1
        elif o < 32 or 127 <= o < 160:
            w += 0
        elif 0x300 <= o <= 0x36f:
            w += 0
        elif 0x1100 <= o <= 0x115f or 0x2e80 <= o <= 0xa4cf or 0xac00 <= o <= 0xd7a3 or 0xf900 <= o <= 0xfaff or 0x1f300 <= o <= 0x1faff or 0x20000 <= o <= 0x3fffd:
            w += 2
        else:
            w += 1
    return w


def gen_message(rng, i):
    """-> (text, truth) with truth = {'headers': {name: [decoded values]}, 'body': decoded body}"""
    hs = []
    truth = {}
    for name in [b'To', b'Subject', b'X-A', b'Subject'][:rng.choice([2, 3, 3, 4])] + ([b'X-Label'] if rng.randrange(2) else []):
        words = [rng.choice(WORDS_ASCII + WORDS_MB) for _ in range(rng.randrange(1, 5))]
        decoded = b' '.join(words)
        raw_words = []
        for w in words:
            if rng.randrange(5) == 0 and b' ' not in w:
                raw_words.append(msggen.enc_word(rng, w))
            else:
                raw_words.append(w)
        # an encoded word next to another encoded word would lose the blank between them
        for k in range(1, len(raw_words)):
            if raw_words[k].startswith(b'=?') and raw_words[k - 1].startswith(b'=?'):
                raw_words[k] = words[k]
        raw = raw_words[0]
        for w in raw_words[1:]:
            raw += rng.choice([b' ', b' ', b' ', b'\n ', b'\n\t ']) + w
        if b'=?' in decoded or b'?=' in decoded:
            continue
        hs.append(name + b': ' + raw)
        truth.setdefault(name, []).append(decoded)
    hs.append(b'X-Id: %d' % i)
    if rng.randrange(3) == 0:
        z = rng.choice([b'+0000', b'+0000', b'EST', b'CET', b'PST', b'GMT', b'-0330'])
        hs.append(b'Date: Mon, 1 Jan 2024 10:00:00 ' + z)
        truth[b'Date'] = [b'Mon, 1 Jan 2024 10:00:00 ' + z]
    lines = []
    for _ in range(rng.randrange(1, 6)):
        ind = rng.choice([b'', b'', b' ', b'   ', b'\t', b' \t ', b'        '])
        lines.append(ind + b' '.join(rng.choice(WORDS_ASCII + WORDS_MB) for _ in range(rng.randrange(1, 4))))
    body = b'\n'.join(lines) + b'\n'
    if rng.randrange(5) == 0 and not any(l.lstrip(b' \t').startswith(b'--') for l in lines):
        # multipart/alternative: the body conditions see the text/plain part, decoded by ITS transfer encoding (also: none at all)
        penc = rng.choice([None, b'7bit', b'8bit', b'base64', b'quoted-printable'])
        plain = b'Content-Type: text/plain; charset=utf-8\n' + (b'Content-Transfer-Encoding: ' + penc + b'\n' if penc else b'') + b'\n' + \
                (msggen.encode_body(rng, body, penc) if penc in (b'base64', b'quoted-printable') else body)
        if not plain.endswith(b'\n'):
            plain += b'=\n' if penc == b'quoted-printable' else b'\n'
        html = b'Content-Type: text/html\n\n<p>hello world needle</p>\n'
        parts = [html, plain] if rng.randrange(2) else [plain, html]
        hs.append(b'Content-Type: multipart/alternative; boundary="altb"')
        rng.shuffle(hs)
        text = b'\n'.join(hs) + b'\n\npreamble hello\n' + b''.join(b'--altb\n' + p_ for p_ in parts) + b'--altb--\n'
        return text, {'headers': truth, 'body': body}
    enc = rng.choice([None, None, b'base64', b'quoted-printable'])
    if enc:
        hs.append(b'Content-Transfer-Encoding: ' + enc)
    rng.shuffle(hs)
    text = b'\n'.join(hs) + b'\n\n' + msggen.encode_body(rng, body, enc)
    if enc == b'quoted-printable' and not text.endswith(b'\n'):
        text += b'=\n'
    return text, {'headers': truth, 'body': body}


def gen_rules(rng, dst, dst2, helper):
    """-> list of rule dicts: conds [(kind, keys, pat, icase)], actions [(kind, arg)], text"""
    rules = []
    for r in range(rng.choice([1, 2, 2, 3])):
        conds = []
        for c in range(rng.choice([1, 1, 2, 3])):
            pat, ic = rng.choice(PATTERNS)
            k = rng.randrange(10)
            if k < 4:
                keys = rng.choice([[b'Subject'], [b'To', b'Subject'], [b'X-A'], [b'Subject', b'X-A', b'To'], [b'X-Label'], [b'X-Label', b'Subject']])
                conds.append(('header', keys, pat, ic))
            elif k < 8:
                conds.append(('body', [b'Body'], pat, ic))
            elif k == 8:
                conds.append(rng.choice([('date', [b'Date'], b'.*', False), ('datemod', [b'*mtime'], b'.*', False), ('datecre', [b'*ctime'], b'.*', False)]))
            else:
                conds.append(('negnone', [], b'', False))
        if rng.randrange(4) == 0:
            # the Date header (possibly with a zone abbreviation) is parsed before a file time is shown
            conds = [('date', [b'Date'], b'.*', False), rng.choice([('datemod', [b'*mtime'], b'.*', False), ('datecre', [b'*ctime'], b'.*', False)])] + conds[:1]
        acts = []
        a = rng.randrange(12)
        if a == 10:
            # a flags action after an action that moves the message: wherever the pair takes the message, -d says so
            acts = [('move', dst2), ('flags', 'T')]
        elif a == 11:
            acts = [('label', b'lab%d' % r), ('move', dst), ('flags', 'F')]
        elif a == 8:
            acts = [('add-header', (b'Subject', b'rewritten %d' % r)), ('move', dst)]
        elif a == 9:
            acts = [('label', b'lab%d' % r)]
        elif a == 0:
            acts = [('move', dst)]
        elif a == 1:
            acts = [('flag', rng.choice(['new', '!new']))]
        elif a == 2:
            acts = [('label', b'lab%d' % r)]
        elif a == 3:
            acts = [('label', b'lab%d' % r), ('move', dst2)]
        elif a == 4:
            acts = [('discard', None)]
        elif a == 5:
            acts = [('add-header', (b'X-Added', b'v%d' % r)), ('move', dst)]
        elif a == 6:
            acts = [('exec', helper), ('move', dst2)]
        else:
            acts = [('move', dst2), ('flag', 'new')]
        rules.append({'conds': conds, 'acts': acts})
    return rules


def cond_text(c):
    kind, keys, pat, ic = c
    fl = b'i' if ic else b''
    if kind == 'header':
        ks = b'"%s"' % keys[0] if len(keys) == 1 else b'{ ' + b' '.join(b'"%s"' % k for k in keys) + b' }'
        return b'header %s /%s/%s' % (ks, pat, fl)
    if kind == 'body':
        return b'body /%s/%s' % (pat, fl)
    if kind == 'date':
        return b'date header > 1 second'
    if kind == 'datemod':
        return b'date modified > 1 second'
    if kind == 'datecre':
        return b'date created < 100 years'
    return b'! header "X-None" /x/'


def act_text(a):
    kind, arg = a
    if kind == 'move':
        return b'move "%s"' % arg.encode()
    if kind == 'flag':
        return b'flag ' + arg.encode()
    if kind == 'flags':
        return b'flags "%s"' % arg.encode()
    if kind == 'label':
        return b'label "%s"' % arg
    if kind == 'discard':
        return b'discard'
    if kind == 'add-header':
        return b'add-header "%s" "%s"' % arg
    return b'exec "%s"' % arg.encode()


def evaluate(rules, truth, loc='C'):
    """ground-truth evaluation -> (index of the rule that fires | None | 'E', entries appended to the match list in order)
    entry = (rule index, [candidate (key, value, groups)]): the implementation records the first candidate that
    matches in ITS value order; any of them is a true explanation"""
    entries = []
    queries = []
    plan = []
    for ri, rule in enumerate(rules):
        for ci, c in enumerate(rule['conds']):
            kind, keys, pat, ic = c
            if kind in ('header', 'date', 'datemod', 'datecre'):
                for k in keys:
                    for v in truth['headers'].get(k, []):
                        plan.append((ri, ci, b'Date' if k.startswith(b'*') else k, v)); queries.append((ic, pat, v))
            elif kind == 'body':
                plan.append((ri, ci, b'Body', truth['body'])); queries.append((ic, pat, truth['body']))
    res = common.regex_eval(queries, loc) if queries else []
    table = {}
    for (ri, ci, k, v), r in zip(plan, res):
        table.setdefault((ri, ci), []).append((k, v, r))
    for ri, rule in enumerate(rules):
        ok = True
        for ci, c in enumerate(rule['conds']):
            kind = c[0]
            if kind == 'negnone':
                continue
            cands = []
            for k, v, r in table.get((ri, ci), []):
                if r == 'E':
                    return 'E', entries
                if r is not None:
                    cands.append((k, v, r))
            if not cands:
                ok = False; break
            # header conditions try the names in the configured order: only values of the first name with a match can be recorded
            first_key = cands[0][0]
            entries.append((ri, [cd for cd in cands if cd[0] == first_key]))
        if ok:
            return ri, entries
    return None, entries


def expected_pairs(ri, cand, loc):
    """the monitor's own rendering of one candidate: [(line number, key, quoted text, ^ column, $ column relative to the text)]
    (a match that spans lines is rendered like any other: the line its first character is on is quoted, the markers
    are placed by the display width of the matched text); None if a match begins with a line break"""
    key, v, groups = cand
    out = []
    for so, eo in groups:
        if so == eo or so < 0:
            continue
        if v[so:so + 1] == b'\n':
            return None         # a match that BEGINS with a line break: which line is "its" line is not defined by the property
        ls = v.rfind(b'\n', 0, so) + 1
        le = v.find(b'\n', so)
        if le < 0:
            le = len(v)
        t = ls
        while t < so and v[t] in b' \t':
            t += 1
        caret = width(v[t:so], loc)
        out.append((ri + 2 + _off[0], key, v[t:le], caret, caret + max(width(v[so:eo], loc), 2) - 1))
    return out


MARK = re.compile(rb'^( *)\^( *)\$$')


def parse_blocks(out, paths, conf):
    """-d stdout -> {message path: [(action text, [(lno, key, quoted, ^ col, $ col, raw text line, raw marker line)])]}"""
    res = {}
    cur = None
    lines = out.split(b'\n')
    if lines and lines[-1] == b'':
        lines.pop()
    keyed = re.compile(rb'^' + re.escape(conf.encode()) + rb':(\d+): ([^:\n]*): ')
    last = None
    i = 0
    while i < len(lines):
        ln = lines[i]
        m = None
        for p in paths:
            if ln.startswith(p + b' -> '):
                m = p; break
        if m is not None:
            cur = (ln[len(m) + 4:], [])
            res.setdefault(m, []).append(cur)
            last = None
            i += 1
            continue
        if cur is None or i + 1 >= len(lines):
            return None
        mk = MARK.match(lines[i + 1])
        if not mk:
            return None
        km = keyed.match(ln)
        if km:
            last = (int(km.group(1)), km.group(2), len(km.group(0)))
        elif last is None or not ln.startswith(b' ' * last[2]):
            return None
        lno, key, pind = last
        c = len(mk.group(1)); d = c + 1 + len(mk.group(2))
        cur[1].append((lno, key, ln[pind:], c - pind, d - pind, ln, lines[i + 1]))
        i += 2
    return res


_off = [0]          # lines the rules are shifted down by what precedes them in the block


def one_round(ck, rng, stats, samples):
    loc = rng.choice(['C', 'C.UTF-8'])
    tzname, tzoff = rng.choice([(None, 0), (None, 0), ('JST-9', 9 * 3600), ('NZST-12', 12 * 3600), ('EST5', -5 * 3600)])     # fixed offsets: no DST rules needed
    sb = mdrun.Sandbox()
    src = sb.maildir('src'); dst = sb.maildir('dst'); dst2 = sb.maildir('dst2')
    helper = common.rec_helper()
    rules = gen_rules(rng, dst, dst2, helper)
    conf_lines = [b'maildir "%s" {' % src.encode()]
    # what precedes the rules must not disturb the line numbers of the explanations: comments, empty lines, a rule (that never
    # matches) whose string or pattern continues on the next line - with and without a backslash in front of the line break
    pre = rng.choice([None, None, b'\t# a comment', b'', b'\tmatch header "X-Never" /zzz/ exec { "sh" "-c" "true \\\n\t\ttrue" }',
                      b'\tmatch header "X-Never" /zzz/ exec { "sh" "-c" "true\n\t\ttrue" }', b'\tmatch header "X-Never" /zzz\\\nyyy/ move "%s"' % dst.encode(),
                      b'\tmatch header "X-Never" /zzz/ exec { "a\\\n" "b\\\n" "c" } # three'])
    _off[0] = 0
    if pre is not None:
        conf_lines.append(pre)
        _off[0] = pre.count(b'\n') + 1
    for r in rules:
        conf_lines.append(b'\tmatch ' + b' and '.join(cond_text(c) for c in r['conds']) + b' ' + b' '.join(act_text(a) for a in r['acts']))
    conf_lines.append(b'}')
    conf = sb.write_conf(b'\n'.join(conf_lines) + b'\n')
    msgs = {}
    for i in range(8):
        text, truth = gen_message(rng, i)
        sub = rng.choice(['new', 'cur'])
        mt = 1600000000 + rng.randrange(100000)
        nm = sb.add(src, sub, text, mtime=mt)
        st = os.stat(os.path.join(src, sub, nm))
        fmt = lambda t: time.strftime('%a, %d %b %Y %H:%M:%S', time.gmtime(t + tzoff)).encode()       # file times are shown in the local zone of the run
        truth['headers'][b'*mtime'] = [fmt(int(st.st_mtime))]
        truth['headers'][b'*ctime'] = [fmt(int(st.st_ctime))]
        msgs[os.path.join(src, sub, nm).encode()] = (i, text, truth, sub, nm)
    env = {'LC_ALL': loc}
    if tzname:
        env['TZ'] = tzname
    rc, out, err = sb.run(['-d'], conf=conf, env=env)
    stats['runs'] += 1
    rep = {'locale': loc, 'config': (b'\n'.join(conf_lines)).decode(errors='replace'), 'stdout': out.decode(errors='replace')[:3000],
           'stderr': err[-300:].decode(errors='replace'), 'messages_hex': {p.decode(): hexs(m[1]) for p, m in msgs.items()}}
    blocks = parse_blocks(out, list(msgs), conf)
    if blocks is None:
        ck.violation('the -d output cannot be split into "message -> destination" lines and line/marker pairs', rep)
        sb.cleanup(); return
    # ---- the monitor: ground truth + platform regexec ------------------------------------------------------------------------
    model = common.model_exe()
    reqs = []
    for p, (i, text, truth, sub, nm) in msgs.items():
        fired, entries = evaluate(rules, truth, loc)
        got = blocks.get(p, [])
        stats['msgs'] += 1
        if fired == 'E':
            continue
        why = None
        if fired is None:
            if got:
                why = 'no rule matches the decoded content, yet -d lists %r' % [g[0] for g in got]
        else:
            stats['nontrivial'] += 1
            acts = rules[fired]['acts']
            shown = [pr for g in got for pr in g[1]]
            # move and flag are merged into one destination (matches_merge): one line for all of them
            nacts = len([a for a in acts if a[0] not in ('move', 'flag')]) + (1 if any(a[0] in ('move', 'flag') for a in acts) else 0)
            if len(got) != nacts:
                why = 'rule %d has %d action(s) (destinations merged), -d lists %d line(s)' % (fired + 1, nacts, len(got))
            else:
                allowed = []
                skip = False
                for ri, cands in entries:
                    per = [expected_pairs(ri, cd, loc) for cd in cands]
                    if any(x is None for x in per):
                        stats['multiline'] += 1
                        skip = True; break
                    for x in per:
                        allowed += x
                    if ri == fired and not any(all(pr in [s5[:5] for s5 in shown] for pr in x) for x in per):
                        why = 'a non-empty match of the rule that fired is not shown where it is: expected one of %r; shown %r' % (
                            [[(q[-50:], c, d) for (l, k, q, c, d) in x] for x in per][:2], [(s5[2][-50:], s5[3], s5[4]) for s5 in shown][:4])
                if not skip and why is None:
                    for s5 in shown:
                        if s5[:5] not in allowed:
                            why = 'the explanation %r / %r (line %d, %s) is no match of a pattern of that configuration line on a decoded line of the message' % (
                                s5[5][-80:], s5[6][-80:], s5[0], s5[1].decode(errors='replace'))
                            break
        if why:
            stats['viol'] += 1
            if stats['viol'] <= 3:
                r2 = dict(rep); r2['message'] = p.decode(); r2['message_hex'] = hexs(text)
                ck.violation('%s (%s, message X-Id %d)' % (why, loc, i), r2)
            continue
        # correspondence with the model: the exact lines of every shown entry
        k = 0
        shown = [pr for g in got for pr in g[1]]
        while k < len(shown):
            lno, key = shown[k][0], shown[k][1]
            j = k
            grp = []
            while j < len(shown) and (j == k or not keyed_line(shown[j][5], conf)):
                grp.append(shown[j]); j += 1
            # find the candidate this entry shows
            cand = None
            for ri, cands in entries:
                if ri + 2 + _off[0] != lno:
                    continue
                for cd in cands:
                    x = expected_pairs(ri, cd, loc)
                    if cd[0] == key and x is not None and [g5[:5] for g5 in grp] == x:
                        cand = cd
            if cand is not None:
                prefix = ('%s:%d: ' % (conf, lno)).encode()
                ms = ';'.join('%d,%d' % ((so, eo) if so >= 0 else (0, 0)) for so, eo in cand[2])
                reqs.append((p, grp, 'inspect %s %s %s %s %s' % ('utf8' if loc != 'C' else 'c', hexs(prefix), hexs(key), hexs(cand[1]), ms)))
            k = j
    if reqs:
        mout, _ = common.run_lines(model, [r for p, g, r in reqs])
        for (p, grp, r), o in zip(reqs, mout):
            ls = [] if o == '-' else [b'' if h == 'e' else unhexs(h) for h in o.split(',')]
            act = [x for g5 in grp for x in (g5[5], g5[6])]
            stats['model_entries'] += 1
            if ls != act:
                stats['dis'] += 1
                if stats['dis'] <= 3:
                    r2 = dict(rep); r2['message'] = p.decode(); r2['obligation'] = 'correspondence InspectDefs'; r2['request'] = r
                    ck.violation('correspondence broken (InspectDefs): -d prints %r, the model %r' % (act[:4], ls[:4]), r2, found_input=False)
    # ---- the real run ----------------------------------------------------------------------------------
    hout = os.path.join(sb.root, 'helper-out'); os.makedirs(hout)
    # the dry run changed nothing (C05), so the same tree is the identical copy; the state before is in msgs
    rc2, out2, err2 = sb.run([], conf=conf, env={'LC_ALL': loc, 'VERIF_HELPER_OUT': hout})
    stats['runs'] += 1
    calls = common.helper_calls(hout)
    after = {}
    for mdn in ('src', 'dst', 'dst2'):
        for (sub, n), b in sb.snapshot(os.path.join(sb.root, mdn)).items():
            m = re.search(rb'^X-Id: (\d+)$', b, re.M)
            if m:
                after.setdefault(int(m.group(1)), []).append((mdn, sub, n, b))
    nexec = 0
    for p, (i, text, truth, sub, nm) in msgs.items():
        got = blocks.get(p, [])
        places = after.get(i, [])
        why = None
        labels = [g[0] for g in got]
        if not got:
            if len(places) != 1 or places[0][:3] != ('src', sub, nm) or places[0][3] != text:
                why = 'not listed by -d but changed by the real run: now %r' % [pl[:3] for pl in places]
        else:
            if b'<discard>' in labels:
                if places:
                    why = '-d announces <discard>, the real run left %r' % [pl[:3] for pl in places]
            else:
                dests = [l for l in labels if not l.startswith(b'<')]
                if len(places) != 1:
                    why = '-d lists %r, after the real run the message exists %d times' % (labels, len(places))
                else:
                    mdn, s2, n2, b2 = places[0]
                    if dests:
                        want = dests[-1].decode()
                        if os.path.join(sb.root, mdn, s2) != want:
                            why = '-d announces destination %s, the real run put the message in %s/%s' % (want, mdn, s2)
                    elif (mdn, s2) != ('src', sub):
                        why = '-d announces no destination, the real run moved the message to %s/%s' % (mdn, s2)
                    if why is None and b'<label>' in labels and not re.search(rb'^X-Label: .*lab\d', b2, re.M):
                        why = '-d announces <label>, the real run added none'
                    if why is None and b'<label>' not in labels and re.findall(rb'^X-Label:.*$', b2, re.M) != re.findall(rb'^X-Label:.*$', text, re.M):
                        why = 'the real run changed the labels, -d does not announce it'
                    if why is None and (b'<add-header>' in labels) != bool(re.search(rb'^(X-Added: v\d|Subject: rewritten \d)', b2, re.M)):
                        why = '-d and the real run disagree about add-header'
            nexec += labels.count(b'<exec>')
        if why:
            r2 = dict(rep); r2['message'] = p.decode(); r2['real_stderr'] = err2[-300:].decode(errors='replace')
            ck.violation('%s (message X-Id %d)' % (why, i), r2)
            break
    if nexec != len(calls) and not ck.violations:
        ck.violation('-d announces %d command execution(s), the real run performed %d' % (nexec, len(calls)), rep)
    if len(samples) < 2 and out:
        samples.append({'locale': loc, 'config': rep['config'], 'stdout': rep['stdout'][:600]})
    sb.cleanup()


def keyed_line(line, conf):
    return line.startswith(conf.encode() + b':')


STDIN_RULES = [
    'match header "X-Archive" /yes/ move "%(A)s" pass\n\tmatch header "Subject" /spam/ reject\n\tmatch all move "%(B)s"',
    'match header "X-Archive" /yes/ label "arch" pass\n\tmatch all move "%(A)s"',
    'match header "Subject" /spam/ reject\n\tmatch all move "%(A)s"',
    'match header "X-Archive" /yes/ add-header "X-Seen" "1" pass\n\tmatch header "Subject" /spam/ reject\n\tmatch all move "%(B)s"',
    'match header "Subject" /spam/ discard\n\tmatch all label "ham" move "%(A)s"',
    'match all {\n\t\tmatch header "X-Archive" /yes/ move "%(A)s" pass\n\t\tmatch header "Subject" /spam/ reject\n\t}\n\tmatch all move "%(B)s"',
]


def stdin_stage(ck, rng, stats):
    """stdin mode: what -d announces for the message (destinations, <label>, <add-header>, <discard>, <reject>) is what the real run does"""
    for rule in STDIN_RULES:
        for arch in (False, True):
            for spam in (False, True):
                msg = b'From: a@example.org\nTo: b@example.org\n' + (b'X-Archive: yes\n' if arch else b'') + \
                      b'Subject: ' + (b'spam offer' if spam else b'hello') + b'\n\nSTDIN-MARK\nbody\n'
                res = []
                for mode in (['-d'], []):
                    sb = mdrun.Sandbox()
                    A = sb.maildir('A'); B = sb.maildir('B')
                    conf = sb.write_conf(('stdin {\n\t%s\n}\n' % (rule % {'A': '@A@', 'B': '@B@'})).replace('@A@', A).replace('@B@', B).encode())
                    rc, out, err = sb.run(mode + ['-'], conf=conf, stdin=msg, env={'LC_ALL': 'C'})
                    files = {'A': [b for b in sb.snapshot(A).values()], 'B': [b for b in sb.snapshot(B).values()]}
                    res.append((rc, out, err, files, A, B))
                    sb.cleanup()
                stats['runs'] += 2; stats['stdin_cases'] = stats.get('stdin_cases', 0) + 1
                (rcd, outd, errd, filesd, Ad, Bd), (rc, out, err, files, A, B) = res
                said = [l.split(b' -> ', 1)[1].strip() for l in outd.split(b'\n') if b' -> ' in l]
                # several destination lines = moves executed one after the other: the message ends where the last one says
                dests = [s_ for s_ in said if s_.startswith(Ad.encode()) or s_.startswith(Bd.encode())]
                want_A = bool(dests) and dests[-1].startswith(Ad.encode())
                want_B = bool(dests) and dests[-1].startswith(Bd.encode())
                want_reject = b'<reject>' in said
                want_label = b'<label>' in said
                want_added = b'<add-header>' in said
                got_A = [b for b in files['A'] if b'STDIN-MARK' in b]
                got_B = [b for b in files['B'] if b'STDIN-MARK' in b]
                why = None
                if filesd['A'] or filesd['B']:
                    why = 'the dry run delivered a message'
                elif (len(got_A) == 1) != want_A or (len(got_B) == 1) != want_B or len(got_A) > 1 or len(got_B) > 1:
                    why = '-d announces %r but the real run delivered %d message(s) to A and %d to B' % (said, len(got_A), len(got_B))
                elif want_reject != (rc == 1):
                    why = '-d announces %r but the real run exits %d' % (said, rc)
                elif want_label and (got_A + got_B) and not any(b'X-Label:' in b for b in got_A + got_B):
                    why = '-d announces a label but the delivered message has none'
                elif want_added and (got_A + got_B) and not any(b'X-Seen: 1' in b for b in got_A + got_B):
                    why = '-d announces add-header but the delivered message lacks the header'
                if why:
                    stats['viol'] += 1
                    ck.violation('stdin mode, rules %r, message archive=%s spam=%s: %s' % (rule, arch, spam, why),
                                 {'stage': 'stdin', 'rule': rule, 'archive': arch, 'spam': spam, 'dry_stdout': outd.decode(errors='replace'),
                                  'real_exit': rc, 'real_stderr': err[-300:].decode(errors='replace')})
                    if stats['viol'] > 3:
                        return


def run(ck):
    rng = ck.rng
    stats = dict(runs=0, msgs=0, nontrivial=0, viol=0, dis=0, multiline=0, model_entries=0)
    stdin_stage(ck, rng, stats)
    samples = []
    n = 120 if ck.tier == 'quick' else 3000
    for i in range(n):
        one_round(ck, rng, stats, samples)
        if len(ck.violations) > 5:
            break
    ck.coverage.update({
        'evaluations': stats['msgs'],
        'distinct_nontrivial': stats['nontrivial'],
        'rule': '8 messages per round with ground truth: 2-4 of To/Subject/X-A (duplicate Subject possible) built from ASCII and multibyte words (2-, 3- and 4-byte UTF-8), '
                'one word in five RFC 2047 encoded, folded with LF+blank / LF+TAB+blank, optional Date; body of 1-5 lines indented by blanks/tabs, plain / base64 / quoted-printable; '
                '1-3 rules of 1-3 and-ed conditions (header with 1-3 names, body, date header, a negation that holds) over %d patterns with capture groups, leading blanks, '
                'alternation, empty matches, icase; actions move / flag / label / label+move / discard / add-header+move / exec+move / move+flag; locales C and C.UTF-8. '
                'Plus 24 stdin-mode cases (6 rule sets with pass / reject / discard / label / add-header / nested block x 4 messages): the -d lines against the delivery and exit status of a real run. non-trivial = a message for which a rule fires (its -d block is judged and compared); counted per message' % len(PATTERNS),
        'samples': samples,
        'traces_validated_against_impl': stats['msgs'],
        'disagreements_checked': stats['dis'],
        'matches_spanning_lines_skipped': stats['multiline'],
        'entries_compared_with_model': stats['model_entries'],
        'stdin_mode_cases': stats.get('stdin_cases', 0),
    })
    ck.assumptions += ['regcomp/regexec, mbtowc and wcwidth of the platform (the C and C.UTF-8 locales)',
                       'display widths of the generated characters: 1 column for ASCII and Latin letters, 2 for CJK ideographs and emoji, 1 per byte in the C locale']


def replay(ck, rp):
    print(rp.get('config')); print(rp.get('stdout'))
    return 1
