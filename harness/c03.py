"""C03 - rules are evaluated with the documented first-match semantics.
Tie: generated rule trees (bounded-exhaustive small ones, random deeper ones) are rendered as
configurations; the truth assignment of the matchers is encoded in the messages (X-A<i>: 0|1), so
one maildir holding the 8 assignments evaluates a tree on all of them.  The extracted evaluator
(EvalDefs.eval over the flat match list) must produce exactly the action list `mdsort -d` prints,
in order, and the final tree of a real run must be the one that list produces.  Monitor: the
documented semantics (EvalDefs.spec_run) against what the real run did; disagreements in unclean
evaluations (T1/T2 pinned by the property text, T3 = F-02) are known findings."""
import itertools, os, re
import common, mdrun, confgen

ACT_TOKEN = {'move:A': 'mA', 'move:B': 'mB', 'flag:new': 'fn', 'flag:cur': 'fc', 'label:x': 'l0', 'label:y': 'l1',
             'addhdr': 'h0', 'flags:T': 'g0', 'discard': 'D', 'exec': 'x0', 'pass': 'P', 'break': 'B'}


def cond_model(c):
    k = c[0]
    if k == 'atom':
        return 'a%d' % c[1]
    if k == 'all':
        return 'T'
    if k == 'neg':
        return '!(%s)' % cond_model(c[1])
    if k in ('and', 'or'):
        return '%s(%s,%s)' % ('&' if k == 'and' else '|', cond_model(c[1]), cond_model(c[2]))
    if k == 'paren':
        return cond_model(c[1])
    if k == 'chain':                      # same precedence, left associative
        out = cond_model(c[1][0])
        for op, x in zip(c[2], c[1][1:]):
            out = '%s(%s,%s)' % ('&' if op == 'and' else '|', out, cond_model(x))
        return out
    raise ValueError(k)


def rules_model(rules):
    out = ''
    for r in rules:
        if r[0] == 'acts':
            out += 'R[%s;%s]' % (cond_model(r[1]), ','.join(ACT_TOKEN[a] for a in r[2]))
        else:
            out += 'K[%s;%s]' % (cond_model(r[1]), rules_model(r[2]))
    return out


def small_trees():
    """bounded-exhaustive family: <= 2 rules per block, depth <= 1, conditions from a small set,
    action lists from a 6-element family"""
    conds = [('atom', 0), ('atom', 1), ('all',), ('neg', ('atom', 0)), ('or', ('atom', 0), ('atom', 1)), ('and', ('atom', 0), ('atom', 2))]
    actl = [['move:A'], ['label:x', 'pass'], ['label:y', 'break'], ['move:B', 'flag:cur'], ['pass'], ['label:x', 'move:B']]
    leaf = [('acts', c, a) for c in conds for a in actl]
    for r1 in leaf[::5]:
        for r2 in leaf[::7]:
            yield [r1, r2]
    for c in conds[:4]:
        for inner in itertools.product(leaf[::6], repeat=2):
            for tail in leaf[::9]:
                yield [('acts', ('all',), ['label:y', 'pass']), ('block', c, list(inner)), tail]


def nested_pass_break_trees():
    """pass and break INSIDE nested blocks (one and two levels deep), followed or not by further rules of the enclosing blocks"""
    conds = [('all',), ('atom', 0), ('atom', 1)]
    actl = [['label:x', 'pass'], ['label:y', 'break'], ['move:A'], ['addhdr', 'move:B'], ['pass'], ['break']]
    leaf = [('acts', c, a) for c in conds for a in actl]
    tails = [None, ('acts', ('all',), ['move:B']), ('acts', ('atom', 2), ['flags:T', 'pass'])]
    for r1, r2 in itertools.product(leaf, repeat=2):
        if not any(a in ('pass', 'break') for a in r1[2] + r2[2]):
            continue
        for oc in (('all',), ('atom', 2)):
            for tail in tails:
                inner = [r1, r2]
                yield [('block', oc, inner)] + ([tail] if tail else [])
                # the same two levels down, with a rule after the inner block inside the middle block
                yield [('block', ('all',), [('block', oc, inner), ('acts', ('atom', 1), ['flags:T', 'pass'])])] + ([tail] if tail else [])


def parse_dry(out, root):
    """-> {message file name: [dest label, ...]} in order"""
    res = {}
    for line in out.decode(errors='replace').split('\n'):
        m = re.match(r'^(\S.*) -> (.*)$', line)
        if m and m.group(1).startswith(root):
            res.setdefault(os.path.basename(m.group(1)), []).append(m.group(2))
    return res


def expected_lines(entries, ctx, own_md, own_sub):
    lines = []
    for e in entries:
        a, d = e.split('@')
        if a[0] in 'mfg':
            md = {'A': ctx['mdA'], 'B': ctx['mdB'], '-': own_md}[d[0]]
            sub = {'c': 'cur', 'n': 'new', '-': own_sub}[d[1]]
            lines.append(md + '/' + sub)
        else:
            lines.append({'l': '<label>', 'h': '<add-header>', 'x': '<exec>', 'D': '<discard>', 'J': '<reject>'}[a[0]])
    return lines


def simulate(acts_with_dest, own_md, own_sub, ctx):
    """final observable state of a message after the listed actions"""
    st = {'md': own_md, 'sub': own_sub, 'labels': [], 'added': False, 'T': False, 'exec': 0, 'gone': False}
    for e in acts_with_dest:
        a, d = (e.split('@') + ['--'])[:2]
        if a[0] == 'l':
            st['labels'].append('x' if a == 'l0' else 'y')
        elif a[0] == 'h':
            st['added'] = True
        elif a[0] == 'x':
            st['exec'] += 1
        elif a == 'D':
            st['gone'] = True
        elif a[0] in 'mfg':
            if a[0] == 'g':
                st['T'] = True
            if d[0] != '-':
                st['md'] = {'A': ctx['mdA'], 'B': ctx['mdB']}[d[0]]
            if d[1] != '-':
                st['sub'] = {'c': 'cur', 'n': 'new'}[d[1]]
    return st


def state_of_summary(sm, own_md, own_sub, ctx):
    """observable state from a summary 'a,b,c@Md' (None -> nothing done)"""
    st = {'md': own_md, 'sub': own_sub, 'labels': [], 'added': False, 'T': False, 'exec': 0, 'gone': False}
    if sm == 'none':
        return st
    acts, d = sm.rsplit('@', 1)
    for a in [x for x in acts.split(',') if x]:
        if a[0] == 'l':
            st['labels'].append('x' if a == 'l0' else 'y')
        elif a[0] == 'h':
            st['added'] = True
        elif a[0] == 'x':
            st['exec'] += 1
        elif a == 'D':
            st['gone'] = True
        elif a[0] == 'g':
            st['T'] = True
    if d[0] != '-':
        st['md'] = {'A': ctx['mdA'], 'B': ctx['mdB']}[d[0]]
    if d[1] != '-':
        st['sub'] = {'c': 'cur', 'n': 'new'}[d[1]]
    return st


def spec_state(acts, own_md, own_sub, ctx):
    """the same from the documented semantics: a plain list of actions (move keeps the subdirectory, flag keeps the maildir)"""
    ents = []
    for a in acts:
        if a in ('mA', 'mB'):
            ents.append(a + '@' + a[1] + '-')
        elif a in ('fn', 'fc'):
            ents.append(a + '@-' + a[1])
        else:
            ents.append(a + '@--')
    st = simulate(ents, own_md, own_sub, ctx)
    if any(a[0] == 'g' for a in acts):
        st['T'] = True
    return st


def observe(sb, ctx, i, helper_out):
    mk = b'MARKER-%04d' % i
    st = None
    for md in (ctx['src'], ctx['mdA'], ctx['mdB']):
        for (sub, n), b in sb.snapshot(md).items():
            if mk in b:
                lab = re.search(rb'^X-Label: (.*)$', b, re.M)
                st = {'md': md, 'sub': sub, 'labels': lab.group(1).decode().split() if lab else [],
                      'added': b'X-Added: yes' in b, 'T': ':2,' in n and 'T' in n.split(':2,')[1], 'gone': False}
    if st is None:
        st = {'gone': True}
    cnt = 0
    for h in os.listdir(helper_out):
        try:
            argv = open(os.path.join(helper_out, h, 'argv'), 'rb').read().split(b'\0')
        except OSError:
            continue
        if len(argv) > 1 and argv[1] == b'm%d' % i:
            cnt += 1
    st['exec'] = cnt
    return st


def same_state(a, b):
    if a.get('gone') or b.get('gone'):
        return bool(a.get('gone')) == bool(b.get('gone')) and a.get('exec', 0) == b.get('exec', 0)
    return all(a[k] == b[k] for k in ('md', 'sub', 'labels', 'added', 'T', 'exec'))


def run_tree(ck, rules, stats, samples):
    sb = mdrun.Sandbox()
    src = sb.maildir('src'); mdA = sb.maildir('mdA'); mdB = sb.maildir('mdB')
    helper, hout = confgen.install_helper(sb)
    ctx = {'src': src, 'mdA': mdA, 'mdB': mdB, 'helper': helper}
    text = confgen.render_conf(rules, ctx)
    # exec identifies the message through a header capture free mechanism: argv[1] = m<i> via the Subject
    text = text.replace('exec { "%s" "ran" }' % helper, 'exec { "%s" "m${sub}" }' % helper)
    envs = confgen.all_envs()
    names = {}
    for i, env in enumerate(envs):
        # one configuration per message would be needed for ${sub}; instead the helper gets the message on stdin
        names[i] = sb.add(src, 'cur', confgen.message_for(env, i), mtime=1500000000 + i)
    text = text.replace('exec { "%s" "m${sub}" }' % helper, 'exec stdin { "%s" "ran" }' % helper)
    conf = sb.write_conf(text)
    tree = rules_model(rules)
    reqs = ['rules %s %s' % (tree, ''.join('1' if v else '0' for v in env)) for env in envs]
    mouts, _ = common.run_lines(common.model_exe(), reqs)
    rc, out, err = sb.run(['-d'], conf=conf)
    stats['runs'] += 1
    dry = parse_dry(out, sb.root)
    rep = {'config': text, 'tree': tree, 'exit': rc, 'stderr': err[-300:].decode(errors='replace')}
    if rc != 0:
        ck.violation('mdsort -d rejects / fails on a generated configuration (exit %d): %r' % (rc, err[-200:]), rep)
        sb.cleanup(); return
    rc2, out2, err2 = sb.run([], conf=conf, env={'VERIF_HELPER_OUT': hout})
    stats['runs'] += 1
    # helper calls: which message was piped
    piped = {}
    for h in os.listdir(hout):
        try:
            data = open(os.path.join(hout, h, 'stdin'), 'rb').read()
        except OSError:
            continue
        m = re.search(rb'MARKER-(\d+)', data)
        if m:
            piped[int(m.group(1))] = piped.get(int(m.group(1)), 0) + 1
    for i, (env, mo) in enumerate(zip(envs, mouts)):
        stats['evals'] += 1
        parts = [p.strip() for p in mo.split('|')]
        model_match = parts[0].startswith('MATCH')
        entries = parts[0].split()[1:] if model_match else []
        spec_acts = parts[1].split()[1:] if parts[1].startswith('ACTS') else None
        msum, ssum = parts[2], parts[3]
        flags = parts[4]
        envs_ = ''.join('1' if v else '0' for v in env)
        rep_i = dict(rep, assignment=envs_, model=mo)
        want = expected_lines(entries, ctx, src, 'cur')
        got = dry.get(names[i], [])
        obs = observe(sb, ctx, i, hout)
        obs['exec'] = piped.get(i, 0)
        exp = state_of_summary(msum, src, 'cur', ctx)
        spec = state_of_summary(ssum, src, 'cur', ctx)
        as_model = (got == want) and same_state(obs, exp)
        if not as_model and got == want and 'T3' in flags and obs.get('T') and not exp.get('T') and not obs.get('gone'):
            # F-02 side effect: `flags "T"` sets the letters on the message when the rule is EVALUATED; they survive the clearing of
            # the match list by a failed negation (T3) and show up in the next name that is generated.  The match-list model does
            # not carry them; under T3 the comparison with the model ignores the letter.
            as_model = same_state(dict(obs, T=False), exp)
        if 'clean' in flags:
            stats['clean'] += 1
        if spec_acts is not None or model_match:
            stats['nontrivial'].add((tree, envs_))
        if as_model:
            # the implementation behaves as the model: judge it by the documented semantics
            if not same_state(obs, spec):
                cls = [t for t in ('T1', 'T2', 'T3') if t in flags]
                key = {'T1': 'F-03-T1-foreign-pass', 'T2': 'F-03-T2-foreign-actions', 'T3': 'F-02-T3-neg-clears-pending'}
                same_selection = all(obs.get(k) == spec.get(k) for k in ('labels', 'added', 'T', 'exec', 'gone'))
                if cls and all(ck.is_known(key[t]) for t in cls):
                    for t in cls:
                        stats[t] += 1
                        ck.known_finding(key[t], 'e.g. assignment %s of %s' % (envs_, tree))
                elif same_selection and ck.is_known('F-21-location-merge'):
                    # same rules fired, same actions selected; only the composed destination differs
                    ck.known_finding('F-21-location-merge', 'e.g. assignment %s of %s' % (envs_, tree))
                else:
                    stats['viol'] += 1
                    if stats['viol'] <= 4:
                        ck.violation('assignment %s: mdsort did %r but the documented semantics give %r (tree %s, events %r)'
                                     % (envs_, obs, spec, tree, flags), rep_i)
        else:
            # the model no longer describes the implementation: search for a concrete failing input
            stats['dis'] += 1
            if not same_state(obs, spec):
                stats['viol'] += 1
                if stats['viol'] <= 4:
                    ck.violation('assignment %s: mdsort did %r (-d listed %r) but the documented semantics give %r; the model of the unchanged '
                                 'evaluator gives %r (tree %s)' % (envs_, obs, got, spec, exp, tree), rep_i)
            elif stats['dis'] <= 3:
                ck.violation('correspondence broken (EvalDefs.eval): assignment %s: mdsort -d lists %r / does %r, the model %r / %r '
                             '(the documented semantics are met)' % (envs_, got, obs, want, exp),
                             dict(rep_i, obligation='correspondence EvalDefs.eval'), found_input=False)
    if len(samples) < 3:
        samples.append({'tree': tree, 'config': text[:400]})
    sb.cleanup()


def bystanders(ck, rng, stats):
    """Files in new/ and cur/ that are not messages - symbolic links (to a matching message file, relative and absolute,
    dangling, to a directory), a sub-directory holding a message, a FIFO - are left exactly as they are, on file systems
    that report file types and on those that do not (DT_UNKNOWN), whatever the rules do with the real messages."""
    import stat as st_, iorun
    MSG = b'To: a@example.org\nSubject: bystander\nX-A0: yes\n\nbody\n'
    rules = ['match all move "%(mdA)s"', 'match all label "x"', 'match all discard', 'match new flag !new\n\tmatch old flag new',
             'match header "Subject" /bystander/ move "%(mdA)s"', 'match all add-header "X-B" "1" move "%(mdA)s"']
    for rule in rules:
        for dtunknown in (False, True):
            sb = mdrun.Sandbox()
            src = sb.maildir('src'); mdA = sb.maildir('mdA')
            outside = os.path.join(sb.root, 'outside'); os.makedirs(outside)
            target = os.path.join(outside, 'target.msg')
            with open(target, 'wb') as f:
                f.write(MSG)
            os.utime(target, (1400000000, 1400000000))
            tdir = os.path.join(outside, 'dir'); os.makedirs(tdir)
            real = []
            for sub in ('new', 'cur'):
                real.append(sb.add(src, sub, MSG.replace(b'bystander', b'bystander real'), mtime=1500000000))
                d = os.path.join(src, sub)
                os.symlink('../../outside/target.msg', os.path.join(d, 'rel-link'))
                os.symlink(target, os.path.join(d, 'abs-link:2,S'))
                os.symlink(os.path.join(outside, 'nowhere'), os.path.join(d, 'dangling'))
                os.symlink(tdir, os.path.join(d, 'dir-link'))
                os.makedirs(os.path.join(d, 'subdir'))
                with open(os.path.join(d, 'subdir', 'inner.msg'), 'wb') as f:
                    f.write(MSG)
                os.mkfifo(os.path.join(d, 'fifo'))

            def survey():
                out = {}
                for sub in ('new', 'cur'):
                    d = os.path.join(src, sub)
                    for n in ('rel-link', 'abs-link:2,S', 'dangling', 'dir-link', 'subdir', 'fifo'):
                        p_ = os.path.join(d, n)
                        try:
                            l = os.lstat(p_)
                            out[(sub, n)] = (st_.S_IFMT(l.st_mode), os.readlink(p_) if st_.S_ISLNK(l.st_mode) else None)
                        except OSError:
                            out[(sub, n)] = None
                    try:
                        out[(sub, 'inner')] = open(os.path.join(d, 'subdir', 'inner.msg'), 'rb').read()
                    except OSError:
                        out[(sub, 'inner')] = None
                out['target'] = (open(target, 'rb').read(), os.stat(target).st_mtime_ns) if os.path.exists(target) else None
                return out
            before = survey()
            conf = sb.write_conf(('maildir "%s" {\n\t%s\n}\n' % (src, rule % {'mdA': mdA})).encode())
            env = {'VFIO_ROOT': sb.root}
            if dtunknown:
                env['VFIO_DTUNKNOWN'] = '1'
            rc, out, err = sb.run([], conf=conf, env=env, preload=iorun.SHIM, timeout=30)
            stats['runs'] += 1; stats['bystander_runs'] = stats.get('bystander_runs', 0) + 1
            after = survey()
            changed = [k for k in before if before[k] != after[k]]
            extra = [n for (sub, n) in sb.snapshot(mdA) if True]
            nmoved = len(sb.snapshot(mdA))
            why = None
            if changed:
                why = 'files that are not messages were changed: %r' % [(k, before[k], after[k]) for k in changed][:3]
            elif nmoved > 2:
                why = '%d files arrived in the destination although the maildir holds 2 messages' % nmoved
            elif rc == -999 or rc < 0:
                why = 'mdsort did not terminate normally (%d)' % rc
            if why:
                stats['viol'] += 1
                ck.violation('non-message files in the maildir (%s, rule %r): %s' % ('file types not reported by readdir' if dtunknown else 'file types reported', rule, why),
                             {'stage': 'bystanders', 'rule': rule, 'dtunknown': dtunknown, 'exit': rc, 'stderr': err[-300:].decode(errors='replace')})
            # the FIFO must not be opened blockingly: reaching this line means it was not
            try:
                os.unlink(os.path.join(src, 'new', 'fifo')); os.unlink(os.path.join(src, 'cur', 'fifo'))
            except OSError:
                pass
            sb.cleanup()
            if stats['viol'] > 3:
                return


def paths_stage(ck, rng, stats):
    """a maildir block applies to exactly the maildirs it names, each of them: paths that are prefixes of one another as
    strings (box / box2), a maildir nested in another (box/.Sub), trailing slashes, several blocks"""
    layouts = [
        (['box', 'box2', 'box/.Sub'], None),
        (['box/.Sub', 'box', 'box2'], None),
        (['box/', 'box/.Sub', 'other'], None),
        (['box'], ['box/.Sub', 'box2']),
        (['other', 'box2'], ['box', 'box/.Sub/']),
    ]
    for first, second in layouts:
        sb = mdrun.Sandbox()
        dst = sb.maildir('dst')
        names = sorted(set(x.rstrip('/') for x in first + (second or [])))
        want = 0
        for n in names:
            md = sb.maildir(n)
            sb.add(md, 'new', ('To: a\nSubject: in %s\n\nPATHS-%s\n' % (n, n)).encode())
            want += 1
        blocks = ['maildir { %s } {\n\tmatch all move "%s"\n}\n' % (' '.join('"%s/%s"' % (sb.root, p_) for p_ in first), dst)]
        if second:
            blocks.append('maildir { %s } {\n\tmatch all move "%s"\n}\n' % (' '.join('"%s/%s"' % (sb.root, p_) for p_ in second), dst))
        conf = sb.write_conf(''.join(blocks).encode())
        rc, out, err = sb.run([], conf=conf)
        stats['runs'] += 1; stats['paths_cases'] = stats.get('paths_cases', 0) + 1
        moved = sb.snapshot(dst)
        left = [n for n in names if sb.snapshot(os.path.join(sb.root, n))]
        if rc != 0 or len(moved) != want or left:
            stats['viol'] += 1
            ck.violation('maildir blocks naming %r%s: %d of %d messages were moved, exit %d; untouched maildirs: %r'
                         % (first, ' and %r' % second if second else '', len(moved), want, rc, left),
                         {'stage': 'paths', 'first': first, 'second': second, 'exit': rc, 'stderr': err[-300:].decode(errors='replace')})
        sb.cleanup()


def formula_stage(ck, rng, stats):
    """negation, and / or and parentheses over matchers that take interpolated arguments (isdirectory, command): the formula
    decides as its boolean reading says, and a matcher below a negation sees the matches of its rule like any other"""
    helper = common.rec_helper()
    cases = [
        # (condition, does the rule select the message?)
        ('header "To" /user\\+(.+)@/ and ! isdirectory "%(root)s/\\1"', True),          # the folder named by the capture does not exist
        ('header "To" /user\\+(.+)@/ and isdirectory "%(root)s/\\1"', False),
        ('header "To" /(user)\\+/ and ! isdirectory "%(root)s/\\1dir"', False),         # .../userdir exists
        ('header "To" /(user)\\+/ and isdirectory "%(root)s/\\1dir"', True),
        ('header "To" /user\\+(.+)@/ and ! command { "%(helper)s" "exit=1" "\\1" }', True),
        ('header "To" /user\\+(.+)@/ and ! command { "%(helper)s" "exit=0" "\\1" }', False),
        ('! ( header "To" /nobody/ or isdirectory "%(root)s/nowhere" ) and header "To" /(user)/', True),
        ('! header "To" /nobody/ and ( header "Subject" /zzz/ or ! isdirectory "%(root)s/userdir" or header "To" /(us)er/ )', True),
    ]
    for cond, want in cases:
        sb = mdrun.Sandbox()
        src = sb.maildir('src'); mdA = sb.maildir('mdA')
        os.makedirs(os.path.join(sb.root, 'userdir'))
        hout = os.path.join(sb.root, 'helper-out'); os.makedirs(hout)
        sb.add(src, 'new', b'To: user+folder@example.org\nSubject: formula\n\nbody\n')
        conf = sb.write_conf(('maildir "%s" {\n\tmatch %s move "%s"\n}\n' % (src, cond % {'root': sb.root, 'helper': helper}, mdA)).encode())
        rc, out, err = sb.run([], conf=conf, env={'VERIF_HELPER_OUT': hout})
        stats['runs'] += 1; stats['formula_cases'] = stats.get('formula_cases', 0) + 1
        moved = len(sb.snapshot(mdA)) == 1
        if rc != 0 or moved != want:
            stats['viol'] += 1
            ck.violation('condition %r on "To: user+folder@example.org": the message was %s, exit %d (%r); the formula says it %s'
                         % (cond, 'moved' if moved else 'not moved', rc, err[-150:], 'is selected' if want else 'is not selected'),
                         {'stage': 'formula', 'condition': cond, 'exit': rc, 'stderr': err[-300:].decode(errors='replace')})
        sb.cleanup()


def world_stage(ck, rng, stats):
    """every message is evaluated against the world as it is when its turn comes: a directory created, or a file written, by the
    command run for an earlier message decides the isdirectory / command conditions of the later ones (create-on-demand idiom)"""
    for variant in range(4):
        sb = mdrun.Sandbox()
        box = sb.maildir('box'); box2 = sb.maildir('box2'); dst = sb.maildir('dst'); first = sb.maildir('first')
        D = os.path.join(sb.root, 'made-on-demand')
        n = rng.choice([2, 3, 4])
        for i in range(n):
            sb.add(box, 'new', b'To: a\nX-Id: w%d\n\nWORLD-%d\n' % (i, i))
        if variant == 0:      # isdirectory, one maildir
            rules = 'match ! isdirectory "%s" exec { "mkdir" "-p" "%s" } move "%s"\n\tmatch all move "%s"' % (D, D, first, dst)
            heads = 'maildir "%s"' % box
        elif variant == 1:    # isdirectory, two maildirs of one block
            sb.add(box2, 'new', b'To: a\nX-Id: w9\n\nWORLD-9\n'); n += 1
            rules = 'match ! isdirectory "%s" exec { "mkdir" "-p" "%s" } move "%s"\n\tmatch all move "%s"' % (D, D, first, dst)
            heads = 'maildir { "%s" "%s" }' % (box, box2)
        elif variant == 2:    # command condition reading a file an earlier exec wrote
            rules = 'match ! command { "test" "-e" "%s" } exec { "touch" "%s" } move "%s"\n\tmatch all move "%s"' % (D, D, first, dst)
            heads = 'maildir "%s"' % box
        else:                 # the directory exists at first and is removed by the first message's command
            os.makedirs(D)
            rules = 'match isdirectory "%s" exec { "rmdir" "%s" } move "%s"\n\tmatch all move "%s"' % (D, D, first, dst)
            heads = 'maildir "%s"' % box
        conf = sb.write_conf(('%s {\n\t%s\n}\n' % (heads, rules)).encode())
        rc, out, err = sb.run([], conf=conf)
        stats['runs'] += 1; stats['world_cases'] = stats.get('world_cases', 0) + 1
        nf, nd = len(sb.snapshot(first)), len(sb.snapshot(dst))
        if rc != 0 or nf != 1 or nd != n - 1:
            stats['viol'] += 1
            ck.violation('%d messages, rules "%s": the first message changes what the condition tests, so exactly one message takes the first rule and %d the '
                         'second; observed %d and %d (exit %d)' % (n, rules.replace(sb.root, ''), n - 1, nf, nd, rc),
                         {'stage': 'world', 'variant': variant, 'exit': rc, 'stderr': err[-300:].decode(errors='replace')})
        sb.cleanup()


def same_name_stage(ck, rng, stats):
    """messages with the SAME file name in different directories (two maildirs of a block, two blocks, new/ and cur/ of one maildir) and
    different file times: a file-date condition is decided per message, by that message's own file"""
    import time
    now = int(time.time())
    for layout in ('two-paths', 'two-blocks', 'new-cur'):
        for first_old in (True, False):
            sb = mdrun.Sandbox()
            a = sb.maildir('a'); b = sb.maildir('b'); dst = sb.maildir('dst')
            t_old, t_new = now - 86400 * 3, now - 5
            name = '1600000000.77_1.same'
            places = [(a, 'new'), (b, 'new')] if layout != 'new-cur' else [(a, 'new'), (a, 'cur')]
            ages = [t_old, t_new] if first_old else [t_new, t_old]
            for (md, sub), t in zip(places, ages):
                sb.add(md, sub, b'To: a\nX-Age: %s\n\nSAME-NAME\n' % (b'old' if t == t_old else b'new'), name=name + (':2,S' if sub == 'cur' else ''), mtime=t)
            rule = '\tmatch date modified > 1 days move "%s"\n' % dst
            if layout == 'two-paths':
                conf = 'maildir { "%s" "%s" } {\n%s}\n' % (a, b, rule)
            elif layout == 'two-blocks':
                conf = 'maildir "%s" {\n%s}\nmaildir "%s" {\n%s}\n' % (a, rule, b, rule)
            else:
                conf = 'maildir "%s" {\n%s}\n' % (a, rule)
            cp = sb.write_conf(conf.encode())
            rc, out, err = sb.run([], conf=cp)
            stats['runs'] += 1; stats['same_name_cases'] = stats.get('same_name_cases', 0) + 1
            moved = [bb for bb in sb.snapshot(dst).values()]
            left = [bb for md in (a, b) for bb in sb.snapshot(md).values()]
            ok = rc == 0 and len(moved) == 1 and b'X-Age: old' in moved[0] and len(left) == 1 and b'X-Age: new' in left[0]
            if not ok:
                stats['viol'] += 1
                ck.violation('two messages with the same file name (%s, the %s one first), rule "date modified > 1 days move": exactly the three-day-old one is selected; '
                             'moved %r, left %r (exit %d)' % (layout, 'old' if first_old else 'recent', [m[6:20] for m in moved], [m[6:20] for m in left], rc),
                             {'stage': 'same-name', 'layout': layout, 'first_old': first_old, 'config': conf, 'exit': rc, 'stderr': err[-300:].decode(errors='replace')})
            sb.cleanup()


def attachment_error_stage(ck, rng, stats):
    """a condition that cannot be evaluated for one part of a message (undecodable base64) is an error for the message - the rule neither
    wins nor loses, no later rule is tried - wherever the part stands among parts for which the condition holds or fails"""
    good = b'Content-Type: text/plain\n\nneedle in part\n'
    other = b'Content-Type: text/plain\n\nnothing here\n'
    broken = b'Content-Type: text/plain\nContent-Transfer-Encoding: base64\n\n@@@ not base64 @@@\n'
    for parts, label in (([broken, good], 'broken, matching'), ([other, broken, good], 'plain, broken, matching'), ([broken, other], 'broken, plain')):
        for cond in ('attachment body /needle/', '! attachment body /needle/', 'attachment body /needle/ or all', 'all and attachment body /needle/'):
            sb = mdrun.Sandbox()
            src = sb.maildir('src'); mdA = sb.maildir('mdA'); mdB = sb.maildir('mdB')
            text = b'To: a\nContent-Type: multipart/mixed; boundary="ae"\n\n' + b''.join(b'--ae\n' + p for p in parts) + b'--ae--\n'
            sb.add(src, 'new', text)
            conf = sb.write_conf(('maildir "%s" {\n\tmatch %s move "%s"\n\tmatch all move "%s"\n}\n' % (src, cond, mdA, mdB)).encode())
            rc, out, err = sb.run([], conf=conf)
            stats['runs'] += 1; stats['attachment_error_cases'] = stats.get('attachment_error_cases', 0) + 1
            left = len(sb.snapshot(src)); na = len(sb.snapshot(mdA)); nb = len(sb.snapshot(mdB))
            # "... or all": the left operand is evaluated first and fails; "all and ...": the right one fails
            if rc == 0 or left != 1 or na or nb:
                stats['viol'] += 1
                ck.violation('message with parts (%s), rules "match %s move A / match all move B": the condition cannot be evaluated for the undecodable part, so '
                             'nothing is done and the status is non-zero; observed A %d, B %d, left %d, exit %d' % (label, cond, na, nb, left, rc),
                             {'stage': 'attachment-error', 'parts': label, 'cond': cond, 'exit': rc, 'stderr': err[-300:].decode(errors='replace')})
            sb.cleanup()


def macro_stage(ck, rng, stats):
    """macros in rule trees: names that are prefixes / extensions of one another, defined in the file and on the command line (-D wins
    over the file for the SAME name only); used as header name, pattern subject and destination"""
    cases = [
        # (file macros, -D macros, header-name macro, destination macro) -> the message with X-In goes to mdA, the other stays
        ([('in', 'X-In'), ('dest', 'A')], [('inbox', 'X-Other'), ('destination', 'B')], 'in', 'dest'),
        ([('inbox', 'X-Other'), ('in', 'X-In'), ('d', 'A')], [], 'in', 'd'),
        ([('in', 'X-Other'), ('dest', 'B')], [('in', 'X-In'), ('dest', 'A'), ('i', 'X-Other'), ('des', 'B')], 'in', 'dest'),
        ([('h', 'X-In'), ('hh', 'X-Other'), ('hhh', 'X-Other'), ('ma', 'A'), ('m', 'B')], [('hhhh', 'X-Other')], 'h', 'ma'),
    ]
    for filem, cmdm, hm, dm in cases:
        sb = mdrun.Sandbox()
        src = sb.maildir('src'); mdA = sb.maildir('A'); mdB = sb.maildir('B')
        sb.add(src, 'new', b'To: a\nX-In: yes\n\nMACRO-1\n')
        sb.add(src, 'new', b'To: a\nX-Other: yes\n\nMACRO-2\n')
        val = lambda v: os.path.join(sb.root, v) if v in ('A', 'B') else v
        used = {hm, dm}
        text = ''.join('%s = "%s"\n' % (k, val(v)) for k, v in filem)
        # every macro, also one given with -D, must be used (an unused macro is a configuration error): the others are mentioned in
        # rules that cannot match
        others = sorted(set(k for k, _ in filem + cmdm) - used)
        extra = ''.join('\tmatch header "${%s}" /zzz-never/ move "%s"\n' % (k, mdB) for k in others)
        text += 'maildir "%s" {\n%s\tmatch header "${%s}" /yes/ move "${%s}"\n}\n' % (src, extra, hm, dm)
        conf = sb.write_conf(text.encode())
        args = []
        for k, v in cmdm:
            args += ['-D', '%s=%s' % (k, val(v))]
        rc, out, err = sb.run(args, conf=conf)
        stats['runs'] += 1; stats['macro_cases'] = stats.get('macro_cases', 0) + 1
        a = [b for b in sb.snapshot(mdA).values()]; b_ = sb.snapshot(mdB); left = [b for b in sb.snapshot(src).values()]
        ok = rc == 0 and len(a) == 1 and b'MACRO-1' in a[0] and not b_ and len(left) == 1 and b'MACRO-2' in left[0]
        if not ok:
            stats['viol'] += 1
            ck.violation('macros %r in the file and %r on the command line, rule header "${%s}" /yes/ move "${%s}": expected the X-In message in A and the '
                         'other left alone; A holds %d, B %d, src %d (exit %d, %r)' % (filem, cmdm, hm, dm, len(a), len(b_), len(left), rc, err[-200:]),
                         {'stage': 'macro', 'config': text, 'args': args, 'exit': rc})
        sb.cleanup()


def run(ck):
    rng = ck.rng
    stats = dict(runs=0, evals=0, dis=0, viol=0, clean=0, T1=0, T2=0, T3=0, nontrivial=set())
    world_stage(ck, rng, stats)
    same_name_stage(ck, rng, stats)
    attachment_error_stage(ck, rng, stats)
    macro_stage(ck, rng, stats)
    bystanders(ck, rng, stats)
    formula_stage(ck, rng, stats)
    paths_stage(ck, rng, stats)
    samples = []
    small = list(small_trees())
    if ck.tier == 'quick':
        small = small[::9]
    for rules in small:
        run_tree(ck, rules, stats, samples)
        if len(ck.violations) > 6:
            break
    nested = list(nested_pass_break_trees())
    if ck.tier == 'quick':
        nested = nested[ck.rng.randrange(17)::17]
    for rules in nested:
        run_tree(ck, rules, stats, samples)
        if len(ck.violations) > 6:
            break
    n = 150 if ck.tier == 'quick' else 4000
    for i in range(n):
        rules = confgen.gen_block(rng, 0, rng.choice([0, 1, 1, 2, 3]), maxrules=rng.choice([2, 3, 4]))
        run_tree(ck, rules, stats, samples)
        if len(ck.violations) > 6:
            break
    ck.coverage.update({
        'evaluations': stats['evals'],
        'distinct_nontrivial': len(stats['nontrivial']),
        'rule': 'rule trees: a bounded-exhaustive family (<= 3 rules per block, depth <= 1, 6 conditions x 6 action lists, sub-sampled in the quick tier), a family with pass / break inside blocks nested one and two levels deep (all pairs of rules over 3 conditions x 6 action lists, 2 outer conditions, 3 continuations; every 17th in the quick tier) and random '
                'trees (depth <= 3, <= 4 rules per block, and/or/!/parentheses/unparenthesised chains, pass/break as last action), each on all 8 truth assignments '
                'of 3 matchers; plus 12 runs over a maildir holding non-message files (symbolic links to a matching message file / dangling / to a directory, a sub-directory, a FIFO) with file types reported and not reported by readdir; 8 formulas with negated / parenthesised isdirectory and command matchers taking back-references; 5 layouts of blocks naming several maildirs (string prefixes, a maildir nested in another, trailing slashes); 4 runs in which the command of the first message changes what an isdirectory / command condition of the later ones tests; 12 attachment conditions over messages with an undecodable part before / between / after other parts; 6 runs over two messages with the same file name in different directories and different file times under a file-date condition; 4 macro layouts (names that are prefixes of one another, in the file and with -D) used as header name and destination; non-trivial = the model or the documented semantics select at least one action; distinct = distinct (tree, assignment)',
        'samples': samples,
        'traces_validated_against_impl': stats['evals'],
        'disagreements_checked': stats['dis'],
        'clean_evaluations': stats['clean'], 'T1': stats['T1'], 'T2': stats['T2'], 'T3': stats['T3'],
        'bystander_runs': stats.get('bystander_runs', 0), 'formula_cases': stats.get('formula_cases', 0), 'paths_cases': stats.get('paths_cases', 0),
    })
    ck.assumptions += ['matchers are header patterns over X-A<i> headers (atoms that record a match); plain matchers and attachment conditions are covered by C11/C13 checks',
                       'messages sit in src/cur so that a message flagged into another subdirectory is not walked twice (finding F-20)']


def replay(ck, rp):
    print(rp.get('config')); print('assignment', rp.get('assignment'), 'model', rp.get('model'))
    return 1
