(* C03, the general statement: arbitrary nesting, pass and break anywhere as the last action of a rule, any conditions.
   On every CLEAN evaluation (no decision of a block was taken on a pass marker or on actions that belong to another
   block - the two situations pinned as F-03) the actions other than move / flag that mdsort performs are exactly
   those the documented semantics selects, in the same order, and something is done iff the documented semantics does
   something. *)
From Coq Require Import List Bool Arith Lia.
Import ListNotations.
From MD Require Import EvalDefs EvalProofs EvalProofs2 EvalProofs3.

(* ---- measures on the match list that depend on the block tags ------------------------------------------------------ *)
Definition fpass (id : nat) (ml : list tentry) : bool := existsb (fun t => tk k_pass t && negb (Nat.eqb (t_owner t) id)) ml.
Definition opass (id : nat) (ml : list tentry) : bool := existsb (fun t => tk k_pass t && Nat.eqb (t_owner t) id) ml.
Definition inside (id : nat) (t : tentry) : bool := existsb (Nat.eqb id) (t_inside t).
Definition own_real (id : nat) (ml : list tentry) : bool :=
  existsb (fun t => is_action (t_e t) && negb (tk k_pass t) && inside id t) ml.

Lemma has_pass_split id ml : has k_pass ml = fpass id ml || opass id ml.
Proof.
  unfold has, fpass, opass. induction ml as [|t r IH]; [reflexivity|]. cbn [existsb]. rewrite IH.
  destruct (tk k_pass t), (Nat.eqb (t_owner t) id), (existsb _ r), (existsb _ r); reflexivity.
Qed.

(* a predicate on entries that is false on move / flag entries and does not look at the destination *)
Lemma existsb_append (P : tentry -> bool) ml a o ins :
  (forall y, is_loc y = true -> P y = false) ->
  (forall d d', P (mkt (MAct a d) o ins) = P (mkt (MAct a d') o ins)) ->
  existsb P (append ml a o ins) = existsb P ml || P (mkt (MAct a (mkdest None None)) o ins).
Proof.
  intros Hloc Hd. destruct (append_shape ml a o ins) as (l1 & d & -> & [->|(pre & y & post & -> & -> & Hy)]).
  - rewrite existsb_app. cbn [existsb]. rewrite orb_false_r, (Hd d (mkdest None None)). reflexivity.
  - rewrite !existsb_app. cbn [existsb]. rewrite (Hloc y Hy), orb_false_r, (Hd d (mkdest None None)). cbn [orb].
    rewrite <- orb_assoc. reflexivity.
Qed.

Lemma loc_not_pass y : is_loc y = true -> tk k_pass y = false.
Proof.
  unfold is_loc, tk, is_kind. destruct (t_e y) as [| |a d]; try reflexivity. destruct a; cbn; intros H; try discriminate H; reflexivity.
Qed.

Lemma fpass_append id ml a o ins : fpass id (append ml a o ins) = fpass id ml || (k_pass a && negb (Nat.eqb o id)).
Proof.
  unfold fpass. rewrite existsb_append; [reflexivity| |reflexivity].
  intros y Hy. rewrite (loc_not_pass y Hy). reflexivity.
Qed.

Lemma opass_append id ml a o ins : opass id (append ml a o ins) = opass id ml || (k_pass a && Nat.eqb o id).
Proof.
  unfold opass. rewrite existsb_append; [reflexivity| |reflexivity].
  intros y Hy. rewrite (loc_not_pass y Hy). reflexivity.
Qed.

Lemma own_real_app id a b : own_real id (a ++ b) = own_real id a || own_real id b.
Proof. apply existsb_app. Qed.

Lemma own_real_append id ml a o ins : existsb (Nat.eqb id) ins = true ->
  own_real id (append ml a o ins) = own_real id ml || negb (k_pass a).
Proof.
  intros Hin.
  assert (Hnew : forall d, own_real id [mkt (MAct a d) o ins] = negb (k_pass a)).
  { intros d. unfold own_real, inside. cbn [existsb t_e t_inside is_action tk is_kind andb]. rewrite Hin, andb_true_r, orb_false_r. reflexivity. }
  destruct (append_shape ml a o ins) as (l1 & d & E & [->|(pre & y & post & -> & -> & Hy)]).
  - rewrite E, own_real_app, Hnew. reflexivity.
  - rewrite E. rewrite !own_real_app, Hnew.
    assert (Ha : k_pass a = false).
    { unfold append in E. destruct a; try reflexivity.
      exfalso. apply (f_equal (@length _)) in E. rewrite !app_length in E. cbn [length] in E. lia. }
    rewrite Ha. cbn [negb]. rewrite !orb_true_r. reflexivity.
Qed.

(* entries that are not actions do not count *)
Lemma no_actions_measures pats id : no_actions pats -> fpass id pats = false /\ opass id pats = false /\ own_real id pats = false.
Proof.
  induction 1 as [|t r Ht _ [I1 [I2 I3]]]; [repeat split; reflexivity|].
  unfold fpass, opass, own_real in *. cbn [existsb]. rewrite I1, I2, I3.
  unfold tk, is_kind. destruct (t_e t) as [| |a d]; try discriminate Ht; repeat split; reflexivity.
Qed.

(* folding a list of actions *)
Lemma fpass_fold id acts o ins : forall ml,
  fpass id (fold_app acts o ins ml) = fpass id ml || (existsb k_pass acts && negb (Nat.eqb o id)).
Proof.
  unfold fold_app. induction acts as [|a r IH]; intros ml; cbn [fold_left existsb]; [rewrite andb_false_l, orb_false_r; reflexivity|].
  rewrite IH, fpass_append. destruct (k_pass a), (existsb k_pass r), (Nat.eqb o id), (fpass id ml); reflexivity.
Qed.

Lemma opass_fold id acts o ins : forall ml,
  opass id (fold_app acts o ins ml) = opass id ml || (existsb k_pass acts && Nat.eqb o id).
Proof.
  unfold fold_app. induction acts as [|a r IH]; intros ml; cbn [fold_left existsb]; [rewrite andb_false_l, orb_false_r; reflexivity|].
  rewrite IH, opass_append. destruct (k_pass a), (existsb k_pass r), (Nat.eqb o id), (opass id ml); reflexivity.
Qed.

Lemma own_real_fold id acts o ins : existsb (Nat.eqb id) ins = true -> forall ml,
  own_real id (fold_app acts o ins ml) = own_real id ml || existsb (fun a => negb (k_pass a)) acts.
Proof.
  intros Hin. unfold fold_app. induction acts as [|a r IH]; intros ml; cbn [fold_left existsb]; [rewrite orb_false_r; reflexivity|].
  rewrite IH, (own_real_append id ml a o ins Hin), orb_assoc. reflexivity.
Qed.

(* the counts used at the end of a block *)
Lemma n_own_real id ml :
  Nat.eqb (acts_left (filter (fun t => existsb (Nat.eqb id) (t_inside t)) (filter (fun t => negb (tk k_pass t)) ml))) 0
  = negb (own_real id ml).
Proof.
  unfold acts_left, own_real, inside. induction ml as [|t r IH]; [reflexivity|].
  cbn [filter existsb]. destruct (tk k_pass t) eqn:Ep; cbn [negb].
  - rewrite andb_false_r. cbn [andb orb]. exact IH.
  - cbn [filter]. destruct (existsb (Nat.eqb id) (t_inside t)) eqn:Ei.
    + cbn [filter]. destruct (is_action (t_e t)); cbn [andb orb length Nat.eqb negb]; [reflexivity|exact IH].
    + rewrite andb_false_r. cbn [orb]. exact IH.
Qed.

(* ---- one rule with actions, in explicit form ---------------------------------------------------------------------------- *)
Lemma eval_rule_form c acts env cur ins ml st : flat2_rule (RActs c acts) = true ->
  exists pats, no_actions pats /\
    eval (compile_rule (RActs c acts)) env cur ins ml st =
    if sem c env
    then (if Nat.eqb (marker acts) 1 then NoMatch else Match, fold_app acts cur ins ((ml ++ [mkt MSentinel cur ins]) ++ pats), st)
    else (NoMatch, (ml ++ [mkt MSentinel cur ins]) ++ pats, st).
Proof.
  intros Hf. cbn [flat2_rule] in Hf. apply andb_prop in Hf. destruct Hf as [Hne Hpl].
  assert (Hacts : acts <> []) by (destruct acts; [discriminate Hne|discriminate]).
  cbn [compile_rule]. destruct (compile_acts acts) as [e|] eqn:Ec; [|destruct acts; [contradiction|discriminate Ec]].
  cbn [eval].
  destruct (eval_cond_pos c env cur ins (ml ++ [mkt MSentinel cur ins]) st) as (pats & Hn & Ecnd). rewrite Ecnd.
  exists pats. split; [exact Hn|].
  destruct (sem c env); cbn [ev_of]; [|reflexivity].
  destruct (plain_facts _ Hpl) as (B1 & B2 & B3 & B4).
  assert (Hpol : pass_only_last acts = true).
  { unfold pass_only_last. destruct (marker acts) as [|[|[|m]]] eqn:Em; unfold body_of in *; rewrite Em in *.
    - clear -B3. induction acts as [|a r IH]; [reflexivity|]. cbn [forallb] in B3. apply andb_prop in B3. destruct B3 as [Ha Hr].
      destruct r as [|b r']; [reflexivity|]. cbn [removelast forallb]. rewrite Ha. apply IH. exact Hr.
    - exact B3.
    - exact B3.
    - unfold marker in Em. destruct (rev acts) as [|[]]; discriminate Em. }
  rewrite (eval_acts2 acts e env cur ins _ st Ec Hpol).
  assert (Hep : ends_pass acts = Nat.eqb (marker acts) 1).
  { unfold ends_pass, ends_with, marker. destruct (rev acts) as [|[] ?]; reflexivity. }
  rewrite Hep. reflexivity.
Qed.

(* what the action list of such a rule contains *)
Lemma acts_facts acts : acts <> [] -> forallb plain_act (body_of acts) = true ->
  existsb k_pass acts = Nat.eqb (marker acts) 1 /\ existsb k_break acts = Nat.eqb (marker acts) 2 /\
  existsb (fun a => negb (k_pass a)) acts = negb (isnil (body_of acts)) || Nat.eqb (marker acts) 2 /\
  filter other_act acts = filter other_act (body_of acts).
Proof.
  intros Hne Hpl. pose proof (acts_split acts Hne) as Hs. destruct (plain_facts _ Hpl) as (B1 & B2 & B3 & B4).
  assert (Hm : marker acts = 0 \/ marker acts = 1 \/ marker acts = 2).
  { unfold marker. destruct (rev acts) as [|[] ?]; auto. }
  remember (body_of acts) as body eqn:Eb. remember (marker acts) as m eqn:Em. clear Eb Em Hpl.
  rewrite Hs. rewrite !existsb_app, filter_app, B1, B2, B4. unfold isnil.
  destruct Hm as [Hm|[Hm|Hm]]; rewrite Hm; cbn [existsb k_pass k_break negb filter other_act app orb Nat.eqb];
    rewrite ?app_nil_r, ?orb_false_r; repeat split; reflexivity.
Qed.

(* ---- measures that ignore pass and break entries ------------------------------------------------------------------------------ *)
Definition plain_entry (t : tentry) : bool := is_action (t_e t) && negb (tk k_pass t) && negb (tk k_break t).
Definition realnb (ml : list tentry) : bool := existsb plain_entry ml.
Definition ownnb (id : nat) (ml : list tentry) : bool := existsb (fun t => plain_entry t && inside id t) ml.

Lemma loc_plain y : is_loc y = true -> plain_entry y = true.
Proof.
  unfold is_loc, plain_entry, tk, is_kind. destruct (t_e y) as [| |a d]; cbn; try discriminate.
  destruct a; cbn; intros H; try discriminate H; reflexivity.
Qed.

Lemma plain_entry_new a d o ins : plain_entry (mkt (MAct a d) o ins) = plain_act a.
Proof. unfold plain_entry, plain_act, tk, is_kind. cbn [t_e is_action andb]. destruct (k_pass a), (k_break a); reflexivity. Qed.

Lemma removed_means_plain ml a o ins l1 d pre y post :
  append ml a o ins = l1 ++ [mkt (MAct a d) o ins] -> ml = pre ++ y :: post -> l1 = pre ++ post -> plain_act a = true.
Proof.
  intros E -> ->. unfold append in E. destruct a; try reflexivity;
    exfalso; apply (f_equal (@length _)) in E; rewrite !app_length in E; cbn [length] in E; lia.
Qed.

Lemma realnb_append ml a o ins : realnb (append ml a o ins) = realnb ml || plain_act a.
Proof.
  unfold realnb. destruct (append_shape ml a o ins) as (l1 & d & E & [->|(pre & y & post & Hml & Hl1 & Hy)]).
  - rewrite E, existsb_app. cbn [existsb]. rewrite plain_entry_new, orb_false_r. reflexivity.
  - pose proof (removed_means_plain _ _ _ _ _ _ _ _ _ E Hml Hl1) as Ha. rewrite E. subst ml l1.
    rewrite !existsb_app. cbn [existsb]. rewrite plain_entry_new, Ha. rewrite !orb_true_r. reflexivity.
Qed.

Lemma ownnb_append id ml a o ins : existsb (Nat.eqb id) ins = true ->
  ownnb id (append ml a o ins) = ownnb id ml || plain_act a.
Proof.
  intros Hin. unfold ownnb.
  assert (Hnew : forall d, (plain_entry (mkt (MAct a d) o ins) && inside id (mkt (MAct a d) o ins)) = plain_act a).
  { intros d. rewrite plain_entry_new. unfold inside. cbn [t_inside]. rewrite Hin, andb_true_r. reflexivity. }
  destruct (append_shape ml a o ins) as (l1 & d & E & [->|(pre & y & post & Hml & Hl1 & Hy)]).
  - rewrite E, existsb_app. cbn [existsb]. rewrite Hnew, orb_false_r. reflexivity.
  - pose proof (removed_means_plain _ _ _ _ _ _ _ _ _ E Hml Hl1) as Ha. rewrite E. subst ml l1.
    rewrite !existsb_app. cbn [existsb]. rewrite Hnew, Ha. rewrite !orb_true_r. reflexivity.
Qed.

Lemma realnb_fold acts o ins : forall ml, realnb (fold_app acts o ins ml) = realnb ml || existsb plain_act acts.
Proof.
  unfold fold_app. induction acts as [|a r IH]; intros ml; cbn [fold_left existsb]; [rewrite orb_false_r; reflexivity|].
  rewrite IH, realnb_append, orb_assoc. reflexivity.
Qed.

Lemma ownnb_fold id acts o ins : existsb (Nat.eqb id) ins = true -> forall ml,
  ownnb id (fold_app acts o ins ml) = ownnb id ml || existsb plain_act acts.
Proof.
  intros Hin. unfold fold_app. induction acts as [|a r IH]; intros ml; cbn [fold_left existsb]; [rewrite orb_false_r; reflexivity|].
  rewrite IH, (ownnb_append id ml a o ins Hin), orb_assoc. reflexivity.
Qed.

(* filters *)
Lemma existsb_filter {A} (P Q : A -> bool) l : existsb P (filter Q l) = existsb (fun x => P x && Q x) l.
Proof.
  induction l as [|x r IH]; [reflexivity|]. cbn [filter existsb]. destruct (Q x); cbn [existsb]; rewrite IH;
    [rewrite andb_true_r|rewrite andb_false_r]; reflexivity.
Qed.

Lemma existsb_ext' {A} (P Q : A -> bool) l : (forall x, P x = Q x) -> existsb P l = existsb Q l.
Proof. intros H. induction l as [|x r IH]; [reflexivity|]. cbn [existsb]. rewrite H, IH. reflexivity. Qed.

Definition nopass (ml : list tentry) := filter (fun t => negb (tk k_pass t)) ml.
Definition nobreak (ml : list tentry) := filter (fun t => negb (tk k_break t)) ml.

Lemma pass_break_disjoint t : tk k_pass t = true -> tk k_break t = false.
Proof. unfold tk, is_kind. destruct (t_e t) as [| |a d]; try discriminate. destruct a; cbn; intros H; try discriminate H; reflexivity. Qed.

Lemma realnb_nopass ml : realnb (nopass ml) = realnb ml.
Proof.
  unfold realnb, nopass. rewrite existsb_filter. apply existsb_ext'. intros t. unfold plain_entry.
  destruct (tk k_pass t); cbn [negb]; rewrite ?andb_false_r, ?andb_true_r; reflexivity.
Qed.
Lemma realnb_nobreak ml : realnb (nobreak ml) = realnb ml.
Proof.
  unfold realnb, nobreak. rewrite existsb_filter. apply existsb_ext'. intros t. unfold plain_entry.
  destruct (tk k_break t); cbn [negb]; rewrite ?andb_false_r, ?andb_true_r; reflexivity.
Qed.
Lemma ownnb_nopass id ml : ownnb id (nopass ml) = ownnb id ml.
Proof.
  unfold ownnb, nopass. rewrite existsb_filter. apply existsb_ext'. intros t. unfold plain_entry.
  destruct (tk k_pass t); cbn [negb]; rewrite ?andb_false_r, ?andb_true_r; reflexivity.
Qed.
Lemma ownnb_nobreak id ml : ownnb id (nobreak ml) = ownnb id ml.
Proof.
  unfold ownnb, nobreak. rewrite existsb_filter. apply existsb_ext'. intros t. unfold plain_entry.
  destruct (tk k_break t), (inside id t); cbn [negb]; rewrite ?andb_false_r, ?andb_true_r; reflexivity.
Qed.
Lemma has_break_nobreak ml : has k_break (nobreak ml) = false.
Proof.
  unfold has, nobreak. rewrite existsb_filter. induction ml as [|t r IH]; [reflexivity|]. cbn [existsb]. rewrite IH.
  destruct (tk k_break t); reflexivity.
Qed.
Lemma has_pass_nopass ml : has k_pass (nopass ml) = false.
Proof.
  unfold has, nopass. rewrite existsb_filter. induction ml as [|t r IH]; [reflexivity|]. cbn [existsb]. rewrite IH.
  destruct (tk k_pass t); reflexivity.
Qed.
Lemma has_break_nopass ml : has k_break (nopass ml) = has k_break ml.
Proof.
  unfold has, nopass. rewrite existsb_filter. apply existsb_ext'. intros t.
  destruct (tk k_pass t) eqn:E; cbn [negb]; [rewrite (pass_break_disjoint t E); reflexivity|rewrite andb_true_r; reflexivity].
Qed.
Lemma opass_nobreak id ml : opass id (nobreak ml) = opass id ml.
Proof.
  unfold opass, nobreak. rewrite existsb_filter. apply existsb_ext'. intros t.
  destruct (tk k_pass t) eqn:E; cbn [andb]; [rewrite (pass_break_disjoint t E); destruct (Nat.eqb (t_owner t) id); reflexivity|reflexivity].
Qed.
Lemma opass_nopass id ml : opass id (nopass ml) = false.
Proof.
  unfold opass, nopass. rewrite existsb_filter. induction ml as [|t r IH]; [reflexivity|]. cbn [existsb]. rewrite IH.
  destruct (tk k_pass t), (Nat.eqb (t_owner t) id); reflexivity.
Qed.
Lemma others_nobreak ml : others (nobreak ml) = others ml.
Proof.
  unfold others, nobreak. induction ml as [|t r IH]; [reflexivity|]. cbn [filter flat_map].
  destruct (tk k_break t) eqn:E; cbn [negb flat_map]; [|rewrite IH; reflexivity].
  rewrite IH. unfold proj, tk, is_kind in *. destruct (t_e t) as [| |a d]; try reflexivity. destruct a; try discriminate E; reflexivity.
Qed.

Lemma acts_left_realnb ml : has k_break ml = false -> Nat.eqb (acts_left (nopass ml)) 0 = negb (realnb ml).
Proof.
  unfold acts_left, realnb, nopass, has. induction ml as [|t r IH]; intros Hb; [reflexivity|].
  cbn [existsb] in Hb. apply orb_false_elim in Hb. destruct Hb as [Hbt Hbr]. specialize (IH Hbr).
  cbn [filter existsb]. unfold plain_entry at 1. rewrite Hbt. cbn [negb]. rewrite andb_true_r.
  destruct (tk k_pass t) eqn:Ep; cbn [negb].
  - rewrite andb_false_r. cbn [orb]. exact IH.
  - cbn [filter]. destruct (is_action (t_e t)); cbn [andb orb length Nat.eqb negb]; [reflexivity|exact IH].
Qed.

Lemma n_own_nb id ml : has k_break ml = false ->
  Nat.eqb (acts_left (filter (fun t => existsb (Nat.eqb id) (t_inside t)) (nopass ml))) 0 = negb (ownnb id ml).
Proof.
  unfold acts_left, ownnb, nopass, has, inside. induction ml as [|t r IH]; intros Hb; [reflexivity|].
  cbn [existsb] in Hb. apply orb_false_elim in Hb. destruct Hb as [Hbt Hbr]. specialize (IH Hbr).
  cbn [filter existsb]. unfold plain_entry at 1. rewrite Hbt. cbn [negb]. rewrite andb_true_r.
  destruct (tk k_pass t) eqn:Ep; cbn [negb].
  - rewrite andb_false_r. cbn [andb orb]. exact IH.
  - cbn [filter]. rewrite andb_true_r. destruct (existsb (Nat.eqb id) (t_inside t)) eqn:Ei.
    + cbn [filter]. destruct (is_action (t_e t)); cbn [andb orb length Nat.eqb negb]; [reflexivity|exact IH].
    + rewrite andb_false_r. cbn [orb]. exact IH.
Qed.

(* ---- events only accumulate, identifiers only grow ------------------------------------------------------------------------------ *)
Definition unclean (st : events) : bool := ev_t1 st || ev_t2 st.

Lemma events_mono : forall e env cur ins ml st,
  let st' := snd (eval e env cur ins ml st) in
  (ev_t1 st = true -> ev_t1 st' = true) /\ (ev_t2 st = true -> ev_t2 st' = true) /\ next_id st <= next_id st'.
Proof.
  fix IH 1. intros e env cur ins ml st. destruct e as [[b|]|l r|l r|c|l r|a|a| |a]; cbn [eval].
  - (* block *)
    pose proof (IH b env (next_id st) (next_id st :: ins) ml (mkev (S (next_id st)) (ev_t1 st) (ev_t2 st) (ev_t3 st))) as IHb.
    destruct (eval b env (next_id st) (next_id st :: ins) ml _) as [[v ml'] st'] eqn:E. cbn [snd] in IHb.
    cbn [ev_t1 ev_t2 next_id] in IHb. destruct IHb as (H1 & H2 & H3).
    destruct (existsb (tk k_break) ml'); [cbn [snd]; repeat split; auto; lia|].
    destruct (existsb (tk k_pass) ml'); cbn [snd ev_t1 ev_t2 next_id].
    + repeat split; [intros H; rewrite (H1 H); reflexivity|intros H; rewrite (H2 H); reflexivity|lia].
    + repeat split; auto; lia.
  - cbn [snd]. repeat split; auto.
  - pose proof (IH l env cur ins ml st) as IHl. destruct (eval l env cur ins ml st) as [[[] ml'] st'] eqn:E; cbn [snd] in *.
    + pose proof (IH r env cur ins ml' st') as IHr. destruct (eval r env cur ins ml' st') as [[v2 ml2] st2]. cbn [snd] in *.
      destruct IHl as (A1 & A2 & A3), IHr as (B1 & B2 & B3). repeat split; auto; lia.
    + exact IHl.
  - pose proof (IH l env cur ins ml st) as IHl. destruct (eval l env cur ins ml st) as [[[] ml'] st'] eqn:E; cbn [snd] in *.
    + exact IHl.
    + pose proof (IH r env cur ins ml' st') as IHr. destruct (eval r env cur ins ml' st') as [[v2 ml2] st2]. cbn [snd] in *.
      destruct IHl as (A1 & A2 & A3), IHr as (B1 & B2 & B3). repeat split; auto; lia.
  - pose proof (IH c env cur ins ml st) as IHc. destruct (eval c env cur ins ml st) as [[[] ml'] st'] eqn:E; cbn [snd] in *; exact IHc.
  - pose proof (IH l env cur ins (ml ++ [mkt MSentinel cur ins]) st) as IHl.
    destruct (eval l env cur ins (ml ++ [mkt MSentinel cur ins]) st) as [[[] ml'] st'] eqn:E; cbn [snd] in *.
    + pose proof (IH r env cur ins ml' st') as IHr. destruct (eval r env cur ins ml' st') as [[v2 ml2] st2]. cbn [snd] in *.
      destruct IHl as (A1 & A2 & A3), IHr as (B1 & B2 & B3). repeat split; auto; lia.
    + exact IHl.
  - destruct (env a); cbn [snd]; repeat split; auto.
  - cbn [snd]. repeat split; auto.
  - cbn [snd]. repeat split; auto.
  - cbn [snd]. repeat split; auto.
Qed.

(* ---- the documented semantics with the own pass flag made explicit, in terms of what a block collects ------------------------- *)
Inductive gres := GMatched (d : list act) (passed : bool) | GBroken (d : list act) | GFall (d : list act) (passed : bool).

Definition gmap (x : list act) (r : gres) : gres :=
  match r with GMatched d p => GMatched (x ++ d) p | GBroken d => GBroken (x ++ d) | GFall d p => GFall (x ++ d) p end.

Fixpoint ok_rule (r : rule) : bool :=
  match r with
  | RActs _ acts => negb (isnil acts) && forallb plain_act (body_of acts)
  | RBlock _ sub => (fix all (l : list rule) : bool := match l with [] => true | x :: t => ok_rule x && all t end) sub
  end.
Definition ok_rules (rs : list rule) : bool := forallb ok_rule rs.

Lemma ok_rule_block c sub : ok_rule (RBlock c sub) = ok_rules sub.
Proof. cbn [ok_rule]. unfold ok_rules. induction sub as [|x t IH]; [reflexivity|]. cbn [forallb]. rewrite IH. reflexivity. Qed.

Fixpoint gsem (fuel : nat) (rs : list rule) (env : nat -> bool) (passed : bool) : gres :=
  match fuel with
  | O => GFall [] passed
  | S f =>
      match rs with
      | [] => GFall [] passed
      | RActs c acts :: t =>
          if sem c env then
            match marker acts with
            | 1 => gmap (body_of acts) (gsem f t env true)
            | 2 => GBroken (body_of acts)
            | _ => GMatched (body_of acts) passed
            end
          else gsem f t env passed
      | RBlock c sub :: t =>
          if sem c env then
            match gsem f sub env false with
            | GMatched d _ => GMatched d passed
            | GBroken d => gmap d (gsem f t env passed)
            | GFall d p => if p && negb (isnil d) then GMatched d passed else gmap d (gsem f t env passed)
            end
          else gsem f t env passed
      end
  end.

Lemma length_app_neq {A} (a d : list A) : negb (Nat.eqb (length (a ++ d)) (length a)) = negb (isnil d).
Proof. rewrite app_length. destruct d; cbn [length isnil negb]; [rewrite Nat.add_0_r, Nat.eqb_refl; reflexivity|].
  destruct (Nat.eqb_spec (length a + S (length d)) (length a)); [lia|reflexivity]. Qed.

Lemma spec_gsem : forall n rs env acc passed, (size_rules rs < n)%nat -> ok_rules rs = true ->
  match gsem n rs env passed with
  | GMatched d _ => spec_rules n rs env acc passed = (acc ++ d, BMatched)
  | GBroken d => spec_rules n rs env acc passed = (acc ++ d, BBroken)
  | GFall d p => spec_rules n rs env acc passed = (acc ++ d, BFellThrough p)
  end.
Proof.
  induction n as [|n IH]; intros rs env acc passed Hn Hok; [lia|].
  destruct rs as [|r t]; [cbn; rewrite app_nil_r; reflexivity|].
  unfold ok_rules in Hok. cbn [forallb] in Hok. apply andb_prop in Hok. destruct Hok as [Hr Ht].
  cbn [size_rules fold_right] in Hn. fold (size_rules t) in Hn.
  destruct r as [c acts|c sub]; cbn [gsem spec_rules].
  - assert (Hf2 : flat2_rule (RActs c acts) = true) by (cbn [ok_rule flat2_rule] in *; unfold isnil in Hr; exact Hr).
    destruct (flat2_spec_facts c acts Hf2) as (P1 & P2 & P3).
    destruct (sem c env); cbn [negb].
    + rewrite P2. destruct (marker acts) as [|[|[|m]]] eqn:Em; cbn [Nat.eqb] in *.
      * rewrite (P3 P2). rewrite P1. reflexivity.
      * rewrite P1. specialize (IH t env (acc ++ body_of acts) true ltac:(cbn [rule_size] in Hn; lia) Ht).
        destruct (gsem n t env true) as [d p|d|d p]; cbn [gmap]; rewrite IH, <- app_assoc; reflexivity.
      * rewrite (P3 P2). rewrite P1. reflexivity.
      * exfalso. unfold marker in Em. destruct (rev acts) as [|[]]; discriminate Em.
    + apply IH; [cbn [rule_size] in Hn; lia|exact Ht].
  - rewrite ok_rule_block in Hr. rewrite rule_size_block in Hn.
    destruct (sem c env); cbn [negb].
    + pose proof (IH sub env acc false ltac:(lia) Hr) as Hs.
      destruct (gsem n sub env false) as [d p|d|d p]; rewrite Hs.
      * reflexivity.
      * specialize (IH t env (acc ++ d) passed ltac:(lia) Ht).
        destruct (gsem n t env passed) as [d2 p2|d2|d2 p2]; cbn [gmap]; rewrite IH, <- app_assoc; reflexivity.
      * rewrite length_app_neq.
        destruct (p && negb (isnil d)); [reflexivity|].
        specialize (IH t env (acc ++ d) passed ltac:(lia) Ht).
        destruct (gsem n t env passed) as [d2 p2|d2|d2 p2]; cbn [gmap]; rewrite IH, <- app_assoc; reflexivity.
    + apply IH; [lia|exact Ht].
Qed.

(* ---- freshness of block identifiers ---------------------------------------------------------------------------------------------- *)
Definition fresh_entry (lim : nat) (t : tentry) : Prop := t_owner t < lim /\ Forall (fun j => j < lim) (t_inside t).
Definition Fresh (lim : nat) (ml : list tentry) : Prop := Forall (fresh_entry lim) ml.

Lemma Fresh_mono lim lim' ml : lim <= lim' -> Fresh lim ml -> Fresh lim' ml.
Proof.
  intros Hl H. eapply Forall_impl; [|exact H]. intros t [H1 H2]. split; [lia|].
  eapply Forall_impl; [|exact H2]. intros j Hj. cbn beta in Hj. lia.
Qed.

Lemma Fresh_app lim a b : Fresh lim a -> Fresh lim b -> Fresh lim (a ++ b).
Proof. intros Ha Hb. apply Forall_app. split; assumption. Qed.

Lemma Fresh_append lim ml a o ins : o < lim -> Forall (fun j => j < lim) ins -> Fresh lim ml -> Fresh lim (append ml a o ins).
Proof.
  intros Ho Hi Hm. destruct (append_shape ml a o ins) as (l1 & d & -> & [->|(pre & y & post & -> & -> & Hy)]).
  - apply Fresh_app; [exact Hm|]. constructor; [split; assumption|constructor].
  - apply Fresh_app; [|constructor; [split; assumption|constructor]].
    apply Forall_app in Hm. destruct Hm as [Hp Hq]. inversion Hq; subst. apply Fresh_app; assumption.
Qed.

Lemma Fresh_fold lim acts o ins : o < lim -> Forall (fun j => j < lim) ins -> forall ml, Fresh lim ml -> Fresh lim (fold_app acts o ins ml).
Proof.
  intros Ho Hi. unfold fold_app. induction acts as [|a r IH]; intros ml Hm; cbn [fold_left]; [exact Hm|].
  apply IH. apply Fresh_append; assumption.
Qed.

Lemma Fresh_filter lim f ml : Fresh lim ml -> Fresh lim (filter f ml).
Proof.
  intros H. induction H as [|t r Ht _ IH]; [constructor|]. cbn [filter]. destruct (f t); [constructor; assumption|exact IH].
Qed.

Lemma fresh_opass id ml : Fresh id ml -> opass id ml = false.
Proof.
  intros H. unfold opass. induction H as [|t r [Ho _] _ IH]; [reflexivity|]. cbn [existsb]. rewrite IH.
  destruct (Nat.eqb_spec (t_owner t) id); [lia|]. rewrite andb_false_r. reflexivity.
Qed.

Lemma fresh_ownnb id ml : Fresh id ml -> ownnb id ml = false.
Proof.
  intros H. unfold ownnb. induction H as [|t r [_ Hi] _ IH]; [reflexivity|]. cbn [existsb]. rewrite IH.
  assert (inside id t = false) as ->.
  { unfold inside. induction Hi as [|j l Hj _ IHl]; [reflexivity|]. cbn [existsb]. rewrite IHl.
    destruct (Nat.eqb_spec id j); [lia|reflexivity]. }
  rewrite andb_false_r. reflexivity.
Qed.

Lemma fpass_none id ml j : fpass id ml = false -> j <> id -> opass j ml = false.
Proof.
  unfold fpass, opass. induction ml as [|t r IH]; intros H Hj; [reflexivity|].
  cbn [existsb] in *. apply orb_false_elim in H. destruct H as [Ht Hr]. rewrite (IH Hr Hj), orb_false_r.
  destruct (tk k_pass t); [|reflexivity]. cbn [andb] in *.
  destruct (Nat.eqb_spec (t_owner t) id) as [E|E]; [|discriminate Ht].
  destruct (Nat.eqb_spec (t_owner t) j); [lia|reflexivity].
Qed.

(* ---- how the list grows while the rules of one block are evaluated ----------------------------------------------------------------- *)
Record Delta (cur : nat) (ins : list nat) (lim : nat) (ml ml' : list tentry) (d : list act) (pd brk : bool) : Prop := mkDelta {
  d_others : others ml' = others ml ++ filter other_act d;
  d_real : realnb ml' = realnb ml || negb (isnil d);
  d_break : has k_break ml' = has k_break ml || brk;
  d_opass : opass cur ml' = opass cur ml || pd;
  d_outer : forall j, j < lim -> j <> cur -> opass j ml' = opass j ml;
  d_own : forall j, existsb (Nat.eqb j) ins = true -> ownnb j ml' = ownnb j ml || negb (isnil d) }.

Lemma Delta_refl cur ins lim ml : Delta cur ins lim ml ml [] false false.
Proof. constructor; intros; cbn [filter isnil negb]; rewrite ?app_nil_r, ?orb_false_r; reflexivity. Qed.

Lemma Delta_trans cur ins lim ml ml1 ml2 d1 d2 p1 p2 b2 :
  Delta cur ins lim ml ml1 d1 p1 false -> Delta cur ins lim ml1 ml2 d2 p2 b2 ->
  Delta cur ins lim ml ml2 (d1 ++ d2) (p1 || p2) b2.
Proof.
  intros [A1 A2 A3 A4 A5 A6] [B1 B2 B3 B4 B5 B6]. constructor.
  - rewrite B1, A1, filter_app, app_assoc. reflexivity.
  - rewrite B2, A2, isnil_app. destruct (realnb ml), (isnil d1), (isnil d2); reflexivity.
  - rewrite B3, A3, orb_false_r. reflexivity.
  - rewrite B4, A4, orb_assoc. reflexivity.
  - intros j Hj Hn. rewrite (B5 j Hj Hn), (A5 j Hj Hn). reflexivity.
  - intros j Hj. rewrite (B6 j Hj), (A6 j Hj), isnil_app. destruct (ownnb j ml), (isnil d1), (isnil d2); reflexivity.
Qed.

(* the sentinel and the pattern matches of a condition change nothing that is measured *)
Lemma Delta_pats cur ins lim ml pats : no_actions pats ->
  Delta cur ins lim ml ((ml ++ [mkt MSentinel cur ins]) ++ pats) [] false false.
Proof.
  intros Hn. set (extra := [mkt MSentinel cur ins] ++ pats).
  assert (He : no_actions extra) by (apply Forall_app; split; [repeat constructor|exact Hn]).
  rewrite <- app_assoc. fold extra.
  destruct (no_actions_others extra He) as (O1 & O2 & O3).
  assert (R : realnb extra = false /\ forall j, ownnb j extra = false).
  { clear -He. induction He as [|t r Ht _ [I1 I2]]; [split; [reflexivity|intros; reflexivity]|].
    unfold realnb, ownnb, plain_entry in *. cbn [existsb]. rewrite Ht. cbn [andb orb]. split; [exact I1|intros j; apply I2]. }
  destruct R as [R1 R2].
  constructor; intros; cbn [filter isnil negb].
  - rewrite others_app, O1, !app_nil_r. reflexivity.
  - unfold realnb in *. rewrite existsb_app, R1, !orb_false_r. reflexivity.
  - rewrite has_app, O2, !orb_false_r. reflexivity.
  - destruct (no_actions_measures extra cur He) as (_ & M2 & _). unfold opass in *. rewrite existsb_app, M2, !orb_false_r. reflexivity.
  - destruct (no_actions_measures extra j He) as (_ & M2 & _). unfold opass in *. rewrite existsb_app, M2, orb_false_r. reflexivity.
  - unfold ownnb in *. rewrite existsb_app, (R2 j), !orb_false_r. reflexivity.
Qed.

Lemma plain_exists body : forallb plain_act body = true -> existsb plain_act body = negb (isnil body).
Proof. destruct body as [|a r]; [reflexivity|]. cbn [forallb existsb isnil negb]. intros H. apply andb_prop in H. destruct H as [-> _]. reflexivity. Qed.

(* the actions of one rule *)
Lemma Delta_acts cur ins lim ml acts : existsb (Nat.eqb cur) ins = true -> acts <> [] -> forallb plain_act (body_of acts) = true ->
  Delta cur ins lim ml (fold_app acts cur ins ml) (body_of acts) (Nat.eqb (marker acts) 1) (Nat.eqb (marker acts) 2).
Proof.
  intros Hcur Hne Hpl. destruct (acts_facts acts Hne Hpl) as (F1 & F2 & F3 & F4).
  assert (Fp : existsb plain_act acts = negb (isnil (body_of acts))).
  { pose proof (acts_split acts Hne) as Hs. remember (body_of acts) as body. remember (marker acts) as m.
    rewrite Hs, existsb_app, (plain_exists body Hpl).
    assert (Hm : m = 0 \/ m = 1 \/ m = 2) by (subst m; unfold marker; destruct (rev acts) as [|[] ?]; auto).
    destruct Hm as [ -> | [ -> | -> ] ]; cbn; rewrite ?orb_false_r; reflexivity. }
  constructor.
  - rewrite others_fold, F4. reflexivity.
  - rewrite realnb_fold, Fp. reflexivity.
  - rewrite (has_fold k_break _ _ _ kbreak_loc), F2. reflexivity.
  - rewrite opass_fold, F1, Nat.eqb_refl, andb_true_r. reflexivity.
  - intros j _ Hj. rewrite opass_fold. destruct (Nat.eqb_spec cur j); [congruence|]. rewrite andb_false_r, orb_false_r. reflexivity.
  - intros j Hj. rewrite (ownnb_fold j _ _ _ Hj), Fp. reflexivity.
Qed.

Lemma Delta_weaken cur ins lim lim' ml ml' d pd brk : lim' <= lim -> Delta cur ins lim ml ml' d pd brk -> Delta cur ins lim' ml ml' d pd brk.
Proof. intros Hl [A1 A2 A3 A4 A5 A6]. constructor; auto. intros j Hj Hn. apply A5; [lia|exact Hn]. Qed.

(* ---- the relation between one evaluation and the documented semantics ---------------------------------------------------------- *)
Definition Rel (cur : nat) (ins : list nat) (lim : nat) (ml : list tentry) (passed : bool) (g : gres) (v : ev) (ml' : list tentry) : Prop :=
  match g with
  | GMatched d p => v = Match /\ exists pd, p = passed || pd /\ Delta cur ins lim ml ml' d pd false
  | GBroken d => v = Match /\ exists pd, Delta cur ins lim ml ml' d pd true
  | GFall d p => v = NoMatch /\ exists pd, p = passed || pd /\ Delta cur ins lim ml ml' d pd false
  end.

Lemma Rel_gmap cur ins lim ml ml1 d1 p1 passed g v ml' :
  Delta cur ins lim ml ml1 d1 p1 false -> Rel cur ins lim ml1 (passed || p1) g v ml' -> Rel cur ins lim ml passed (gmap d1 g) v ml'.
Proof.
  intros D R. destruct g as [d p|d|d p]; cbn [Rel gmap] in *.
  - destruct R as (Hv & pd & Hp & D2). split; [exact Hv|]. exists (p1 || pd). split; [rewrite Hp, orb_assoc; reflexivity|].
    exact (Delta_trans _ _ _ _ _ _ _ _ _ _ _ D D2).
  - destruct R as (Hv & pd & D2). split; [exact Hv|]. exists (p1 || pd). exact (Delta_trans _ _ _ _ _ _ _ _ _ _ _ D D2).
  - destruct R as (Hv & pd & Hp & D2). split; [exact Hv|]. exists (p1 || pd). split; [rewrite Hp, orb_assoc; reflexivity|].
    exact (Delta_trans _ _ _ _ _ _ _ _ _ _ _ D D2).
Qed.

Lemma gmap_nil g : gmap [] g = g.
Proof. destruct g; reflexivity. Qed.

Lemma Rel_skip cur ins lim ml ml1 passed g v ml' :
  Delta cur ins lim ml ml1 [] false false -> Rel cur ins lim ml1 passed g v ml' -> Rel cur ins lim ml passed g v ml'.
Proof. intros D R. rewrite <- (gmap_nil g). eapply Rel_gmap; [exact D|]. rewrite orb_false_r. exact R. Qed.

Lemma Rel_weaken cur ins lim lim' ml passed g v ml' : lim' <= lim -> Rel cur ins lim ml passed g v ml' -> Rel cur ins lim' ml passed g v ml'.
Proof.
  intros Hl R. destruct g as [d p|d|d p]; cbn [Rel] in *.
  - destruct R as (Hv & pd & Hp & D). split; [exact Hv|]. exists pd. split; [exact Hp|]. eapply Delta_weaken; eassumption.
  - destruct R as (Hv & pd & D). split; [exact Hv|]. exists pd. eapply Delta_weaken; eassumption.
  - destruct R as (Hv & pd & Hp & D). split; [exact Hv|]. exists pd. split; [exact Hp|]. eapply Delta_weaken; eassumption.
Qed.

(* a matched block always collected something *)
Lemma gsem_matched_nonnil : forall n rs env passed d p, ok_rules rs = true -> gsem n rs env passed = GMatched d p -> isnil d = false.
Proof.
  induction n as [|n IH]; intros rs env passed d p Hok Hg; [discriminate Hg|].
  destruct rs as [|r t]; [discriminate Hg|].
  unfold ok_rules in Hok. cbn [forallb] in Hok. apply andb_prop in Hok. destruct Hok as [Hr Ht].
  assert (Hgm : forall x g, gmap x g = GMatched d p -> exists d2, g = GMatched d2 p /\ d = x ++ d2).
  { intros x g E. destruct g; cbn [gmap] in E; try discriminate E. inversion E; subst. eexists; split; reflexivity. }
  destruct r as [c acts|c sub]; cbn [gsem] in Hg.
  - cbn [ok_rule] in Hr. apply andb_prop in Hr. destruct Hr as [Hne Hpl].
    destruct (sem c env); [|exact (IH _ _ _ _ _ Ht Hg)].
    destruct (marker acts) as [|[|[|m]]] eqn:Em.
    + inversion Hg; subst. unfold body_of. rewrite Em. destruct acts; [discriminate Hne|reflexivity].
    + destruct (Hgm _ _ Hg) as (d2 & E2 & ->). rewrite isnil_app, (IH _ _ _ _ _ Ht E2), andb_false_r. reflexivity.
    + discriminate Hg.
    + inversion Hg; subst. unfold body_of. rewrite Em. exfalso. unfold marker in Em. destruct (rev acts) as [|[]]; discriminate Em.
  - rewrite ok_rule_block in Hr.
    destruct (sem c env); [|exact (IH _ _ _ _ _ Ht Hg)].
    destruct (gsem n sub env false) as [d1 p1|d1|d1 p1] eqn:Es.
    + inversion Hg; subst. exact (IH _ _ _ _ _ Hr Es).
    + destruct (Hgm _ _ Hg) as (d2 & E2 & ->). rewrite isnil_app, (IH _ _ _ _ _ Ht E2), andb_false_r. reflexivity.
    + destruct (p1 && negb (isnil d1)) eqn:Ep.
      * inversion Hg; subst. apply andb_prop in Ep. destruct Ep as [_ Ep]. destruct (isnil d); [discriminate Ep|reflexivity].
      * destruct (Hgm _ _ Hg) as (d2 & E2 & ->). rewrite isnil_app, (IH _ _ _ _ _ Ht E2), andb_false_r. reflexivity.
Qed.

(* ---- the end of a nested block ------------------------------------------------------------------------------------------------- *)
Definition block_finish (id : nat) (v : ev) (ml' : list tentry) (st' : events) : ev * list tentry * events :=
  if existsb (tk k_break) ml' then (NoMatch, filter (fun t => negb (tk k_break t)) ml', st')
  else if existsb (tk k_pass) ml' then
     let ml'' := filter (fun t => negb (tk k_pass t)) ml' in
     let n := acts_left ml'' in
     let own t := existsb (Nat.eqb id) (t_inside t) in
     let n_own := acts_left (filter own ml'') in
     let foreign_pass := existsb (fun t => tk k_pass t && negb (Nat.eqb (t_owner t) id)) ml' in
     (match n with O => NoMatch | _ => Match end, ml'',
      mkev (next_id st') (ev_t1 st' || foreign_pass) (ev_t2 st' || negb (Bool.eqb (Nat.eqb n 0) (Nat.eqb n_own 0))) (ev_t3 st'))
  else (v, ml', st').

Lemma eval_block b env cur ins ml st :
  eval (EBlock (Some b)) env cur ins ml st =
  let '(v, ml', st') := eval b env (next_id st) (next_id st :: ins) ml (mkev (S (next_id st)) (ev_t1 st) (ev_t2 st) (ev_t3 st)) in
  block_finish (next_id st) v ml' st'.
Proof. reflexivity. Qed.

(* from what the nested block did to what the enclosing block sees *)
Lemma Delta_out id cur ins lim ml1 ml2 ml3 d pd brk :
  Delta id (id :: ins) (S id) ml1 ml2 d pd brk -> cur < id -> lim <= id -> has k_break ml1 = false ->
  others ml3 = others ml2 -> realnb ml3 = realnb ml2 -> has k_break ml3 = false ->
  (forall j, j <> id -> opass j ml3 = opass j ml2) -> (forall j, ownnb j ml3 = ownnb j ml2) ->
  Delta cur ins lim ml1 ml3 d false false.
Proof.
  intros [A1 A2 A3 A4 A5 A6] Hc Hl Hb1 H1 H2 H3 H4 H5. constructor.
  - rewrite H1. exact A1.
  - rewrite H2. exact A2.
  - rewrite H3, Hb1. reflexivity.
  - rewrite H4 by lia. rewrite A5 by lia. rewrite orb_false_r. reflexivity.
  - intros j Hj Hn. rewrite H4 by lia. apply A5; lia.
  - intros j Hj. rewrite H5. apply A6. cbn [existsb]. rewrite Hj. apply orb_true_r.
Qed.

Lemma block_finish_facts id cur ins lim ml1 v ml2 st2 g :
  Fresh id ml1 -> has k_break ml1 = false -> cur < id -> lim <= id ->
  Fresh (next_id st2) ml2 ->
  Rel id (id :: ins) (S id) ml1 false g v ml2 ->
  exists v3 ml3 st3, block_finish id v ml2 st2 = (v3, ml3, st3) /\
    next_id st3 = next_id st2 /\ Fresh (next_id st3) ml3 /\ (unclean st2 = true -> unclean st3 = true) /\
    (unclean st3 = true \/
     exists d, Delta cur ins lim ml1 ml3 d false false /\
       match g with
       | GMatched d' _ => d = d' /\ (isnil d' = false -> v3 = Match)
       | GBroken d' => d = d' /\ v3 = NoMatch
       | GFall d' p => d = d' /\ v3 = if p && negb (isnil d') then Match else NoMatch
       end).
Proof.
  intros Hf Hb1 Hc Hl Hf2 R.
  pose proof (fresh_opass id ml1 Hf) as Hop. pose proof (fresh_ownnb id ml1 Hf) as Hon.
  assert (exists d pd brk, Delta id (id :: ins) (S id) ml1 ml2 d pd brk /\
       match g with
       | GMatched d' p => d = d' /\ p = pd /\ brk = false /\ v = Match
       | GBroken d' => d = d' /\ brk = true
       | GFall d' p => d = d' /\ p = pd /\ brk = false /\ v = NoMatch
       end) as (d & pd & brk & D & Hg).
  { destruct g as [d' p|d'|d' p]; cbn [Rel] in R.
    - destruct R as (Hv & pd & Hp & D). exists d', pd, false. split; [exact D|]. cbn [orb] in Hp. auto.
    - destruct R as (Hv & pd & D). exists d', pd, true. split; [exact D|]. auto.
    - destruct R as (Hv & pd & Hp & D). exists d', pd, false. split; [exact D|]. cbn [orb] in Hp. auto. }
  clear R. unfold block_finish.
  change (existsb (tk k_break) ml2) with (has k_break ml2). change (existsb (tk k_pass) ml2) with (has k_pass ml2).
  change (existsb (fun t => tk k_pass t && negb (Nat.eqb (t_owner t) id)) ml2) with (fpass id ml2).
  fold (nopass ml2). fold (nobreak ml2).
  pose proof (d_break _ _ _ _ _ _ _ _ D) as Hbk. rewrite Hb1 in Hbk. cbn [orb] in Hbk.
  pose proof (d_opass _ _ _ _ _ _ _ _ D) as Hpo. rewrite Hop in Hpo. cbn [orb] in Hpo.
  pose proof (d_real _ _ _ _ _ _ _ _ D) as Hre.
  pose proof (d_own _ _ _ _ _ _ _ _ D id ltac:(cbn [existsb]; rewrite Nat.eqb_refl; reflexivity)) as Hown. rewrite Hon in Hown. cbn [orb] in Hown.
  destruct brk.
  - (* the block was left by break *)
    rewrite Hbk. exists NoMatch, (nobreak ml2), st2. split; [reflexivity|]. split; [reflexivity|].
    split; [apply Fresh_filter; exact Hf2|]. split; [auto|]. right. exists d. split.
    + eapply Delta_out; try eassumption.
      * apply others_nobreak. * apply realnb_nobreak. * apply has_break_nobreak.
      * intros j _. apply opass_nobreak. * intros j. apply ownnb_nobreak.
    + destruct g as [d' p|d'|d' p]; [destruct Hg as (_ & _ & Hx & _); discriminate Hx|destruct Hg as [-> _]; auto|destruct Hg as (_ & _ & Hx & _); discriminate Hx].
  - rewrite Hbk. rewrite (has_pass_split id ml2), Hpo.
    destruct (fpass id ml2) eqn:Efp; cbn [orb].
    + (* a pass of an enclosing block is pending: event T1 *)
      eexists _, _, _. split; [reflexivity|]. cbn [next_id]. split; [reflexivity|].
      split; [apply Fresh_filter; exact Hf2|].
      split; [intros _|left]; unfold unclean; cbn [ev_t1 ev_t2]; rewrite orb_true_r; reflexivity.
    + destruct pd.
      * (* the block ended with its own pass pending *)
        rewrite (acts_left_realnb ml2 Hbk).
        assert (Hm : (match acts_left (nopass ml2) with O => NoMatch | _ => Match end) = if negb (realnb ml2) then NoMatch else Match).
        { rewrite <- (acts_left_realnb ml2 Hbk). destruct (acts_left (nopass ml2)); reflexivity. }
        rewrite Hm. rewrite (n_own_nb id ml2 Hbk). rewrite Hre, Hown.
        eexists _, _, _. split; [reflexivity|]. cbn [next_id]. split; [reflexivity|].
        split; [apply Fresh_filter; exact Hf2|].
        split; [intros Hu; unfold unclean in *; cbn [ev_t1 ev_t2]; apply orb_prop in Hu; destruct Hu as [-> | ->]; rewrite ?orb_true_r; reflexivity|].
        destruct (realnb ml1) eqn:Er, (isnil d) eqn:En; cbn [negb orb Bool.eqb].
        -- left. unfold unclean. cbn [ev_t1 ev_t2]. rewrite !orb_true_r. reflexivity.
        -- right. exists d. split.
           ++ eapply Delta_out; try eassumption.
              ** apply others_nopass. ** apply realnb_nopass. ** rewrite has_break_nopass. exact Hbk.
              ** intros j Hj. rewrite opass_nopass. symmetry. apply (fpass_none id ml2 j Efp Hj). ** intros j. apply ownnb_nopass.
           ++ destruct g as [d' p|d'|d' p].
              ** destruct Hg as (-> & _). auto.
              ** destruct Hg as (_ & Hx). discriminate Hx.
              ** destruct Hg as (-> & -> & _). split; [reflexivity|rewrite En; reflexivity].
        -- right. exists d. split.
           ++ eapply Delta_out; try eassumption.
              ** apply others_nopass. ** apply realnb_nopass. ** rewrite has_break_nopass. exact Hbk.
              ** intros j Hj. rewrite opass_nopass. symmetry. apply (fpass_none id ml2 j Efp Hj). ** intros j. apply ownnb_nopass.
           ++ destruct g as [d' p|d'|d' p].
              ** destruct Hg as (-> & _). split; [reflexivity|]. intros Hx. rewrite Hx in En. discriminate En.
              ** destruct Hg as (_ & Hx). discriminate Hx.
              ** destruct Hg as (-> & -> & _). split; [reflexivity|rewrite En; reflexivity].
        -- right. exists d. split.
           ++ eapply Delta_out; try eassumption.
              ** apply others_nopass. ** apply realnb_nopass. ** rewrite has_break_nopass. exact Hbk.
              ** intros j Hj. rewrite opass_nopass. symmetry. apply (fpass_none id ml2 j Efp Hj). ** intros j. apply ownnb_nopass.
           ++ destruct g as [d' p|d'|d' p].
              ** destruct Hg as (-> & _). auto.
              ** destruct Hg as (_ & Hx). discriminate Hx.
              ** destruct Hg as (-> & -> & _). split; [reflexivity|rewrite En; reflexivity].
      * (* nothing pending *)
        exists v, ml2, st2. split; [reflexivity|]. split; [reflexivity|]. split; [exact Hf2|]. split; [auto|]. right. exists d. split.
        -- eapply Delta_out; try eassumption; auto.
        -- destruct g as [d' p|d'|d' p].
           ++ destruct Hg as (-> & _ & _ & ->). auto.
           ++ destruct Hg as (_ & Hx). discriminate Hx.
           ++ destruct Hg as (-> & -> & _ & ->). auto.
Qed.

(* ---- every evaluation keeps the block identifiers on the list below the next free identifier ---------------------------------- *)
Lemma Forall_lt_mono (a b : nat) l : a <= b -> Forall (fun j => j < a) l -> Forall (fun j => j < b) l.
Proof. intros Hab H. eapply Forall_impl; [|exact H]. intros j Hj. cbn beta in Hj. lia. Qed.

Lemma eval_fresh : forall e env cur ins ml st, cur < next_id st -> Forall (fun j => j < next_id st) ins -> Fresh (next_id st) ml ->
  Fresh (next_id (snd (eval e env cur ins ml st))) (snd (fst (eval e env cur ins ml st))).
Proof.
  fix IH 1. intros e env cur ins ml st Hc Hi Hf. destruct e as [[b|]|l r|l r|c|l r|a|a| |a]; cbn [eval].
  - set (id := next_id st) in *.
    pose proof (IH b env id (id :: ins) ml (mkev (S id) (ev_t1 st) (ev_t2 st) (ev_t3 st))) as IHb. cbn [next_id] in IHb.
    specialize (IHb ltac:(lia) ltac:(constructor; [lia|eapply Forall_lt_mono; [|exact Hi]; lia]) ltac:(eapply Fresh_mono; [|exact Hf]; lia)).
    destruct (eval b env id (id :: ins) ml _) as [[v ml'] st'] eqn:E. cbn [fst snd] in IHb.
    destruct (existsb (tk k_break) ml'); [cbn [fst snd]; apply Fresh_filter; exact IHb|].
    destruct (existsb (tk k_pass) ml'); cbn [fst snd next_id]; [apply Fresh_filter; exact IHb|exact IHb].
  - exact Hf.
  - pose proof (IH l env cur ins ml st Hc Hi Hf) as IHl. pose proof (events_mono l env cur ins ml st) as Hm.
    destruct (eval l env cur ins ml st) as [[[] ml'] st'] eqn:E; cbn [fst snd] in *; [|exact IHl].
    destruct Hm as (_ & _ & Hm). apply IH; [lia|eapply Forall_lt_mono; [|exact Hi]; lia|exact IHl].
  - pose proof (IH l env cur ins ml st Hc Hi Hf) as IHl. pose proof (events_mono l env cur ins ml st) as Hm.
    destruct (eval l env cur ins ml st) as [[[] ml'] st'] eqn:E; cbn [fst snd] in *; [exact IHl|].
    destruct Hm as (_ & _ & Hm). apply IH; [lia|eapply Forall_lt_mono; [|exact Hi]; lia|exact IHl].
  - pose proof (IH c env cur ins ml st Hc Hi Hf) as IHc. pose proof (events_mono c env cur ins ml st) as Hm.
    destruct (eval c env cur ins ml st) as [[[] ml'] st'] eqn:E; cbn [fst snd] in *; [|exact IHc].
    destruct Hm as (_ & _ & Hm). eapply Fresh_mono; [|exact Hf]. exact Hm.
  - assert (Hs : Fresh (next_id st) (ml ++ [mkt MSentinel cur ins])).
    { apply Fresh_app; [exact Hf|]. constructor; [split; assumption|constructor]. }
    pose proof (IH l env cur ins _ st Hc Hi Hs) as IHl. pose proof (events_mono l env cur ins (ml ++ [mkt MSentinel cur ins]) st) as Hm.
    destruct (eval l env cur ins (ml ++ [mkt MSentinel cur ins]) st) as [[[] ml'] st'] eqn:E; cbn [fst snd] in *; [|exact IHl].
    destruct Hm as (_ & _ & Hm). apply IH; [lia|eapply Forall_lt_mono; [|exact Hi]; lia|exact IHl].
  - destruct (env a); cbn [fst snd]; [|exact Hf]. apply Fresh_app; [exact Hf|]. constructor; [split; assumption|constructor].
  - cbn [fst snd]. exact Hf.
  - cbn [fst snd]. exact Hf.
  - cbn [fst snd]. apply Fresh_append; assumption.
Qed.

(* ---- the rules of a block, one after the other ---------------------------------------------------------------------------------- *)
Definition eval_rules (rs : list rule) (env : nat -> bool) (cur : nat) (ins : list nat) (ml : list tentry) (st : events)
  : ev * list tentry * events :=
  match rs with [] => (NoMatch, ml, st) | r :: t => eval (chain (compile_rule r) t) env cur ins ml st end.

Lemma eval_rules_cons r t env cur ins ml st :
  eval_rules (r :: t) env cur ins ml st =
  match eval (compile_rule r) env cur ins ml st with
  | (NoMatch, ml', st') => eval_rules t env cur ins ml' st'
  | x => x
  end.
Proof.
  cbn [eval_rules]. rewrite eval_chain. destruct (eval (compile_rule r) env cur ins ml st) as [[[] ml'] st']; [reflexivity|].
  destruct t; reflexivity.
Qed.

Lemma eval_rules_mono rs env cur ins ml st v ml' st' : eval_rules rs env cur ins ml st = (v, ml', st') ->
  next_id st <= next_id st' /\ (unclean st = true -> unclean st' = true).
Proof.
  intros E. destruct rs as [|r t]; cbn [eval_rules] in E.
  - inversion E; subst. split; [lia|auto].
  - pose proof (events_mono (chain (compile_rule r) t) env cur ins ml st) as Hm. rewrite E in Hm. cbn [snd] in Hm.
    destruct Hm as (H1 & H2 & H3). split; [exact H3|]. unfold unclean. intros Hu. apply orb_prop in Hu.
    destruct Hu as [Hu|Hu]; [rewrite (H1 Hu); reflexivity|rewrite (H2 Hu); apply orb_true_r].
Qed.

Lemma eval_rules_fresh rs env cur ins ml st v ml' st' : eval_rules rs env cur ins ml st = (v, ml', st') ->
  cur < next_id st -> Forall (fun j => j < next_id st) ins -> Fresh (next_id st) ml -> Fresh (next_id st') ml'.
Proof.
  intros E Hc Hi Hf. destruct rs as [|r t]; cbn [eval_rules] in E.
  - inversion E; subst. exact Hf.
  - pose proof (eval_fresh (chain (compile_rule r) t) env cur ins ml st Hc Hi Hf) as H. rewrite E in H. exact H.
Qed.

Lemma block_finish_mono id v ml st v' ml' st' : block_finish id v ml st = (v', ml', st') -> unclean st = true -> unclean st' = true.
Proof.
  unfold block_finish. intros E Hu. destruct (existsb (tk k_break) ml); [inversion E; subst; exact Hu|].
  destruct (existsb (tk k_pass) ml); inversion E; subst; [|exact Hu].
  unfold unclean in *. cbn [ev_t1 ev_t2]. apply orb_prop in Hu. destruct Hu as [-> | ->]; rewrite ?orb_true_r; reflexivity.
Qed.

Lemma eval_ematch l r env cur ins ml st :
  eval (EMatch l r) env cur ins ml st =
  match eval l env cur ins (ml ++ [mkt MSentinel cur ins]) st with
  | (Match, ml', st') => eval r env cur ins ml' st'
  | x => x
  end.
Proof. reflexivity. Qed.

(* ---- the evaluator against the documented semantics, for one block and everything nested in it -------------------------------- *)
Lemma rules_delta : forall n rs env cur ins ml st passed v ml' st', size_rules rs < n -> ok_rules rs = true ->
  existsb (Nat.eqb cur) ins = true -> cur < next_id st -> Forall (fun j => j < next_id st) ins -> Fresh (next_id st) ml ->
  eval_rules rs env cur ins ml st = (v, ml', st') ->
  unclean st' = true \/ (has k_break ml = false -> Rel cur ins (next_id st) ml passed (gsem n rs env passed) v ml').
Proof.
  induction n as [|n IH]; intros rs env cur ins ml st passed v ml' st' Hn Hok Hcur Hc Hi Hf E; [lia|].
  destruct rs as [|r t].
  { cbn [eval_rules] in E. inversion E; subst. right. intros _. cbn [gsem Rel]. split; [reflexivity|]. exists false.
    split; [rewrite orb_false_r; reflexivity|apply Delta_refl]. }
  unfold ok_rules in Hok. cbn [forallb] in Hok. apply andb_prop in Hok. destruct Hok as [Hr Ht].
  cbn [size_rules fold_right] in Hn. fold (size_rules t) in Hn.
  pose proof (rule_size_pos r) as Hrp.
  rewrite eval_rules_cons in E.
  (* what holds for the result of any rule *)
  pose proof (eval_fresh (compile_rule r) env cur ins ml st Hc Hi Hf) as F3.
  pose proof (events_mono (compile_rule r) env cur ins ml st) as M3.
  destruct (eval (compile_rule r) env cur ins ml st) as [[v3 ml3] st3] eqn:Er. cbn [fst snd] in F3, M3.
  destruct M3 as (M1 & M2 & N3).
  assert (U3 : unclean st = true -> unclean st3 = true).
  { unfold unclean. intros Hu. apply orb_prop in Hu. destruct Hu as [Hu|Hu]; [rewrite (M1 Hu); reflexivity|rewrite (M2 Hu); apply orb_true_r]. }
  (* continuing with the remaining rules *)
  assert (Cont : forall d1 p1,
            (unclean st3 = true \/ (has k_break ml = false -> Delta cur ins (next_id st) ml ml3 d1 p1 false)) ->
            eval_rules t env cur ins ml3 st3 = (v, ml', st') ->
            unclean st' = true \/
            (has k_break ml = false -> Rel cur ins (next_id st) ml passed (gmap d1 (gsem n t env (passed || p1))) v ml')).
  { intros d1 p1 HD Et.
    destruct (IH t env cur ins ml3 st3 (passed || p1) v ml' st' ltac:(lia) Ht Hcur ltac:(lia)
                 ltac:(eapply Forall_lt_mono; [|exact Hi]; lia) F3 Et) as [U|R]; [left; exact U|].
    destruct HD as [U1|D]; [left; exact (proj2 (eval_rules_mono _ _ _ _ _ _ _ _ _ Et) U1)|].
    right. intros Hb. specialize (D Hb). eapply Rel_gmap; [exact D|]. eapply Rel_weaken; [exact N3|]. apply R.
    rewrite (d_break _ _ _ _ _ _ _ _ D), Hb. reflexivity. }
  destruct r as [c acts|c sub].
  - (* a rule with actions *)
    assert (Hf2 : flat2_rule (RActs c acts) = true) by (cbn [ok_rule flat2_rule] in *; unfold isnil in Hr; exact Hr).
    cbn [ok_rule] in Hr. apply andb_prop in Hr. destruct Hr as [Hne Hpl].
    assert (Hacts : acts <> []) by (destruct acts; [discriminate Hne|discriminate]).
    destruct (eval_rule_form c acts env cur ins ml st Hf2) as (pats & Hpn & Ef). rewrite Ef in Er. clear Ef.
    pose proof (Delta_pats cur ins (next_id st) ml pats Hpn) as DP.
    pose proof (Delta_acts cur ins (next_id st) ((ml ++ [mkt MSentinel cur ins]) ++ pats) acts Hcur Hacts Hpl) as DA.
    pose proof (Delta_trans _ _ _ _ _ _ _ _ _ _ _ DP DA) as DT. cbn [app orb] in DT.
    cbn [gsem]. destruct (sem c env) eqn:Es.
    + destruct (marker acts) as [|[|[|m]]] eqn:Em; cbn [Nat.eqb] in Er, DT; inversion Er; subst v3 ml3 st3; clear Er.
      * inversion E; subst. right. intros _. cbn [Rel]. split; [reflexivity|]. exists false. split; [rewrite orb_false_r; reflexivity|exact DT].
      * pose proof (Cont (body_of acts) true (or_intror (fun _ => DT)) E) as X. rewrite orb_true_r in X. exact X.
      * inversion E; subst. right. intros _. cbn [Rel]. split; [reflexivity|]. exists false. exact DT.
      * exfalso. unfold marker in Em. destruct (rev acts) as [|[]]; discriminate Em.
    + inversion Er; subst v3 ml3 st3; clear Er.
      pose proof (Cont [] false (or_intror (fun _ => DP)) E) as [U|R]; [left; exact U|]. right. intros Hb. specialize (R Hb).
      rewrite gmap_nil, orb_false_r in R. exact R.
  - (* a nested block *)
    rewrite ok_rule_block in Hr. rewrite rule_size_block in Hn.
    rewrite compile_block, eval_ematch in Er.
    destruct (eval_cond_pos c env cur ins (ml ++ [mkt MSentinel cur ins]) st) as (pats & Hpn & Ec).
    pose proof (eval_fresh (compile_cond c) env cur ins (ml ++ [mkt MSentinel cur ins]) st Hc Hi
                  ltac:(apply Fresh_app; [exact Hf|constructor; [split; assumption|constructor]])) as F1.
    rewrite Ec in Er, F1. cbn [fst snd] in F1.
    pose proof (Delta_pats cur ins (next_id st) ml pats Hpn) as DP.
    set (ml1 := (ml ++ [mkt MSentinel cur ins]) ++ pats) in *.
    cbn [gsem]. destruct (sem c env) eqn:Es; cbn [ev_of] in Er.
    + destruct sub as [|s0 sr].
      * (* an empty block (the parser rejects it): no match *)
        cbn [compile_rules_from eval] in Er. inversion Er; subst v3 ml3 st3; clear Er.
        assert (gsem n [] env false = GFall [] false) as -> by (destruct n; reflexivity). cbn [andb].
        pose proof (Cont [] false (or_intror (fun _ => DP)) E) as [U|R]; [left; exact U|]. right. intros Hb. specialize (R Hb).
        rewrite orb_false_r in R. exact R.
      * cbn [compile_rules_from] in Er. rewrite compile_rules_chain, eval_block in Er.
        set (id := next_id st) in *.
        change (eval (chain (compile_rule s0) sr) env id (id :: ins) ml1 (mkev (S id) (ev_t1 st) (ev_t2 st) (ev_t3 st)))
          with (eval_rules (s0 :: sr) env id (id :: ins) ml1 (mkev (S id) (ev_t1 st) (ev_t2 st) (ev_t3 st))) in Er.
        destruct (eval_rules (s0 :: sr) env id (id :: ins) ml1 (mkev (S id) (ev_t1 st) (ev_t2 st) (ev_t3 st))) as [[v2 ml2] st2] eqn:E2.
        assert (Hi' : Forall (fun j => j < S id) (id :: ins)) by (constructor; [lia|eapply Forall_lt_mono; [|exact Hi]; lia]).
        assert (Hf' : Fresh (S id) ml1) by (eapply Fresh_mono; [|exact F1]; lia).
        pose proof (IH (s0 :: sr) env id (id :: ins) ml1 (mkev (S id) (ev_t1 st) (ev_t2 st) (ev_t3 st)) false v2 ml2 st2 ltac:(lia) Hr
                      ltac:(cbn [existsb]; rewrite Nat.eqb_refl; reflexivity) ltac:(cbn [next_id]; lia) Hi' Hf' E2) as R2.
        cbn [next_id] in R2.
        pose proof (eval_rules_fresh _ _ _ _ _ _ _ _ _ E2 ltac:(cbn [next_id]; lia) Hi' Hf') as F2.
        destruct R2 as [U2|R2].
        { (* an event occurred inside *)
          pose proof (block_finish_mono _ _ _ _ _ _ _ Er U2) as Hu3.
          destruct v3; [inversion E; subst; left; exact Hu3|].
          left. exact (proj2 (eval_rules_mono _ _ _ _ _ _ _ _ _ E) Hu3). }
        destruct (has k_break ml) eqn:Hb; [right; intros Hx; discriminate Hx|].
        assert (Hb1 : has k_break ml1 = false) by (rewrite (d_break _ _ _ _ _ _ _ _ DP), Hb; reflexivity).
        specialize (R2 Hb1).
        destruct (block_finish_facts id cur ins id ml1 v2 ml2 st2 (gsem n (s0 :: sr) env false) F1 Hb1 Hc (le_n _) F2 R2)
          as (v3' & ml3' & st3' & E3 & _ & _ & _ & HR).
        rewrite Er in E3. inversion E3; subst v3' ml3' st3'; clear E3.
        destruct HR as [U|(d & D & Hg)].
        { destruct v3; [inversion E; subst; left; exact U|]. left. exact (proj2 (eval_rules_mono _ _ _ _ _ _ _ _ _ E) U). }
        pose proof (Delta_trans _ _ _ _ _ _ _ _ _ _ _ DP D) as DT. cbn [app orb] in DT.
        assert (Matched : v3 = Match -> unclean st' = true \/ (false = false -> Rel cur ins id ml passed (GMatched d passed) v ml')).
        { intros ->. inversion E; subst. right. intros _. cbn [Rel]. split; [reflexivity|]. exists false.
          split; [rewrite orb_false_r; reflexivity|exact DT]. }
        assert (Goes : v3 = NoMatch -> unclean st' = true \/ (false = false -> Rel cur ins id ml passed (gmap d (gsem n t env passed)) v ml')).
        { intros ->. pose proof (Cont d false (or_intror (fun _ => DT)) E) as [U|R]; [left; exact U|]. right. intros _.
          specialize (R eq_refl). rewrite orb_false_r in R. exact R. }
        destruct (gsem n (s0 :: sr) env false) as [d' p|d'|d' p] eqn:Eg.
        -- destruct Hg as (-> & Hv). apply Matched. apply Hv. exact (gsem_matched_nonnil _ _ _ _ _ _ Hr Eg).
        -- destruct Hg as (-> & Hv). apply Goes. exact Hv.
        -- destruct Hg as (-> & Hv). destruct (p && negb (isnil d')); [apply Matched|apply Goes]; exact Hv.
    + inversion Er; subst v3 ml3 st3; clear Er.
      pose proof (Cont [] false (or_intror (fun _ => DP)) E) as [U|R]; [left; exact U|]. right. intros Hb. specialize (R Hb).
      rewrite gmap_nil, orb_false_r in R. exact R.
Qed.

(* ---- the theorem: any nesting, any conditions, pass / break as the last action of a rule ---------------------------------------- *)
(* neither of the two pass events (T1: a pass of an enclosing block pending at the end of a nested block; T2: the
   count used there differs from the count of the block's own actions) occurred during the evaluation *)
Definition no_pass_events (rules : list rule) (env : nat -> bool) : bool :=
  let '(_, _, st) := eval (compile rules) env 0 [] [] ev0 in negb (unclean st).

Lemma clean_no_pass_events rules env : clean rules env = true -> no_pass_events rules env = true.
Proof.
  unfold clean, no_pass_events, unclean. destruct (eval (compile rules) env 0 [] [] ev0) as [[v ml] st].
  destruct (ev_t1 st), (ev_t2 st); cbn; intros H; try discriminate H; reflexivity.
Qed.

Theorem general_rules rs env : ok_rules rs = true -> no_pass_events rs env = true ->
  option_map others_e (run_rules rs env) = option_map (filter other_act) (spec_run rs env).
Proof.
  intros Hok Hcl. unfold spec_run. rewrite rules_size_eq.
  pose proof (spec_gsem (S (size_rules rs)) rs env [] false ltac:(lia) Hok) as Hs.
  unfold run_rules, no_pass_events, compile in *.
  destruct rs as [|s0 sr].
  { cbn. reflexivity. }
  cbn [compile_rules_from] in *. rewrite compile_rules_chain in *. rewrite eval_block in *. cbn [next_id ev0 ev_t1 ev_t2 ev_t3] in *.
  change (eval (chain (compile_rule s0) sr) env 1 [1] [] (mkev 2 false false false))
    with (eval_rules (s0 :: sr) env 1 [1] [] (mkev 2 false false false)) in *.
  destruct (eval_rules (s0 :: sr) env 1 [1] [] (mkev 2 false false false)) as [[v2 ml2] st2] eqn:E2.
  assert (Hi : Forall (fun j => j < 2) [1]) by (repeat constructor).
  assert (Hf : Fresh 2 []) by constructor.
  pose proof (rules_delta (S (size_rules (s0 :: sr))) (s0 :: sr) env 1 [1] [] (mkev 2 false false false) false v2 ml2 st2
                ltac:(lia) Hok eq_refl ltac:(cbn [next_id]; lia) Hi Hf E2) as R.
  pose proof (eval_rules_fresh _ _ _ _ _ _ _ _ _ E2 ltac:(cbn [next_id]; lia) Hi Hf) as F2.
  destruct (block_finish 1 v2 ml2 st2) as [[v3 ml3] st3] eqn:E3.
  assert (Hu3 : unclean st3 = false) by (destruct (unclean st3); [discriminate Hcl|reflexivity]).
  destruct R as [U|R]; [rewrite (block_finish_mono _ _ _ _ _ _ _ E3 U) in Hu3; discriminate Hu3|].
  specialize (R eq_refl). cbn [next_id] in R.
  destruct (block_finish_facts 1 0 [] 0 [] v2 ml2 st2 _ ltac:(constructor) eq_refl ltac:(lia) ltac:(lia) F2 R)
    as (v3' & ml3' & st3' & E3' & _ & _ & _ & HR).
  rewrite E3 in E3'. inversion E3'; subst v3' ml3' st3'; clear E3'.
  destruct HR as [U|(d & D & Hg)]; [rewrite U in Hu3; discriminate Hu3|].
  pose proof (d_others _ _ _ _ _ _ _ _ D) as Ho. cbn [others flat_map app] in Ho.
  assert (Hm : option_map others_e (Some (filter is_action (map t_e ml3))) = Some (filter other_act d)).
  { cbn [option_map]. rewrite others_e_actions, Ho. reflexivity. }
  destruct (gsem (S (size_rules (s0 :: sr))) (s0 :: sr) env false) as [d' p|d'|d' p] eqn:Eg; rewrite Hs; cbn [app].
  - destruct Hg as (-> & Hv). rewrite (Hv (gsem_matched_nonnil _ _ _ _ _ _ Hok Eg)). exact Hm.
  - destruct Hg as (-> & ->). reflexivity.
  - destruct Hg as (-> & ->). destruct p; cbn [andb].
    + destruct d' as [|a r]; cbn [isnil negb]; [reflexivity|exact Hm].
    + reflexivity.
Qed.

Corollary general_rules_clean rs env : ok_rules rs = true -> clean rs env = true ->
  option_map others_e (run_rules rs env) = option_map (filter other_act) (spec_run rs env).
Proof. intros Hok Hcl. apply general_rules; [exact Hok|apply clean_no_pass_events; exact Hcl]. Qed.
