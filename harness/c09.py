"""C09 - maildir names, flags, subdirectories and timestamps follow the convention.
Tie: the mdsort binary under the interposer with pinned clock / pid / host name / random counter,
one message per run, so that the generated name is fully predictable; the extracted model computes
the flag suffix (msgflags), the candidate names and the retry loop (genname_loop) for the same
inputs.  Monitor: the convention itself, evaluated on the final tree (sorted de-duplicated flags,
S rule, location, pre-existing files untouched, mtime kept)."""
import os
import common, mdrun
from common import hexs, unhexs

SHIM = os.path.join(common.VERIF, 'shim', 'libvfio.so')
TS, PID, HOST = 1700000000, 4242, 'pinned'


def ref_flags(name, extra, src, dst):
    """The convention: letters of the ':2,' suffix + added letters, S per transition, sorted, unique."""
    i = name.rfind(':')
    letters = ''
    if i >= 0:
        suf = name[i + 1:]
        if not suf.startswith('2,') or not suf[2:].isalpha() and suf[2:] != '':
            return None
        if not all(c.isascii() and c.isalpha() for c in suf[2:]):
            return None
        letters = suf[2:]
    if not all(c.isascii() and c.isalpha() for c in extra):
        return None
    st = set(letters) | set(extra)
    if src == 'new' and dst == 'cur':
        st.add('S')
    elif src == 'cur' and dst == 'new':
        st.discard('S')
    return ':2,' + ''.join(sorted(st))


NAMES = ['1.1_1.h', '1.1_1.h:2,', '1.1_1.h:2,S', '1.1_1.h:2,RS', '1.1_1.h:2,SR', '1.1_1.h:2,zZaA', '1.1_1.h:2,SSTT', '1.1_1.h:2,abcxyzABCXYZ',
         '1.1_1.h:2,FRS', '1.1_1.h:1,S', '1.1_1.h:2', '1.1_1.h:2,S1', '1.1_1.h:2,S:2,T', 'a:b:2,T', '1.1_1.h:2,-', 'plain',
         '1.1_1.h:2,' + ''.join(chr(c) for c in list(range(65, 91)) + list(range(97, 123)))]

MDNAMES = ['dst', 'd st', 'd%st', 'dé', 'we:ird', 'x:2,y']


def run_case(ck, stats, rng, scen):
    """scen: dict(name, srcsub, action, mdname, prepop)"""
    sb = mdrun.Sandbox()
    # (a source maildir whose name contains ':' or a backslash followed by a digit: its path is used as it is - the path of a flag /
    # flags action is the message's own maildir, never a template)
    srcname = rng.choice(['src', 's:rc', 'box\\1x', 'b\\0.1', 'new/inbox', 'top/new/cur/box']) if scen.get('colon_src') else 'src'
    if scen.get('src_name'):
        srcname = scen['src_name']
    src = sb.maildir(srcname)
    dstroot = sb.maildir(scen['mdname'])
    name, srcsub = scen['name'], scen['srcsub']
    body = b'To: a\nSubject: s\n\nbody %d\n' % rng.randrange(10 ** 6)
    mt = rng.randrange(10 ** 9, 17 * 10 ** 8)
    sb.add(src, srcsub, body, name=name, mtime=mt)
    act = scen['action']
    extra = ''
    if act == 'move':
        rule, dstmd, dstsub = 'move "%s"' % dstroot, dstroot, srcsub
    elif act == 'flag_new':
        rule, dstmd, dstsub = 'flag new', src, 'new'
    elif act == 'flag_cur':
        rule, dstmd, dstsub = 'flag !new', src, 'cur'
    elif act == 'flags':
        extra = scen['extra']
        rule, dstmd, dstsub = 'flags "%s"' % extra, src, srcsub
    elif act == 'move_flag':
        rule, dstmd, dstsub = 'move "%s" flag !new' % dstroot, dstroot, 'cur'
    elif act == 'flag_move':
        rule, dstmd, dstsub = 'flag new move "%s"' % dstroot, dstroot, 'new'
    elif act == 'flags_move':
        extra = scen['extra']
        rule, dstmd, dstsub = 'flags "%s" move "%s"' % (extra, dstroot), dstroot, srcsub
    else:
        raise ValueError(act)
    cond = 'header "To" /a/'          # the pre-existing files carry no header, so only the message matches
    if srcsub == 'new':
        # a message flagged from new to cur inside one maildir is walked a second time in cur (finding F-20,
        # C03); the condition keeps this check to one evaluation per message
        cond = 'new and ' + cond
    conf = sb.write_conf(('maildir "%s" {\n match %s %s\n}\n' % (src, cond, rule)).encode())
    rnd = rng.randrange(0, 1000)
    count0 = rnd % 128
    # model: flags of the final rename, candidate names
    mreq = 'msgflags %s %s %s %s' % (hexs(name.encode()), 'new' if (srcsub if act not in ('flags_move',) else srcsub) == 'new' else 'cur',
                                     dstsub, hexs(extra.encode()))
    mflags = common.run_lines(common.model_exe(), [mreq])[0][0]
    want_flags = ref_flags(name, extra, srcsub, dstsub)
    # pre-populate the destination with the next candidates
    existing = []
    if mflags.startswith('F') and mflags != 'FE':
        fl = unhexs(mflags[1:]).decode()
        for j in range(scen['prepop']):
            existing.append('%d.%d_%d.%s%s' % (TS, PID, count0 + 1 + j, HOST, fl))
        for n in existing:
            # empty (placeholder-like) and non-empty pre-existing files
            sb.add(dstmd, dstsub, b'' if rng.randrange(2) else b'pre-existing ' + n.encode(), name=n, mtime=1234567890)
    before = sb.snapshot(dstmd, with_mtime=True)
    env = {'VFIO_TIME': str(TS), 'VFIO_PID': str(PID), 'VFIO_HOST': HOST, 'VFIO_RANDOM': str(rnd)}
    if scen.get('xdev'):
        env['VFIO_XDEV'] = '1'
    rc, out, err = sb.run([], conf=conf, env=env, preload=SHIM)
    stats['evals'] += 1
    after = sb.snapshot(dstmd, with_mtime=True)
    srcafter = sb.snapshot(src, with_mtime=True)
    desc = 'name %r in %s, rule %r, %d pre-existing candidate(s), random %d%s' % (name, srcsub, rule, scen['prepop'], rnd, ', rename fails with EXDEV' if scen.get('xdev') else '')
    replay = {'scenario': scen, 'random': rnd, 'config': open(conf).read(), 'exit': rc, 'stderr': err[-300:].decode(errors='replace')}
    # ---- monitor: the convention on the final tree ----------------------------------------------
    for k, v in before.items():
        if k[1] in existing and after.get(k) != v:
            ck.violation('a pre-existing file was replaced or changed: %r (%s)' % (k, desc), replay)
            sb.cleanup(); return
    if want_flags is None:
        stats['invalid'] += 1
        if rc == 0:
            ck.violation('invalid flag suffix / flags accepted: %s' % desc, replay)
        elif (srcsub, name) not in srcafter:
            ck.violation('invalid flags but the message is gone: %s' % desc, replay)
        sb.cleanup(); return
    stats['nontrivial'].add((name, srcsub, act, scen['prepop'], extra))
    newfiles = {k: v for k, v in after.items() if k not in before or (dstmd == src and k == (srcsub, name))}
    found = [(k, v) for k, v in after.items() if v[0] == body]
    if rc != 0 or len(found) != 1:
        ck.violation('exit %d, %d copies of the message in the destination (%s; stderr %r)' % (rc, len(found), desc, err[-200:]), replay)
        sb.cleanup(); return
    (fsub, fname), (_, fmt_) = found[0]
    if dstmd != src and srcafter:
        ck.violation('message still present in the source after a move (%s)' % desc, replay)
    if fsub != dstsub:
        ck.violation('message ended in %s instead of %s (%s)' % (fsub, dstsub, desc), replay)
    got_flags = fname[fname.rfind(':'):] if ':' in fname else ''
    if got_flags != want_flags:
        ck.violation('flags %r instead of %r (%s)' % (got_flags, want_flags, desc), replay)
    if fname in existing:
        ck.violation('the message replaced an existing name %r (%s)' % (fname, desc), replay)
    if fmt_ // 10 ** 9 != mt:
        ck.violation('modification time %d instead of %d (%s)' % (fmt_ // 10 ** 9, mt, desc), replay)
    # ---- correspondence: the exact name --------------------------------------------------------------
    greq = 'genname %d %d %d %s %s %s' % (TS, PID, count0, hexs(HOST.encode()), mflags[1:] if mflags.startswith('F') else '-',
                                         ','.join(hexs(n.encode()) for n in existing) or '-')
    g = common.run_lines(common.model_exe(), [greq])[0][0]
    if g.startswith('S'):
        mname = unhexs(g.split()[0][1:]).decode()
        if mname != fname and not ck.violations:
            ck.violation('correspondence broken: model predicts the name %r, mdsort chose %r (%s) although the convention holds' % (mname, fname, desc),
                         dict(replay, obligation='correspondence NamesDefs.genname_loop/msgflags'), found_input=False)
    sb.cleanup()


def many_messages_stage(ck, rng, stats):
    """what holds for one message holds for every message of a run: an invalid flags string is an error for each of them (none is
    renamed), and a destination whose sub-directory disappears during the run is an error from then on (nothing is delivered
    into the renamed directory)"""
    from iorun import parse_trace
    # (a) invalid characters in flags "..."
    for bad in ('A1b', '0', 'T:', 'a,B', 'D-', 'S T'):
        sb = mdrun.Sandbox()
        src = sb.maildir('src')
        names = []
        for i in range(3):
            sub = 'cur' if i % 2 else 'new'
            names.append((sub, sb.add(src, sub, b'To: a\nSubject: s%d\n\nbody\n' % i, name='1500000000.%d_1.h' % i + (':2,R' if sub == 'cur' else ''))))
        conf = sb.write_conf(('maildir "%s" {\n match all flags "%s"\n}\n' % (src, bad)).encode())
        rc, out, err = sb.run([], conf=conf)
        stats['evals'] += 1; stats['many'] = stats.get('many', 0) + 1
        after = sb.snapshot(src)
        if rc == 0 or sorted(after) != sorted(names):
            ck.violation('flags %r (invalid) on three messages: exit %d, the maildir now holds %r' % (bad, rc, sorted(after)),
                         {'stage': 'many', 'flags': bad, 'exit': rc, 'stderr': err[-300:].decode(errors='replace')})
        sb.cleanup()
    # (b) the new/ of the destination is renamed away after the first message was delivered
    for replace_with_file in (False, True):
        sb = mdrun.Sandbox()
        src = sb.maildir('src'); dst = sb.maildir('dst')
        for i in range(3):
            sb.add(src, 'new', b'To: a\nSubject: v%d\n\nbody\n' % i, name='1500000000.%d_1.h' % i)
        conf = sb.write_conf(('maildir "%s" {\n match all move "%s"\n}\n' % (src, dst)).encode())
        log = os.path.join(sb.root, 'trace.log')
        rc0, out0, err0 = sb.run([], conf=conf, env={'VFIO_LOG': log, 'VFIO_ROOT': sb.root}, preload=SHIM)
        calls = parse_trace([l.rstrip('\n') for l in open(log, errors='replace')])
        k = next((c['k'] for c in calls if c['call'] == 'closedir' and c['args'].endswith('/dst/new')), None)
        sb.cleanup()
        if k is None:
            continue
        sb = mdrun.Sandbox()
        src = sb.maildir('src'); dst = sb.maildir('dst')
        for i in range(3):
            sb.add(src, 'new', b'To: a\nSubject: v%d\n\nbody\n' % i, name='1500000000.%d_1.h' % i)
        conf = sb.write_conf(('maildir "%s" {\n match all move "%s"\n}\n' % (src, dst)).encode())
        script = os.path.join(sb.root, 'swap.sh')
        with open(script, 'w') as f:
            f.write('#!/bin/sh\nmv %s/new %s/gone\n%s' % (dst, dst, ': > %s/new\n' % dst if replace_with_file else ''))
        os.chmod(script, 0o755)
        rc, out, err = sb.run([], conf=conf, env={'VFIO_PLAN': '%d:run=%s' % (k + 1, script), 'VFIO_ROOT': sb.root}, preload=SHIM)
        stats['evals'] += 1; stats['many'] = stats.get('many', 0) + 1
        gone = [n for n in os.listdir(os.path.join(dst, 'gone'))] if os.path.isdir(os.path.join(dst, 'gone')) else []
        left = sb.snapshot(src)
        if rc == 0 or len(gone) != 1 or len(left) != 2:
            ck.violation('destination new/ %s after the first of three messages: exit %d, %d message(s) in the renamed directory, %d left in the source'
                         % ('renamed away and replaced by a file' if replace_with_file else 'renamed away', rc, len(gone), len(left)),
                         {'stage': 'many', 'swap': replace_with_file, 'exit': rc, 'stderr': err[-300:].decode(errors='replace')})
        sb.cleanup()


def several_maildirs_stage(ck, rng, stats):
    """flag and flags keep every message in ITS OWN maildir, also when one run visits several maildirs that contain one another or share
    a prefix (box, box/sub, box/sub/deep, box2), in any order"""
    orders = [['box', 'box/sub', 'box/sub/deep', 'box2'], ['box/sub', 'box', 'box2', 'box/sub/deep'], ['box2', 'box/sub/deep', 'box/sub', 'box']]
    for order in orders:
        for rule, sub0, sub1, fl in (('flag !new', 'new', 'cur', ':2,S'), ('flag new', 'cur', 'new', ':2,'), ('flags "F"', 'new', 'new', ':2,F')):
            sb = mdrun.Sandbox()
            for md in order:
                p = sb.maildir(md)
                for i in range(2):
                    sb.add(p, sub0, b'To: a\nX-Where: %s\n\nbody %d\n' % (md.encode(), i), name='1500000000.%d_1.h%s' % (i, ':2,S' if sub0 == 'cur' else ''))
            two_blocks = rng.randrange(2)
            guard = 'new and ' if sub0 == 'new' else ''        # (cur/ is walked after new/: a message flagged into new/ is not met again)
            body = '\tmatch %sheader "To" /a/ %s\n' % (guard, rule)
            if two_blocks:
                conf = ''.join('maildir "%s/%s" {\n%s}\n' % (sb.root, md, body) for md in order)
            else:
                conf = 'maildir { %s } {\n%s}\n' % (' '.join('"%s/%s"' % (sb.root, md) for md in order), body)
            cp = sb.write_conf(conf.encode())
            rc, out, err = sb.run([], conf=cp)
            stats['evals'] += 1
            bad = None
            for md in order:
                snap = sb.snapshot(os.path.join(sb.root, md))
                mine = [(sub, n) for (sub, n), b in snap.items() if b'X-Where: %s\n' % md.encode() in b]
                foreign = [(sub, n) for (sub, n), b in snap.items() if b'X-Where: %s\n' % md.encode() not in b]
                if len(mine) != 2 or foreign or any(sub != sub1 for sub, n in mine):
                    bad = 'maildir %s holds %r of its own and %r foreign message(s) after "%s" (expected its own two in %s)' % (md, mine, foreign, rule, sub1)
                    break
            if bad or rc != 0:
                ck.violation('maildirs %r (%s), rule "%s": %s (exit %d)' % (order, 'one block each' if two_blocks else 'one block', rule, bad or 'non-zero exit', rc),
                             {'stage': 'several-maildirs', 'config': conf, 'exit': rc, 'stderr': err[-300:].decode(errors='replace')})
            else:
                stats['nontrivial'].add(('several', tuple(order), rule))
            sb.cleanup()


def run(ck):
    rng = ck.rng
    stats = dict(evals=0, nontrivial=set(), invalid=0)
    many_messages_stage(ck, rng, stats)
    several_maildirs_stage(ck, rng, stats)
    scens = []
    acts = ['move', 'flag_new', 'flag_cur', 'flags', 'move_flag', 'flag_move', 'flags_move']
    n = 160 if ck.tier == 'quick' else 3000
    for i in range(n):
        act = rng.choice(acts)
        scens.append(dict(name=rng.choice(NAMES), srcsub=rng.choice(['new', 'cur']), action=act,
                          mdname=rng.choice(MDNAMES), prepop=rng.choice([0, 0, 1, 2, 3, 5]),
                          extra=rng.choice(['T', 'SR', 'zA', 'TT', 'S', 'F1', '']) if 'flags' in act else '',
                          colon_src=(rng.randrange(4) == 0), xdev=(rng.randrange(4) == 0)))
    # every name shape x both subdirs at least once with a plain move
    for nm in NAMES:
        for sub in ('new', 'cur'):
            scens.append(dict(name=nm, srcsub=sub, action='move_flag' if sub == 'new' else 'flag_move', mdname='dst', prepop=1, extra='', colon_src=False))
    # long runs of colliding candidate names: the generator keeps trying until a free name is found
    for act, sub, npre in (('move', 'new', 130), ('flag_cur', 'new', 200), ('move', 'cur', 300), ('flags_move', 'cur', 129), ('move_flag', 'new', 128)):
        scens.append(dict(name=rng.choice(NAMES[:6]), srcsub=sub, action=act, mdname='dst', prepop=npre, extra='T' if 'flags' in act else '',
                          colon_src=False, xdev=False))
    # source and destination on different file systems (rename fails with EXDEV: copy, restore the mtime, unlink)
    for act in acts:
        for sub in ('new', 'cur'):
            scens.append(dict(name=rng.choice(NAMES[:6]), srcsub=sub, action=act, mdname='dst', prepop=rng.choice([0, 2]), extra='T' if 'flags' in act else '',
                              colon_src=False, xdev=True))
    # one run per action kind from a maildir whose name looks like a back-reference
    for act in acts:
        scens.append(dict(name=rng.choice(NAMES[:6]), srcsub=rng.choice(['new', 'cur']), action=act, mdname='dst', prepop=0, extra='T' if 'flags' in act else '',
                          colon_src=True, xdev=False))
    # maildirs below directories that are themselves called new / cur: the sub-directory of a message is the last but one component of its path
    for act in acts:
        for sub in ('new', 'cur'):
            scens.append(dict(name=rng.choice(NAMES[:6]), srcsub=sub, action=act, mdname='dst', prepop=0, extra='T' if 'flags' in act else '',
                              colon_src=False, xdev=False, src_name=rng.choice(['new/inbox', 'top/new/cur/box', 'cur/new'])))
    for sc in scens:
        if sc['action'] in ('flags', 'flags_move') and sc['extra'] == '':
            sc['extra'] = 'T'
        run_case(ck, stats, rng, sc)
        if len(ck.violations) > 6:
            break
    # generated names at the NAME_MAX boundary (host name length pinned): a name that does not fit is refused, never cut (the window of C18)
    import c18
    fixed = len('1700000000.4242_6.') + len(':2,')
    st18 = dict(binary=0)
    for hl in range(c18.NAME_MAX - fixed - 2, c18.NAME_MAX - fixed + 3):
        c18.scenario_hostname(ck, st18, hl)
    stats['evals'] += st18['binary']
    ck.coverage.update({
        'evaluations': stats['evals'],
        'distinct_nontrivial': len(stats['nontrivial']),
        'rule': 'nine runs over four maildirs that contain one another or share a prefix (flag / flags must keep each message in its own maildir); then one message per run; file name from 17 suffix shapes (absent, empty, sorted/unsorted/duplicate letters, all 52 letters, invalid: wrong version, '
                'missing comma, digit, dash, second suffix), both subdirectories, action from {move, flag new, flag !new, flags, move+flag, flag+move, flags+move}, '
                'destination maildir names with space, %, UTF-8 and ":", source maildir names with ":", with a backslash followed by a digit, and below directories called new / cur, 0-5 pre-existing candidate names and five runs with 128-300 of them in a row; six runs of three messages under an invalid flags string and two in which the new/ of the destination is renamed away after the first delivery; a quarter of the runs and one per action and subdirectory with the rename failing with EXDEV (copy path); clock/pid/host/random pinned; five host-name lengths that put the generated name at NAME_MAX-2 .. NAME_MAX+2; '
                'non-trivial = valid flags (the message must be renamed); distinct = distinct (name, subdir, action, prepopulation, letters)',
        'samples': scens[:4],
        'traces_validated_against_impl': stats['evals'],
        'invalid_suffix_cases': stats['invalid'],
    })
    ck.assumptions += ['clock, pid, host name and arc4random pinned through the LD_PRELOAD interposer', 'C locale ctype for flag letters']


def replay(ck, rp):
    stats = dict(evals=0, nontrivial=set(), invalid=0)
    import random
    run_case(ck, stats, random.Random(rp.get('random', 1)), rp['scenario'])
    return 1 if ck.violations else 0
