/* extern.h driver (util.c):
 *   pathjoin <bufsiz> <dirhex> <filehex>       -> S<hex> | N
 *   pathslice <bufsiz> <beg> <end> <pathhex>   -> S<hex> | N
 * Buffers are exact-size heap blocks so that a write past bufsiz is visible to ASan. */
#include "config.h"
#include "extern.h"
#include "hex.h"

int main(void) {
	char *line = NULL;
	size_t cap = 0;
	while (getline(&line, &cap, stdin) > 0) {
		char *tok[8];
		int n = split(line, tok, 8);
		if (n >= 4 && strcmp(tok[0], "pathjoin") == 0) {
			size_t siz = (size_t)atol(tok[1]);
			char *dir = unhex(tok[2], NULL), *file = unhex(tok[3], NULL);
			char *buf = malloc(siz ? siz : 1);
			char *r = pathjoin(buf, siz, dir, file);
			if (r == NULL) puts("N"); else { putchar('S'); puthexstr(r); putchar('\n'); }
			free(buf); free(dir); free(file);
		} else if (n >= 5 && strcmp(tok[0], "pathslice") == 0) {
			size_t siz = (size_t)atol(tok[1]);
			int beg = atoi(tok[2]), end = atoi(tok[3]);
			char *path = unhex(tok[4], NULL);
			char *buf = malloc(siz ? siz : 1);
			char *r = pathslice(path, buf, siz, beg, end);
			if (r == NULL) puts("N"); else { putchar('S'); puthexstr(r); putchar('\n'); }
			free(buf); free(path);
		} else puts("ERR");
	}
	free(line);
	return 0;
}
